#!/bin/sh
# Build the Lean library (models, proofs) and the compiled model driver from the sources in lean/. Offline.
set -e
here="$(cd "$(dirname "$0")" && pwd)"
cd "$here/lean"
lake build
test -x .lake/build/bin/driver
echo "setup ok"
