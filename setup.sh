#!/bin/sh
# Build the Lean library (models, proofs) and the compiled model drivers from the sources in lean/. Offline.
set -e
here="$(cd "$(dirname "$0")" && pwd)"
cd "$here/lean"
lake build
for d in $(sed -n 's/^name = "\(drv_[a-z0-9_]*\)"$/\1/p' lakefile.toml); do
  test -x ".lake/build/bin/$d" || { echo "setup: driver $d was not built" >&2; exit 1; }
done
echo "setup ok"
