#!/bin/sh
# Build the Lean library (models, proofs) and the compiled model drivers from the sources in lean/. Offline.
set -e
here="$(cd "$(dirname "$0")" && pwd)"
PY=/venv/bin/python
[ -x "$PY" ] || PY=python3
# Regenerate lean/PyodaGen/*.lean (Lean definitions translated from the Python source of ${PYODA_REPO:-/repo},
# tools/py2lean.py) for every property with a target list, so that the agreement theorems
# PyodaProofs/GenAgree*.lean are built against the current source, not against the committed snapshot.
"$PY" "$here/tools/py2lean.py" || { echo "setup: py2lean could not translate the current source (see above); the committed snapshot lean/PyodaGen is kept, ./check reports the broken tie" >&2; }
cd "$here/lean"
lake build
for d in $(sed -n 's/^name = "\(drv_[a-z0-9_]*\)"$/\1/p' lakefile.toml); do
  test -x ".lake/build/bin/$d" || { echo "setup: driver $d was not built" >&2; exit 1; }
done
echo "setup ok"
