"""C08 — parsing never raises; pattern creation fails only with InvalidPatternError."""
from __future__ import annotations

import random

import c07
from c07 import PCLS, _P, _T, analyse, builtin, create, fail, gen_custom, gen_value, mk, representable, unmk, valid_value
from common import hexs

META = {
    "property": "C08",
    "proof_modules": ["PyodaProofs.C08", "PyodaProofs.C08Create", "PyodaProofs.C08Stepped", "PyodaProofs.C08StepsWF", "PyodaProofs.C08DateTime", "PyodaProofs.C08DateTimeWF", "PyodaProofs.C08Segmented", "PyodaProofs.C08Calendar", "PyodaProofs.C08CalendarSeg", "PyodaProofs.C08CalendarTop", "PyodaProofs.C08Instant", "PyodaProofs.GenAgreeC07N"],
    "drivers": ["drv_text"],
    "theorems": [
        "Pyoda.C08.parseDigits_total",
        "Pyoda.C08.parseFraction_total",
        "Pyoda.C08.parseInt64_total",
        "Pyoda.C08.parseField_range",
        "Pyoda.C08.iso_parse_total",
        "Pyoda.C08.iso_date_success_valid",
        "Pyoda.C08.iso_time_success_valid",
        "Pyoda.C08.iso_datetime_success_valid",
        "Pyoda.C08.iso_offset_success_valid",
        "Pyoda.C08.guard_needed_offset",
        "Pyoda.C08.guard_needed_rollover",
        "Pyoda.C08.offset_19_is_failure",
        "Pyoda.C08.rollover_at_max_is_failure",
        "Pyoda.C08.year_below_minimum_is_failure",
        "Pyoda.C08.trailing_nul_is_failure",
        "Pyoda.C08.repeatCount_onlyInvalid",
        "Pyoda.C08.quotedString_onlyInvalid",
        "Pyoda.C08.embeddedPattern_onlyInvalid",
        "Pyoda.C08.handleChar_onlyInvalid",
        "Pyoda.C08.compileLoop_onlyInvalid",
        "Pyoda.C08.compileTime_total",
        "Pyoda.C08.compileDate_total",
        "Pyoda.C08.compileOffset_total",
        "Pyoda.C08.compile_total",
        "Pyoda.C08.invariantCulture_offsetTextsCustom",
        "Pyoda.C08.parseStep_total",
        "Pyoda.C08.parseSteps_total",
        "Pyoda.C08.parseCompiled_total",
        "Pyoda.C08.parsePat_total",
        "Pyoda.C08.compileCustom_modelled",
        "Pyoda.C08.time_parse_total",
        "Pyoda.C08.offset_parse_total",
        "Pyoda.C08.date_parse_total",
        "Pyoda.C08.parsePat_offset_valid",
        "Pyoda.C08.timeValue_valid",
        "Pyoda.C08.parseCompiled_time_valid",
        "Pyoda.C08.compileTime_wf",
        "Pyoda.C08.time_success_valid",
        "Pyoda.C08.offset_success_valid",
        "Pyoda.C08.compileDateTime_total",
        "Pyoda.C08.handleEmbedded_onlyInvalid",
        "Pyoda.C08.compileSegmented_onlyInvalid",
        "Pyoda.C08.compileDTText_onlyInvalid",
        "Pyoda.C08.compileInstant_total",
        "Pyoda.C08.dtValue_total",
        "Pyoda.C08.datetime_parse_total",
        "Pyoda.C08.parseLongest_index",
        "Pyoda.C08.parseStep_dt_ok",
        "Pyoda.C08.parseSteps_dt_ok",
        "Pyoda.C08.dateValueT_valid",
        "Pyoda.C08.timeValueT_valid",
        "Pyoda.C08.dtValue_valid",
        "Pyoda.C08.parseCompiled_date_valid",
        "Pyoda.C08.parseCompiled_datetime_valid",
        "Pyoda.C08.compileLoop_inv",
        "Pyoda.C08.compileDate_wf",
        "Pyoda.C08.compileDateTime_wf",
        "Pyoda.C08.invariantCulture_monthHeadsEmpty",
        "Pyoda.C08.date_success_valid",
        "Pyoda.C08.datetime_success_valid",
        "Pyoda.C08.compileAnnual_total",
        "Pyoda.C08.compileDuration_total",
        "Pyoda.C08.durFromNanos_ok",
        "Pyoda.C08.durationValue_total",
        "Pyoda.C08.annual_parse_total",
        "Pyoda.C08.duration_parse_total",
        "Pyoda.C08.compileAnnual_wf",
        "Pyoda.C08.annualValue_valid",
        "Pyoda.C08.annual_success_valid",
        "Pyoda.C08.durationValue_valid",
        "Pyoda.C08.parseCompiled_duration_valid",
        "Pyoda.C08.duration_success_valid",
        "Pyoda.C08.dtValueE_total",
        "Pyoda.C08.parseSegs_total",
        "Pyoda.C08.parseSegmented_total",
        "Pyoda.C08.compileInstant_wf",
        "Pyoda.C08.instant_success_valid",
        "Pyoda.C08.parseStep_frame",
        "Pyoda.C08.parseSteps_frame_all",
        "Pyoda.C08.parseSegs_inv",
        "Pyoda.C08.dtValueE_valid",
        "Pyoda.C08.parseSegmented_valid",
        "Pyoda.C08.datetime_segmented_success_valid",
        "Pyoda.C08.compileLoopDT_inv",
        "Pyoda.C08.compileSegmented_segWF",
        "Pyoda.C08.compileDateTime_segWF",
        "Pyoda.C08.datetime_success_valid_all",
        "Pyoda.C08.instant_success_valid_all",
        "Pyoda.C08.compileDateC_total",
        "Pyoda.C08.compileDateTimeC_total",
        "Pyoda.C08.parseStep_total_all",
        "Pyoda.C08.parseSteps_total_all",
        "Pyoda.C08.parseStep_calOK",
        "Pyoda.C08.parseSteps_calOK",
        "Pyoda.C08.calcOfInt_some",
        "Pyoda.C08.dateValueG_total",
        "Pyoda.C08.twoEra_bounds",
        "Pyoda.C08.greg_dim_eq",
        "Pyoda.C08.inCal_of_validDate",
        "Pyoda.C08.validDate_of_inCal",
        "Pyoda.C08.dateValueC_valid",
        "Pyoda.C08.addOne_ok_or_overflow",
        "Pyoda.C08.dateValueG_valid",
        "Pyoda.C08.dtValueG_spec",
        "Pyoda.C08.parseCompiled_dateC_spec",
        "Pyoda.C08.parseCompiled_datetimeC_spec",
        "Pyoda.C08.parseSegsG_spec",
        "Pyoda.C08.dtValueEG_spec",
        "Pyoda.C08.parseSegmentedG_spec",
        "Pyoda.C08.retarget_segWF",
        "Pyoda.C08.compileDateC_patWF",
        "Pyoda.C08.compileDateTimeC_patWF",
        "Pyoda.C08.parsePat_date_spec",
        "Pyoda.C08.parsePat_dateC_spec",
        "Pyoda.C08.date_parse_total_all",
        "Pyoda.C08.date_success_valid_all",
        "Pyoda.C08.dateC_parse_spec",
        "Pyoda.C08.parsePat_datetimeC_spec",
        "Pyoda.C08.parsePat_datetime_spec",
        "Pyoda.C08.datetime_parse_total_all",
        "Pyoda.C08.datetime_success_valid_cal",
        "Pyoda.C08.datetimeC_parse_spec",
        "Pyoda.C08.instant_parse_spec",
        "Pyoda.C08.dateResult_iso",
        "Pyoda.C08.daysOfDate_inCal",
        "Pyoda.C08.parseInstant_spec",
        # agreement of the definitions generated from the Python source (tools/py2lean.py) with the model
        "Pyoda.GenAgree.C07N.gen_FormatHelper_leftPadNonNegative_eq",
        "Pyoda.GenAgree.C07N.gen_FormatHelper_leftPadNonNegative_dom",
        "Pyoda.GenAgree.C07N.gen_FormatHelper_format2DigitsNonNegative_eq",
        "Pyoda.GenAgree.C07N.gen_FormatHelper_format4DigitsValueFits_eq",
        "Pyoda.GenAgree.C07N.gen_FormatHelper_leftPad_eq", "Pyoda.GenAgree.C07N.gen_FormatHelper_appendFraction_eq",
        "Pyoda.GenAgree.C07N.gen_FormatHelper_formatInvariant_eq",
        "Pyoda.GenAgree.C07N.gen_FormatHelper_appendFractionTruncate_eq", "Pyoda.GenAgree.C07N.gen_Cursor_length_eq",
        "Pyoda.GenAgree.C07N.gen_Cursor_value_eq", "Pyoda.GenAgree.C07N.gen_Cursor_index_eq",
        "Pyoda.GenAgree.C07N.gen_Cursor_current_eq", "Pyoda.GenAgree.C07N.gen_Cursor_hasMoreCharacters_eq",
        "Pyoda.GenAgree.C07N.gen_Cursor_move_eq", "Pyoda.GenAgree.C07N.gen_Cursor_moveNext_eq",
        "Pyoda.GenAgree.C07N.gen_Cursor_movePrevious_eq", "Pyoda.GenAgree.C07N.gen_Cursor_parseDigits_eq",
        "Pyoda.GenAgree.C07N.gen_Cursor_parseDigits_model", "Pyoda.GenAgree.C07N.gen_Cursor_parseFraction_eq",
        "Pyoda.GenAgree.C07N.gen_Cursor_parseFraction_model", "Pyoda.GenAgree.C07N.gen_Cursor_matchText_eq",
        "Pyoda.GenAgree.C07N.gen_Cursor_matchText_rest", "Pyoda.GenAgree.C07N.gen_Cursor_getDigit_eq",
        "Pyoda.GenAgree.C07N.gen_Cursor_remainder_eq", "Pyoda.GenAgree.C07N.gen_Cursor_peekNext_eq",
        "Pyoda.GenAgree.C07N.gen_StringBuilder_length_eq", "Pyoda.GenAgree.C07N.gen_StringBuilder_getitem_eq",
        "Pyoda.GenAgree.C07N.gen_StringBuilder_toString_eq",
    ],
    "trusted_base": [
        "translator tie (tools/py2lean.py; GenAgreeC07N, builder T4): what Python's str operations mean is PyodaGen/TextSupport.lean — a str is the list of its code points, s[i] a character (negative indices from the end, IndexError outside), slices with Python's clamping, f\"{v:0N}\" / f\"{v:0{n}d}\" sign-aware zero padding (ValueError for n < 0), f\"{v:0>{n}}\" fill-right (a negative n = -k reads as sign option + width k), str(int), c.isdigit() as the table of CPython's 808 digit code points, int(c) only for '0'..'9', int(a * math.pow(10.0, k)) as the exact integer a*10^k ONLY where the double computation is exact (0 <= k <= 22, 0 <= a, a*10^k < 2^53) — outside these ranges, and for format widths above INT_MAX, the generated code answers 'outside the modelled domain'; all of it is compared with CPython on every run of the C03 check (tools/py2lean_selftest.py text_selftest: 25 corpus functions, every code point for isdigit, 21 must-refuse programs). The StringBuilder (append, length, item, length setter) and the four cursor attributes are explicit state (PyodaGen/GlueC07N.lean, the StringBuilder operations hand-written from _string_builder.py); the cursor methods themselves are translated",
        "str indexing inside _ValueCursor is guarded by the cursor's own length checks (modelled as list operations)",
    ],
    "partial": [
        "translator tie covers the numeric core only: _FormatHelper (_left_pad_non_negative, _format_2_digits_non_negative, _format_4_digits_value_fits, _left_pad, _append_fraction, _append_fraction_truncate, _format_invariant) and _TextCursor/_ValueCursor (length, value, current, index, has_more_characters, remainder, peek_next, move, move_next, move_previous, _match, _parse_digits, _parse_fraction, __get_digit), each proved equal to the model of PyodaModel/Text/Numeric.lean on cursor states VC.at v i (text v, index i; remaining text v.drop i). Hypotheses: widths <= INT_MAX; |value| < 10^27 where _towards_zero_division (Decimal) is used; _parse_fraction for maximum_digits <= scale <= 15 (where the float scaling is exact); cursor index inside 0..len for the scanning functions. Outside the tie (refused by the translator, correspondence only): _parse_int64 and __build_number_out_of_range_result (walrus over a raising call under `and` in the loop test; ParseResult objects carrying formatted messages), _match_case_insensitive (str.lower), _compare_ordinal (str ordering of whole strings), __str__, the pattern compiler and every step built on top of these primitives",
        "parse_total / success_valid are proved for the modelled parsers only (numeric primitives; ISO date, ISO times, ISO date-times incl. 24:00 roll-over, offset g/G), which model the REPAIRED behaviour (year range check in the ISO fast path, Offset range check, OverflowError of plus_days mapped to a failure, end-of-text by index); on the unrepaired tree the correspondence suite text.iso.parse and the direct oracles report the four defects",
        "pattern creation: compile_total is proved for EVERY pattern text of LocalTime, LocalDate (ISO template), Offset, LocalDateTime (ISO template value; embedded ld<...>/lt<...> patterns included: Pat.segmented), AnnualDate (any template) and Duration patterns, and for the Instant adapter (compileInstant_total) — custom texts, standard letters, Z prefix, composites — tied to the real builders by suite text.pat.compile (outcome class, used-field mask, number of actions); the sample formatting done at construction and non-ISO template calendars are covered by the malformed-pattern oracle only",
        "generic engine (tied to the code by suites text.pat.compile/fmt/parse): parse_total and success_value_valid hold for EVERY accepted LocalTime, Offset and Duration pattern text in every culture record (time_/offset_/duration_parse_total, time_/offset_/duration_success_valid: a Duration success lies between min_value and max_value) and for EVERY accepted AnnualDate pattern text and template (annual_parse_total; annual_success_valid under monthHeadsEmpty); success_value_valid holds for EVERY accepted LocalDate pattern text (default template) and every accepted LocalDateTime / Instant pattern text (any valid ISO template value; 24:00 roll-over included; embedded parts: next item) in every culture record whose month-name tables start with the empty entry of index 0 (date_success_valid, datetime_success_valid, instant_success_valid; hypothesis monthHeadsEmpty evaluated per run on the sampled cultures, failing cultures listed in the notes); parse_total for LocalDate/LocalDateTime/Instant holds for every compiled pattern without the calendar field (date_parse_total, datetime_parse_total: era, month/day names, am/pm and embedded ld<...>/lt<...> patterns included: parseSegmented_total)",
        "LocalDateTime/Instant patterns WITH embedded parts (Pat.segmented): success_value_valid is proved for every segmented pattern passing the decidable check segWF (parseSegmented_valid: plain steps and embedded patterns well formed, used fields accounted for, an embedded date/time present where its field bit is set and no plain step assigning its slots) and creation only builds such patterns (compileSegmented_segWF, compileDateTime_segWF), hence datetime_success_valid_all / instant_success_valid_all: EVERY accepted LocalDateTime / Instant pattern text, embedded parts or not, any valid ISO template value, under the culture hypothesis monthHeadsEmpty; segWF is also evaluated by the compiled model on every segmented pattern of the run (op pat.wf = 2; a 0 is an infrastructure error)",
        "ALL 19 CALENDARS (C08Calendar*.lean): every parse action is total for every text (parseStep_total_all: the calendar step assigns the bucket's calendar slot, nothing is outside the model) so NO pattern hypothesis (patOK) is left: date_parse_total_all / datetime_parse_total_all / instant_parse_spec / dateC_parse_spec / datetimeC_parse_spec hold for EVERY accepted pattern text — calendar field or not, embedded parts or not, template value in any of the 19 calendars — in every culture record with monthHeadsEmpty; a success carries a date its calendar has (InCal: year inside the calendar, month inside the year, day inside the month, through the calendar descriptions Calendar.Calc of property C01) and a time inside the day (date_success_valid_all, datetime_success_valid_cal: DateResult / DtResult; an ISO result is a validDate: dateResult_iso); calculate_value is modelled with the repaired behaviour (template year outside the calendar read from the text = failure, template era the calendar lacks = the calendar's latest era) and dateValueC_valid is proved for it; the LocalDateTime theorems (24:00 roll-over = plus_days(1) in the calendar, model DateArith.addFixed of property C09: a date of the calendar or OverflowError -> failure, addOne_ok_or_overflow) assume AllWF = every calendar description satisfies C01.WF (theorems greg_wf / jul_wf / copt_wf; for the other calendars wfCheck_sound applied to the evaluation of wfCheck by the compiled model on every run of the C01 check); the theorems of the ISO path (date_success_valid, datetime_success_valid(_all), instant_success_valid(_all), datetime_segmented_success_valid) now carry the hypothesis patNoCal (no calendar field): patterns with the field are evaluated by the all-calendar bucket (evalType / segsUseCalendar dispatch in parsePat) and covered by the *_all / *_cal / *_spec theorems",
        "the Instant adapter (ops inst.fmt / inst.parse, values = day number and nanosecond of day): parseInstant_spec: for EVERY accepted Instant pattern text (calendar field or not, embedded parts or not) parse never raises — the conversion Instant._ctor(days = date._days_since_epoch, ...) included — and a success is an Instant with INST_MIN_DAYS <= days <= INST_MAX_DAYS and a nanosecond of day inside the day; hypotheses AllWF (above) and CalExtents (every calendar lies inside the Instant range: evaluated by the compiled model on every run, op inst.extents, and compared with the code's _min_days / _max_days)",
        "NOT covered by theorems: str.lower() for U+0130 / U+03A3 (every other character goes through the run's folding table cu.fold: all parse theorems hold for any table), ICU culture data extraction; exceptions originating in ICU or in culture construction are outside the model",
    ],
    "rule": "distinct = distinct (pattern, culture, text) triple / pattern text; non-trivial = the pattern exists and parse was invoked (creation stream: creation was attempted)",
}


# ---------------------------------------------------------------------------------------------------
# the property at one (pattern, text)
# ---------------------------------------------------------------------------------------------------

def parse_failure(ty, pat, text, label, check_nul=True):
    try:
        r = pat.parse(text)
    except RecursionError:
        raise
    except Exception as e:  # noqa: BLE001
        return fail("parse-raises-" + type(e).__name__ + _where(e), f"{label}.parse({text!r}) raised {type(e).__name__}: {str(e)[:120]}")
    try:
        ok = r.success
    except Exception as e:  # noqa: BLE001
        return fail("result-success-raises", f"{label}.parse({text!r}).success raised {type(e).__name__}: {e}")
    if ok:
        try:
            v = r.value
        except Exception as e:  # noqa: BLE001
            return fail("success-without-value", f"{label}.parse({text!r}) reports success but .value raised {type(e).__name__}: {e}")
        if not valid_value(ty, v):
            try:
                desc = unmk(ty, v)
            except Exception:  # noqa: BLE001
                desc = repr(v)
            return fail("success-invalid-value", f"{label}.parse({text!r}) succeeded with {desc!r}, which is outside the range of the type")
        ok2, v2 = r.try_get_value(None)
        if not ok2 or v2 != v:
            return fail("try-get-value", f"{label}.parse({text!r}): try_get_value disagrees with value")
        if check_nul and "\0" in text:
            try:
                s = pat.format(v)
            except Exception:  # noqa: BLE001
                s = None
            if s is not None and s != text and "\0" not in s:
                return fail("nul-terminates-text", f"{label}.parse({text!r}) succeeds although the text contains NUL (re-formats as {s!r}): end of text is detected by the NUL sentinel, not by the index")
        return None
    try:
        e = r.exception
    except Exception as x:  # noqa: BLE001
        return fail("failure-error-unavailable", f"{label}.parse({text!r}) failed but .exception raised {type(x).__name__}: {x}")
    if not isinstance(e, Exception):
        return fail("failure-error-unavailable", f"{label}.parse({text!r}).exception is {e!r}")
    try:
        str(e)
        r.try_get_value(None)
    except Exception as x:  # noqa: BLE001
        return fail("failure-error-unavailable", f"{label}.parse({text!r}): error not printable: {x}")
    return None


def _where(e):
    """stable sub-class of a raise: the innermost pyoda_time function"""
    tb = e.__traceback__
    name = ""
    while tb is not None:
        fn = tb.tb_frame.f_code.co_filename
        if "pyoda_time" in fn:
            name = tb.tb_frame.f_code.co_name
        tb = tb.tb_next
    return "@" + name.strip("_") if name else ""


# ---------------------------------------------------------------------------------------------------
# text generators
# ---------------------------------------------------------------------------------------------------

ODD = ["\0", "٣", "１", "²", "৩", "x", "Z", "T", "-", "+", ":", ".", ",", " ", "/", "'", "\"", "\\", "%", "é", "İ", "ß", "ǅ", "日", "\U0001d7d8",
       "‏", "﻿", "A", "P", "M", "0", "9", "\n",
       # text that means something to str.format / % / Template when an error message is built from the input
       "{", "}", "{}", "{0}", "{x}", "%s", "%(a)s", "{0!r}", "$x"]


def mutate(rng, s):
    """one edit"""
    c = rng.random()
    if not s:
        return rng.choice(ODD)
    k = rng.randrange(len(s))
    if c < 0.2:
        return s[:k] + s[k + 1:]
    if c < 0.45:
        return s[:k] + rng.choice(ODD + list("0123456789")) + s[k:]
    if c < 0.7:
        return s[:k] + rng.choice(ODD + list("0123456789")) + s[k + 1:]
    if c < 0.78:
        return s[:k] + s[k] + s[k:]
    if c < 0.86:
        return s[:k]
    if c < 0.92 and len(s) > 1:
        j = rng.randrange(len(s))
        l = list(s)
        l[k], l[j] = l[j], l[k]
        return "".join(l)
    if c < 0.96:
        return s + rng.choice(ODD)
    return s.swapcase()


def digit_runs(s):
    out, i = [], 0
    while i < len(s):
        if s[i] in "0123456789":
            j = i
            while j < len(s) and s[j] in "0123456789":
                j += 1
            out.append((i, j))
            i = j
        else:
            i += 1
    return out


LIMITS = [0, 1, 12, 13, 23, 24, 25, 28, 29, 30, 31, 32, 59, 60, 61, 99, 100, 18, 19, 9998, 9999, 10000, 1439, 1440, 86399, 86400, 64800, 64801,
          1073741823, 1073741824, 1073741825, 25769803775, 25769803776, 25769803777, 2147483647, 2147483648, 9223372036854775807, 9223372036854775808]


def out_of_range_variants(rng, s, k=4):
    """replace digit runs by limit±1 values / over-long runs / non-ASCII digits"""
    runs = digit_runs(s)
    out = []
    if not runs:
        return out
    for _ in range(k):
        i, j = rng.choice(runs)
        w = j - i
        c = rng.random()
        if c < 0.55:
            v = rng.choice(LIMITS)
            rep = str(v).rjust(w, "0")
        elif c < 0.7:
            rep = "".join(rng.choice("0123456789") for _ in range(rng.choice([w + 1, 11, 15, 19, 20, 40, 400])))
        elif c < 0.8:
            rep = "9" * w
        elif c < 0.9:
            rep = s[i:j - 1] + rng.choice(["٣", "１", "²", "৩", "\U0001d7d8"])
        else:
            rep = "-" + s[i:j]
        out.append(s[:i] + rep + s[j:])
    return out


def random_unicode(rng):
    n = rng.choice([1, 1, 2, 3, 5, 8, 13, 40])
    pools = [(0x20, 0x7e), (0, 0x1f), (0x80, 0x24f), (0x660, 0x669), (0x4e00, 0x4e40), (0xd800, 0xdfff), (0x1d7ce, 0x1d7ff), (0xff10, 0xff19), (0x10000, 0x10ffff)]
    out = []
    for _ in range(n):
        lo, hi = rng.choice(pools)
        out.append(chr(rng.randint(lo, hi)))
    return "".join(out)


FIXED_TEXTS = ["", "\0", "\0\0", " ", "Z", "z", "+", "-", "--", "+-", ":", "T", "0", "00", "-0", "+0", "9" * 400, "-" + "9" * 30, "\ud800", "2020-01-01\0", "\0" + "2020-01-01",
               "12:00\0:00", "+19", "-19", "+18:01", "-18:00:01", "+24", "+23:59:59", "24:00:00", "-9999-01-01", "-9999-12-31", "9999-12-31T24:00:00", "10000-01-01", "-10000-01-01",
               "0000-00-00", "2021-02-29", "2020-02-30", "2020-13-01", "2020-00-10", "2020-01-00", "2020-01-32", "23:59:60", "23:60:00", "12:00:00.", "12:00:00,5", "12:00:00.1234567890",
               "-9998-01-01T00:00:00Z", "-9999-12-31T24:00:00Z", "9999-12-31T24:00:00Z", "9999-12-31T23:59:59.999999999Z", "1073741824:00:00:00", "-1073741824:00:00:00.000000001",
               "-1073741825:00:00:00", "1073741823:24:00:00", "25769803776:00:00", "-25769803776:00:00", "25769803775:59:59.999999999", "99999999999999:00:00", "02-30", "02-29", "13-01", "00-01",
               "StartOfTime", "EndOfTime", "2020-01-01 (ISO)", "2020-01-01 (Gregorian)", "2020-01-01 (", "2020-01-01 (Nope)", "1000-01-01 (Badi)", "1501-01-01 (Um Al Qura)", "9716-01-01 (Coptic)"]


def builtin_out_of_range(ty):
    """texts for the built-in patterns with every field at the TYPE's limits ±1"""
    out = []
    if ty in ("date", "datetime", "instant"):
        years = [-10000, -9999, -9998, -1, 0, 1, 9999, 10000]
        md = [(0, 1), (1, 0), (1, 1), (1, 31), (1, 32), (2, 28), (2, 29), (2, 30), (12, 31), (12, 32), (13, 1), (4, 31)]
        for y in years:
            ys = ("-" if y < 0 else "") + "%04d" % abs(y)
            for m, d in md:
                ds = f"{ys}-{m:02d}-{d:02d}"
                if ty == "date":
                    out.append(ds)
                    out.append(ds + " (ISO)")
                else:
                    for tm in ("00:00:00", "23:59:59", "24:00:00", "24:00:01", "24:00:00.000000001", "25:00:00", "23:60:00", "23:59:60", "23:59:59.999999999", "24:00"):
                        out.append(ds + "T" + tm + ("Z" if ty == "instant" else ""))
    if ty == "time":
        for h in (0, 23, 24, 25):
            for mi in (0, 59, 60):
                for s in (0, 59, 60):
                    for fr in ("", ".0", ".999999999", ".9999999999", ",5", "."):
                        out.append(f"{h:02d}:{mi:02d}:{s:02d}{fr}")
    if ty == "offset":
        for sg in "+-":
            for h in (0, 17, 18, 19, 23, 24, 99):
                out.append(f"{sg}{h:02d}")
                for mi in (0, 1, 59, 60):
                    out.append(f"{sg}{h:02d}:{mi:02d}")
                    out.append(f"{sg}{h:02d}{mi:02d}")
                    for s in (0, 1, 59, 60):
                        out.append(f"{sg}{h:02d}:{mi:02d}:{s:02d}")
    if ty == "duration":
        for sg in ("", "-", "+"):
            for d in (0, 1073741823, 1073741824, 1073741825, 9999999999, 99999999999):
                for hms in ("00:00:00", "23:59:59.999999999", "24:00:00", "00:60:00", "00:00:60", "00:00:00.000000001"):
                    out.append(f"{sg}{d}:{hms}")
            for h in (0, 25769803775, 25769803776, 25769803777, 99999999999999, 999999999999999):
                for ms in ("00:00", "59:59.999999999", "60:00", "00:60", "00:00.000000001"):
                    out.append(f"{sg}{h}:{ms}")
    if ty == "annual":
        for m in (0, 1, 2, 12, 13, 99):
            for d in (0, 1, 28, 29, 30, 31, 32, 99):
                out.append(f"{m:02d}-{d:02d}")
    return out


def oracle_builtin_text(case):
    ty, attr, text = case
    return parse_failure(ty, builtin(ty, attr), text, f"{PCLS[ty]}.{attr}")


def oracle_custom_text(case):
    """case = (type, pattern text, culture, calendar id, text)"""
    ty, ptext, cname, calid, text = case
    try:
        pat = create(ty, ptext, cname, calid if ty in ("date", "datetime") else None)
    except Exception:  # noqa: BLE001
        return {"skip": "pattern not created"}
    return parse_failure(ty, pat, text, f"{PCLS[ty]} {ptext!r} culture {cname!r}" + (f" calendar {calid}" if calid != "ISO" else ""))


# ---------------------------------------------------------------------------------------------------
# pattern creation: malformed pattern texts
# ---------------------------------------------------------------------------------------------------

BAD_FORMS = ["'", "\"", "'abc", "\"abc", "HH'", "'\\", "\\", "HH\\", "%", "HH%", "%%", "%%H", "%", "H%", "HHH", "HH HH", "mm mm", "uuuuu", "yyy", "y", "yyyyy", "MMMMM", "ddddd",
             "ttt", "ggg", "x", "Q", "e", "<", ">", "l<", "ld<", "ld<uuuu", "ld<uuuu>>", "lt<HH> lt<mm>", "ld<uuuu> uuuu", "l<uuuu HH>", "lx<HH>", "ld", "lt", "ld<>", "lt<>", "ld<'>",
             "ld<\\", "ld<ld<uuuu>>", "H" * 50, "f" * 10, "F" * 10, ".FFFFFFFFFF", ";FFFFFFFFFF", "D" * 11, "H" * 15, "u" * 5000, "'" * 3, "g", "gg", "yyyy g c", "c c", "ZZ", "+HH Z", "Z",
             "%Z", "+-HH", "++HH", "hh", "h", "DD HH", "H M", "S D", "", "\0", "\0\0", "HH\0mm", "\ud800", "'\ud800'", "ss.FFF.FFF", "ss;FF;FF", "ff FF", "t t", "dd dddd dd",
             "MM MMM MM", "uuuu yyyy yy", "T T", "d", "M", "D", "R", "r", "o", "O", "s", "S", "f", "F", "g", "G", "i", "I", "l", "m", "L", "j", "t", "T", "%d", "%M", "%g", "%l", "%T"]


def gen_bad_patterns(ctx, n):
    rng = ctx.rng
    types = ["time", "date", "datetime", "offset", "duration", "annual", "instant"]
    out = [("date", 'yyyy"x"MM', "")]
    for ty in types:
        for b in BAD_FORMS:
            out.append((ty, b, ""))
    pool = list("HhmsfFtTuyMdcglZDS+-:/.;'\"\\%<> ,xQ0\0é") + ["ld<", "lt<", ">", "''", "'x'", "\\\\"]
    for _ in range(n):
        ty = rng.choice(types)
        c = rng.random()
        if c < 0.6:
            s = mutate_pattern(rng, gen_custom(rng, ty), pool)
        elif c < 0.8:
            s = "".join(rng.choice(pool) * rng.choice([1, 1, 1, 2, 3, 4, 5, 12]) for _ in range(rng.randint(1, 6)))
        else:
            s = mutate_pattern(rng, mutate_pattern(rng, gen_custom(rng, ty), pool), pool)
        out.append((ty, s, ""))
    return out


def mutate_pattern(rng, s, pool):
    if not s:
        return rng.choice(pool)
    k = rng.randrange(len(s))
    c = rng.random()
    if c < 0.25:
        return s[:k] + s[k + 1:]
    if c < 0.5:
        return s[:k] + rng.choice(pool) + s[k:]
    if c < 0.7:
        return s[:k] + rng.choice(pool) + s[k + 1:]
    if c < 0.8:
        return s[:k] + s[k] * rng.choice([2, 3, 5, 12, 20]) + s[k + 1:]
    if c < 0.9:
        return s[:k]
    return s + s[k:]


def oracle_create(case):
    """creation either succeeds or raises InvalidPatternError; a created pattern then parses anything without raising"""
    ty, ptext, cname = case
    T = _T()
    cls = c07.pcls(ty)
    label = f"{PCLS[ty]}.create({ptext!r}, culture {cname!r})"
    try:
        pat = cls.create_with_invariant_culture(ptext) if cname == "" else cls.create(ptext, c07.culture(cname))
    except T.InvalidPatternError as e:
        try:
            str(e)
        except Exception as x:  # noqa: BLE001
            return fail("invalid-pattern-error-unprintable", f"{label}: {x}")
        return None
    except RecursionError:
        return fail("create-raises-RecursionError", f"{label} raised RecursionError")
    except Exception as e:  # noqa: BLE001
        return fail("create-raises-" + type(e).__name__ + _where(e), f"{label} raised {type(e).__name__}: {str(e)[:120]}")
    # accepted: it must parse arbitrary text without raising, including the text it writes for a value
    rng = random.Random(hash((ty, ptext)) & 0xffffffff)
    texts = ["", "x", "0", "\0", "2020-01-01T00:00:00", "12:34:56.789", "+05:30", "1:02:03:04"]
    try:
        v = gen_value(rng, ty)
        s = pat.format(mk(ty, v))
        texts += [s, mutate(rng, s), mutate(rng, s)] + out_of_range_variants(rng, s, 2)
    except Exception:  # noqa: BLE001 — formatting belongs to C07
        pass
    for tx in texts:
        f = parse_failure(ty, pat, tx, f"{PCLS[ty]} {ptext!r}", check_nul=False)
        if f:
            return f
    return None


# ---------------------------------------------------------------------------------------------------
# templates in other calendars, the calendar field read from the text
# ---------------------------------------------------------------------------------------------------

def text_calendar(text):
    """the calendar id a text names (longest id occurring in it), or None"""
    best = None
    for cid in c07.cal_ids():
        if cid in text and (best is None or len(cid) > len(best)):
            best = cid
    return best


def tmpl_label(tmpl):
    return "" if tmpl[:4] == ("ISO", 2000, 1, 1) and (len(tmpl) < 5 or tmpl[4] == 0) else f" template {tmpl!r}"


def oracle_template_text(case):
    """case = (type, pattern text, culture, template (calid, y, m, d), how the template was set, text): parsing never
    raises — in particular when the calendar named by the text is not the template value's calendar, so that the fields
    the pattern lacks (era, year, century, month, day) come from a value of ANOTHER calendar"""
    ty, ptext, cname, tmpl, how, text = case
    try:
        pat = c07.create_tmpl(ty, ptext, cname, tmpl, how)
    except Exception:  # noqa: BLE001 — creation is oracle create.template's business
        return {"skip": "pattern not created"}
    f = parse_failure(ty, pat, text, f"{PCLS[ty]} {ptext!r} culture {cname!r}" + tmpl_label(tmpl))
    if f and f["key"].startswith("parse-raises-"):
        tc = text_calendar(text)
        if tc is not None and tc != tmpl[0]:
            f["key"] += ":calendar-from-text"
            f["what"] += f" — the text names calendar {tc!r}, the template value is in {tmpl[0]!r}"
    return f


def gen_cal_pattern(rng, ty):
    """a LocalDate / LocalDateTime pattern text with the calendar field (plain or inside an embedded date pattern)"""
    fs = [f for f in c07.gen_date_fields(rng, with_cal=False) if not f.startswith("g")] or ["uuuu"]
    fs.insert(rng.randrange(len(fs) + 1), "c")
    d = c07.join_fields(rng, "date", fs)
    if ty == "date":
        return d
    t = c07.join_fields(rng, "time", c07.gen_time_fields(rng) or ["HH"])
    c = rng.random()
    if c < 0.3:
        parts = ["ld<" + d + ">", "lt<" + t + ">"]
    elif c < 0.4:
        parts = ["ld<" + d + ">", t]
    else:
        parts = [d, t]
    if rng.random() < 0.25:
        parts.reverse()
    return parts[0] + rng.choice(["T", " ", "'T'", " 'at' "]) + parts[1]


def gen_template(rng, ty, ids):
    """(calid, y, m, d[, nod]); ISO 2000-01-01 half of the time, otherwise a date of any calendar biased to high months"""
    if rng.random() < 0.5:
        t = ("ISO", 2000, 1, 1)
    else:
        cid = rng.choice(ids)
        t = None
        if rng.random() < 0.4:
            c = c07.cal(cid)
            y = rng.randint(c.min_year, c.max_year)
            m = c.get_months_in_year(y) - rng.choice([0, 0, 1, 2])
            dd = rng.choice([1, c.get_days_in_month(y, m)])
            t = c07.date_from_days(cid, c07._P().LocalDate(y, m, dd, c)._days_since_epoch)
        if t is None:
            t = c07.gen_value(rng, "date", cid) or ("ISO", 2000, 1, 1)
    if ty == "datetime":
        t = t + (rng.choice([0, 0, c07.gen_nod(rng)]),)
    return t


TEMPLATE_TEXT_FIXED = [
    ("date", "yyyy-MM-dd c", "", ("ISO", 2000, 1, 1), "create", "1445-03-05 Hijri Civil-Indian"),
    ("date", "MM-dd c", "", ("ISO", 2000, 1, 1), "create", "03-05 Badi"),
    ("date", "yy-MM-dd c", "", ("ISO", 2000, 1, 1), "create", "45-03-05 Coptic"),
    ("date", "MM-dd c", "", ("ISO", 2000, 1, 1), "create", "03-05 Um Al Qura"),
    ("datetime", "yyyy-MM-dd HH:mm c", "", ("ISO", 2000, 1, 1, 0), "create", "5784-03-05 10:00 Hebrew Civil"),
    ("datetime", "ld<yyyy-MM-dd c> lt<HH:mm>", "", ("ISO", 2000, 1, 1, 0), "create", "1402-03-05 Persian Simple 10:00"),
    ("date", "dd c", "", ("Hebrew Civil", 5784, 13, 1), "create", "05 ISO"),
    ("date", "yyyy-MM-dd c", "", ("Hijri Civil-Indian", 1445, 3, 5), "create", "2024-03-05 ISO"),
    ("date", "uuuu-MM-dd c", "", ("ISO", 2000, 1, 1), "create", "0170-19-01 Badi"),
]


def template_text_cases(ctx):
    rng = ctx.rng
    ids = c07.cal_ids()
    cn = c07.culture_names(ctx, 6)
    cases = list(TEMPLATE_TEXT_FIXED)
    for _ in range(ctx.scale(500, 20_000)):
        ty = rng.choice(["date", "date", "datetime"])
        ptext = gen_cal_pattern(rng, ty) if rng.random() < 0.85 else rng.choice(["r"] if ty == "datetime" else ["r"])
        cname = "" if rng.random() < 0.7 or len(cn) < 2 else rng.choice(cn[1:])
        tmpl = gen_template(rng, ty, ids)
        how = rng.choice(["create", "create", "with_template_value", "with_calendar"])
        try:
            pat = c07.create_tmpl(ty, ptext, cname, tmpl, how)
        except Exception:  # noqa: BLE001
            continue
        if how == "with_calendar":
            # only the calendar is taken from `tmpl`; record the real template for the label
            pass
        texts = []
        for vc in [tmpl[0]] + rng.sample(ids, 3):
            v = gen_value(rng, ty, vc)
            if v is None:
                continue
            try:
                s = pat.format(mk(ty, v))
            except Exception:  # noqa: BLE001 — formatting belongs to C07
                continue
            texts.append(s)
            if vc in s:
                for oc in rng.sample(ids, 2):
                    texts.append(s.replace(vc, oc))       # the fields of one calendar read under another
            texts.append(mutate(rng, s))
            texts.extend(out_of_range_variants(rng, s, 2))
        for tx in texts:
            cases.append((ty, ptext, cname, tmpl, how, tx))
    return cases


MONTH_TEXT_FORMS = ["yyyy MMMM dd", "yyyy MMM dd", "MMMM", "MMM", "dd MMMM", "uuuu-MMM-dd c", "D", "M", "d", "r", "R", "yyyy-MM-dd", "yy MMMM", "MMMM yyyy g", "dddd dd MMMM uuuu"]
DT_MONTH_TEXT_FORMS = ["yyyy MMMM dd HH:mm", "ld<yyyy MMMM dd> HH", "ld<dd MMM> lt<HH>", "F", "f", "g", "G", "o", "r", "s", "MMM dd HH", "uuuu-MM-dd'T'HH:mm:ss"]


def oracle_create_template(case):
    """case = (type, pattern text, culture, template, how): creation with a template value of any calendar — through
    create(text, culture, template), with_template_value or with_calendar — succeeds or raises InvalidPatternError; the
    created pattern then parses anything without raising"""
    ty, ptext, cname, tmpl, how = case
    T = _T()
    label = f"{PCLS[ty]}.create({ptext!r}, culture {cname!r}" + {"create": f", template {tmpl!r})", "with_template_value": f").with_template_value({tmpl!r})",
                                                                   "with_calendar": f").with_calendar({tmpl[0]})"}[how]
    try:
        c07.template_value(ty, tmpl)
    except Exception:  # noqa: BLE001
        return {"skip": "template value not constructible"}
    try:
        pat = c07.create_tmpl(ty, ptext, cname, tmpl, how, fresh=True)
    except T.InvalidPatternError:
        return None
    except RecursionError:
        return fail("create-raises-RecursionError", f"{label} raised RecursionError")
    except Exception as e:  # noqa: BLE001
        return fail("create-raises-" + type(e).__name__ + _where(e), f"{label} raised {type(e).__name__}: {str(e)[:120]}")
    rng = random.Random(hash((ty, ptext, tmpl)) & 0xffffffff)
    texts = ["", "x", "0", "2020-01-01T00:00:00", "0170 Sharaf 01", "01"]
    try:
        v = gen_value(rng, ty, tmpl[0])
        s = pat.format(mk(ty, v))
        texts += [s, mutate(rng, s)] + out_of_range_variants(rng, s, 2)
    except Exception:  # noqa: BLE001 — formatting belongs to C07
        pass
    for tx in texts:
        f = parse_failure(ty, pat, tx, label, check_nul=False)
        if f:
            return f
    return None


def create_template_cases(ctx):
    rng = ctx.rng
    ids = c07.cal_ids()
    cn = c07.culture_names(ctx, 4)
    pool = list("HhmsfFtTuyMdcglZDS+-:/.;'\"\\%<> ,xQ0\0é") + ["ld<", "lt<", ">", "''", "'x'", "\\\\"]
    cases = [("date", "yyyy MMMM dd", "", ("Badi", 170, 15, 1), "create"),
             ("date", "yyyy MMM dd", "", ("Badi", 170, 14, 1), "with_template_value"),
             ("date", "yyyy MMM dd", "", ("Badi", 1, 1, 1), "with_calendar"),
             ("datetime", "yyyy MMMM dd HH", "", ("Badi", 170, 19, 1, 0), "create")]
    for _ in range(ctx.scale(1500, 60_000)):
        ty = rng.choice(["date", "datetime"])
        c = rng.random()
        if c < 0.3:
            ptext = rng.choice(MONTH_TEXT_FORMS if ty == "date" else DT_MONTH_TEXT_FORMS + MONTH_TEXT_FORMS[:6])
        elif c < 0.8:
            ptext = gen_custom(rng, ty)
        else:
            ptext = mutate_pattern(rng, gen_custom(rng, ty), pool)
        cname = "" if rng.random() < 0.7 or len(cn) < 2 else rng.choice(cn[1:])
        tmpl = gen_template(rng, ty, ids)
        if tmpl[0] == "ISO" and rng.random() < 0.8:
            tmpl = (lambda t: t if ty == "date" else t + (0,))(c07.gen_value(rng, "date", rng.choice(ids)) or tmpl[:4])
        cases.append((ty, ptext, cname, tmpl, rng.choice(["create", "create", "with_template_value", "with_calendar"])))
    return cases


# ---------------------------------------------------------------------------------------------------
# creation SEQUENCES on one shared read-only culture (the per-culture pattern cache of the library is exercised)
# ---------------------------------------------------------------------------------------------------

SEQ_BAD = {"time": ["HH:mm 'oops", "HH:mm\\", "HH:mm:HH", "HH:mm x"], "date": ["yyyy 'oops", "uuuu-MM-dd\\", "dd dd", "Q"],
           "datetime": ["uuuu HH 'oops", "HH\\", "HH HH", "ld<uuuu", "x"], "offset": ["+HH 'oops", "HH\\", "HH HH", "x"],
           "duration": ["D 'oops", "hh\\", "hh hh", "x"], "annual": ["MM 'oops", "dd\\", "MM MM", "x"], "instant": ["uuuu 'oops", "HH\\", "HH HH", "x"]}


def oracle_create_sequence(case):
    """case = (type, culture name, seed, n): on ONE read-only culture object, malformed pattern texts first, then n distinct
    (mostly valid) pattern texts of the same type, malformed ones sprinkled in between: every single creation succeeds or
    raises InvalidPatternError; a sample of the created patterns then parses without raising; creating an earlier text
    again gives a pattern that writes the same text"""
    ty, cname, seed, n = case
    T = _T()
    rng = random.Random(f"{ty}:{cname}:{seed}")
    cls = c07.pcls(ty)
    cu = c07.culture(cname)
    texts, seen = [], set()
    for b in SEQ_BAD[ty]:
        texts.append(b)
    k = 0
    while len(texts) < n + len(SEQ_BAD[ty]):
        k += 1
        t = gen_custom(rng, ty)
        if t in seen or rng.random() < 0.5:
            t = t + "'" + "#%d" % k + "'"           # a quoted literal keeps the text valid and makes it distinct
        if t in seen:
            continue
        seen.add(t)
        texts.append(t)
        if rng.random() < 0.02:
            texts.append(mutate_pattern(rng, t, list("HhmsfFtTuyMdcglZDS'\"\\%<>xQ")))
    made = []
    v = gen_value(rng, ty)
    for i, t in enumerate(texts):
        try:
            pat = cls.create(t, cu)
        except T.InvalidPatternError:
            continue
        except RecursionError:
            raise
        except Exception as e:  # noqa: BLE001
            return fail("create-raises-" + type(e).__name__ + _where(e) + ":sequence",
                        f"creation #{i + 1} in a sequence on one read-only culture object ({cname!r}): {PCLS[ty]}.create({t!r}) raised {type(e).__name__}: {str(e)[:100]} "
                        f"(the sequence starts with the malformed texts {SEQ_BAD[ty]!r})")
        if i % 40 == 0 or len(made) < 3:
            made.append((i, t, pat))
    for i, t, pat in made:
        label = f"{PCLS[ty]} {t!r} culture {cname!r} (creation #{i + 1} of a sequence)"
        try:
            s = pat.format(mk(ty, v))
        except Exception:  # noqa: BLE001 — formatting belongs to C07
            s = "0"
        for tx in (s, mutate(rng, s), ""):
            f = parse_failure(ty, pat, tx, label, check_nul=False)
            if f:
                return f
        try:
            again = cls.create(t, cu)
            s2 = again.format(mk(ty, v))
        except Exception as e:  # noqa: BLE001
            return fail("create-raises-" + type(e).__name__ + _where(e) + ":sequence", f"{label}: creating the same text again raised {type(e).__name__}: {str(e)[:100]}")
        if s != "0" and s2 != s:
            return fail("create-again-differs", f"{label}: the pattern created first writes {s!r}, the same text created again later writes {s2!r}")
    return None


def create_sequence_cases(ctx):
    cn = c07.culture_names(ctx, 4)
    names = [n for n in cn if n] or [""]
    n = ctx.scale(620, 5200)
    cases = []
    for ty in ["time", "date", "datetime", "offset", "duration", "annual", "instant"]:
        cases.append((ty, names[ctx.rng.randrange(len(names))], ctx.rng.getrandbits(24), n))
    cases.append(("time", "", ctx.rng.getrandbits(24), n))
    return cases


# ---------------------------------------------------------------------------------------------------
# run
# ---------------------------------------------------------------------------------------------------

def builtin_text_cases(ctx):
    rng = ctx.rng
    n = ctx.scale(800, 12_000)
    # smallest known inputs of each defect class first, so that the replay of a class shows its canonical input
    cases = [("offset", "general_invariant", "+19"), ("date", "iso", "-9999-01-01"),
             ("datetime", "extended_iso", "9999-12-31T24:00:00"), ("date", "iso", "2020-01-01\0")]
    for ty, attr, prec, cals in c07.BUILTINS:
        pat = builtin(ty, attr)
        texts = list(FIXED_TEXTS) + builtin_out_of_range(ty)
        for _ in range(n):
            v = gen_value(rng, ty, rng.choice(c07.cal_ids()) if cals else "ISO")
            if v is None:
                continue
            try:
                s = pat.format(mk(ty, c07.trunc_value(ty, v, prec)))
            except Exception:  # noqa: BLE001
                continue
            texts.append(s)
            texts.append(mutate(rng, s))
            texts.append(mutate(rng, mutate(rng, s)))
            texts.extend(out_of_range_variants(rng, s, 3))
            if rng.random() < 0.2:
                texts.append(s + "\0")
            if rng.random() < 0.2:
                texts.append(random_unicode(rng))
        for tx in texts:
            cases.append((ty, attr, tx))
    return cases


def custom_text_cases(ctx):
    rng = ctx.rng
    types = ["time", "date", "datetime", "offset", "duration", "annual", "instant"]
    cn = c07.culture_names(ctx, 10)
    ids = c07.cal_ids()
    cases = [("date", "yyyy g", "", "Hebrew Civil", "5780 A.M.")]
    for _ in range(ctx.scale(4000, 60_000)):
        ty = rng.choices(types, [5, 6, 6, 2, 3, 1, 1])[0]
        ptext = gen_custom(rng, ty) if rng.random() < 0.9 else rng.choice(c07.STANDARD[ty])
        cname = "" if rng.random() < 0.6 else rng.choice(cn)
        calid = rng.choice(ids) if ty in ("date", "datetime") and rng.random() < 0.4 else "ISO"
        try:
            pat = create(ty, ptext, cname, calid if ty in ("date", "datetime") else None)
        except Exception:  # noqa: BLE001 — creation failures are the creation oracle's business
            continue
        info = analyse(ty, c07.effective_text(ty, ptext, cname), cname)
        texts = ["", "\0", random_unicode(rng)]
        for _ in range(3):
            v = representable(rng, ty, info, pat, calid) if info.ok else None
            if v is None:
                v = gen_value(rng, ty, calid)
            if v is None:
                continue
            try:
                s = pat.format(mk(ty, v))
            except Exception:  # noqa: BLE001
                continue
            texts += [s, mutate(rng, s), mutate(rng, s), s + "\0"] + out_of_range_variants(rng, s, 4)
        for tx in texts:
            cases.append((ty, ptext, cname, calid, tx))
    return cases


def run(ctx):
    ctx.check_cases("parse.builtin", builtin_text_cases(ctx), c07.wrap_skips(ctx, "parse.builtin", oracle_builtin_text))
    ctx.check_cases("parse.custom", custom_text_cases(ctx), c07.wrap_skips(ctx, "parse.custom", oracle_custom_text))
    bad = gen_bad_patterns(ctx, ctx.scale(6000, 400_000))
    cn = c07.culture_names(ctx, 4)
    if len(cn) > 1:
        bad += [(ty, p, ctx.rng.choice(cn[1:])) for (ty, p, _) in ctx.rng.sample(bad, min(len(bad), ctx.scale(300, 20_000)))]
    ctx.check_cases("create.malformed", bad, c07.wrap_skips(ctx, "create.malformed", oracle_create))
    ctx.check_cases("create.sequence", create_sequence_cases(ctx), oracle_create_sequence)
    import text_entrypoints as te
    ann, amp = te.cases_c08(ctx)
    ctx.check_cases("parse.annual-partial-patterns", ann, te.check_annual)
    ctx.check_cases("parse.empty-am-pm-designators", amp, te.check_emptyampm)
    meta, h24 = te.cases_c08_more(ctx)
    ctx.check_cases("parse.format-metacharacters", meta, te.check_format_meta)
    ctx.check_cases("parse.hour24-at-range-end", h24, te.check_hour24_last_day)
    ctx.check_cases("parse.day-beyond-short-months", h24, te.check_short_month_days)
    ctx.check_cases("create.embedded-with-other-fields", te.cases_c08_embedded(ctx), te.check_embedded_conflicts, exhaustive=True)
    import texthist
    texthist.run_history(ctx, [("random", ctx.scale(2, 40)), ("culture", ctx.scale(1, 20)), ("width", ctx.scale(1, 20))])
    ctx.check_cases("create.template", create_template_cases(ctx), c07.wrap_skips(ctx, "create.template", oracle_create_template))
    ctx.check_cases("parse.template", template_text_cases(ctx), c07.wrap_skips(ctx, "parse.template", oracle_template_text))
    c07.run_num_correspondence(ctx)
    c07.run_iso_correspondence(ctx, "c08")
    run_iso_parse_hostile(ctx)
    import textpat
    textpat.run_compile_correspondence(ctx)
    textpat.run_engine_correspondence(ctx, hostile=True)


def run_iso_parse_hostile(ctx):
    """model vs code on hostile texts for the modelled ISO parsers"""
    if not c07.model_available():
        return
    rng = ctx.rng
    ops = []
    kinds = list(c07.ISO_KINDS)
    for kind in kinds:
        ty, attr = c07.ISO_KINDS[kind]
        texts = list(FIXED_TEXTS) + builtin_out_of_range(ty)
        pat = builtin(ty, attr)
        for _ in range(ctx.scale(150, 20_000)):
            v = gen_value(rng, ty)
            s = pat.format(mk(ty, v))
            texts += [mutate(rng, s), mutate(rng, mutate(rng, s))] + out_of_range_variants(rng, s, 2)
        for tx in texts:
            try:
                ops.append(f"iso.parse {kind} {hexs(tx)}")
            except UnicodeEncodeError:
                continue
    ctx.correspond("text.iso.parse.hostile", ops, c07.impl, oracle=c07.oracle_text_op, driver="drv_text")


def replay_op(op, failure):
    import ast
    src = failure.get("source", "")
    if src.startswith("oracle:"):
        name = src.split(":", 1)[1]
        case = ast.literal_eval(op)
        fn = {"parse.builtin": oracle_builtin_text, "parse.custom": oracle_custom_text, "create.malformed": oracle_create, "create.template": oracle_create_template, "parse.template": oracle_template_text, "create.sequence": oracle_create_sequence,
              "text.history": __import__("texthist").oracle_history,
              "parse.annual-partial-patterns": __import__("text_entrypoints").check_annual,
              "parse.empty-am-pm-designators": __import__("text_entrypoints").check_emptyampm,
              "parse.format-metacharacters": __import__("text_entrypoints").check_format_meta,
              "parse.hour24-at-range-end": __import__("text_entrypoints").check_hour24_last_day,
              "parse.day-beyond-short-months": __import__("text_entrypoints").check_short_month_days,
              "create.embedded-with-other-fields": __import__("text_entrypoints").check_embedded_conflicts}[name]
        r = fn(case)
        return None if (r and "skip" in r) else r
    return c07.oracle_text_op(op.split(" "))
