"""C13 — results do not depend on call history or on concurrent use.

Suites (all on the real code; the Lean model only supplies the expected *cache behaviour*):
  barrier.first_use   32 threads released from a barrier, each making its FIRST lookup of one key in a forked,
                      pristine child process (zone id, fixed offset, calendar ids, utc, the tzdb provider):
                      one object identity per key.
  lazy.force          the racy two/three-thread schedule forced on the real `DateTimeZoneCache` with a blocking
                      source (deterministic witness of check-then-create without a lock); model = locked version.
  ycache.run          colliding year histories on a fresh copy of every calculator that uses the 1024-slot cache:
                      slot, validator, hit/miss per query = model; results = uncached `_calculate_start_of_year_days`.
  hcache.run          the global Hebrew cache (extra bits, peek at next year): raw cached values = model run from an
                      empty cache, whatever the real cache currently holds.
  zcache.run          the real `_CachingZoneIntervalMap` over a synthetic base map: interval, hit/miss, chain length.
  lru.run             the real `_Cache`: hit/miss, count, key order.
  calendar.history / zone.history / hebrew.history / formatinfo.cache / provider.identity   direct oracles,
  threads.*           the same histories split over 2..16 threads (supporting evidence only).
"""
from __future__ import annotations

import json
import os
import sys
import threading
import time

import common
from common import hexs

NPD = 86_400_000_000_000
IMIN_D, IMAX_D = -4371222, 2932896
INST_MIN_NS = IMIN_D * NPD
INST_MAX_NS = (IMAX_D + 1) * NPD - 1
BEFORE_MIN_NS = -(1 << 30) * NPD
AFTER_MAX_NS = ((1 << 30) - 1) * NPD
PERIOD_DAYS = 32
SLOT_DAYS = 512 * PERIOD_DAYS          # 16 384 days: instants this far apart share a slot
NTHREADS_BARRIER = 32

META = {
    "property": "C13",
    "proof_modules": ["PyodaProofs.C13", "PyodaProofs.C13Conc", "PyodaProofs.GenAgreeC13", "PyodaProofs.GenAgreeC13Z"],
    "drivers": ["drv_cache"],
    "theorems": [
        "Pyoda.C13.year_key_injective", "Pyoda.C13.yearCache_transparent", "Pyoda.C13.hebrewCache_transparent",
        "Pyoda.C13.zoneCache_transparent", "Pyoda.C13.lru_transparent", "Pyoda.C13.lru_size_le",
        "Pyoda.C13.lazy_same_object", "Pyoda.C13.lazy_known_some", "Pyoda.C13.yearCache_interleaved",
        "Pyoda.C13.lazy_locked_same_object_interleaved", "Pyoda.C13.lazy_unlocked_counterexample",
        "Pyoda.C13.zoneCache_interleaved", "Pyoda.C13.hebrewCache_interleaved", "Pyoda.C13.lru_locked_linearizable",
        "Pyoda.C13.formatInfo_transparent",
        # agreement of the definitions generated from the Python source (tools/py2lean.py) with the model
        "Pyoda.GenAgree.C13.gen_Cache_getOrAdd_loop1_eq", "Pyoda.GenAgree.C13.gen_Cache_new_eq",
        "Pyoda.GenAgree.C13.gen_Cache_count_eq", "Pyoda.GenAgree.C13.gen_Cache_clear_eq",
        "Pyoda.GenAgree.C13.gen_Cache_getOrAdd_eq", "Pyoda.GenAgree.C13.gen_Cache_getOrAdd_atomic",
        "Pyoda.GenAgree.C13.gen_Cache_count_atomic", "Pyoda.GenAgree.C13.gen_Cache_clear_atomic",
        "Pyoda.GenAgree.C13.gen_Cache_getOrAdd_callbacks", "Pyoda.GenAgree.C13.cache_ops_atomic_in_source",
        "Pyoda.GenAgree.C13Z.gen_Node_interval_eq", "Pyoda.GenAgree.C13Z.gen_Node_period_eq",
        "Pyoda.GenAgree.C13Z.gen_Node_createNode_loop1_eq", "Pyoda.GenAgree.C13Z.gen_Node_createNode_eq",
        "Pyoda.GenAgree.C13Z.gen_Cache_getZoneInterval_loop1_eq",
        "Pyoda.GenAgree.C13Z.gen_Cache_getZoneInterval_loop2_eq",
        "Pyoda.GenAgree.C13Z.gen_Cache_getZoneInterval_loop3_eq", "Pyoda.GenAgree.C13Z.gen_Cache_getZoneInterval_eq",
        "Pyoda.GenAgree.C13Z.gen_Cache_getZoneInterval_gil_ops", "Pyoda.GenAgree.C13Z.gen_Node_accessors_frozen",
    ],
    "trusted_base": [
        "translator tie (tools/py2lean.py; GenAgreeC13): _Cache (utility/_cache.py) — __init__, get_or_add with its eviction loop, count, clear — is re-translated from the source on every run as state-passing functions over (size, key deque, dict) and get_or_add is proved to be one `step` of the LRU model for every value factory (abstract callee) and every state whose dict is a dict (no key twice: kept by eviction, evict_keeps_dict). Python's dict/deque operations (in, [], []=, del, append, popleft, len) are the hand-written functions of PyodaGen/Support.lean (self-test corpus twin Lru.touch); keys/values are ints as in the model; `with self.__lock:` is translated as its body (one thread), and the locked region assumed by lru_locked_linearizable is tied separately: the translator emits each method's lock discipline as data (`<op>.lockInfo`) and gen_Cache_getOrAdd_atomic / gen_Cache_count_atomic / gen_Cache_clear_atomic / cache_ops_atomic_in_source check `LockInfo.Atomic` on it on every run (every access to __dictionary / __key_list inside ONE `with self.__lock:`, no same-class call while holding it; the value factory is called inside the lock and taken as a pure function). The zone-interval cache has NO lock: its record says `gilOnly` and gen_Cache_getZoneInterval_gil_ops pins the single operations on mutable state whose atomicity rests on the GIL (one item load and one item store of __instant_cache) — trusted, not proved. The year-start caches are tied through C01 (GenAgreeC01Cache: gen_yearCache_transparent, gen_hebrewCache_transparent). The zone-interval cache _CachingZoneIntervalMap.__HashArrayCache is tied too (GenAgreeC13Z): _HashCacheNode._create_node (period arithmetic, the chain-building loop = `extend`) and get_zone_interval (slot index, node validity, the walk over _previous = `walk`) are proved to be one `step` of the zone cache model about which zoneCache_transparent is proved; the node chain is the model's (latest interval, earlier ones), the 512-slot list a function, the wrapped map an abstract callee; hypotheses: Instant._MIN_DAYS is the model's minDays and the period lies inside the Instant range (beyond it _from_untrusted_duration raises OverflowError, which the model does not describe — only the end-of-time sentinel lies there). Outside the tie: the lazies, the format-info cache",
        "CPython: one dict/list slot read or write and Lock.acquire/release are atomic (GIL); `(d << k) | v == d*2**k + v` for 0 <= v < 2**k; `x >> k`, `x & (2**k-1)` are floor division / modulo (compared on every ycache/hcache op, negative years included)",
        "fork() gives each barrier attempt a process in which the key has never been looked up",
    ],
    "partial": [
        "real thread interleavings inside CPython (bytecode-level pre-emption, free-threaded builds) are sampled by the thread and barrier suites, not proved; the interleaving theorems hold at the atomic-action granularity stated in the trusted base",
        "the format-info model is tied to the code by the formatinfo.cache oracle and lru.run only (no dedicated correspondence op: it would have to clear the process-wide cache)",
    ],
    "rule": "distinct = distinct history (op line / oracle case); non-trivial = the history contains at least two keys that share a cache slot (years k*1024 apart, instants 16384 days apart, more keys than the LRU bound) or is a concurrent first use",
}


def _P():
    import pyoda_time as P
    return P


# ---------------------------------------------------------------------------------------------
# calendars: fresh copies / cache-free reference
# ---------------------------------------------------------------------------------------------

_CAL_IDS = None


def cal_ids():
    global _CAL_IDS
    if _CAL_IDS is None:
        _CAL_IDS = sorted(_P().CalendarSystem.ids)
    return _CAL_IDS


def calc_of(cid):
    return _P().CalendarSystem.for_id(cid)._year_month_day_calculator


def uses_base_cache(calc):
    from pyoda_time.calendars._year_month_day_calculator import _YearMonthDayCalculator as B
    return type(calc)._get_start_of_year_in_days is B._get_start_of_year_in_days or type(calc).__name__ == "_GregorianYearMonthDayCalculator"


_CACHE_ATTR = "_YearMonthDayCalculator__year_cache"


def fresh_calc(cid):
    """a shallow copy of the calendar's calculator with an empty year cache (the singleton is untouched)"""
    import copy
    from pyoda_time.calendars._year_start_cache_entry import _YearStartCacheEntry
    k = copy.copy(calc_of(cid))
    object.__setattr__(k, _CACHE_ATTR, _YearStartCacheEntry._create_cache())
    return k


class _NoCache(dict):
    """a year cache that never remembers: every read sees the invalid entry, writes are dropped"""

    def __init__(self, invalid):
        super().__init__()
        self._invalid = invalid

    def __getitem__(self, i):
        return self._invalid

    def __setitem__(self, i, v):
        pass


_REF = {}


def ref_calc(cid):
    """the same calculator class and parameters with the cache disabled: the no-history reference"""
    if cid not in _REF:
        import copy
        from pyoda_time.calendars._year_start_cache_entry import _YearStartCacheEntry
        k = copy.copy(calc_of(cid))
        object.__setattr__(k, _CACHE_ATTR, _NoCache(_YearStartCacheEntry._create_cache()[0]))
        _REF[cid] = k
    return _REF[cid]


def year_range(cid):
    k = calc_of(cid)
    return k._min_year, k._max_year + 1


def greg_fast(cid, y):
    return type(calc_of(cid)).__name__ == "_GregorianYearMonthDayCalculator" and 1900 <= y <= 2100


def unhex(s):
    return "" if s == "-" else bytes.fromhex(s).decode()


# ---------------------------------------------------------------------------------------------
# (K) ycache.run / hcache.run / zcache.run / lru.run / lazy.force
# ---------------------------------------------------------------------------------------------

def impl_ycache(t):
    from pyoda_time.calendars._year_start_cache_entry import _YearStartCacheEntry as E
    cid = unhex(t[1])
    k = fresh_calc(cid)
    cache = getattr(k, _CACHE_ATTR)
    out = []
    for y in map(int, t[2:]):
        i = E._get_cache_index(y)
        v = E._YearStartCacheEntry__get_validator(y)
        hit = cache[i]._is_valid_for_year(y)
        k._get_start_of_year_in_days(y)
        out.append(f"{i}:{v}:{'H' if hit else 'M'}")
    return " ".join(out)


def oracle_ycache(t):
    cid = unhex(t[1])
    k = fresh_calc(cid)
    shared = calc_of(cid)
    for n, y in enumerate(map(int, t[2:])):
        want = k._calculate_start_of_year_days(y)
        got = k._get_start_of_year_in_days(y)
        if got != want:
            return {"key": "year-cache-stale", "what": f"{cid}: query {n} of history {t[2:]} on a fresh calculator: _get_start_of_year_in_days({y}) = {got}, uncached computation gives {want}"}
        got = shared._get_start_of_year_in_days(y)
        if got != want:
            return {"key": "year-cache-stale", "what": f"{cid}: shared calculator after history {t[2:n + 3]}: _get_start_of_year_in_days({y}) = {got}, uncached computation gives {want}"}
    return None


def _heb():
    from pyoda_time.calendars._hebrew_scriptural_calculator import _HebrewScripturalCalculator as H
    return H


def impl_hcache(t):
    H = _heb()
    f = H._HebrewScripturalCalculator__get_or_populate_cache
    return " ".join(str(f(int(y))) for y in t[1:])


def heb_check(y):
    """the Hebrew year facts that come out of the global cache against the cache-free formula"""
    H = _heb()
    nc = H._HebrewScripturalCalculator__elapsed_days_no_cache
    e, e1 = nc(y), nc(y + 1)
    if H._elapsed_days(y) != e:
        return {"key": "hebrew-cache-stale", "what": f"_elapsed_days({y}) = {H._elapsed_days(y)}, cache-free formula gives {e}"}
    if H._days_in_year(y) != e1 - e:
        return {"key": "hebrew-cache-stale", "what": f"_days_in_year({y}) = {H._days_in_year(y)}, cache-free formula gives {e1 - e}"}
    diy = e1 - e
    want8 = 30 if diy % 10 == 5 else 29
    want9 = 29 if diy % 10 == 3 else 30
    if (H._days_in_month(y, 8), H._days_in_month(y, 9)) != (want8, want9):
        return {"key": "hebrew-cache-stale", "what": f"Heshvan/Kislev of {y}: {(H._days_in_month(y, 8), H._days_in_month(y, 9))}, year length {diy} implies {(want8, want9)}"}
    return None


def oracle_hcache(t):
    for y in map(int, t[1:]):
        f = heb_check(y)
        if f:
            f["what"] += f" (history {t[1:]})"
            return f
    return None


# ---- synthetic base map for the real _CachingZoneIntervalMap -------------------------------

def inst_ns(ns):
    d, n = divmod(ns, NPD)
    return _P().Instant._ctor(days=d, nano_of_day=n)


def ns_of(i):
    return i._days_since_epoch * NPD + i._nanosecond_of_day


class FakeMap:
    """partition of the time line at `bounds` (ns); counts the base lookups it serves"""

    def __init__(self, bounds):
        P = _P()
        from pyoda_time.time_zones import ZoneInterval
        self.bounds = bounds
        self.calls = 0
        z = P.Offset.zero
        edges = [None] + [inst_ns(b) for b in bounds] + [None]
        self.intervals = [ZoneInterval(name=str(j), start=edges[j], end=edges[j + 1], wall_offset=z, savings=z)
                          for j in range(len(edges) - 1)]

    min_offset = property(lambda self: _P().Offset.zero)
    max_offset = property(lambda self: _P().Offset.zero)

    def get_zone_interval(self, instant):
        import bisect
        self.calls += 1
        return self.intervals[bisect.bisect_right(self.bounds, ns_of(instant))]


def parse_bounds(s):
    return [] if s == "-" else [int(x) for x in s.split(",")]


def _slots(cache):
    return getattr(cache, "_HashArrayCache__instant_cache")


def impl_zcache(t):
    from pyoda_time.time_zones._caching_zone_interval_map import _CachingZoneIntervalMap
    cache = _CachingZoneIntervalMap._cache_map(FakeMap(parse_bounds(t[1])))
    slots = _slots(cache)
    out = []
    for ns in map(int, t[2:]):
        period = (ns // NPD) >> 5
        node = slots[period & 511]
        hit = node is not None and node._period == period
        iv = cache.get_zone_interval(inst_ns(ns))
        node, n = slots[period & 511], 0
        while node is not None:
            n += 1
            node = node._previous
        out.append(f"{ns_of(iv._raw_start)}:{ns_of(iv._raw_end)}:{'H' if hit else 'M'}:{n}")
    return " ".join(out)


def oracle_zcache(t):
    from pyoda_time.time_zones._caching_zone_interval_map import _CachingZoneIntervalMap
    base = FakeMap(parse_bounds(t[1]))
    cache = _CachingZoneIntervalMap._cache_map(base)
    for n, ns in enumerate(map(int, t[2:])):
        i = inst_ns(ns)
        got, want = cache.get_zone_interval(i), base.get_zone_interval(i)
        if got is not want:
            return {"key": "zone-cache-wrong-interval", "what": f"caching map over bounds {t[1]}: lookup {n} ({ns} ns) of history {t[2:]} returned {got!r}, the base map returns {want!r}"}
    return None


# ---- _Cache -----------------------------------------------------------------------------------

def lru_value(k):
    return k * 7 + 1


def impl_lru(t):
    from pyoda_time.utility._cache import _Cache
    calls = []
    c = _Cache(int(t[1]), lambda k: (calls.append(k), lru_value(k))[1])
    out = []
    for k in map(int, t[2:]):
        n = len(calls)
        try:
            c.get_or_add(k)
            out.append(f"{'H' if len(calls) == n else 'M'}:{c.count()}")
        except KeyError:
            out.append(f"E:{c.count()}")
    return " ".join(out) + " | " + " ".join(map(str, c.keys()))


def oracle_lru(t):
    from pyoda_time.utility._cache import _Cache
    size = int(t[1])
    if size < 1:
        return None
    c = _Cache(size, lru_value)
    for n, k in enumerate(map(int, t[2:])):
        v = c.get_or_add(k)
        if v != lru_value(k):
            return {"key": "lru-wrong-value", "what": f"_Cache({size}): get_or_add({k}) (op {n} of {t[2:]}) returned {v}, the factory gives {lru_value(k)}"}
        if c.count() > size:
            return {"key": "lru-over-size", "what": f"_Cache({size}) holds {c.count()} entries after {t[2:n + 3]}"}
    return None


# ---- forced schedule on the real DateTimeZoneCache -------------------------------------------

class BlockingSource:
    """an IDateTimeZoneSource whose for_id parks the caller until released: lets the harness hold several
    threads between the 'absent?' check and the store of DateTimeZoneCache, if the cache lets them in"""

    version_id = "verif-blocking-source"

    def __init__(self, zone_id):
        self.zone_id = zone_id
        self.entered = threading.Semaphore(0)
        self.release = threading.Event()
        self.created = 0

    def get_ids(self):
        return [self.zone_id]

    def get_system_default_id(self):
        return None

    def for_id(self, id_):
        from pyoda_time.time_zones._tzdb_date_time_zone_source import TzdbDateTimeZoneSource
        self.entered.release()
        self.release.wait(10)
        self.created += 1
        return TzdbDateTimeZoneSource.default.for_id(id_)


def force_schedule(n, zone_id="Europe/Paris", patience=0.25):
    """n threads look `zone_id` up in one fresh DateTimeZoneCache; each is held inside the source's for_id
    until all that can get there have arrived. -> (distinct objects returned, objects created)"""
    from pyoda_time.time_zones import DateTimeZoneCache
    src = BlockingSource(zone_id)
    cache = DateTimeZoneCache(src)
    out = [None] * n

    def work(i):
        out[i] = cache[zone_id]

    ts = [threading.Thread(target=work, args=(i,), daemon=True) for i in range(n)]
    for i, th in enumerate(ts):
        th.start()
        if not src.entered.acquire(timeout=5 if i == 0 else patience):
            if i == 0:
                raise RuntimeError("first thread never reached the source")
    src.release.set()
    for th in ts:
        th.join(20)
    return len({id(o) for o in out}), src.created


def impl_lazy_force(t):
    objs, created = force_schedule(int(t[1]))
    return f"objects={objs} created={created}"


def oracle_lazy_force(t):
    n = int(t[1])
    objs, created = force_schedule(n)
    if objs != 1:
        return {"key": "lazy-zone-not-singleton-forced", "what": f"DateTimeZoneCache over a slow source: {n} threads that all look up 'Europe/Paris' before the first creation finishes are all let through the absent-check (no lock): {created} zones created, {objs} distinct objects returned for one id"}
    return None


IMPLS = {"ycache.run": impl_ycache, "hcache.run": impl_hcache, "zcache.run": impl_zcache, "lru.run": impl_lru,
         "lazy.force": impl_lazy_force}
ORACLES = {"ycache.run": oracle_ycache, "hcache.run": oracle_hcache, "zcache.run": oracle_zcache, "lru.run": oracle_lru,
           "lazy.force": oracle_lazy_force}


def impl(t):
    return IMPLS[t[0]](t)


def oracle(t):
    f = ORACLES.get(t[0])
    return f(t) if f else None


# ---------------------------------------------------------------------------------------------
# (S) direct oracles on the shared objects
# ---------------------------------------------------------------------------------------------

def run_cal_op(k, op):
    from pyoda_time._year_month_day import _YearMonthDay
    a = op.split(":")
    v = [int(x) for x in a[1:]]
    if a[0] == "s":
        return k._get_start_of_year_in_days(v[0])
    if a[0] == "n":
        return k._get_days_in_year(v[0])
    if a[0] == "d":
        r = k._get_year_month_day(days_since_epoch=v[0])
        return (r._year, r._month, r._day)
    if a[0] == "e":
        return k._get_days_since_epoch(_YearMonthDay._ctor(year=v[0], month=v[1], day=v[2]))
    raise ValueError(op)


def check_calhist(case):
    """`calhist <calhex> op op ...` on the shared singleton calculator against the cache-free reference"""
    t = case.split(" ")
    cid = unhex(t[1])
    shared, ref = calc_of(cid), ref_calc(cid)
    for n, op in enumerate(t[2:]):
        got, want = run_cal_op(shared, op), run_cal_op(ref, op)
        if got != want:
            return {"key": "calendar-history-dependent", "what": f"{cid}: op {op} after history {t[2:n + 2]} on the shared calculator gives {got}; the same query with the cache disabled gives {want}"}
    return None


def check_hebhist(case):
    t = case.split(" ")
    for y in map(int, t[1:]):
        f = heb_check(y)
        if f:
            f["what"] += f" (history {t[1:]})"
            return f
    return None


def tzdb():
    return _P().DateTimeZoneProviders.tzdb


def check_zonehist(case):
    """`zonehist <idhex> t t t ...` (ns): cached wrapper against the zone it wraps"""
    t = case.split(" ")
    zid = unhex(t[1])
    z = tzdb()[zid]
    inner = getattr(z, "_time_zone", None)
    if inner is None:
        return None
    for n, ns in enumerate(map(int, t[2:])):
        i = inst_ns(ns)
        got, want = z.get_zone_interval(i), inner.get_zone_interval(i)
        if got != want:
            return {"key": "zone-cache-wrong-interval", "what": f"{zid}: cached zone at {ns} ns (lookup {n} of {t[2:]}) returns {got!r}; the wrapped zone returns {want!r}"}
        if z.get_utc_offset(i) != inner.get_utc_offset(i):
            return {"key": "zone-cache-wrong-interval", "what": f"{zid}: get_utc_offset differs at {ns} ns"}
    return None


def fmt_fingerprint(fi):
    return (fi.culture_info.name, tuple(fi.long_month_names), tuple(fi.short_day_names), fi.am_designator, fi.pm_designator,
            fi.date_separator, fi.time_separator)


def check_formatinfo(case):
    """`formatinfo <n> <seed>`: n (> 500) distinct cultures through the 500-entry cache, then the first ones again"""
    from pyoda_time._compatibility._culture_info import CultureInfo
    from pyoda_time._compatibility._culture_types import CultureTypes
    from pyoda_time.globalization._pyoda_format_info import _PyodaFormatInfo as F
    import random
    _, n, seed = case.split(" ")
    names = sorted(c.name for c in CultureInfo.get_cultures(CultureTypes.ALL_CULTURES) if c.name)
    random.Random(int(seed)).shuffle(names)
    names = names[:int(n)]
    order = names + names[:40] + names[::-7][:60]
    fresh = {}
    for nm in order:
        ci = CultureInfo.get_culture_info(nm)
        if ci is not CultureInfo.get_culture_info(nm):
            return {"key": "culture-not-cached", "what": f"get_culture_info({nm!r}) returned two objects"}
        got = fmt_fingerprint(F._get_format_info(ci))
        if nm not in fresh:
            fresh[nm] = fmt_fingerprint(F(ci))
        if got != fresh[nm]:
            return {"key": "formatinfo-cache-wrong", "what": f"format info of {nm!r} through the cache (after {len(fresh)} distinct cultures) = {got}, freshly built = {fresh[nm]}"}
    cache = F._PyodaFormatInfo__CACHE
    if cache.count() > 500:
        return {"key": "lru-over-size", "what": f"format-info cache holds {cache.count()} entries"}
    return None


def check_fmthistory(case):
    """`fmthist <seed>`: format-info / pattern answers of a culture asked AFTER other cultures (this process) against
    the answers of a fresh interpreter that asked nothing before; then a mutable culture customised after/without
    an earlier lookup"""
    import json
    import os
    import random
    import subprocess
    import sys
    import c13_fmt
    from pyoda_time._compatibility._culture_info import CultureInfo
    seed = int(case.split(" ")[1])
    rng = random.Random(seed)
    want = ["fr-FR", "de-DE", "en-US", "he-IL", "", "ja-JP", "ar-SA", "fa-IR", "fi-FI", "th-TH", "es-CL", "hi-IN", "ru-RU"]
    avail = []
    for n in want:
        try:
            if n == "" or CultureInfo.get_culture_info(n) is not None:
                avail.append(n)
        except Exception:  # noqa: BLE001
            pass
    rng.shuffle(avail)
    seq = avail[:5]
    here = os.path.dirname(os.path.abspath(c13_fmt.__file__))
    for pos, name in enumerate(seq):
        got = c13_fmt.answers(name)
        p = subprocess.run([sys.executable, os.path.join(here, "c13_fmt.py"), name], capture_output=True, text=True, timeout=120,
                           env=dict(os.environ, PYODA_REPO=str(common_repo())))
        if p.returncode != 0:
            raise RuntimeError("child interpreter failed: " + p.stderr[-300:])
        fresh = json.loads(p.stdout)
        got = json.loads(json.dumps(got, ensure_ascii=True, sort_keys=True))
        if got != fresh:
            diff = [k for k in fresh if fresh[k] != got.get(k)]
            k = diff[0]
            return {"key": "formatinfo-history-dependent",
                    "what": f"culture {name!r} asked after {seq[:pos]}: {k} = {json.dumps(got[k])[:300]}; a fresh interpreter answers {json.dumps(fresh[k])[:300]}"}
    for name in [n for n in seq if n][:2]:
        a = c13_fmt.mutable_scenario(name, True)
        b = c13_fmt.mutable_scenario(name, False)
        if a != b:
            return {"key": "formatinfo-mutable-culture-stale",
                    "what": f"a mutable clone of {name!r} customised AFTER a lookup answers {a}; customised without an earlier lookup: {b}"}
        a = c13_fmt.readonly_snapshot_scenario(name, True)
        b = c13_fmt.readonly_snapshot_scenario(name, False)
        if a != b:
            return {"key": "read-only-snapshot-stale",
                    "what": f"a mutable clone of {name!r}: CultureInfo.read_only() taken after customising answers {a} when a read-only view had been "
                            f"taken and used before the customisation; without that earlier view: {b}"}
    # pattern texts a cache key might identify: created in both orders, each order in its own fresh interpreter
    for name in [n for n in seq if n][:1]:
        res = []
        for order in (0, 1):
            p = subprocess.run([sys.executable, os.path.join(here, "c13_fmt.py"), "near", name, str(order)], capture_output=True, text=True, timeout=120,
                               env=dict(os.environ, PYODA_REPO=str(common_repo())))
            if p.returncode != 0:
                raise RuntimeError("child interpreter failed: " + p.stderr[-300:])
            res.append(json.loads(p.stdout))
        if res[0] != res[1]:
            k = [k for k in res[0] if res[0][k] != res[1].get(k)][0]
            return {"key": "pattern-meaning-depends-on-earlier-pattern",
                    "what": f"culture {name!r}, pattern {k!r}: {res[0][k]} when created before its near twin, {res[1][k]} when created after it "
                            f"(near twins: {[(a, b) for _, a, b in c13_fmt.NEAR_PATTERNS if k.split('|', 1)[1] in (a, b)]})"}
    return None


def check_two_sources(case):
    """`twosources <seed>`: two time-zone providers over two data files with the same zone ids (the shipped tz database
    and the 2013b file of the test data), used one after the other in this process. What each provider's zones answer
    must be what a fresh interpreter that only ever loaded that one file answers - wrappers, caches and memos must not
    be shared between zones that merely have the same id."""
    import json
    import os
    import random
    import subprocess
    import sys
    import twosrc_child
    seed = int(case.split(" ")[1])
    rng = random.Random(seed)
    repo = common_repo()
    pa, pb = repo / "pyoda_time" / "time_zones" / "Tzdb.nzd", repo / "tests" / "test_data" / "Tzdb2013bFromNodaTime1.1.nzd"
    if not (pa.exists() and pb.exists()):
        return None
    from pyoda_time.time_zones._tzdb_date_time_zone_source import TzdbDateTimeZoneSource
    with open(pb, "rb") as f:
        ids_b = set(TzdbDateTimeZoneSource.from_stream(f).get_ids())
    ids = sorted(set(TzdbDateTimeZoneSource.default.get_ids()) & ids_b)
    ids = rng.sample(ids, min(len(ids), 40))
    probes = [(y, m) for y in (1950, 1995, 2011, 2014, 2016, 2019, 2022, 2030) for m in (1, 4, 7, 10, 11)]
    here = os.path.dirname(os.path.abspath(twosrc_child.__file__))
    order = [("A", pa), ("B", pb)] if rng.random() < 0.5 else [("B", pb), ("A", pa)]
    for tag, path in order:
        got = twosrc_child.answers(str(path), ids, probes)            # in this process, after whatever was loaded before
        p = subprocess.run([sys.executable, os.path.join(here, "twosrc_child.py")], input=json.dumps({"path": str(path), "ids": ids, "probes": probes}),
                           capture_output=True, text=True, timeout=300, env=dict(os.environ, PYODA_REPO=str(repo)))
        if p.returncode != 0:
            raise RuntimeError("child interpreter failed: " + p.stderr[-300:])
        fresh = json.loads(p.stdout)
        got = json.loads(json.dumps(got))
        for zid in ids:
            if got[zid] != fresh[zid]:
                k = next(i for i in range(len(probes)) if got[zid][i] != fresh[zid][i])
                return {"key": "provider-zone-depends-on-other-source", "what": f"zone {zid!r} from file {tag} ({path.name}), loaded in the order {[t for t, _ in order]}: at "
                        f"{probes[k][0]}-{probes[k][1]:02d}-15T12:00Z it answers {got[zid][k]}; an interpreter that loaded only this file answers {fresh[zid][k]}"}
    return None


def check_culture_case_history(case):
    """`culturecase <Name> <name>`: what CultureInfo(name) is must not depend on whether the same culture was asked before
    under another capitalisation (the culture-data cache is keyed by the lower-cased name), and a real culture name
    must not come back as the invariant culture"""
    import json
    import os
    import subprocess
    import sys
    _, first, name = case.split(" ")
    here = os.path.dirname(os.path.abspath(__file__))

    def child(a, b):
        p = subprocess.run([sys.executable, os.path.join(here, "fresh_child.py"), "culture-case", a, b], capture_output=True, text=True,
                           timeout=120, env=dict(os.environ, PYODA_REPO=str(common_repo())))
        if p.returncode != 0:
            raise RuntimeError("child interpreter failed: " + p.stderr[-300:])
        return json.loads(p.stdout)
    with_first, alone = child(first, name), child("-", name)
    if with_first != alone:
        return {"key": "culture-lookup-depends-on-earlier-capitalisation",
                "what": f"CultureInfo({name!r}) is {alone} in a fresh process but {with_first} after CultureInfo({first!r}) was constructed first"}
    return None


def check_fixed_zone_history(case):
    """DateTimeZone.for_offset(o) is one object per offset with one id: the id must not depend on which culture was
    current when the process-wide fixed-zone cache was first filled (fresh interpreter: first use under the culture,
    asked again under the invariant culture, compared with a fresh interpreter that only ever used the invariant one)"""
    import json
    import os
    import subprocess
    import sys
    name, offs = case.split(" ")[1], [int(x) for x in case.split(" ")[2:]]
    here = os.path.dirname(os.path.abspath(__file__))

    def child(n):
        p = subprocess.run([sys.executable, os.path.join(here, "fixedid_child.py"), n] + [str(o) for o in offs],
                           capture_output=True, text=True, timeout=120, env=dict(os.environ, PYODA_REPO=str(common_repo())))
        if p.returncode != 0:
            raise RuntimeError("child interpreter failed: " + p.stderr[-300:])
        return json.loads(p.stdout)
    a, b = child(name), child("")
    for o in a:
        if a[o][:2] != b[o][:2]:
            return {"key": "fixed-zone-id-depends-on-current-culture",
                    "what": f"DateTimeZone.for_offset({o} s).id is {a[o][0]!r} when first used under current culture {name!r} and {a[o][1]!r} when "
                            f"asked again under the invariant culture; a process that never left the invariant culture gets {b[o][0]!r}"}
    return None


def common_repo():
    import common
    return common.REPO


def check_provider(case):
    """`provider <seed> <n>`: shuffled repeated lookups return the same object per key"""
    import random
    P = _P()
    _, seed, n = case.split(" ")
    rng = random.Random(int(seed))
    prov = tzdb()
    ids = rng.sample(sorted(prov.ids), int(n))
    first = {}
    order = ids * 3
    rng.shuffle(order)
    for zid in order:
        z = prov[zid] if rng.random() < 0.5 else prov.get_zone_or_none(zid)
        if first.setdefault(zid, z) is not z:
            return {"key": "provider-not-same-object", "what": f"tzdb[{zid!r}] returned a different object on a repeated lookup"}
        if z.id != zid:
            return {"key": "provider-wrong-zone", "what": f"tzdb[{zid!r}].id = {z.id!r}"}
    if P.DateTimeZoneProviders.tzdb is not prov:
        return {"key": "provider-not-same-object", "what": "DateTimeZoneProviders.tzdb returned a different provider"}
    cids = cal_ids() * 2
    rng.shuffle(cids)
    cfirst = {}
    for cid in cids:
        c = P.CalendarSystem.for_id(cid)
        if cfirst.setdefault(cid, c) is not c or c.id != cid:
            return {"key": "lazy-calendar-not-singleton", "what": f"CalendarSystem.for_id({cid!r}) returned a different object on a repeated lookup"}
    if P.CalendarSystem.iso is not P.CalendarSystem.for_id("ISO") or P.CalendarSystem.gregorian is not P.CalendarSystem.for_id("Gregorian"):
        return {"key": "lazy-calendar-not-singleton", "what": "named calendar property differs from for_id"}
    if P.DateTimeZone.utc is not P.DateTimeZone.utc:
        return {"key": "lazy-utc-not-singleton", "what": "DateTimeZone.utc returned two objects"}
    for h2 in rng.sample(range(-24, 31), 12):
        o = P.Offset.from_seconds(h2 * 1800)
        if P.DateTimeZone.for_offset(o) is not P.DateTimeZone.for_offset(o):
            return {"key": "lazy-fixed-zone-not-singleton", "what": f"for_offset({h2 * 1800}s) returned two objects sequentially"}
    return None


# ---------------------------------------------------------------------------------------------
# threads: the same histories split over n threads on the shared objects (supporting evidence)
# ---------------------------------------------------------------------------------------------

def run_threads(parts, fn):
    """parts: list (one per thread) of lists of items; returns list of lists of fn(item) (exceptions as strings)"""
    out = [None] * len(parts)
    bar = threading.Barrier(len(parts))

    def work(i):
        bar.wait()
        r = []
        for it in parts[i]:
            try:
                r.append(fn(it))
            except Exception as e:  # noqa: BLE001
                r.append("!" + type(e).__name__ + ":" + str(e)[:80])
        out[i] = r

    old = sys.getswitchinterval()
    sys.setswitchinterval(1e-6)
    try:
        ts = [threading.Thread(target=work, args=(i,)) for i in range(len(parts))]
        for th in ts:
            th.start()
        for th in ts:
            th.join()
    finally:
        sys.setswitchinterval(old)
    return out


def deal(items, n):
    return [items[i::n] for i in range(n)]


def check_threads(case):
    """`thr <n> cal <calhex> op...` | `thr <n> heb y...` | `thr <n> zone <idhex> t...` | `thr <n> lru <size> k...`"""
    t = case.split(" ")
    n, kind = int(t[1]), t[2]
    if kind == "cal":
        cid = unhex(t[3])
        shared, ref = calc_of(cid), ref_calc(cid)
        parts = deal(t[4:], n)
        got = run_threads(parts, lambda op: run_cal_op(shared, op))
        for p, g in zip(parts, got):
            for op, v in zip(p, g):
                w = run_cal_op(ref, op)
                if v != w:
                    return {"key": "calendar-wrong-under-threads", "what": f"{cid}: {op} returned {v} with {n} threads sharing the calculator; cache-free answer {w}"}
        return None
    if kind == "heb":
        H = _heb()
        nc = H._HebrewScripturalCalculator__elapsed_days_no_cache
        parts = deal([int(y) for y in t[3:]], n)
        got = run_threads(parts, lambda y: (H._elapsed_days(y), H._days_in_year(y), H._days_in_month(y, 8), H._days_in_month(y, 9)))
        for p, g in zip(parts, got):
            for y, v in zip(p, g):
                diy = nc(y + 1) - nc(y)
                w = (nc(y), diy, 30 if diy % 10 == 5 else 29, 29 if diy % 10 == 3 else 30)
                if v != w:
                    return {"key": "hebrew-wrong-under-threads", "what": f"Hebrew year {y}: {v} with {n} threads; cache-free {w}"}
        return None
    if kind == "zone":
        zid = unhex(t[3])
        z = tzdb()[zid]
        inner = getattr(z, "_time_zone", None)
        if inner is None:
            return None
        parts = deal([int(x) for x in t[4:]], n)
        got = run_threads(parts, lambda ns: z.get_zone_interval(inst_ns(ns)))
        for p, g in zip(parts, got):
            for ns, v in zip(p, g):
                w = inner.get_zone_interval(inst_ns(ns))
                if v != w:
                    return {"key": "zone-wrong-under-threads", "what": f"{zid} at {ns} ns: {v!r} with {n} threads; wrapped zone gives {w!r}"}
        return None
    if kind == "lru":
        from pyoda_time.utility._cache import _Cache
        size = int(t[3])
        c = _Cache(size, lru_value)
        parts = deal([int(x) for x in t[4:]], n)
        got = run_threads(parts, c.get_or_add)
        for p, g in zip(parts, got):
            for k, v in zip(p, g):
                if v != lru_value(k):
                    return {"key": "lru-wrong-under-threads", "what": f"_Cache({size}).get_or_add({k}) = {v} with {n} threads"}
        if c.count() > size or len(set(c.keys())) != c.count():
            return {"key": "lru-over-size", "what": f"_Cache({size}) holds {c.count()} entries after a {n}-thread run"}
        return None
    if kind == "prov":
        prov = tzdb()
        ids = [unhex(x) for x in t[3:]]
        for zid in ids:
            prov[zid]  # loaded before the threads start: repeated lookups, not first use (that is the barrier suite)
        want = {zid: prov[zid] for zid in ids}
        parts = deal(ids * 4, n)
        got = run_threads(parts, lambda zid: prov[zid])
        for p, g in zip(parts, got):
            for zid, v in zip(p, g):
                if v is not want[zid]:
                    return {"key": "provider-not-same-object", "what": f"tzdb[{zid!r}] returned a different object with {n} threads"}
        return None
    raise ValueError(case)


# ---------------------------------------------------------------------------------------------
# barrier: concurrent FIRST use, in a forked child so that the key is pristine every time
# ---------------------------------------------------------------------------------------------

def in_child(fn, timeout=120):
    """run fn() in a forked copy of this (single-threaded) process; returns its JSON-able result"""
    r, w = os.pipe()
    sys.stdout.flush()
    sys.stderr.flush()
    pid = os.fork()
    if pid == 0:
        code = 0
        try:
            os.close(r)
            try:
                v = {"ok": fn()}
            except BaseException as e:  # noqa: BLE001
                v = {"error": f"{type(e).__name__}: {e}"}
            os.write(w, json.dumps(v).encode())
        except BaseException:  # noqa: BLE001
            code = 3
        finally:
            os._exit(code)
    os.close(w)
    data = b""
    while True:
        c = os.read(r, 65536)
        if not c:
            break
        data += c
    os.close(r)
    os.waitpid(pid, 0)
    v = json.loads(data or b'{"error": "child wrote nothing"}')
    if "error" in v:
        raise RuntimeError("barrier child failed: " + v["error"])
    return v["ok"]


def barrier_identities(fn, n=NTHREADS_BARRIER):
    """n threads, released together, each call fn() once; -> number of distinct objects returned"""
    bar = threading.Barrier(n)
    out = [None] * n

    def work(i):
        bar.wait()
        out[i] = fn()

    sys.setswitchinterval(1e-6)
    ts = [threading.Thread(target=work, args=(i,)) for i in range(n)]
    for th in ts:
        th.start()
    for th in ts:
        th.join()
    return len({id(o) for o in out})


def barrier_attempt(kind, key):
    """one attempt, in the calling process (must be a pristine child); -> {key: distinct objects} ; -1 = key not pristine"""
    P = _P()
    if kind == "zone":
        prov = P.DateTimeZoneProviders.tzdb
        if prov._DateTimeZoneCache__time_zone_map.get(key) is not None:
            return {key: -1}
        return {key: barrier_identities(lambda: prov[key])}
    if kind == "offset":
        if P.DateTimeZone._DateTimeZone__fixed_zone_cache is not None:
            return {key: -1}
        o = P.Offset.from_seconds(int(key))
        return {key: barrier_identities(lambda: P.DateTimeZone.for_offset(o))}
    if kind == "calendars":
        res = {}
        made = {c.id for c in P.CalendarSystem._CalendarSystem__CALENDAR_BY_ORDINAL.values()}
        for cid in cal_ids():
            res[cid] = -1 if cid in made and cid != "ISO" else barrier_identities(lambda c=cid: P.CalendarSystem.for_id(c))
            made = {c.id for c in P.CalendarSystem._CalendarSystem__CALENDAR_BY_ORDINAL.values()}
        return res
    if kind == "utc":
        return {"utc": barrier_identities(lambda: P.DateTimeZone.utc)}
    if kind == "tzdb":
        return {"tzdb": barrier_identities(lambda: P.DateTimeZoneProviders.tzdb)}
    raise ValueError(kind)


BARRIER_KEYS = {"zone": "lazy-zone-not-singleton", "offset": "lazy-fixed-zone-not-singleton",
                "calendars": "lazy-calendar-not-singleton", "utc": "lazy-utc-not-singleton", "tzdb": "lazy-provider-not-singleton"}
BARRIER_CALL = {"zone": "DateTimeZoneProviders.tzdb[{k!r}]", "offset": "DateTimeZone.for_offset(Offset.from_seconds({k}))",
                "calendars": "CalendarSystem.for_id({k!r})", "utc": "DateTimeZone.utc", "tzdb": "DateTimeZoneProviders.tzdb"}

_barrier_stats = {}


def check_barrier(case):
    """`barrier <kind> <keyhex> <attempt-no>`"""
    _, kind, key, _rep = case.split(" ")
    key = unhex(key)
    res = in_child(lambda: barrier_attempt(kind, key))
    st = _barrier_stats.setdefault(kind, {"attempts": 0, "keys": 0, "racy_keys": 0, "not_pristine": 0, "max_objects": 0})
    st["attempts"] += 1
    bad = {}
    for k, v in res.items():
        if v == -1:
            st["not_pristine"] += 1
            continue
        st["keys"] += 1
        st["max_objects"] = max(st["max_objects"], v)
        if v != 1:
            st["racy_keys"] += 1
            bad[k] = v
    if bad:
        k, v = next(iter(bad.items()))
        call = BARRIER_CALL[kind].format(k=k)
        more = f" (also: {bad})" if len(bad) > 1 else ""
        return {"key": BARRIER_KEYS[kind], "what": f"{NTHREADS_BARRIER} threads released from a barrier, each making the first {call} of the process, received {v} distinct objects{more}; lazy creation is check-then-create without a lock"}
    return None


# ---------------------------------------------------------------------------------------------
# generators
# ---------------------------------------------------------------------------------------------

def alias_years(rng, lo, hi, y0=None, kmax=None):
    """years in [lo, hi] sharing the slot of y0"""
    if y0 is None:
        y0 = rng.randint(lo, hi)
    ys = [y for y in range(lo + (y0 - lo) % 1024, hi + 1, 1024)]
    return ys


def colliding_year_history(rng, cid, n, allow_fast=True):
    lo, hi = year_range(cid)
    ys = []
    while len(ys) < n:
        al = alias_years(rng, lo, hi)
        c = rng.random()
        if c < 0.5 and len(al) >= 2:
            a, b = rng.sample(al, 2)
            ys += rng.choice([[a, b, a], [a, b, b, a], [b, a, b, a], [a, a + 1, b, b + 1, a]])
        elif c < 0.8:
            pick = rng.sample(al, min(len(al), rng.randint(1, 6)))
            ys += pick + pick[::-1]
        else:
            ys += [rng.randint(lo, hi), lo, hi, rng.choice([lo, hi, rng.randint(lo, hi)])]
    ys = [min(hi, max(lo, y)) for y in ys][:n]
    if not allow_fast:
        ys = [y for y in ys if not greg_fast(cid, y)] or [lo]
    return ys


def all_distance_pairs(rng, cid):
    """for every alias distance k*1024 inside the year range, one pair, queried in both orders"""
    lo, hi = year_range(cid)
    out = []
    k = 1
    while lo + k * 1024 <= hi:
        a = rng.randint(lo, hi - k * 1024)
        out.append((a, a + k * 1024))
        k += 1
    return out


def gen_ycache_ops(ctx, per_cal):
    rng = ctx.rng
    ops = []
    for cid in cal_ids():
        if not uses_base_cache(calc_of(cid)):
            continue
        h = hexs(cid)
        for a, b in all_distance_pairs(rng, cid):
            if greg_fast(cid, a) or greg_fast(cid, b):
                continue
            ops.append(f"ycache.run {h} {a} {b} {a} {b}")
            ops.append(f"ycache.run {h} {b} {a} {a} {b} {b}")
        for _ in range(per_cal):
            ys = colliding_year_history(rng, cid, rng.choice([6, 12, 30, 60]), allow_fast=False)
            ops.append(f"ycache.run {h} " + " ".join(map(str, ys)))
    ops.append("ycache.run " + hexs("Julian") + " 5 1029 5 -1019 -9997 -1 0 1 1023 1024 9998 9999")
    return ops


def gen_hcache_ops(ctx, n):
    rng = ctx.rng
    ops = ["hcache.run 5 1029 5 1028 4 1029 2053 5", "hcache.run 1 9999 9998 9997 1 2 1025 1026 1024 1023 0 -1 10000 10001 -5 9999"]
    for k in range(1, 10):
        a = rng.randint(1, 9999 - k * 1024)
        b = a + k * 1024
        ops.append(f"hcache.run {a} {b} {a} {b - 1} {a - 1 if a > 1 else a} {b} {a + 1} {b + 1}")
    for _ in range(n):
        ys = []
        for _ in range(rng.choice([3, 6, 12])):
            y0 = rng.randint(1, 9999)
            al = alias_years(rng, 1, 9999, y0)
            a, b = rng.choice(al), rng.choice(al)
            ys += rng.choice([[a, b, a], [a - 1, b, a, b - 1], [a + 1, a, b + 1, b, a], [b, a - 1, b - 1, a]])
        ys = [min(10001, max(-3, y)) for y in ys]
        ops.append("hcache.run " + " ".join(map(str, ys)))
    return ops


def gen_bounds(rng):
    """boundaries of a synthetic zone: sparse, dense (many inside one 32-day period), on period edges"""
    c = rng.random()
    lo, hi = INST_MIN_NS + 1, INST_MAX_NS
    pts = set()
    if c < 0.1:
        return []
    centre = rng.choice([0, rng.randint(-60000, 60000), IMIN_D + rng.randint(0, 40), IMAX_D - rng.randint(0, 40)])
    n = rng.choice([1, 2, 5, 12, 40])
    for _ in range(n):
        d = centre + rng.choice([0, 0, 1, -1, 31, 32, 33, -32, SLOT_DAYS, -SLOT_DAYS, SLOT_DAYS + 32, rng.randint(-70, 70), rng.randint(-40000, 40000)])
        if rng.random() < 0.5:
            d = (d >> 5) << 5
        ns = d * NPD + rng.choice([0, 0, 1, -1, NPD - 1, rng.randint(0, NPD - 1)])
        if c > 0.8:
            ns += rng.randint(0, 50)      # clusters a few ns apart
        if lo <= ns <= hi:
            pts.add(ns)
    return sorted(pts)


def gen_zcache_ops(ctx, n):
    rng = ctx.rng
    ops = [f"zcache.run - 0 {SLOT_DAYS * NPD} 0 {-SLOT_DAYS * NPD} 0",
           f"zcache.run {10 * NPD},{SLOT_DAYS * NPD + 5} 0 {SLOT_DAYS * NPD} 0 {SLOT_DAYS * NPD + 5} {10 * NPD - 1} {INST_MIN_NS} {INST_MAX_NS} {INST_MIN_NS}"]
    for _ in range(n):
        b = gen_bounds(rng)
        ts = []
        anchors = (b or [0]) + [INST_MIN_NS, INST_MAX_NS]
        for _ in range(rng.choice([4, 8, 16])):
            a = rng.choice(anchors) + rng.choice([0, -1, 1, rng.randint(-3 * NPD, 3 * NPD), rng.randint(-40 * NPD, 40 * NPD)])
            k = rng.choice([1, 1, -1, 2, -2, 3])
            ts += rng.choice([[a, a + k * SLOT_DAYS * NPD, a], [a + k * SLOT_DAYS * NPD, a, a + k * SLOT_DAYS * NPD + 1], [a, a - 1, a + 32 * NPD]])
        ts = [min(INST_MAX_NS, max(INST_MIN_NS, x)) for x in ts]
        ops.append("zcache.run " + (",".join(map(str, b)) or "-") + " " + " ".join(map(str, ts)))
    return ops


def gen_lru_ops(ctx, n):
    rng = ctx.rng
    ops = ["lru.run 500 " + " ".join(map(str, list(range(1, 521)) + [1, 2, 520, 21, 20])),
           "lru.run 1 1 1 2 2 1", "lru.run 0 1 2 1", "lru.run 3 1 2 3 1 4 1 2 5 3 3"]
    for _ in range(n):
        size = rng.choice([1, 2, 3, 5, 8, 20])
        keys = [rng.randint(0, size + rng.choice([0, 1, 2, size])) for _ in range(rng.choice([5, 20, 60]))]
        ops.append(f"lru.run {size} " + " ".join(map(str, keys)))
    return ops


def gen_calhist(ctx, per_cal, length):
    rng = ctx.rng
    P = _P()
    cases = []
    for cid in cal_ids():
        cal = P.CalendarSystem.for_id(cid)
        ref = ref_calc(cid)
        lo, hi = cal.min_year, cal.max_year
        h = hexs(cid)
        pairs = all_distance_pairs(rng, cid)
        hist = []
        for a, b in pairs:
            hist += [f"s:{a}", f"s:{b}", f"s:{a}", f"s:{b}"]
        cases.append(f"calhist {h} " + " ".join(hist or ["s:" + str(lo)]))
        for _ in range(per_cal):
            ops = []
            for y in colliding_year_history(rng, cid, length):
                c = rng.random()
                yy = min(hi, max(lo, y))
                if c < 0.3:
                    ops.append(f"s:{y}")
                elif c < 0.4:
                    ops.append(f"n:{yy}")
                elif c < 0.75:
                    d = ref._get_start_of_year_in_days(yy) + rng.choice([0, 0, 1, rng.randint(0, 353), -1 if yy > lo else 0])
                    ops.append(f"d:{min(cal._max_days, max(cal._min_days, d))}")
                else:
                    m = rng.randint(1, ref._get_months_in_year(yy))
                    ops.append(f"e:{yy}:{m}:{rng.randint(1, ref._get_days_in_month(yy, m))}")
            cases.append(f"calhist {h} " + " ".join(ops))
    return cases


def zone_probe_history(rng, zid, n_anchor):
    """instants around transitions of the zone and 16 384 days (512 periods) either side, both orders"""
    z = tzdb()[zid]
    inner = getattr(z, "_time_zone", z)
    ts = []
    for _ in range(n_anchor):
        a = rng.choice([rng.randint(-120 * 365, 70 * 365) * NPD, rng.randint(INST_MIN_NS, INST_MAX_NS), INST_MIN_NS, INST_MAX_NS, 0])
        iv = inner.get_zone_interval(inst_ns(a))
        e = ns_of(iv._raw_end) if iv.has_end else a
        s = ns_of(iv._raw_start) if iv.has_start else a
        x = rng.choice([e, s])
        k = rng.choice([1, -1, 2, -3]) * SLOT_DAYS * NPD
        ts += rng.choice([[x, x + k, x - 1, x + k - 1, x], [x + k, x, x + k, x - 1], [x - 1, x, x + 1, x + k + 1, x + 1, x - k]])
    return [min(INST_MAX_NS, max(INST_MIN_NS, v)) for v in ts]


def gen_zonehist(ctx, n_zones, n_anchor):
    rng = ctx.rng
    ids = sorted(tzdb().ids)
    pick = ids if n_zones >= len(ids) else rng.sample(ids, n_zones)
    for must in ("Europe/London", "America/Sao_Paulo", "Asia/Tehran", "Africa/Casablanca"):
        if must in ids and must not in pick:
            pick.append(must)
    return [f"zonehist {hexs(z)} " + " ".join(map(str, zone_probe_history(rng, z, n_anchor))) for z in pick]


# ---------------------------------------------------------------------------------------------
# run
# ---------------------------------------------------------------------------------------------

def run(ctx):
    rng = ctx.rng
    P = _P()
    prov = tzdb()
    ids = sorted(prov.ids)
    timing = {}
    ctx.note("wall_s_by_suite", timing)
    _corr, _cases = ctx.correspond, ctx.check_cases

    def correspond(name, *a, **k):
        t = time.time()
        r = _corr(name, *a, **k)
        timing[name] = round(time.time() - t, 1)
        return r

    def check_cases(name, *a, **k):
        t = time.time()
        r = _cases(name, *a, **k)
        timing[name] = round(time.time() - t, 1)
        return r

    # ---- concurrent first use: before anything else touches zones / fixed offsets / calendars
    loaded = {k for k, v in prov._DateTimeZoneCache__time_zone_map.items() if v is not None}
    fresh_ids = [z for z in ids if z not in loaded and not z.startswith("Etc/") and z != "UTC"]
    rng.shuffle(fresh_ids)
    n_zone = ctx.scale(8, 120)
    cases = []
    for r, z in enumerate(fresh_ids[:n_zone]):
        cases.append(f"barrier zone {hexs(z)} {r}")
    for r in range(ctx.scale(2, 12)):
        cases.append(f"barrier offset {hexs(str(rng.choice([3, -5, 11, 29, -23]) * 1800))} {r}")
    for r in range(ctx.scale(2, 20)):
        cases.append(f"barrier calendars - {r}")
    for r in range(ctx.scale(2, 10)):
        cases.append(f"barrier utc - {r}")
        cases.append(f"barrier tzdb - {r}")
    t0 = time.time()
    check_cases("barrier.first_use", cases, check_barrier)
    ctx.note("barrier", {"threads": NTHREADS_BARRIER, "wall_s": round(time.time() - t0, 1), "by_kind": _barrier_stats})

    def _section_1():  # deterministic witness + model of the intended (locked) lazy creation
        correspond("lazy.force", ["lazy.force 2", "lazy.force 3"], impl, oracle=oracle)

    def _section_2():  # caches against their models
        yops = gen_ycache_ops(ctx, ctx.scale(100, 3000))
        correspond("ycache.run", yops, impl, oracle=oracle)
        ctx.evaluations += sum(len(o.split(" ")) - 3 for o in yops)
        hops = gen_hcache_ops(ctx, ctx.scale(2000, 60000))
        correspond("hcache.run", hops, impl, oracle=oracle)
        ctx.evaluations += sum(len(o.split(" ")) - 2 for o in hops)
        zops = gen_zcache_ops(ctx, ctx.scale(3000, 100000))
        correspond("zcache.run", zops, impl, oracle=oracle)
        ctx.evaluations += sum(len(o.split(" ")) - 3 for o in zops)
        lops = gen_lru_ops(ctx, ctx.scale(2500, 60000))
        correspond("lru.run", lops, impl, oracle=oracle)
        ctx.evaluations += sum(len(o.split(" ")) - 3 for o in lops)
        ctx.distinct.update(("hist", o) for o in yops + hops + zops + lops)

    def _section_3():  # direct oracles on the shared objects
        ch = gen_calhist(ctx, ctx.scale(100, 3000), 40)
        check_cases("calendar.history", ch, check_calhist)
        ctx.evaluations += sum(len(c.split(" ")) - 3 for c in ch)
        hh = [o.replace("hcache.run", "hebhist") for o in gen_hcache_ops(ctx, ctx.scale(1500, 40000))]
        check_cases("hebrew.history", hh, check_hebhist)
        zh = gen_zonehist(ctx, ctx.scale(150, 10000), ctx.scale(10, 60))
        check_cases("zone.history", zh, check_zonehist)
        ctx.evaluations += sum(len(c.split(" ")) - 3 for c in zh)
        check_cases("provider.identity", [f"provider {rng.randint(0, 10**6)} {ctx.scale(60, 400)}" for _ in range(ctx.scale(2, 5))], check_provider)
        check_cases("provider.two-sources-same-ids", [f"twosources {rng.randint(0, 10**6)}" for _ in range(ctx.scale(1, 6))], check_two_sources)
        try:
            from pyoda_time._compatibility._culture_info import CultureInfo
            from pyoda_time._compatibility._culture_types import CultureTypes
            n_cult = len([c for c in CultureInfo.get_cultures(CultureTypes.ALL_CULTURES) if c.name])
        except Exception:  # noqa: BLE001
            n_cult = 0
        if n_cult > 520:
            check_cases("formatinfo.cache", [f"formatinfo {ctx.scale(520, 800)} {rng.randint(0, 10**6)}"], check_formatinfo)
            check_cases("fixed-zone.current-culture-history", ["fixedzone fi-FI 19800 20700 45 -3600", "fixedzone da-DK 1800 -12600 64799"],
                        check_fixed_zone_history)
            check_cases("culture.name-case-history", ["culturecase Cs-CZ cs-CZ", "culturecase FR-fr fr-FR", "culturecase Ca-ES ca-ES", "culturecase CY-GB cy-GB"],
                        check_culture_case_history)
            check_cases("formatinfo.history", [f"fmthist {rng.randint(0, 10**6)}" for _ in range(ctx.scale(2, 12))], check_fmthistory)
            import c07
            check_cases("culture.calendar-switch-history", ["calswitch " + n for n in c07.calendar_switch_cases(ctx)[:ctx.scale(8, 60)]],
                        lambda c: c07.oracle_calendar_switch(c.split(" ", 1)[1]))
            ctx.evaluations += 620
        else:
            ctx.note("formatinfo.cache", f"skipped: only {n_cult} cultures available (ICU stub); the bound of _Cache is covered by lru.run")
            ctx.assumptions.append("format-info cache not exercised with > 500 cultures (ICU data not available)")

    def _section_4():  # threads (supporting evidence)
        tc = []
        for n in (2, 4, 8, 16):
            for cid in rng.sample(cal_ids(), ctx.scale(8, 19)):
                one = gen_calhist_one(ctx, cid, ctx.scale(400, 4000))
                tc.append(f"thr {n} cal {hexs(cid)} " + " ".join(one))
            ys = " ".join(" ".join(o.split(" ")[1:]) for o in gen_hcache_ops(ctx, ctx.scale(10, 200)))
            tc.append(f"thr {n} heb {ys}")
            for z in rng.sample(ids, ctx.scale(4, 20)):
                tc.append(f"thr {n} zone {hexs(z)} " + " ".join(map(str, zone_probe_history(rng, z, ctx.scale(40, 200)))))
            size = rng.choice([2, 5, 50])
            tc.append(f"thr {n} lru {size} " + " ".join(str(rng.randint(0, 2 * size)) for _ in range(ctx.scale(400, 5000))))
            tc.append(f"thr {n} prov " + " ".join(hexs(z) for z in rng.sample(ids, 6)))
        check_cases("threads.shared_objects", tc, check_threads)
        ctx.evaluations += sum(len(c.split(" ")) - 4 for c in tc)

    for _fn in (_section_1, _section_2, _section_3, _section_4):
        try:
            _fn()
        except common.InfraError:
            raise
        except Exception as e:  # noqa: BLE001  (the library raised while a history was being generated)
            import traceback
            ctx.add_failure({"key": "library-raised", "what": f"{type(e).__name__}: {e} while preparing/running section {_fn.__name__}", "trace": traceback.format_exc()[-1200:]}, op=_fn.__name__, source="run")


def gen_calhist_one(ctx, cid, length):
    rng = ctx.rng
    P = _P()
    cal = P.CalendarSystem.for_id(cid)
    ref = ref_calc(cid)
    lo, hi = cal.min_year, cal.max_year
    ops = []
    for y in colliding_year_history(rng, cid, length):
        c = rng.random()
        yy = min(hi, max(lo, y))
        if c < 0.4:
            ops.append(f"s:{y}")
        elif c < 0.8:
            d = ref._get_start_of_year_in_days(yy) + rng.randint(0, 353)
            ops.append(f"d:{min(cal._max_days, max(cal._min_days, d))}")
        else:
            m = rng.randint(1, ref._get_months_in_year(yy))
            ops.append(f"e:{yy}:{m}:{rng.randint(1, ref._get_days_in_month(yy, m))}")
    return ops


CHECKS = {"barrier": None, "calhist": check_calhist, "hebhist": check_hebhist, "zonehist": check_zonehist,
          "formatinfo": check_formatinfo, "fmthist": check_fmthistory, "fixedzone": check_fixed_zone_history, "culturecase": check_culture_case_history, "provider": check_provider, "thr": check_threads,
          "twosources": check_two_sources, "calswitch": lambda c: __import__("c07").oracle_calendar_switch(c.split(" ", 1)[1])}


def replay_op(op, failure):
    t = op.split(" ")
    if t[0] == "barrier":
        # probabilistic: repeat the first-use attempt (each in a pristine forked child) until it shows
        for n in range(1, 41):
            f = check_barrier(op)
            if f:
                f["what"] += f" [seen on attempt {n}]"
                return f
        print("not reproduced in 40 attempts")
        return None
    if t[0] in CHECKS:
        return CHECKS[t[0]](op)
    return oracle(t)
