"""C17 — ISO patterns interoperate with other ISO-8601 implementations (the Python standard library)."""
from __future__ import annotations

import datetime as pydt
import re

NPD = 86_400_000_000_000
NPS = 1_000_000_000

META = {
    "property": "C17",
    "proof_modules": ["PyodaProofs.C17", "PyodaProofs.C17Read", "PyodaProofs.GenAgreeC07N"],
    "drivers": ["drv_text"],
    "theorems": [
        "Pyoda.C17.isoDate_fixed_width",
        "Pyoda.C17.isoDate_sign_width_rule",
        "Pyoda.C17.isoDate_eq_py",
        "Pyoda.C17.isoTime_fixed_width",
        "Pyoda.C17.isoDateTime_shape",
        "Pyoda.C17.fraction_no_trailing_zero",
        "Pyoda.C17.long_form_nine_digits",
        "Pyoda.C17.isoTimeGeneral_eq_py",
        "Pyoda.C17.isoTime_eq_py_of_micros",
        "Pyoda.C17.instant_ends_in_Z",
        "Pyoda.C17.offset_shape",
        "Pyoda.C17.offset_whole_minutes_eq_py",
        "Pyoda.C17.stdlib_reads_isoDate",
        "Pyoda.C17.stdlib_reads_isoTime",
        "Pyoda.C17.stdlib_reads_isoDateTime",
        "Pyoda.C17.stdlib_reads_isoInstant",
        "Pyoda.C17.stdlib_reads_offset",
        # agreement of the definitions generated from the Python source (tools/py2lean.py) with the model
        "Pyoda.GenAgree.C07N.gen_FormatHelper_leftPadNonNegative_eq",
        "Pyoda.GenAgree.C07N.gen_FormatHelper_leftPadNonNegative_dom",
        "Pyoda.GenAgree.C07N.gen_FormatHelper_format2DigitsNonNegative_eq",
        "Pyoda.GenAgree.C07N.gen_FormatHelper_format4DigitsValueFits_eq",
        "Pyoda.GenAgree.C07N.gen_FormatHelper_leftPad_eq", "Pyoda.GenAgree.C07N.gen_FormatHelper_appendFraction_eq",
        "Pyoda.GenAgree.C07N.gen_FormatHelper_formatInvariant_eq",
        "Pyoda.GenAgree.C07N.gen_FormatHelper_appendFractionTruncate_eq", "Pyoda.GenAgree.C07N.gen_Cursor_length_eq",
        "Pyoda.GenAgree.C07N.gen_Cursor_value_eq", "Pyoda.GenAgree.C07N.gen_Cursor_index_eq",
        "Pyoda.GenAgree.C07N.gen_Cursor_current_eq", "Pyoda.GenAgree.C07N.gen_Cursor_hasMoreCharacters_eq",
        "Pyoda.GenAgree.C07N.gen_Cursor_move_eq", "Pyoda.GenAgree.C07N.gen_Cursor_moveNext_eq",
        "Pyoda.GenAgree.C07N.gen_Cursor_movePrevious_eq", "Pyoda.GenAgree.C07N.gen_Cursor_parseDigits_eq",
        "Pyoda.GenAgree.C07N.gen_Cursor_parseDigits_model", "Pyoda.GenAgree.C07N.gen_Cursor_parseFraction_eq",
        "Pyoda.GenAgree.C07N.gen_Cursor_parseFraction_model", "Pyoda.GenAgree.C07N.gen_Cursor_matchText_eq",
        "Pyoda.GenAgree.C07N.gen_Cursor_matchText_rest", "Pyoda.GenAgree.C07N.gen_Cursor_getDigit_eq",
        "Pyoda.GenAgree.C07N.gen_Cursor_remainder_eq", "Pyoda.GenAgree.C07N.gen_Cursor_peekNext_eq",
        "Pyoda.GenAgree.C07N.gen_StringBuilder_length_eq", "Pyoda.GenAgree.C07N.gen_StringBuilder_getitem_eq",
        "Pyoda.GenAgree.C07N.gen_StringBuilder_toString_eq",
    ],
    "trusted_base": [
        "translator tie (tools/py2lean.py; GenAgreeC07N, builder T4): what Python's str operations mean is PyodaGen/TextSupport.lean — a str is the list of its code points, s[i] a character (negative indices from the end, IndexError outside), slices with Python's clamping, f\"{v:0N}\" / f\"{v:0{n}d}\" sign-aware zero padding (ValueError for n < 0), f\"{v:0>{n}}\" fill-right (a negative n = -k reads as sign option + width k), str(int), c.isdigit() as the table of CPython's 808 digit code points, int(c) only for '0'..'9', int(a * math.pow(10.0, k)) as the exact integer a*10^k ONLY where the double computation is exact (0 <= k <= 22, 0 <= a, a*10^k < 2^53) — outside these ranges, and for format widths above INT_MAX, the generated code answers 'outside the modelled domain'; all of it is compared with CPython on every run of the C03 check (tools/py2lean_selftest.py text_selftest: 25 corpus functions, every code point for isdigit, 21 must-refuse programs). The StringBuilder (append, length, item, length setter) and the four cursor attributes are explicit state (PyodaGen/GlueC07N.lean, the StringBuilder operations hand-written from _string_builder.py); the cursor methods themselves are translated",
        "CPython datetime.date/time/datetime isoformat()/fromisoformat() as the independent ISO-8601 reader/writer",
        "PyIso (Lean transcription of date.isoformat / time.isoformat) tied to CPython by suite text.pyiso",
        "PyIsoParse (Lean transcription of the fromisoformat readers of Lib/_pydatetime.py) tied to _pydatetime by suite text.pyparse.ref and to the C implementation that fromisoformat really runs by suite text.pyparse.c",
    ],
    "partial": [
        "translator tie covers the numeric core only: _FormatHelper (_left_pad_non_negative, _format_2_digits_non_negative, _format_4_digits_value_fits, _left_pad, _append_fraction, _append_fraction_truncate, _format_invariant) and _TextCursor/_ValueCursor (length, value, current, index, has_more_characters, remainder, peek_next, move, move_next, move_previous, _match, _parse_digits, _parse_fraction, __get_digit), each proved equal to the model of PyodaModel/Text/Numeric.lean on cursor states VC.at v i (text v, index i; remaining text v.drop i). Hypotheses: widths <= INT_MAX; |value| < 10^27 where _towards_zero_division (Decimal) is used; _parse_fraction for maximum_digits <= scale <= 15 (where the float scaling is exact); cursor index inside 0..len for the scanning functions. Outside the tie (refused by the translator, correspondence only): _parse_int64 and __build_number_out_of_range_result (walrus over a raising call under `and` in the loop test; ParseResult objects carrying formatted messages), _match_case_insensitive (str.lower), _compare_ordinal (str ordering of whole strings), __str__, the pattern compiler and every step built on top of these primitives",
        "theorems cover the modelled straight-line ISO formatters (ISO date, extended/long/general ISO time, date-time, instant over date-time fields, offset g/G); the generic step language is covered by the direct oracles only",
        "the stdlib readers are modelled from the pure-Python reference Lib/_pydatetime.py (theorems stdlib_reads_*); the C implementation (_datetime) is tied to that model by correspondence only, on every text the patterns or the stdlib write and on the hostile texts where both stdlib implementations agree (they differ on some malformed texts; the count is reported as a note)",
        "outside the reader model (!dom): the ISO week forms (YYYY-Www-D) and int() leniency of _pydatetime on non-digit slices (white space, underscore, sign, non-ASCII digits); the stdlib_reads_* theorems cover the extended / long / general time patterns, the extended / general date-time and instant patterns and offsets of whole minutes (g / G), not bcl_round_trip, variable_precision_iso or offsets with seconds (direct oracles only)",
        "Instant <-> (year, month, day) conversion is outside the Text model (day numbers are C01/C02); the harness passes date fields and checks day numbers against date.toordinal()",
    ],
    "rule": "distinct = distinct value per pattern (date / nanosecond-of-day / offset seconds / instant); non-trivial = every case formats, is read by the stdlib, is written by the stdlib and re-read by the pattern",
}


def _P():
    import pyoda_time as P
    return P


def _T():
    import pyoda_time.text as T
    return T


# ---------------------------------------------------------------------------------------------------
# independent reference renderings (plain Python, no pyoda code)
# ---------------------------------------------------------------------------------------------------

def ref_year(y: int) -> str:
    """`uuuu`: absolute year, at least four digits, '-' for negative years."""
    return ("-" if y < 0 else "") + "%04d" % abs(y)


def ref_date(y, m, d) -> str:
    return f"{ref_year(y)}-{m:02d}-{d:02d}"


def ref_frac(ns: int) -> str:
    """fraction without trailing zeros, '' when zero"""
    if ns == 0:
        return ""
    return "." + ("%09d" % ns).rstrip("0")


def split_nod(nod: int):
    h, r = divmod(nod, 3600 * NPS)
    mi, r = divmod(r, 60 * NPS)
    s, ns = divmod(r, NPS)
    return h, mi, s, ns


def ref_time(nod: int, kind: str) -> str:
    h, mi, s, ns = split_nod(nod)
    base = f"{h:02d}:{mi:02d}:{s:02d}"
    if kind == "ext":
        return base + ref_frac(ns)
    if kind == "long":
        return base + ".%09d" % ns
    if kind == "gen":
        return base
    if kind == "bcl":
        return base + ".%07d" % (ns // 100)
    raise ValueError(kind)


def ref_offset(sec: int, z: bool) -> str:
    if z and sec == 0:
        return "Z"
    a = abs(sec)
    h, r = divmod(a, 3600)
    mi, s = divmod(r, 60)
    out = ("+" if sec >= 0 else "-") + f"{h:02d}"
    if mi or s:
        out += f":{mi:02d}"
    if s:
        out += f":{s:02d}"
    return out


RE_DATE = re.compile(r"^\d{4}-\d{2}-\d{2}$")
RE_TIME_EXT = re.compile(r"^\d{2}:\d{2}:\d{2}(\.\d{0,8}[1-9])?$")
RE_TIME_LONG = re.compile(r"^\d{2}:\d{2}:\d{2}\.\d{9}$")
RE_TIME_GEN = re.compile(r"^\d{2}:\d{2}:\d{2}$")
RE_TIME_BCL = re.compile(r"^\d{2}:\d{2}:\d{2}\.\d{7}$")
RE_OFF = re.compile(r"^(Z|[+-]\d{2}(:\d{2}(:\d{2})?)?)$")


def fail(key, what):
    return {"key": key, "what": what}


# ---------------------------------------------------------------------------------------------------
# direct oracles
# ---------------------------------------------------------------------------------------------------

def parse_ok(pattern, text):
    """-> (value | None, description)"""
    try:
        r = pattern.parse(text)
    except Exception as e:  # noqa: BLE001
        return None, f"raised {type(e).__name__}: {e}"
    if not r.success:
        return None, "failure result"
    return r.value, "ok"


def oracle_date(case):
    """case = (y, m, d) with 1 <= y <= 9999 (shared domain) or beyond (sign/width rule only)."""
    y, m, d = case
    P, T = _P(), _T()
    v = P.LocalDate(y, m, d)
    pat = T.LocalDatePattern.iso
    s = pat.format(v)
    if s != ref_date(y, m, d):
        return fail("iso-date-format", f"LocalDatePattern.iso.format({y}-{m}-{d}) = {s!r}, ISO text is {ref_date(y, m, d)!r}")
    back, why = parse_ok(pat, s)
    if back != v:
        return fail("iso-date-reparse", f"LocalDatePattern.iso.parse({s!r}) -> {why} {back!r}")
    if 1 <= y <= 9999:
        if not RE_DATE.match(s):
            return fail("iso-date-shape", f"{s!r} is not 4-2-2 digits")
        pd = pydt.date(y, m, d)
        if pd.isoformat() != s:
            return fail("iso-date-vs-stdlib-write", f"pattern wrote {s!r}, stdlib writes {pd.isoformat()!r}")
        if pydt.date.fromisoformat(s) != pd:
            return fail("iso-date-vs-stdlib-read", f"stdlib reads {s!r} as {pydt.date.fromisoformat(s)}")
        got, why = parse_ok(pat, pd.isoformat())
        if got is None or (got.year, got.month, got.day) != (y, m, d) or got.calendar != P.CalendarSystem.iso:
            return fail("iso-date-reads-stdlib", f"LocalDatePattern.iso.parse({pd.isoformat()!r}) -> {why} {got!r}")
        # day numbers: days since 1970-01-01 against the stdlib's proleptic Gregorian ordinal
        if v._days_since_epoch != pd.toordinal() - 719163:
            return fail("iso-date-daynumber", f"{s}: days since epoch {v._days_since_epoch} vs stdlib {pd.toordinal() - 719163}")
    return None


def _pytime(nod):
    h, mi, s, ns = split_nod(nod)
    return pydt.time(h, mi, s, ns // 1000)


_poke_n = [0]


def _poke(pat):
    """every 7th call: a FAILING use of the shared built-in pattern object first (a value of the wrong type, None, a
    text that does not parse) - whatever such a call leaves behind must not leak into the next answer"""
    _poke_n[0] += 1
    if _poke_n[0] % 7:
        return
    P = _P()
    for bad in (P.LocalDate(2020, 1, 2), P.LocalTime(3, 4, 5), None, 12345, "x"):
        try:
            pat.format(bad)
        except Exception:  # noqa: BLE001
            pass
    try:
        pat.parse("2020-01-02Tgarbage\x00")
        pat.parse("")
    except Exception:  # noqa: BLE001
        pass


def _variable_precision(what, pat, v, nod, std_read, std_value, ns):
    """variable_precision_iso writes the SHORTEST ISO form that loses nothing (HH, HH:mm, HH:mm:ss, with fraction): the
    text must parse back to exactly v with the same pattern, the stdlib must read it as the value (to microseconds),
    and the form must be as short as the value allows"""
    txt = pat.format(v)
    back, why = parse_ok(pat, txt)
    if back != v:
        return fail("iso-variable-precision-loses", f"{what} variable_precision_iso wrote {txt!r} for nanosecond of day {nod}; "
                    f"parsing it back gives {back!r} ({why}) - the short form dropped part of the value")
    tpart = txt.split("T")[-1]
    want_len = 2 if nod % (3600 * NPS) == 0 else 5 if nod % (60 * NPS) == 0 else 8 if nod % NPS == 0 else None
    if want_len is not None and len(tpart) != want_len:
        return fail("iso-variable-precision-form", f"{what} variable_precision_iso wrote {txt!r} for nanosecond of day {nod}: expected a time part of {want_len} characters")
    if want_len is None and "." not in tpart:
        return fail("iso-variable-precision-loses", f"{what} variable_precision_iso wrote {txt!r} for nanosecond of day {nod}: the fraction is missing")
    try:
        got = std_read(txt)
    except ValueError as e:
        return fail("iso-variable-precision-vs-stdlib", f"stdlib rejects {txt!r}: {e}")
    if got != std_value:
        return fail("iso-variable-precision-vs-stdlib", f"stdlib reads {txt!r} as {got}, value is {std_value}")
    return None


def oracle_time(nod):
    P, T = _P(), _T()
    v = P.LocalTime.from_nanoseconds_since_midnight(nod)
    h, mi, s, ns = split_nod(nod)
    LT = T.LocalTimePattern
    for kind, pat, rx in (("ext", LT.extended_iso, RE_TIME_EXT), ("long", LT.long_extended_iso, RE_TIME_LONG),
                          ("gen", LT.general_iso, RE_TIME_GEN)):
        _poke(pat)
        txt = pat.format(v)
        if txt != ref_time(nod, kind):
            return fail("iso-time-format-" + kind, f"nanosecond of day {nod}: pattern wrote {txt!r}, ISO text is {ref_time(nod, kind)!r}")
        if not rx.match(txt):
            return fail("iso-time-shape-" + kind, f"{txt!r} has the wrong shape for the {kind} form")
        # the stdlib reads it back (truncating to microseconds)
        try:
            pt = pydt.time.fromisoformat(txt)
        except ValueError as e:
            return fail("iso-time-vs-stdlib-read", f"stdlib rejects {txt!r}: {e}")
        exp = pydt.time(h, mi, s, 0 if kind == "gen" else ns // 1000)
        if pt != exp:
            return fail("iso-time-vs-stdlib-read", f"stdlib reads {txt!r} as {pt}, value is {exp}")
        # own round trip
        back, why = parse_ok(pat, txt)
        expv = v if kind != "gen" else P.LocalTime.from_nanoseconds_since_midnight(nod - ns)
        if back != expv:
            return fail("iso-time-reparse-" + kind, f"{kind}: parse({txt!r}) -> {why} {back!r}")
    f = _variable_precision("time", LT.variable_precision_iso, v, nod, lambda t: pydt.time.fromisoformat(t),
                            pydt.time(h, mi, s, ns // 1000), ns)
    if f:
        return f
    # the stdlib writes, the patterns read (microsecond values)
    pt = _pytime(nod)
    w = pt.isoformat()
    expv = P.LocalTime.from_nanoseconds_since_midnight(nod - ns % 1000)
    for kind, pat in (("ext", LT.extended_iso),):
        got, why = parse_ok(pat, w)
        if got != expv:
            return fail("iso-time-reads-stdlib", f"extended_iso.parse({w!r}) -> {why} {got!r}, expected {expv!r}")
    if ns % 1000 == 0 and LT.extended_iso.format(v) != (w.rstrip("0") if "." in w else w):
        return fail("iso-time-vs-stdlib-write", f"pattern wrote {LT.extended_iso.format(v)!r}, stdlib writes {w!r}")
    if ns == 0:
        got, why = parse_ok(LT.general_iso, w)
        if got != v or LT.general_iso.format(v) != w:
            return fail("iso-time-general-vs-stdlib", f"general_iso on {w!r}: {why} {got!r}")
    w9 = pt.isoformat(timespec="microseconds") + "000"
    got, why = parse_ok(LT.long_extended_iso, w9)
    if got != expv:
        return fail("iso-time-long-reads", f"long_extended_iso.parse({w9!r}) -> {why} {got!r}")
    return None


def oracle_datetime(case):
    (y, m, d), nod = case
    P, T = _P(), _T()
    h, mi, s, ns = split_nod(nod)
    v = P.LocalDate(y, m, d).at(P.LocalTime.from_nanoseconds_since_midnight(nod))
    LDT = T.LocalDateTimePattern
    pd = pydt.datetime(y, m, d, h, mi, s, ns // 1000)
    for kind, pat in (("ext", LDT.extended_iso), ("gen", LDT.general_iso), ("bcl", LDT.bcl_round_trip)):
        _poke(pat)
        txt = pat.format(v)
        ref = ref_date(y, m, d) + "T" + ref_time(nod, kind)
        if txt != ref:
            return fail("iso-datetime-format-" + kind, f"{kind}: wrote {txt!r}, ISO text is {ref!r}")
        try:
            back = pydt.datetime.fromisoformat(txt)
        except ValueError as e:
            return fail("iso-datetime-vs-stdlib-read", f"stdlib rejects {txt!r}: {e}")
        exp = pd.replace(microsecond=0) if kind == "gen" else pd
        if back != exp:
            return fail("iso-datetime-vs-stdlib-read", f"stdlib reads {txt!r} as {back}, value {exp}")
        lost = ns if kind == "gen" else (ns % 100 if kind == "bcl" else 0)
        expv = P.LocalDate(y, m, d).at(P.LocalTime.from_nanoseconds_since_midnight(nod - lost))
        got, why = parse_ok(pat, txt)
        if got != expv:
            return fail("iso-datetime-reparse-" + kind, f"{kind}: parse({txt!r}) -> {why} {got!r}")
    f = _variable_precision("datetime", LDT.variable_precision_iso, v, nod, lambda t: pydt.datetime.fromisoformat(t), pd, ns)
    if f:
        return f
    w = pd.isoformat()
    expv = P.LocalDate(y, m, d).at(P.LocalTime.from_nanoseconds_since_midnight(nod - ns % 1000))
    got, why = parse_ok(LDT.extended_iso, w)
    if got != expv:
        return fail("iso-datetime-reads-stdlib", f"extended_iso.parse({w!r}) -> {why} {got!r}")
    if ns == 0:
        got, why = parse_ok(LDT.general_iso, w)
        if got != v or LDT.general_iso.format(v) != w:
            return fail("iso-datetime-general-vs-stdlib", f"general_iso on {w!r}: {why} {got!r}")
    w7 = pd.isoformat(timespec="microseconds") + "0"
    got, why = parse_ok(LDT.bcl_round_trip, w7)
    if got != expv:
        return fail("iso-datetime-bcl-reads", f"bcl_round_trip.parse({w7!r}) -> {why} {got!r}")
    return None


EPOCH_ORD = 719163  # date(1970,1,1).toordinal()
UTC = pydt.timezone.utc


def oracle_instant(case):
    """case = (days since unix epoch, nanosecond of day), years 1..9999"""
    days, nod = case
    P, T = _P(), _T()
    v = P.Instant._ctor(days=days, nano_of_day=nod)
    pd0 = pydt.date.fromordinal(days + EPOCH_ORD)
    h, mi, s, ns = split_nod(nod)
    pdt = pydt.datetime(pd0.year, pd0.month, pd0.day, h, mi, s, ns // 1000, tzinfo=UTC)
    IP = T.InstantPattern
    for kind, pat in (("ext", IP.extended_iso), ("gen", IP.general)):
        _poke(pat)
        txt = pat.format(v)
        ref = ref_date(pd0.year, pd0.month, pd0.day) + "T" + ref_time(nod, kind) + "Z"
        if not txt.endswith("Z"):
            return fail("iso-instant-no-z", f"{kind}: {txt!r} does not end in Z")
        if txt != ref:
            return fail("iso-instant-format-" + kind, f"{kind}: wrote {txt!r}, ISO text is {ref!r}")
        try:
            back = pydt.datetime.fromisoformat(txt)
        except ValueError as e:
            return fail("iso-instant-vs-stdlib-read", f"stdlib rejects {txt!r}: {e}")
        exp = pdt.replace(microsecond=0) if kind == "gen" else pdt
        if back != exp or back.utcoffset() != pydt.timedelta(0):
            return fail("iso-instant-vs-stdlib-read", f"stdlib reads {txt!r} as {back}, value {exp}")
        lost = ns if kind == "gen" else 0
        got, why = parse_ok(pat, txt)
        if got is None or (got._days_since_epoch, got._nanosecond_of_day) != (days, nod - lost):
            return fail("iso-instant-reparse-" + kind, f"{kind}: parse({txt!r}) -> {why} {got!r}")
    # the stdlib writes +00:00 for UTC; ISO's other spelling of the same designator is Z, which is what Instant patterns use
    w = pdt.replace(tzinfo=None).isoformat() + "Z"
    got, why = parse_ok(IP.extended_iso, w)
    if got is None or (got._days_since_epoch, got._nanosecond_of_day) != (days, nod - ns % 1000):
        return fail("iso-instant-reads-stdlib", f"extended_iso.parse({w!r}) -> {why} {got!r}")
    if ns == 0:
        got, why = parse_ok(IP.general, w)
        if got is None or (got._days_since_epoch, got._nanosecond_of_day) != (days, nod):
            return fail("iso-instant-general-reads-stdlib", f"general.parse({w!r}) -> {why} {got!r}")
    return None


def oracle_offset(sec):
    P, T = _P(), _T()
    v = P.Offset.from_seconds(sec)
    OP = T.OffsetPattern
    for z, pat in ((False, OP.general_invariant), (True, OP.general_invariant_with_z)):
        txt = pat.format(v)
        if txt != ref_offset(sec, z):
            return fail("iso-offset-format", f"offset {sec}s: wrote {txt!r}, ISO text is {ref_offset(sec, z)!r}")
        if not RE_OFF.match(txt):
            return fail("iso-offset-shape", f"{txt!r}")
        got, why = parse_ok(pat, txt)
        if got != v:
            return fail("iso-offset-reparse", f"parse({txt!r}) -> {why} {got!r}")
        try:
            back = pydt.datetime.fromisoformat("2000-01-01T12:00:00" + txt).utcoffset()
        except ValueError as e:
            return fail("iso-offset-vs-stdlib-read", f"stdlib rejects {txt!r}: {e}")
        if back != pydt.timedelta(seconds=sec):
            return fail("iso-offset-vs-stdlib-read", f"stdlib reads {txt!r} as {back}")
    # stdlib writes ±HH:MM[:SS]
    w = pydt.datetime(2000, 1, 1, 12, tzinfo=pydt.timezone(pydt.timedelta(seconds=sec))).isoformat()[19:]
    for pat in (OP.general_invariant, OP.general_invariant_with_z):
        got, why = parse_ok(pat, w)
        if got != v:
            return fail("iso-offset-reads-stdlib", f"parse({w!r}) -> {why} {got!r}, offset {sec}s")
    got, why = parse_ok(OP.general_invariant_with_z, "Z")
    if got != P.Offset.zero:
        return fail("iso-offset-z", f"general_invariant_with_z.parse('Z') -> {why}")
    return None


# ---------------------------------------------------------------------------------------------------
# generators
# ---------------------------------------------------------------------------------------------------

DIM = [31, 28, 31, 30, 31, 30, 31, 31, 30, 31, 30, 31]


# ---------------------------------------------------------------------------------------------------
# the ISO standard patterns are culture-independent: created by letter for ANY culture (or under any current
# culture) they must write the same ISO text as the invariant built-ins, and read the stdlib's text
# ---------------------------------------------------------------------------------------------------

_ISO_LETTERS = [("Instant", "g"), ("LocalDate", "R"), ("LocalTime", "o"), ("LocalTime", "O"),
                ("LocalDateTime", "o"), ("LocalDateTime", "O"), ("LocalDateTime", "r"), ("LocalDateTime", "R"),
                ("LocalDateTime", "s")]


def culture_names(ctx):
    """culture names: at least three per (time separator, date separator, decimal separator) class, plus a
    seeded sample (all of them in the thorough tier); [] when ICU is not available (stub: invariant only)"""
    try:
        import icu
        from pyoda_time._compatibility._culture_info import CultureInfo
        names = sorted(str(k).replace("_", "-") for k in icu.Locale.getAvailableLocales().keys())
    except Exception:  # noqa: BLE001
        return []
    classes = {}
    ok = []
    for n in names:
        try:
            c = CultureInfo(n)
            key = (c.date_time_format.time_separator, c.date_time_format.date_separator, c.number_format.number_decimal_separator
                   if hasattr(c.number_format, "number_decimal_separator") else "")
        except Exception:  # noqa: BLE001
            continue
        ok.append(n)
        classes.setdefault(key, []).append(n)
    if ctx.thorough:
        return ok
    pick = set()
    for v in classes.values():
        pick.update(v[:3])
    pick.update(ctx.rng.sample(ok, min(25, len(ok))))
    return sorted(pick)


def oracle_culture(case):
    """case = (culture name, use_current_culture)"""
    name, use_current = case
    P, T = _P(), _T()
    from pyoda_time._compatibility._culture_info import CultureInfo
    cul = CultureInfo(name)
    inv = CultureInfo.invariant_culture
    samples = {
        "Instant": [(P.Instant.from_utc(2024, 2, 29, 13, 45, 30), "2024-02-29T13:45:30Z"),
                    (P.Instant.from_utc(1969, 12, 31, 23, 59, 59), "1969-12-31T23:59:59Z")],
        "LocalDate": [(P.LocalDate(2024, 2, 29), pydt.date(2024, 2, 29).isoformat())],
        "LocalTime": [(P.LocalTime(13, 45, 30), None), (P.LocalTime(0, 0, 0), None)],
        "LocalDateTime": [(P.LocalDateTime(2024, 2, 29, 13, 45, 30), None), (P.LocalDateTime(1, 1, 1, 0, 0, 0), None)],
    }
    old = None
    try:
        if use_current:
            old = CultureInfo.current_culture
            CultureInfo.current_culture = cul
        for ty, letter in _ISO_LETTERS:
            PT = getattr(T, ty + "Pattern")
            try:
                pat = PT.create_with_current_culture(letter) if use_current else PT.create(letter, cul)
                ref = PT.create(letter, inv)
            except Exception as e:  # noqa: BLE001
                return fail("iso-standard-letter-culture", f"{ty}Pattern '{letter}' for culture {name}: creation raised {type(e).__name__}: {e}")
            for v, iso in samples[ty]:
                txt, want = pat.format(v), ref.format(v)
                if txt != want or (iso is not None and txt != iso):
                    return fail("iso-standard-letter-culture", f"{ty}Pattern '{letter}' built for culture {name}"
                                f"{' (as current culture)' if use_current else ''} writes {txt!r}; the ISO text is {iso or want!r}")
                got, why = parse_ok(pat, want)
                if got is None or got != v:
                    return fail("iso-standard-letter-culture", f"{ty}Pattern '{letter}' built for culture {name} does not read {want!r}: {why} {got!r}")
        if use_current:
            i = P.Instant.from_utc(2024, 2, 29, 13, 45, 30)
            for what, txt in (("repr(instant)", repr(i)), ("str(instant)", str(i)), ("format(instant, 'g')", format(i, "g"))):
                if txt != "2024-02-29T13:45:30Z":
                    return fail("iso-standard-letter-culture", f"{what} under current culture {name} is {txt!r}, ISO text is '2024-02-29T13:45:30Z'")
    finally:
        if old is not None:
            CultureInfo.current_culture = old
    return None


def is_leap(y):
    return y % 4 == 0 and (y % 100 != 0 or y % 400 == 0)


def dim(y, m):
    return 29 if m == 2 and is_leap(y) else DIM[m - 1]


def gen_dates(ctx, n):
    rng = ctx.rng
    out = []
    edge_years = [1, 2, 3, 4, 9, 10, 99, 100, 101, 400, 999, 1000, 1582, 1600, 1899, 1900, 1969, 1970, 1999, 2000, 2001, 2024, 2100, 9998, 9999]
    for y in edge_years:
        for m in range(1, 13):
            for d in {1, 2, 9, 10, 28, dim(y, m)} | ({29} if dim(y, m) >= 29 else set()):
                out.append((y, m, d))
    # stride over all day numbers of years 1..9999
    total = 3652059
    step = max(1, total // (n // 2))
    off = rng.randrange(step)
    for k in range(off, total, step):
        pd = pydt.date.fromordinal(k + 1)
        out.append((pd.year, pd.month, pd.day))
    for _ in range(n // 2):
        pd = pydt.date.fromordinal(rng.randint(1, total))
        out.append((pd.year, pd.month, pd.day))
    return out


def all_dates():
    for k in range(1, 3652060):
        pd = pydt.date.fromordinal(k)
        yield (pd.year, pd.month, pd.day)


def gen_beyond_dates(ctx):
    out = []
    for y in [-9998, -9997, -1000, -999, -100, -99, -10, -9, -1, 0]:
        for m, d in [(1, 1), (2, 28), (12, 31), (2, dim(y, 2))]:
            out.append((y, m, d))
    return out


def gen_nods(ctx, n):
    rng = ctx.rng
    out = [0, 1, 999, 1000, NPS - 1, NPS, NPS + 1, 60 * NPS - 1, 60 * NPS, 3600 * NPS - 1, 3600 * NPS, 12 * 3600 * NPS, NPD - 1, NPD - NPS, NPD - 1000]
    # every fraction width 0..9 with and without interior zeros
    for w in range(0, 10):
        for body in (1, 5, 9, 10 ** max(w - 1, 0), 10 ** w - 1 if w else 0):
            if w == 0:
                ns = 0
            else:
                ns = (body % 10 ** w) * 10 ** (9 - w)
            for sec in (0, 59, 86399, rng.randrange(86400)):
                out.append(sec * NPS + ns)
    # whole hours / minutes / seconds plus less than one tick (100 ns), one tick, one microsecond: what a predicate that
    # works in ticks or microseconds would drop
    for base in (0, 3600 * NPS, 12 * 3600 * NPS + 30 * 60 * NPS, 23 * 3600 * NPS + 59 * 60 * NPS, 45296 * NPS):
        for r in (1, 42, 99, 100, 101, 999, 1000, 999_999, 1_000_000):
            out.append(base + r)
    for _ in range(n // 20):
        out.append(rng.randrange(24) * 3600 * NPS + rng.choice([0, rng.randrange(60) * 60 * NPS]) + rng.choice([1, 7, 99, 100, 1000]))
    for _ in range(n):
        c = rng.random()
        sec = rng.choice([0, 59, 60, 3599, 3600, 43199, 43200, 86399]) if c < 0.2 else rng.randrange(86400)
        w = rng.randint(0, 9)
        ns = 0 if w == 0 else rng.randrange(10 ** w) * 10 ** (9 - w)
        out.append(sec * NPS + ns)
    return out


def gen_instants(ctx, n):
    rng = ctx.rng
    lo, hi = 1 - EPOCH_ORD, 3652059 - EPOCH_ORD
    out = []
    for d in [lo, lo + 1, -1, 0, 1, hi - 1, hi, 10957, 11016]:
        for nod in [0, 1, NPD - 1, 43200 * NPS, 123456789, 100, 1000]:
            out.append((d, nod))
    nods = gen_nods(ctx, n)
    for nod in nods[: n]:
        out.append((rng.randint(lo, hi), nod))
    return out


def run(ctx):
    info = []
    # dates ------------------------------------------------------------------------------------
    if ctx.thorough:
        ctx.check_cases("iso.date.all-days-1-9999", all_dates(), oracle_date, exhaustive=True)
    else:
        ctx.check_cases("iso.date", gen_dates(ctx, 30_000), oracle_date)
    ctx.check_cases("iso.date.sign-width-beyond-stdlib", gen_beyond_dates(ctx), oracle_date)
    # times ------------------------------------------------------------------------------------
    ctx.check_cases("iso.time", gen_nods(ctx, ctx.scale(25_000, 1_000_000)), oracle_time)
    # date-times -------------------------------------------------------------------------------
    ds = gen_dates(ctx, ctx.scale(6_000, 400_000))
    ns = gen_nods(ctx, len(ds))
    ctx.rng.shuffle(ns)
    ctx.check_cases("iso.datetime", list(zip(ds, ns)), oracle_datetime)
    # instants ---------------------------------------------------------------------------------
    ctx.check_cases("iso.instant", gen_instants(ctx, ctx.scale(8_000, 400_000)), oracle_instant)
    # offsets: every whole minute within +/-18h (exhaustive), plus seconds-precision samples -----------
    ctx.check_cases("iso.offset.whole-minutes", [60 * k for k in range(-1080, 1081)], oracle_offset, exhaustive=True)
    secs = sorted({ctx.rng.randint(-64800, 64800) for _ in range(ctx.scale(1500, 129601))} | {1, -1, 59, -59, 61, 3599, 3601, -3601, 64799, -64799})
    if ctx.thorough:
        secs = list(range(-64800, 64801))
    ctx.check_cases("iso.offset.seconds", secs, oracle_offset, exhaustive=ctx.thorough)
    # the ISO standard letters in every culture class ---------------------------------------------
    cn = culture_names(ctx)
    ctx.note("cultures_for_standard_letters", len(cn))
    ctx.check_cases("iso.standard-letters.by-culture", [(n, False) for n in cn] + [(n, True) for n in cn[::4]], oracle_culture,
                    exhaustive=ctx.thorough)
    # the built-in pattern objects keep their answers whatever other patterns are created around them -----------
    import texthist
    texthist.run_history(ctx, [("width", ctx.scale(4, 80))])
    # model correspondence (ISO formatters / parsers and the PyIso transcription) ----------------------
    import c07
    c07.run_iso_correspondence(ctx, "c17")
    c07.run_pyiso_correspondence(ctx)
    import c17_pyparse; c17_pyparse.run(ctx)
    ctx.assumptions.append("the stdlib writes the UTC designator as +00:00; for Instant patterns the equivalent ISO spelling Z is substituted before parsing")
    ctx.assumptions.append("the stdlib carries microseconds: values are compared after truncation to microseconds when the stdlib reads, and microsecond values are used when the stdlib writes")


def replay_op(op, failure):
    import ast
    src = failure.get("source", "")
    if src.startswith("oracle:"):
        name = src.split(":", 1)[1]
        case = ast.literal_eval(op)
        fn = {"iso.standard-letters": oracle_culture, "iso.date": oracle_date, "iso.time": oracle_time, "iso.datetime": oracle_datetime,
              "iso.instant": oracle_instant, "iso.offset": oracle_offset}
        if name == "text.history":
            import texthist
            return texthist.oracle_history(case)
        for k in sorted(fn, key=len, reverse=True):
            if name.startswith(k):
                return fn[k](case)
    import c07
    return c07.oracle_text_op(op.split(" "))
