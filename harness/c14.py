"""C14 — the tz database binary codec is lossless and canonical."""
from __future__ import annotations

import io

from common import guard, hexs

NPD = 86_400_000_000_000
MSPD = 86_400_000
TPH = 36_000_000_000
TPMIN = 600_000_000
I32MAX = 2**31 - 1
I32MIN = -2**31
DUR_MIN_DAYS, DUR_MAX_DAYS = -(1 << 30), (1 << 30) - 1
IMIN, IMAX = -4371222, 2932896
E1800_DAYS = -62091
FILES = ["pyoda_time/time_zones/Tzdb.nzd", "tests/test_data/Tzdb2013bFromNodaTime1.1.nzd"]

META = {
    "property": "C14",
    "proof_modules": ["PyodaProofs.C14", "PyodaProofs.C14Session", "PyodaProofs.GenAgreeC14", "PyodaProofs.GenAgreeC14S", "PyodaProofs.GenAgreeC14V", "PyodaProofs.GenAgreeC14W"],
    "drivers": ["drv_codec"],
    "theorems": [
        "Pyoda.C14.read_write_byte", "Pyoda.C14.read_write_varint", "Pyoda.C14.read_write_count",
        "Pyoda.C14.read_write_signedCount", "Pyoda.C14.signedCount_form", "Pyoda.C14.read_write_int64",
        "Pyoda.C14.read_write_milliseconds", "Pyoda.C14.milliseconds_form", "Pyoda.C14.read_write_offset",
        "Pyoda.C14.read_write_string_inline", "Pyoda.C14.read_write_string_pooled",
        "Pyoda.C14.read_write_transition", "Pyoda.C14.transition_form", "Pyoda.C14.transition_subtick_truncates",
        "Pyoda.C14.write_dom_raises_byte", "Pyoda.C14.write_dom_raises_count", "Pyoda.C14.write_dom_raises_milliseconds",
        "Pyoda.C14.write_dom_raises_transition",
        "Pyoda.C14.read_write_yearOffset", "Pyoda.C14.read_write_alternatingMap", "Pyoda.C14.read_write_recurrence",
        "Pyoda.C14.read_write_precalculatedZone",
        "Pyoda.C14.read_write_dictionary", "Pyoda.C14.read_write_alternatingMap_pool", "Pyoda.C14.read_write_recurrence_pool",
        "Pyoda.C14.read_write_precalculatedZone_pool", "Pyoda.C14.read_write_fixedZone",
        "Pyoda.C14.write_read_canonical", "Pyoda.C14.canonical_decode_reencode", "Pyoda.C14.canonical_check_sound",
        "Pyoda.C14.readByteM_refines", "Pyoda.C14.readStringM_refines", "Pyoda.C14.readValM_refines",
        "Pyoda.C14.hasMoreDataM_spec", "Pyoda.C14.peek_iff_remaining", "Pyoda.C14.peek_pure",
        "Pyoda.C14.val_roundtrip", "Pyoda.C14.session_roundtrip",
        "Pyoda.C14.stepW_writeString", "Pyoda.C14.writeString_uses_current_pool",
        # agreement of the definitions generated from the Python source (tools/py2lean.py) with the model
        "Pyoda.GenAgree.C14.gen_Reader_ctor_eq", "Pyoda.GenAgree.C14.gen_Reader_readByte_eq",
        "Pyoda.GenAgree.C14.gen_Reader_hasMoreData_eq", "Pyoda.GenAgree.C14.gen_Reader_readInt16_eq",
        "Pyoda.GenAgree.C14.gen_Reader_readInt32_eq", "Pyoda.GenAgree.C14.gen_Reader_readInt64_eq",
        "Pyoda.GenAgree.C14.gen_Reader_readVarint_loop1_eq", "Pyoda.GenAgree.C14.gen_Reader_readVarint_eq",
        "Pyoda.GenAgree.C14.gen_Reader_readCount_eq", "Pyoda.GenAgree.C14.gen_Reader_readSignedCount_eq",
        "Pyoda.GenAgree.C14.gen_Reader_readMilliseconds_eq", "Pyoda.GenAgree.C14.gen_Reader_readOffset_eq",
        "Pyoda.GenAgree.C14.gen_Reader_readTransitionNone_eq", "Pyoda.GenAgree.C14.gen_Reader_readTransitionSome_eq",
        "Pyoda.GenAgree.C14.gen_Reader_readString_loop1_eq", "Pyoda.GenAgree.C14.gen_Reader_readString_eq",
        "Pyoda.GenAgree.C14.gen_Reader_readDictionary_loop1_eq", "Pyoda.GenAgree.C14.gen_Reader_readDictionary_eq",
        "Pyoda.GenAgree.C14.gen_YearOffset_read_eq", "Pyoda.GenAgree.C14.gen_Recurrence_read_eq",
        "Pyoda.GenAgree.C14.gen_MapZone_ctor_eq", "Pyoda.GenAgree.C14.gen_MapZone_read_loop1_eq",
        "Pyoda.GenAgree.C14.gen_MapZone_read_eq", "Pyoda.GenAgree.C14.gen_ZoneLocation_read_eq",
        "Pyoda.GenAgree.C14.gen_WindowsZones_read_loop1_eq", "Pyoda.GenAgree.C14.gen_WindowsZones_read_eq",
        "Pyoda.GenAgree.C14.gen_Zone1970Location_read_loop1_eq", "Pyoda.GenAgree.C14.gen_Zone1970Location_read_eq",
        "Pyoda.GenAgree.C14.gen_FixedZone_read_eq", "Pyoda.GenAgree.C14.gen_AltMap_read_eq",
        "Pyoda.GenAgree.C14.gen_PrecalcZone_read_loop1_eq", "Pyoda.GenAgree.C14.gen_PrecalcZone_read_eq",
        "Pyoda.GenAgree.C14S.gen_Field_ctor_eq", "Pyoda.GenAgree.C14S.gen_Field_getId_eq",
        "Pyoda.GenAgree.C14S.gen_readFields_step", "Pyoda.GenAgree.C14S.gen_Field_readFieldsNext_loop1_eq",
        "Pyoda.GenAgree.C14S.gen_Field_readFieldsNext_eq",
        "Pyoda.GenAgree.C14V.gen_Validate_canonAndPrimary_loop1_eq",
        "Pyoda.GenAgree.C14V.gen_Validate_canonAndPrimary_loop2_eq",
        "Pyoda.GenAgree.C14V.gen_Validate_canonAndPrimary_eq", "Pyoda.GenAgree.C14V.gen_Validate_locations_loop1_eq",
        "Pyoda.GenAgree.C14V.gen_Validate_locations_eq", "Pyoda.GenAgree.C14V.gen_Validate_locationsNone_eq",
        "Pyoda.GenAgree.C14V.gen_Validate_locations1970_loop1_eq",
        "Pyoda.GenAgree.C14V.gen_Validate_locations1970_eq", "Pyoda.GenAgree.C14V.gen_Validate_locations1970None_eq",
        "Pyoda.GenAgree.C14V.gen_Validate_tzdbIds_loop2_eq", "Pyoda.GenAgree.C14V.gen_Validate_tzdbIds_loop1_eq",
        "Pyoda.GenAgree.C14V.gen_Validate_tzdbIds_eq", "Pyoda.GenAgree.C14W.gen_Writer_ctor_eq",
        "Pyoda.GenAgree.C14W.gen_Writer_writeByte_eq", "Pyoda.GenAgree.C14W.gen_Writer_writeVarint_loop1_eq",
        "Pyoda.GenAgree.C14W.gen_Writer_writeVarint_eq", "Pyoda.GenAgree.C14W.gen_Writer_writeVarint_neg",
        "Pyoda.GenAgree.C14W.gen_Writer_writeCount_eq", "Pyoda.GenAgree.C14W.gen_Writer_writeSignedCount_eq",
        "Pyoda.GenAgree.C14W.gen_Writer_writeInt16_eq", "Pyoda.GenAgree.C14W.gen_Writer_writeInt32_eq",
        "Pyoda.GenAgree.C14W.gen_Writer_writeInt64_eq", "Pyoda.GenAgree.C14W.gen_Writer_writeMilliseconds_eq",
        "Pyoda.GenAgree.C14W.gen_Writer_writeOffset_eq", "Pyoda.GenAgree.C14W.gen_Writer_writeString_eq",
        "Pyoda.GenAgree.C14W.gen_checkNotNullDict_eq", "Pyoda.GenAgree.C14W.gen_Writer_writeDictionary_loop1_eq",
        "Pyoda.GenAgree.C14W.gen_Writer_writeDictionary_eq", "Pyoda.GenAgree.C14W.gen_Writer_writeTransitionNone_eq",
        "Pyoda.GenAgree.C14W.gen_Writer_writeTransitionSome_eq", "Pyoda.GenAgree.C14W.gen_YearOffset_mode_eq",
        "Pyoda.GenAgree.C14W.gen_YearOffset_advanceDayOfWeek_eq", "Pyoda.GenAgree.C14W.gen_YearOffset_timeOfDay_eq",
        "Pyoda.GenAgree.C14W.gen_Recurrence_name_eq", "Pyoda.GenAgree.C14W.gen_Recurrence_savings_eq",
        "Pyoda.GenAgree.C14W.gen_Recurrence_yearOffset_eq", "Pyoda.GenAgree.C14W.gen_Recurrence_fromYear_eq",
        "Pyoda.GenAgree.C14W.gen_Recurrence_toYear_eq", "Pyoda.GenAgree.C14W.gen_YearOffset_write_eq",
        "Pyoda.GenAgree.C14W.gen_Recurrence_write_eq", "Pyoda.GenAgree.C14W.gen_AltMap_write_eq",
    ],
    "trusted_base": [
        "Python str <-> UTF-8 bytes is a bijection on strings without lone surrogates (the model keeps strings as their encodings)",
        "bit operations of the code (&, |, >>, <<) equal the arithmetic forms used in the model on the stated ranges (sampled by suite codec.prim)",
        "io.BytesIO read/write semantics",
        "translator tie (tools/py2lean.py; GenAgreeC14 / GenAgreeC14W): _DateTimeZoneReader, _DateTimeZoneWriter, one next() of _TzdbStreamField._read_fields and the readers _ZoneYearOffset.read / _ZoneRecurrence.read / MapZone._read / TzdbZoneLocation._read / _FixedDateTimeZone.read / _StandardDaylightAlternatingMap._read / _PrecalculatedDateTimeZone._read (= readFixed / readAlternatingMap / readPrecalculated, the constructors' checks being the model's zoneIntervalCtor / alternatingMapCtor / precalculatedCtor) and the writers _ZoneYearOffset._write / _ZoneRecurrence._write / _StandardDaylightAlternatingMap._write (= writeYearOffset / writeRecurrence / writeAlternatingMap, for a day-of-week field in 0..7) are re-translated from the source on every run as state-passing functions over the object state and proved equal to the reader state machine of Codec/Session.lean / the pure writers of Codec/Prim.lean. Assumed: stream.read(n) keeps the RawIOBase contract (PolicyOk: >= 1 byte unless at the end, <= n) and the bytes are < 256; stream.write accepts the whole buffer; Offset/Instant/Duration members are the model's (tied by GenAgreeC03); _EPOCH_FOR_MINUTES_SINCE_EPOCH = Instant.from_utc(1800,1,1,0,0) is the model's EPOCH1800 (correspondence); str.encode/bytes.decode are the identity / strict UTF-8 check on encodings; the translator's own semantics (self-test oracle of C03)",
        "sessions: the caller's operations on the shared pool list (clear, slice assignment, append) and the reader's one-byte look-ahead are what PoolAct.apply / RState describe (suite codec.sessions drives one real writer and one real reader per session)",
    ],
    "partial": [
        "proved: every primitive, year offset, alternating map, recurrence, dictionary, fixed zone and the whole precalculated zone, for inline strings and for any string pool that contains the strings; write_read_canonical for precalculated zones where Canonical = accepted by the strict decoder (every primitive is in the form its writer emits, see milliseconds_form / transition_form / signedCount_form); the same check is evaluated on every zone field of both real files and on ~2 500 mutated fields against the code's own decode-and-re-encode test",
        "write_signed_count has no range check in the code, so there is no write_dom_raises for it (oracle key scount-outside-int32-accepted)",
        "the 172 799 999 millisecond values are covered by the theorem on the model; the code is exercised on every form switch and a seeded sample (quick) ",
        "sessions (stateful reader/writer): proved for any script of byte/count/signed count/milliseconds/offset/transition/string/dictionary/year offset/recurrence values, any number of documents, any pool actions between documents and appends inside them, any number of peeks; a session ends at the first exception (the state a reader or writer is left in by an exception is not modelled); whole zones inside sessions are covered by read_write_precalculatedZone_pool on fresh objects only",
    ],
    "rule": "ops are generated at every form switch of every primitive +-1 plus seeded random; distinct = distinct op line / oracle case; non-trivial = every op (each exercises an encoder or decoder path)",
}


# ---------------------------------------------------------------------------------------------
# access to the real code
# ---------------------------------------------------------------------------------------------

def _io():
    from pyoda_time.time_zones.io._date_time_zone_reader import _DateTimeZoneReader
    from pyoda_time.time_zones.io._date_time_zone_writer import _DateTimeZoneWriter
    return _DateTimeZoneReader, _DateTimeZoneWriter


def new_writer(pool=None):
    _, W = _io()
    buf = io.BytesIO()
    return buf, W._ctor(buf, pool)


class ChunkedStream(io.RawIOBase):
    """a raw stream that hands out at most `chunk` bytes per read() - like a pipe, a socket or an unbuffered file.
    The reader has to loop over short reads; io.BytesIO never produces one."""

    def __init__(self, data: bytes, chunk: int):
        super().__init__()
        self._d, self._p, self._k = data, 0, chunk

    def readable(self):
        return True

    def read(self, size=-1):
        if size is None or size < 0:
            size = len(self._d) - self._p
        n = min(size, self._k, len(self._d) - self._p)
        out = self._d[self._p:self._p + n]
        self._p += n
        return out

    def readinto(self, b):
        out = self.read(len(b))
        b[:len(out)] = out
        return len(out)

    def tell(self):
        return self._p


STREAM_KINDS = {}


def new_reader(data: bytes, pool=None, plain=False):
    """reader over the bytes; the stream kind (BytesIO, or short reads of at most 1 / 3 / 16 bytes) is a deterministic
    function of the bytes, so every decoding suite also exercises the reader's short-read loops"""
    R, _ = _io()
    k = 0 if plain else (len(data) * 31 + sum(data[:8])) % 4
    st = io.BytesIO(data) if k == 0 else ChunkedStream(data, (1, 3, 16)[k - 1])
    STREAM_KINDS[k] = STREAM_KINDS.get(k, 0) + 1
    return st, R._ctor(st, pool)


def inst(d: int, n: int):
    from pyoda_time import Instant
    if n == 0 and d == DUR_MIN_DAYS:
        return Instant._before_min_value()
    if n == 0 and d == DUR_MAX_DAYS:
        return Instant._after_max_value()
    return Instant._ctor(days=d, nano_of_day=n)


def offs(s: int):
    from pyoda_time import Offset
    return Offset.from_seconds(s)


# ---- text forms (same as PyodaModel/Codec.lean) ----------------------------------------------

def unhex(h: str) -> bytes:
    return b"" if h == "-" else bytes.fromhex(h)


def s_of(h: str) -> str:
    return unhex(h).decode("utf-8")


def h_of(s: str) -> str:
    return hexs(s.encode("utf-8"))


def p_inst(t: str):
    d, n = t.split(":")
    return inst(int(d), int(n))


def p_optinst(t: str):
    return None if t == "-" else p_inst(t)


def f_inst(i) -> str:
    return f"{i._days_since_epoch}:{i._nanosecond_of_day}"


def p_pool(t: str):
    if t == "-":
        return None
    if t == "[]":
        return []
    return ["" if x == "~" else s_of(x) for x in t.split(",")]


def f_poolstr(s: str) -> str:
    return "~" if s == "" else h_of(s)


def f_pool(p) -> str:
    if p is None:
        return "-"
    if len(p) == 0:
        return "[]"
    return ",".join(f_poolstr(x) for x in p)


def _yo_cls():
    from pyoda_time.time_zones._zone_year_offset import _ZoneYearOffset
    return _ZoneYearOffset


def p_yo(t: str):
    from pyoda_time import LocalTime
    from pyoda_time.time_zones._transition_mode import _TransitionMode
    mo, m, d, w, a, tod, ad = (int(x) for x in t.split(":"))
    return _yo_cls()._ctor(_TransitionMode(mo), m, d, w, bool(a), LocalTime.from_nanoseconds_since_midnight(tod), bool(ad))


def f_yo(y) -> str:
    g = lambda n: getattr(y, "_ZoneYearOffset__" + n)  # noqa: E731
    return ":".join(str(int(x)) for x in [int(y.mode), g("month_of_year"), g("day_of_month"), g("day_of_week"),
                                           y.advance_day_of_week, y.time_of_day.nanosecond_of_day, g("add_day")])


def p_rec(t: str):
    from pyoda_time.time_zones._zone_recurrence import _ZoneRecurrence
    n, sv, yo, f, to = t.split(",")
    return _ZoneRecurrence(s_of(n), offs(int(sv)), p_yo(yo), int(f), int(to))


def f_rec(z) -> str:
    return ",".join([h_of(z.name), str(z.savings.seconds), f_yo(z.year_offset), str(z.from_year), str(z.to_year)])


def _map_cls():
    from pyoda_time.time_zones._standard_daylight_alternating_map import _StandardDaylightAlternatingMap
    return _StandardDaylightAlternatingMap


def p_map(t: str):
    o, a, b = t.split(";")
    return _map_cls()._ctor(offs(int(o)), p_rec(a), p_rec(b))


def f_map(m) -> str:
    g = lambda n: getattr(m, "_StandardDaylightAlternatingMap__" + n)  # noqa: E731
    return ";".join([str(g("standard_offset").seconds), f_rec(g("standard_recurrence")), f_rec(g("dst_recurrence"))])


def f_interval(p) -> str:
    return ",".join([h_of(p.name), f_inst(p._raw_start), f_inst(p._raw_end), str(p.wall_offset.seconds), str(p.savings.seconds)])


def p_interval(t: str):
    from pyoda_time.time_zones import ZoneInterval
    n, st, en, w, sv = t.split(",")
    return ZoneInterval(name=s_of(n), start=p_inst(st), end=p_inst(en), wall_offset=offs(int(w)), savings=offs(int(sv)))


def p_precalc(t: str):
    from pyoda_time.time_zones._precalculated_date_time_zone import _PrecalculatedDateTimeZone
    parts = t.split("|")
    assert parts[0] == "P" and parts[-2] == "T"
    ivs = [p_interval(x) for x in parts[2:-2]]
    tail = None if parts[-1] == "-" else p_map(parts[-1])
    return _PrecalculatedDateTimeZone(s_of(parts[1]), ivs, tail)


def f_zone(z) -> str:
    from pyoda_time.time_zones._cached_date_time_zone import _CachedDateTimeZone
    from pyoda_time.time_zones._fixed_date_time_zone import _FixedDateTimeZone
    if isinstance(z, _CachedDateTimeZone):
        z = z._time_zone
    if isinstance(z, _FixedDateTimeZone):
        return "|".join(["F", h_of(z.id), str(z.offset.seconds), h_of(z.name)])
    ps = getattr(z, "_PrecalculatedDateTimeZone__periods")
    tail = getattr(z, "_PrecalculatedDateTimeZone__tail_zone")
    return "|".join(["P", h_of(z.id)] + [f_interval(p) for p in ps] + ["T", "-" if tail is None else f_map(tail)])


def with_rest(val: str, st: io.BytesIO, data: bytes) -> str:
    return f"{val} {len(data) - st.tell()}"


# ---------------------------------------------------------------------------------------------
# impl: one protocol op on the real code
# ---------------------------------------------------------------------------------------------

def impl(t):
    op = t[0]
    if op.startswith("enc."):
        kind = op[4:]
        if kind in ("byte", "count", "scount", "ms"):
            buf, w = new_writer()
            {"byte": w.write_byte, "count": w.write_count, "scount": w.write_signed_count, "ms": w.write_milliseconds}[kind](int(t[1]))
            return hexs(buf.getvalue())
        if kind == "offset":
            buf, w = new_writer()
            w.write_offset(offs(int(t[1])))
            return hexs(buf.getvalue())
        if kind == "trans":
            buf, w = new_writer()
            w.write_zone_interval_transition(p_optinst(t[1]), p_inst(t[2]))
            return hexs(buf.getvalue())
        if kind == "str":
            pool = p_pool(t[1])
            buf, w = new_writer(pool)
            w.write_string(s_of(t[2]))
            return hexs(buf.getvalue()) + " " + f_pool(pool)
        if kind == "dict":
            pool = p_pool(t[1])
            buf, w = new_writer(pool)
            kv = [s_of(x) for x in t[2:]]
            d = {}
            for i in range(0, len(kv), 2):
                d[kv[i]] = kv[i + 1]
            w.write_dictionary(d)
            return hexs(buf.getvalue()) + " " + f_pool(pool)
        if kind == "yo":
            buf, w = new_writer()
            p_yo(t[1])._write(w)
            return hexs(buf.getvalue())
        if kind in ("rec", "map", "zone"):
            pool = p_pool(t[1])
            buf, w = new_writer(pool)
            {"rec": p_rec, "map": p_map, "zone": p_precalc}[kind](t[2])._write(w)
            return hexs(buf.getvalue()) + " " + f_pool(pool)
    if op.startswith("dec."):
        kind = op[4:]
        if kind in ("byte", "count", "scount", "ms", "offset", "yo"):
            data = unhex(t[1])
            st, r = new_reader(data)
            if kind == "offset":
                v = str(r.read_offset().seconds)
            elif kind == "yo":
                v = f_yo(_yo_cls().read(r))
            else:
                v = str({"byte": r.read_byte, "count": r.read_count, "scount": r.read_signed_count, "ms": r.read_milliseconds}[kind]())
            return with_rest(v, st, data)
        if kind == "trans":
            data = unhex(t[2])
            st, r = new_reader(data)
            return with_rest(f_inst(r.read_zone_interval_transition(p_optinst(t[1]))), st, data)
        if kind == "str":
            data = unhex(t[2])
            st, r = new_reader(data, p_pool(t[1]))
            return with_rest(hexs(r.read_string().encode("utf-8")), st, data)
        if kind == "dict":
            data = unhex(t[2])
            st, r = new_reader(data, p_pool(t[1]))
            d = r.read_dictionary()
            return with_rest("[]" if not d else ",".join(f_poolstr(k) + "=" + f_poolstr(v) for k, v in d.items()), st, data)
        if kind == "map":
            data = unhex(t[2])
            st, r = new_reader(data, p_pool(t[1]))
            return with_rest(f_map(_map_cls()._read(r)), st, data)
        if kind == "rec":
            from pyoda_time.time_zones._zone_recurrence import _ZoneRecurrence
            data = unhex(t[2])
            st, r = new_reader(data, p_pool(t[1]))
            return with_rest(f_rec(_ZoneRecurrence.read(r)), st, data)
        if kind == "zonefull":
            from pyoda_time.time_zones._precalculated_date_time_zone import _PrecalculatedDateTimeZone
            data = unhex(t[3])
            st, r = new_reader(data, p_pool(t[1]))
            return with_rest(f_zone(_PrecalculatedDateTimeZone._read(r, s_of(t[2]))), st, data)
    raise ValueError("unknown op " + " ".join(t)[:80])


# ---------------------------------------------------------------------------------------------
# reference encoder from the format description, plain Python integers (independent of the Lean model)
# ---------------------------------------------------------------------------------------------

def ref_varint(v: int) -> bytes:
    out = bytearray()
    while v >= 128:
        out.append(v % 128 + 128)
        v //= 128
    out.append(v)
    return bytes(out)


def ref_ms(v: int) -> bytes:
    m = v + MSPD
    if m % 1_800_000 == 0:
        return bytes([m // 1_800_000])
    if m % 60_000 == 0:
        return (0x8000 + m // 60_000).to_bytes(2, "big")
    if m % 1000 == 0:
        return (0xA00000 + m // 1000).to_bytes(3, "big")
    return (0xC0000000 + m).to_bytes(4, "big")


def ticks_of(d: int, n: int) -> int:
    return d * 864_000_000_000 + n // 100


def is_sentinel(d, n):
    return n == 0 and d in (DUR_MIN_DAYS, DUR_MAX_DAYS)


def ref_trans(prev, value) -> bytes:
    """prev, value: (days, nano) tuples; prev may be None. Documented compact forms."""
    d, n = value
    if value == (DUR_MIN_DAYS, 0):
        return b"\x00"
    if value == (DUR_MAX_DAYS, 0):
        return b"\x01"
    vt = ticks_of(d, n)
    if prev is not None and prev != (DUR_MIN_DAYS, 0):
        diff = vt - ticks_of(*prev)
        if diff % TPH == 0 and 128 <= diff // TPH < (1 << 21):
            return ref_varint(diff // TPH)
    if (d, n) >= (E1800_DAYS, 0):
        diff = vt - ticks_of(E1800_DAYS, 0)
        if diff % TPMIN == 0 and (1 << 21) < diff // TPMIN <= I32MAX:
            return ref_varint(diff // TPMIN)
    return b"\x02" + (vt % (1 << 64)).to_bytes(8, "big")


def ref_str(pool, s: str) -> bytes:
    if pool is None:
        b = s.encode("utf-8")
        return ref_varint(len(b)) + b
    if s not in pool:
        pool.append(s)
    return ref_varint(pool.index(s))


def ref_zigzag(v: int) -> bytes:
    return ref_varint(2 * v if v >= 0 else -2 * v - 1)


def ref_yo(t: str) -> bytes:
    mo, m, d, w, a, tod, ad = (int(x) for x in t.split(":"))
    return bytes([mo * 32 + w * 4 + a * 2 + ad]) + ref_varint(m) + ref_zigzag(d) + ref_ms(tod // 1_000_000)


def ref_map(pool, t: str) -> bytes:
    """the map text is (standard offset; standard recurrence; dst recurrence) *after* the constructor sorted them"""
    o, a, b = t.split(";")
    an, asv, ay, _, _ = a.split(",")
    bn, bsv, by, _, _ = b.split(",")
    return ref_ms(int(o) * 1000) + ref_str(pool, s_of(an)) + ref_yo(ay) + ref_str(pool, s_of(bn)) + ref_yo(by) + ref_ms(int(bsv) * 1000)


def ref_rec(pool, t: str) -> bytes:
    n, sv, yo, f, to = t.split(",")
    return ref_str(pool, s_of(n)) + ref_ms(int(sv) * 1000) + ref_yo(yo) + ref_varint(max(int(f), 0)) + ref_varint(int(to))


def ref_precalc(pool, t: str) -> bytes:
    parts = t.split("|")
    ivs = [x.split(",") for x in parts[2:-2]]
    out = ref_varint(len(ivs))
    prev = None
    tup = lambda x: tuple(int(y) for y in x.split(":"))  # noqa: E731
    for n, st, en, w, sv in ivs:
        out += ref_trans(prev, tup(st))
        prev = tup(st)
        out += ref_str(pool, s_of(n)) + ref_ms(int(w) * 1000) + ref_ms(int(sv) * 1000)
    out += ref_trans(prev, tup(ivs[-1][2]))
    if parts[-1] == "-":
        return out + b"\x00"
    return out + b"\x01" + ref_map(pool, parts[-1])


# ---------------------------------------------------------------------------------------------
# direct oracle: read(write(v)) == v with exact consumption, and the documented compact form
# ---------------------------------------------------------------------------------------------

TAIL = b"\x5a\x00\xff"     # bytes that follow the value: the reader must leave exactly these


def _roundtrip(write, read, eq=lambda a, b: a == b, pool=None):
    """returns (written bytes, value read back, bytes left) or ('raised', exc)."""
    buf, w = new_writer(pool)
    write(w)
    data = buf.getvalue()
    st, r = new_reader(data + TAIL, pool)
    back = read(r)
    return data, back, len(data) + len(TAIL) - st.tell()


class _Cap:
    """The framework keeps at most 2000 failures per run; during the bulk pass of a suite report at most PER_KEY
    failures of one class (the rest are counted in SUPPRESSED and shown in the evidence notes). The search pass around
    a disagreement (which starts by calling `neighbours`) is never capped."""
    PER_KEY = 60
    bulk = True
    seen: dict = {}
    suppressed: dict = {}

    @classmethod
    def reset(cls):
        cls.bulk = True

    @classmethod
    def filter(cls, f):
        if f is None or not cls.bulk:
            return f
        k = f["key"]
        cls.seen[k] = cls.seen.get(k, 0) + 1
        if cls.seen[k] > cls.PER_KEY:
            cls.suppressed[k] = cls.suppressed.get(k, 0) + 1
            return None
        return f


def oracle(t):
    return _Cap.filter(oracle_raw(t))


def oracle_raw(t):
    op = t[0]
    if not op.startswith("enc."):
        return None
    kind = op[4:]
    try:
        return _oracle_enc(kind, t)
    except (ValueError, OverflowError):
        # the writer (or the construction of the value) rejected the input: nothing to round-trip
        return _rejected(kind, t)


def _rejected(kind, t):
    if kind == "count" and 0 <= int(t[1]) <= I32MAX:
        return {"key": "count-rejected-in-domain", "what": f"write_count({t[1]}) raised"}
    if kind == "ms" and -MSPD < int(t[1]) < MSPD:
        return {"key": "ms-rejected-in-domain", "what": f"write_milliseconds({t[1]}) raised"}
    if kind == "scount" and I32MIN <= int(t[1]) <= I32MAX:
        return {"key": "scount-rejected-in-domain", "what": f"write_signed_count({t[1]}) raised"}
    return None


def _oracle_enc(kind, t):
    if kind == "byte":
        v = int(t[1])
        data, back, left = _roundtrip(lambda w: w.write_byte(v), lambda r: r.read_byte())
        if back != v or left != len(TAIL):
            return {"key": "byte-roundtrip", "what": f"write_byte({v}) -> {data.hex()} -> {back}, {left} bytes left"}
    elif kind == "count":
        v = int(t[1])
        data, back, left = _roundtrip(lambda w: w.write_count(v), lambda r: r.read_count())
        if back != v or left != len(TAIL):
            return {"key": "count-roundtrip", "what": f"write_count({v}) -> {data.hex()} -> read_count {back}, {left} bytes left"}
        if data != ref_varint(v):
            return {"key": "count-noncanonical", "what": f"write_count({v}) -> {data.hex()}, LEB128 is {ref_varint(v).hex()}"}
    elif kind == "scount":
        v = int(t[1])
        data, back, left = _roundtrip(lambda w: w.write_signed_count(v), lambda r: r.read_signed_count())
        if back != v or left != len(TAIL):
            key = "scount-roundtrip" if I32MIN <= v <= I32MAX else "scount-outside-int32-accepted"
            return {"key": key, "what": f"write_signed_count({v}) was accepted, wrote {data.hex()}, read_signed_count gives {back} ({left} bytes left)"}
        if I32MIN <= v <= I32MAX and data != ref_varint(2 * v if v >= 0 else -2 * v - 1):
            return {"key": "scount-noncanonical", "what": f"write_signed_count({v}) -> {data.hex()}"}
    elif kind == "ms":
        v = int(t[1])
        data, back, left = _roundtrip(lambda w: w.write_milliseconds(v), lambda r: r.read_milliseconds())
        if back != v or left != len(TAIL):
            return {"key": "ms-roundtrip", "what": f"write_milliseconds({v}) wrote {data.hex()}, read_milliseconds gives {back} ({left} bytes left)"}
        if data != ref_ms(v):
            return {"key": "ms-noncanonical", "what": f"write_milliseconds({v}) wrote {data.hex()} ({len(data)} bytes); the documented compact form is {ref_ms(v).hex()} ({len(ref_ms(v))} bytes)"}
    elif kind == "offset":
        v = int(t[1])
        data, back, left = _roundtrip(lambda w: w.write_offset(offs(v)), lambda r: r.read_offset().seconds)
        if back != v or left != len(TAIL):
            return {"key": "ms-roundtrip", "what": f"write_offset({v} s) wrote {data.hex()}, read_offset gives {back} s ({left} bytes left)"}
        if data != ref_ms(v * 1000):
            return {"key": "ms-noncanonical", "what": f"write_offset({v} s) wrote {data.hex()}; the documented compact form is {ref_ms(v * 1000).hex()}"}
    elif kind == "trans":
        prev, val = p_optinst(t[1]), p_inst(t[2])
        data, back, left = _roundtrip(lambda w: w.write_zone_interval_transition(prev, val),
                                      lambda r: r.read_zone_interval_transition(prev))
        pv = None if prev is None else (prev._days_since_epoch, prev._nanosecond_of_day)
        vv = (val._days_since_epoch, val._nanosecond_of_day)
        if back != val or left != len(TAIL):
            sub = vv[1] % 100 != 0
            return {"key": "transition-subtick-truncated" if sub and left == len(TAIL) else "transition-roundtrip",
                    "what": f"write_zone_interval_transition({t[1]}, {t[2]}) was accepted, wrote {data.hex()}, reading gives {f_inst(back)} ({left} bytes left)"}
        if data != ref_trans(pv, vv):
            exp = ref_trans(pv, vv)
            key = "transition-hours-form-not-emitted" if (len(exp) < 4 and exp[0] >= 128) else "transition-noncanonical"
            return {"key": key, "what": f"write_zone_interval_transition({t[1]}, {t[2]}) wrote {data.hex()}; the documented compact form is {exp.hex()}"}
    elif kind == "str":
        pool, s = p_pool(t[1]), s_of(t[2])
        buf, w = new_writer(pool)
        w.write_string(s)
        data = buf.getvalue()
        st, r = new_reader(data + TAIL, pool)
        back = r.read_string()
        left = len(data) + len(TAIL) - st.tell()
        if back != s or left != len(TAIL):
            return {"key": "string-roundtrip", "what": f"write_string({s!r}) pool={t[1]} wrote {data.hex()}, read gives {back!r} ({left} left)"}
    elif kind == "dict":
        pool = p_pool(t[1])
        kv = [s_of(x) for x in t[2:]]
        d = {kv[i]: kv[i + 1] for i in range(0, len(kv), 2)}
        buf, w = new_writer(pool)
        w.write_dictionary(d)
        data = buf.getvalue()
        st, r = new_reader(data + TAIL, pool)
        back = r.read_dictionary()
        left = len(data) + len(TAIL) - st.tell()
        if back != d or list(back) != list(d) or left != len(TAIL):
            return {"key": "dict-roundtrip", "what": f"write_dictionary({d!r}) -> {data.hex()} -> {back!r} ({left} left)"}
    elif kind == "yo":
        y = p_yo(t[1])
        data, back, left = _roundtrip(lambda w: y._write(w), lambda r: _yo_cls().read(r))
        if back != y or left != len(TAIL):
            tod = int(t[1].split(":")[5])
            sub = tod % 1_000_000 != 0
            only_tod = f_yo(back).split(":")[:5] == t[1].split(":")[:5] and left == len(TAIL)
            key = "yearoffset-submillisecond-truncated" if sub else ("ms-roundtrip" if only_tod else "yearoffset-roundtrip")
            return {"key": key, "what": f"ZoneYearOffset {t[1]} was written as {data.hex()} and read back as {f_yo(back)} ({left} left)"}
        if data != ref_yo(t[1]):
            return _noncanon("ZoneYearOffset " + t[1], data, ref_yo(t[1]))
    elif kind == "rec":
        from pyoda_time.time_zones._zone_recurrence import _ZoneRecurrence
        pool = p_pool(t[1])
        z = p_rec(t[2])
        buf, w = new_writer(pool)
        z._write(w)
        data = buf.getvalue()
        st, r = new_reader(data + TAIL, pool)
        back = _ZoneRecurrence.read(r)
        left = len(data) + len(TAIL) - st.tell()
        if back != z or left != len(TAIL):
            lossy = I32MIN < z.from_year <= 0
            return {"key": "recurrence-nonpositive-from-year-lost" if lossy else "recurrence-roundtrip",
                    "what": f"ZoneRecurrence {t[2]} was written as {data.hex()} and read back as {f_rec(back)} ({left} left)"}
        if data != ref_rec(p_pool(t[1]), t[2]):
            return _noncanon("ZoneRecurrence " + t[2], data, ref_rec(p_pool(t[1]), t[2]))
    elif kind == "map":
        pool = p_pool(t[1])
        m = p_map(t[2])
        buf, w = new_writer(pool)
        m._write(w)
        data = buf.getvalue()
        st, r = new_reader(data + TAIL, pool)
        back = _map_cls()._read(r)
        left = len(data) + len(TAIL) - st.tell()
        if back != m or left != len(TAIL):
            return {"key": "map-roundtrip", "what": f"alternating map {t[2]} -> {data.hex()} -> {f_map(back)} ({left} left)"}
        if data != ref_map(p_pool(t[1]), f_map(m)):
            return _noncanon("alternating map " + t[2], data, ref_map(p_pool(t[1]), f_map(m)))
    elif kind == "zone":
        from pyoda_time.time_zones._precalculated_date_time_zone import _PrecalculatedDateTimeZone
        pool = p_pool(t[1])
        z = p_precalc(t[2])
        buf, w = new_writer(pool)
        z._write(w)
        data = buf.getvalue()
        st, r = new_reader(data + TAIL, pool)
        back = _PrecalculatedDateTimeZone._read(r, z.id)
        left = len(data) + len(TAIL) - st.tell()
        if f_zone(back) != f_zone(z) or left != len(TAIL):
            return {"key": "zone-roundtrip", "what": f"zone {t[2][:200]} -> {data.hex()[:200]} -> {f_zone(back)[:200]} ({left} left)"}
        if data != ref_precalc(p_pool(t[1]), t[2]):
            return _noncanon("zone " + t[2][:200], data, ref_precalc(p_pool(t[1]), t[2]))
    return None


def _noncanon(what, data, exp):
    """attribute a non-canonical composite encoding to the primitive that deviates (first differing byte)."""
    n = next((i for i, (a, b) in enumerate(zip(data, exp)) if a != b), min(len(data), len(exp)))
    key = "ms-noncanonical" if len(data) > len(exp) and n < len(data) and 0x80 <= data[n] < 0xE0 and (n >= len(exp) or exp[n] < 0x80 or data[n] >> 5 != exp[n] >> 5) else "composite-noncanonical"
    return {"key": key, "what": f"{what} was written as {data.hex()[:120]}; the documented compact encoding is {exp.hex()[:120]} (first difference at byte {n})"}


def neighbours(t):
    _Cap.bulk = False
    op = t[0]
    out = []
    if op in ("enc.ms", "enc.count", "enc.scount", "enc.offset", "enc.byte"):
        v = int(t[1])
        out += [f"{op} {v + d}" for d in (-1, 1, -30, 30, -1000, 1000)]
    if op.startswith("dec."):
        return []
    return out


# ---------------------------------------------------------------------------------------------
# generators
# ---------------------------------------------------------------------------------------------

def gen_prim_ops(ctx, n_random):
    rng = ctx.rng
    ops = []
    # bytes
    ops += [f"enc.byte {v}" for v in (-1, 0, 1, 127, 128, 255, 256)]
    # counts: every varint length switch
    cvals = set()
    for k in (7, 14, 21, 28, 31):
        for d in (-2, -1, 0, 1):
            cvals.add((1 << k) + d)
    cvals |= {-1, 0, 1, 2, 126, I32MAX - 1, I32MAX, I32MAX + 1, 1 << 32, -(1 << 31)}
    cvals |= {rng.randrange(0, 1 << rng.randrange(1, 32)) for _ in range(n_random // 20)}
    ops += [f"enc.count {v}" for v in sorted(cvals)]
    # signed counts
    svals = set()
    for k in (6, 7, 13, 14, 20, 21, 27, 28, 30, 31, 32):
        for d in (-2, -1, 0, 1):
            svals.add((1 << k) + d)
            svals.add(-(1 << k) + d)
    svals |= {0, 1, -1, 2, -2, I32MAX, I32MIN, I32MAX + 1, I32MIN - 1, 1 << 40, -(1 << 40)}
    svals |= {rng.randrange(I32MIN, I32MAX + 1) for _ in range(n_random // 20)}
    ops += [f"enc.scount {v}" for v in sorted(svals)]
    # milliseconds: every form switch around multiples of 30 min
    mvals = set()
    for k in range(-48, 49):
        base = k * 1_800_000
        for d in (0, 1, -1, 30, -30, 1000, -1000, 60_000, -60_000, 999, 59_000, 59_999, 1_799_999, 31, 29):
            mvals.add(base + d)
    mvals |= {MSPD, MSPD - 1, MSPD + 1, -MSPD, -MSPD + 1, -MSPD - 1, 0}
    for _ in range(n_random // 4):
        c = rng.random()
        if c < 0.25:
            mvals.add(rng.randrange(-MSPD + 1, MSPD))
        elif c < 0.5:
            mvals.add(rng.randrange(-86399, 86400) * 1000)
        elif c < 0.75:
            mvals.add(rng.randrange(-1439, 1440) * 60_000)
        else:
            mvals.add(rng.randrange(-47, 48) * 1_800_000 + rng.choice([0, 30, -30, 1, 1000]))
    ops += [f"enc.ms {v}" for v in sorted(mvals)]
    # offsets: boundaries and a stride over all 129 601
    ovals = {0, 1, -1, 1800, -1800, 3600, 64800, -64800, 64799, -64799, 60, 59, 61, 30}
    step = 1 if ctx.thorough else 97
    ovals |= set(range(-64800, 64801, step))
    ops += [f"enc.offset {v}" for v in sorted(ovals)]
    return ops


def _norm(d, n):
    return f"{d}:{n}"


def gen_trans_ops(ctx, n_random):
    rng = ctx.rng
    ops = []
    BMIN, BMAX = _norm(DUR_MIN_DAYS, 0), _norm(DUR_MAX_DAYS, 0)

    def at(total_ns):
        return _norm(total_ns // NPD, total_ns % NPD)

    NPH, NPM = 3_600_000_000_000, 60_000_000_000
    e1800 = E1800_DAYS * NPD
    prevs = [0, 86400 * 10**9 * 365 * 30 + 7 * NPH, e1800 - 5 * NPD, e1800, -3 * NPD + 1800 * 10**9, IMIN * NPD, 15_000 * NPD + 3 * NPM]
    hours = [0, 1, 127, 128, 129, 4000, 6000, 700_000, (1 << 21) - 1, 1 << 21, (1 << 21) + 1]
    for p in prevs:
        for h in hours:
            for d in (0, NPM, 10**9, 100, 1, -100):
                v = p + h * NPH + d
                if v < p:
                    continue
                ops.append(f"enc.trans {at(p)} {at(v)}")
        ops.append(f"enc.trans {at(p)} {BMIN}")
        ops.append(f"enc.trans {at(p)} {BMAX}")
        ops.append(f"enc.trans {at(p)} {at(p - 1)}")
        ops.append(f"enc.trans {at(p)} {at(p - NPH)}")
    minutes = [0, 1, (1 << 21) - 1, 1 << 21, (1 << 21) + 1, (1 << 21) + 2, 1 << 22, 10**8, I32MAX - 1, I32MAX, I32MAX + 1, I32MAX + 2]
    for pv in ("-", BMIN, at(e1800 - NPD)):
        for m in minutes:
            for d in (0, 100, 10**9, -100, 1, 99, 10**6):
                ops.append(f"enc.trans {pv} {at(e1800 + m * NPM + d)}")
        for v in (e1800 - 1, e1800 - 100, e1800 - NPM, IMIN * NPD, (IMAX + 1) * NPD - 100, (IMAX + 1) * NPD - 1, 0, -NPM, -1, 1, 99, 100, 101):
            ops.append(f"enc.trans {pv} {at(v)}")
        ops.append(f"enc.trans {pv} {BMIN}")
        ops.append(f"enc.trans {pv} {BMAX}")
    ops.append(f"enc.trans {BMAX} {BMAX}")
    ops.append(f"enc.trans {BMIN} {BMIN}")
    lo, hi = IMIN * NPD, (IMAX + 1) * NPD - 1
    for _ in range(n_random):
        c = rng.random()
        p = rng.randrange(lo, hi)
        if c < 0.3:
            p -= p % NPH
            v = p + rng.randrange(0, 1 << 22) * NPH
        elif c < 0.5:
            p -= p % NPM
            v = p + rng.randrange(0, 1 << 26) * NPM
        elif c < 0.7:
            p -= p % 100
            v = p + rng.randrange(0, 10**18) // 100 * 100
        elif c < 0.8:
            v = p + rng.randrange(0, 10**17)
        else:
            p = e1800 + rng.randrange(-10**6, 10**9) * NPM
            v = p + rng.choice([1, 60, 3600, 3600 * 128, 3600 * 5000]) * 10**9 * rng.randrange(0, 400)
        if not (lo <= p <= hi and lo <= v <= hi):
            continue
        pt = rng.choice(["-", BMIN, at(p), at(p), at(p)])
        ops.append(f"enc.trans {pt} {at(v)}")
    return ops


def rand_utf8(rng, maxlen=12):
    alphabet = "abcXYZ/_-+09 éßЖ中\U0001f600\u0000\u007f\u0080߿ࠀ￿"
    return "".join(rng.choice(alphabet) for _ in range(rng.randrange(0, maxlen)))


def gen_str_ops(ctx, n):
    rng = ctx.rng
    ops = []
    for s in ["", "a", "UTC", "Europe/London", "é", "\U0001f600", "x" * 127, "x" * 128, "y" * 300, "中" * 43]:
        ops.append(f"enc.str - {h_of(s)}")
    pools = ["[]", f_pool(["a"]), f_pool(["a", "", "b"]), f_pool([str(i) for i in range(130)])]
    for p in pools:
        for s in ["", "a", "b", "zz", "129", "130", "0"]:
            ops.append(f"enc.str {p} {h_of(s)}")
    for _ in range(n):
        s = rand_utf8(rng)
        if rng.random() < 0.5:
            ops.append(f"enc.str - {h_of(s)}")
        else:
            pool = [rand_utf8(rng, 4) for _ in range(rng.randrange(0, 6))]
            if rng.random() < 0.5 and pool:
                s = rng.choice(pool)
            ops.append(f"enc.str {f_pool(pool)} {h_of(s)}")
    for _ in range(n // 4):
        kv = []
        for _ in range(rng.randrange(0, 5)):
            k = rand_utf8(rng, 3)
            if k not in kv[0::2]:
                kv += [k, rand_utf8(rng, 3)]
        pool = "-" if rng.random() < 0.5 else f_pool([rand_utf8(rng, 3) for _ in range(rng.randrange(0, 4))])
        ops.append(" ".join(["enc.dict", pool] + [h_of(x) for x in kv]))
    ops.append("enc.dict -")
    ops.append("enc.dict []")
    return ops


def gen_dec_ops(ctx, n):
    """hostile and random byte strings through every reader."""
    rng = ctx.rng
    ops = []
    fixed = ["-", "00", "7f", "80", "8000", "ff", "ffffffff07", "ffffffff0f", "ffffffff7f", "8080808000", "808080808000",
             "ffffffffffffffffff01", "01", "02", "03", "7e", "e0", "e000", "df", "c0", "c0ffffff", "bf", "a0", "a00000", "9f", "9fff",
             "8b40", "a2a300", "ca4c0000", "0200", "02" + "00" * 8, "02" + "ff" * 8, "027fffffffffffffff", "028000000000000000",
             "02" + "00" * 7, "80808001", "80808000", "ffff7f", "808001", "8001", "ffffff7f", "80808080", "05ffffffff"]
    kinds = ["byte", "count", "scount", "ms", "offset", "yo"]
    for h in fixed:
        for k in kinds:
            ops.append(f"dec.{k} {h}")
        for p in ("-", "0:0", f"{DUR_MIN_DAYS}:0", f"{IMAX}:0", f"{IMIN}:0"):
            ops.append(f"dec.trans {p} {h}")
        ops.append(f"dec.str - {h}")
        ops.append(f"dec.str 41,~,42 {h}")
        ops.append(f"dec.dict - {h}")
        ops.append(f"dec.dict 41,~,42 {h}")
        ops.append(f"dec.map - {h}")
    for h in ["03e9a0", "02c328", "03e28228", "03eda080", "04f0908080", "04f4908080", "04f08080", "03efbfbf", "02c0af", "01ff", "0341", "04f09f9880", "06eda0bdedb880",
              "03e0a080", "03e09f80", "04f48fbfbf", "02c280", "02dfbf", "02c1bf", "01c2", "05f888808080", "00", "0141ff"]:
        ops.append(f"dec.str - {h}")
    for _ in range(n):
        ln = rng.randrange(0, 14)
        b = bytes(rng.choice([0, 1, 2, 3, 0x7f, 0x80, 0x81, 0xff, 0xc0, 0xa0, 0xe0, rng.randrange(256)]) for _ in range(ln))
        k = rng.choice(kinds + ["trans", "str", "strp", "dict", "map"])
        h = hexs(b)
        if k == "trans":
            p = rng.choice(["-", "0:0", f"{DUR_MIN_DAYS}:0", "-62091:0", f"{IMAX}:86399999999900", "12000:3600000000000"])
            ops.append(f"dec.trans {p} {h}")
        elif k == "str":
            ops.append(f"dec.str - {h}")
        elif k == "strp":
            ops.append(f"dec.str 41,~,42,c3a9 {h}")
        elif k == "dict":
            ops.append(f"dec.dict {rng.choice(['-', '41,~,42'])} {h}")
        elif k == "map":
            ops.append(f"dec.map {rng.choice(['-', '41,~,42'])} {h}")
        else:
            ops.append(f"dec.{k} {h}")
    return ops


def gen_yo_ops(ctx, n):
    rng = ctx.rng
    ops = []

    def yo(mo, m, d, w, a, tod, ad):
        return f"{mo}:{m}:{d}:{w}:{int(a)}:{tod}:{int(ad)}"
    for mo in (0, 1, 2):
        for (m, d, w) in [(1, 1, 0), (12, 31, 7), (3, -1, 7), (10, -31, 1), (2, 29, 0), (6, 15, 3), (0, 1, 0), (13, 1, 0), (1, 0, 0), (1, 32, 0), (1, -32, 0), (1, 1, 8), (1, 1, -1)]:
            for tod in (0, 7_200_000_000_000, 1_000_000, 30_000_000, 86_399_999_000_000, 3_600_000_000_000 + 1, 100, 999_999, 1_800_000_000_000):
                ops.append("enc.yo " + yo(mo, m, d, w, mo == 1, tod, mo == 2))
    for _ in range(n):
        tod = rng.choice([rng.randrange(0, 86400) * 10**9, rng.randrange(0, 86_400_000) * 10**6, rng.randrange(0, 48) * 1800 * 10**9])
        ops.append("enc.yo " + yo(rng.randrange(3), rng.randrange(1, 13), rng.choice([1, -1]) * rng.randrange(1, 32), rng.randrange(0, 8),
                                  rng.random() < 0.5, tod, rng.random() < 0.3))
    # alternating maps and recurrences (inline strings and pooled)
    names = ["GMT", "BST", "", "été", "-03"]
    for _ in range(n // 2):
        y1 = yo(rng.randrange(3), rng.randrange(1, 13), rng.choice([1, -1]) * rng.randrange(1, 29), rng.randrange(0, 8), rng.random() < 0.5, rng.randrange(0, 86400) * 10**9, False)
        y2 = yo(rng.randrange(3), rng.randrange(1, 13), rng.choice([1, -1]) * rng.randrange(1, 29), rng.randrange(0, 8), rng.random() < 0.5, rng.randrange(0, 48) * 1800 * 10**9, rng.random() < 0.2)
        sv = rng.choice([3600, 1800, 7200, -3600, 0, 1200])
        so = rng.choice([0, 3600, -18000, 34200, 64800 - 7200, -64800 + 3600])
        pool = rng.choice(["-", "[]", f_pool(names[:2])])
        r1 = f"{h_of(rng.choice(names))},0,{y1},{I32MIN},{I32MAX}"
        r2 = f"{h_of(rng.choice(names))},{sv},{y2},{I32MIN},{I32MAX}"
        ops.append(f"enc.map {pool} {so};{r1};{r2}")
    return ops


def gen_rec_ops(ctx, n):
    rng = ctx.rng
    ops = []

    def yo(mo, m, d, w, a, tod, ad):
        return f"{mo}:{m}:{d}:{w}:{int(a)}:{tod}:{int(ad)}"
    years = [I32MIN, -9998, -5, 0, 1, 2, 1900, 1999, 2000, 2037, 9998, 9999, 10000, I32MAX]
    for fy in years:
        for ty in years:
            ops.append(f"enc.rec - {h_of('X')},3600,{yo(1, 3, -1, 7, 0, 3600 * 10**9, 0)},{fy},{ty}")
    ops.append(f"enc.rec - {h_of('F')},0,{yo(0, 2, 30, 0, 0, 0, 0)},2000,2001")      # 30 February: not constructible
    ops.append(f"enc.rec - {h_of('F')},0,{yo(0, 2, 29, 0, 0, 0, 0)},2001,2002")      # 29 February: falls back to the 28th
    ops.append(f"enc.rec - {h_of('F')},0,{yo(0, 12, 31, 0, 0, 0, 1)},9999,9999")     # add-day at the end of time
    ops.append(f"enc.rec - {h_of('F')},0,{yo(0, 1, 1, 7, 0, 0, 0)},-9998,2000")      # previous Sunday before the start of time
    for _ in range(n):
        fy = rng.choice([I32MIN, rng.randrange(-9998, 10000), rng.randrange(1, 10000), rng.randrange(1900, 2100)])
        ty = rng.choice([I32MAX, rng.randrange(0, 10000), rng.randrange(1900, 2100)])
        y = yo(rng.randrange(3), rng.randrange(1, 13), rng.choice([1, -1]) * rng.randrange(1, 32), rng.randrange(0, 8),
               rng.random() < 0.5, rng.choice([rng.randrange(0, 86400) * 10**9, rng.randrange(0, 48) * 1800 * 10**9]), rng.random() < 0.2)
        pool = rng.choice(["-", "[]", f_pool(["GMT", "BST"])])
        ops.append(f"enc.rec {pool} {h_of(rng.choice(['GMT', 'BST', '', 'x' * 130]))},{rng.choice([0, 3600, -3600, 1800, 64800])},{y},{fy},{ty}")
    return ops


def gen_real_zone_ops(ctx, rel, stride):
    """enc.zone / dec.zonefull on zones of a real file (inline strings and a growing pool)"""
    from pyoda_time.time_zones._precalculated_date_time_zone import _PrecalculatedDateTimeZone
    data = load_file(rel)
    pool_payload, zfs = zone_fields(data)
    pool = decode_pool(pool_payload)
    ops = []
    for i, f in enumerate(zfs):
        if i % stride:
            continue
        st, r = new_reader(f, pool)
        zid = r.read_string()
        if r.read_byte() != 2:
            continue
        z = _PrecalculatedDateTimeZone._read(r, zid)
        txt = f_zone(z)
        ops.append(f"enc.zone - {txt}")
        ops.append(f"enc.zone [] {txt}")
        buf, w = new_writer(None)
        try:
            z._write(w)
            ops.append(f"dec.zonefull - {h_of(zid)} {hexs(buf.getvalue())}")
        except Exception:  # noqa: BLE001
            pass
    return ops


# ---------------------------------------------------------------------------------------------
# real files: every rule-based zone re-encoded by the real writer must reproduce its bytes
# ---------------------------------------------------------------------------------------------

def split_fields(data: bytes):
    """(id, payload_start, payload_end) for every field of a .nzd file (plain LEB128 framing)."""
    out = []
    pos = 4
    while pos < len(data):
        fid = data[pos]
        pos += 1
        ln = 0
        sh = 0
        while True:
            b = data[pos]
            pos += 1
            ln |= (b & 0x7f) << sh
            sh += 7
            if b < 0x80:
                break
        out.append((fid, pos, pos + ln))
        pos += ln
    return out


def load_file(rel):
    from common import REPO
    return (REPO / rel).read_bytes()


def zone_fields(data):
    fs = split_fields(data)
    pool_f = next(f for f in fs if f[0] == 0)
    return data[pool_f[1]:pool_f[2]], [data[a:b] for (i, a, b) in fs if i == 1]


def decode_pool(pool_payload: bytes):
    st, r = new_reader(pool_payload, None, plain=True)   # harness plumbing (the pool is needed to run anything at all)
    n = r.read_count()
    return tuple(r.read_string() for _ in range(n))


def reencode_case(case):
    """case = (file, index, pool tuple, field bytes). Oracle: decode with the real reader, encode with the real writer
    using the same string pool, compare with the slice the zone was decoded from."""
    from pyoda_time.time_zones._precalculated_date_time_zone import _PrecalculatedDateTimeZone
    rel, idx, pool, field = case
    st, r = new_reader(field, pool)
    zid = r.read_string()
    ty = r.read_byte()
    if ty != 2:
        return None
    start = st.tell()
    z = _PrecalculatedDateTimeZone._read(r, zid)
    end = st.tell()
    plist = list(pool)
    buf, w = new_writer(plist)
    z._write(w)
    out = buf.getvalue()
    if len(plist) != len(pool):
        return {"key": "zone-reencode-grew-pool", "what": f"{rel} zone {zid}: re-encoding added strings to the pool"}
    if out != field[start:end]:
        n = next((i for i, (a, b) in enumerate(zip(out, field[start:end])) if a != b), min(len(out), end - start))
        return {"key": "zone-reencode-differs",
                "what": f"{rel} zone {zid}: decoded from {end - start} bytes, the writer produced {len(out)} bytes; first difference at payload offset {n}: "
                        f"file {field[start + n:start + n + 6].hex()} vs writer {out[n:n + 6].hex()}"}
    # and the re-encoded bytes decode to the same zone
    st2, r2 = new_reader(out, pool)
    z2 = _PrecalculatedDateTimeZone._read(r2, zid)
    if f_zone(z2) != f_zone(z) or st2.tell() != len(out):
        return {"key": "zone-roundtrip", "what": f"{rel} zone {zid}: write then read gives a different zone"}
    return None


class _Case(tuple):
    """tuple with a short repr (keeps evidence and replay files small)."""
    def __repr__(self):
        return f"reencode {self[0]} #{self[1]}"


# ---------------------------------------------------------------------------------------------
# sessions: ONE writer object / ONE reader object per session (model: PyodaModel/Codec/Session.lean)
# ---------------------------------------------------------------------------------------------
#
# codec.session <pool> <endPeeks> <item>...      item = [<n>*]<kind>=<payload> | P.clear | P.set=<pool> | P.app=<str> | /
#   one real _DateTimeZoneWriter writes every document of the script into one BytesIO (the CALLER changes the shared
#   pool list as scripted); then one real _DateTimeZoneReader over all the bytes reads the documents back, its pool
#   list set (in place) at the start of each document to what the writer's pool was at the end of that document,
#   calling has_more_data n times before each read and endPeeks times at the end.
# codec.rsession <pool> <hex> <ract>...          ract = ? | b | c | sc | ms | of | tr=<prev> | s | d | yo | rec | P.set=<pool>
#   one real reader over the given bytes.

def _split_tok(tok):
    head, eq, payload = tok.partition("=")
    return head, (payload if eq else None)


def _apply_pool_act(pool, head, payload):
    """the caller's action on the shared list, in place"""
    if pool is None:
        return
    if head == "P.clear":
        pool.clear()
    elif head == "P.set":
        pool[:] = p_pool(payload)
    elif head == "P.app":
        pool.append("" if payload == "~" else s_of(payload))
    else:
        raise ValueError("pool action " + head)


def _dict_of(payload):
    if payload == "":
        return {}
    kv = ["" if x == "~" else s_of(x) for x in payload.split("/")]
    return {kv[i]: kv[i + 1] for i in range(0, len(kv), 2)}


def f_kv(d) -> str:
    return "[]" if not d else ",".join(f_poolstr(k) + "=" + f_poolstr(v) for k, v in d.items())


def _build_value(kind, payload):
    """the Python object a value token stands for (constructors run here and may raise)"""
    if kind in ("b", "c", "sc", "ms"):
        return int(payload)
    if kind == "of":
        return offs(int(payload))
    if kind == "tr":
        a, b = payload.split("/")
        return (p_optinst(a), p_inst(b))
    if kind == "s":
        return s_of(payload)
    if kind == "d":
        return _dict_of(payload)
    if kind == "yo":
        return p_yo(payload)
    if kind == "rec":
        return p_rec(payload)
    raise ValueError("value kind " + kind)


def _write_value(w, kind, v):
    if kind == "b":
        w.write_byte(v)
    elif kind == "c":
        w.write_count(v)
    elif kind == "sc":
        w.write_signed_count(v)
    elif kind == "ms":
        w.write_milliseconds(v)
    elif kind == "of":
        w.write_offset(v)
    elif kind == "tr":
        w.write_zone_interval_transition(v[0], v[1])
    elif kind == "s":
        w.write_string(v)
    elif kind == "d":
        w.write_dictionary(v)
    else:
        v._write(w)


def _read_text(r, kind, prev=None):
    """one read call on the reader, result in the model's text form"""
    if kind == "b":
        return str(r.read_byte())
    if kind == "c":
        return str(r.read_count())
    if kind == "sc":
        return str(r.read_signed_count())
    if kind == "ms":
        return str(r.read_milliseconds())
    if kind == "of":
        return str(r.read_offset().seconds)
    if kind == "tr":
        return f_inst(r.read_zone_interval_transition(prev))
    if kind == "s":
        return hexs(r.read_string().encode("utf-8"))
    if kind == "d":
        return f_kv(r.read_dictionary())
    if kind == "yo":
        return f_yo(_yo_cls().read(r))
    if kind == "rec":
        from pyoda_time.time_zones._zone_recurrence import _ZoneRecurrence
        return f_rec(_ZoneRecurrence.read(r))
    raise ValueError("read kind " + kind)


def _expected_text(kind, payload):
    """the text the reader must give back for a written value token (canonical tokens only)"""
    if kind == "tr":
        return payload.split("/")[1]
    if kind == "d":
        return f_kv(_dict_of(payload))
    if kind == "s":
        return hexs(s_of(payload).encode("utf-8"))
    return payload


def _buffered(r):
    b = getattr(r, "_DateTimeZoneReader__buffered_byte")
    return "-" if b is None else bytes([b]).hex()


def run_session(t):
    """drives the real objects; returns a dict with everything impl and oracle need"""
    from common import exc_name
    R, W = _io()
    pool0 = p_pool(t[1])
    end_peeks = int(t[2])
    pool = None if pool0 is None else list(pool0)
    buf = io.BytesIO()
    w = W._ctor(buf, pool)
    res = {"wtoks": [], "writes": [], "docs": [[]], "snaps": [], "werr": None, "rtoks": [], "reads": [], "peeks": [],
           "end_peeks": [], "rerr": None, "final": None, "pools_before": []}
    for tok in t[3:]:
        if tok == "/":
            res["snaps"].append(None if pool is None else list(pool))
            res["docs"].append([])
            continue
        head, payload = _split_tok(tok)
        if head.startswith("P."):
            _apply_pool_act(pool, head, payload)
            res["wtoks"].append(".")
            continue
        n, star, kind = head.rpartition("*")
        peeks = int(n) if star else 0
        pos = buf.tell()
        before = None if pool is None else list(pool)
        stage = "construct"
        try:
            v = _build_value(kind, payload)
            stage = "write"
            _write_value(w, kind, v)
        except Exception as e:  # noqa: BLE001
            res["wtoks"].append(exc_name(e))
            res["werr"] = (kind, payload, exc_name(e), stage)
            return res
        data = buf.getvalue()[pos:]
        res["wtoks"].append(hexs(data))
        res["writes"].append((kind, payload, data, before))
        res["docs"][-1].append((peeks, kind, payload))
    res["snaps"].append(None if pool is None else list(pool))
    res["final_pool"] = None if pool is None else list(pool)
    data = buf.getvalue()
    res["data"] = data
    rpool = None if pool0 is None else list(pool0)
    st = io.BytesIO(data)
    r = R._ctor(st, rpool)
    for doc, snap in zip(res["docs"], res["snaps"]):
        if snap is not None:
            rpool[:] = snap
            res["rtoks"].append(".")
        for peeks, kind, payload in doc:
            for _ in range(peeks):
                b = r.has_more_data
                res["rtoks"].append("1" if b else "0")
                res["peeks"].append(b)
            try:
                prev = p_optinst(payload.split("/")[0]) if kind == "tr" else None
                txt = _read_text(r, kind, prev)
            except Exception as e:  # noqa: BLE001
                res["rtoks"].append(exc_name(e))
                res["rerr"] = (kind, payload, exc_name(e))
                return res
            res["rtoks"].append(txt)
            res["reads"].append((kind, payload, txt))
    for _ in range(end_peeks):
        b = r.has_more_data
        res["rtoks"].append("1" if b else "0")
        res["end_peeks"].append(b)
    res["final"] = f"{len(data) - st.tell()} {_buffered(r)}"
    return res


_SESSION_MEMO: dict = {}


def _session_result(t):
    key = " ".join(t)
    if _SESSION_MEMO.get("key") != key:
        _SESSION_MEMO["key"] = key
        _SESSION_MEMO["res"] = run_session(t)
    return _SESSION_MEMO["res"]


def run_rsession(t, with_peeks=True):
    from common import exc_name
    R, _ = _io()
    pool0 = p_pool(t[1])
    data = unhex(t[2])
    rpool = None if pool0 is None else list(pool0)
    st = io.BytesIO(data)
    r = R._ctor(st, rpool)
    toks, reads, peeks = [], [], []
    for tok in t[3:]:
        if tok == "?":
            if with_peeks:
                b = r.has_more_data
                toks.append("1" if b else "0")
                peeks.append((len(reads), b))
            continue
        head, payload = _split_tok(tok)
        if head.startswith("P."):
            _apply_pool_act(rpool, head, payload)
            toks.append(".")
            continue
        try:
            txt = _read_text(r, head, p_optinst(payload) if head == "tr" else None)
        except Exception as e:  # noqa: BLE001
            toks.append(exc_name(e))
            reads.append((exc_name(e), None))
            return toks, reads, peeks, None
        toks.append(txt)
        reads.append((txt, len(data) - st.tell()))
    return toks, reads, peeks, f"{len(data) - st.tell()} {_buffered(r)}"


def impl_session(t):
    if t[0] == "codec.rsession":
        toks, _, _, final = run_rsession(t)
        return " ".join(toks) + ("" if final is None else " | " + final)
    res = _session_result(t)
    out = "W " + " ".join(res["wtoks"])
    if res["werr"] is not None:
        return out
    out += " | " + f_pool(res["final_pool"]) + " | " + " ".join(res["rtoks"])
    if res["final"] is not None:
        out += " | " + res["final"]
    return out


# ---- the direct oracle for sessions (plain Python reference, independent of the Lean model) ------------------

def _in_domain(kind, payload):
    """is the value one the writer must accept and the reader must give back (the `dom` of DESIGN §6 C14)?"""
    try:
        if kind == "b":
            return 0 <= int(payload) <= 255
        if kind == "c":
            return 0 <= int(payload) <= I32MAX
        if kind == "sc":
            return I32MIN <= int(payload) <= I32MAX
        if kind == "ms":
            return -MSPD < int(payload) < MSPD
        if kind == "of":
            return -64800 <= int(payload) <= 64800
        if kind == "tr":
            a, b = payload.split("/")
            d, n = (int(x) for x in b.split(":"))
            if not is_sentinel(d, n) and (n % 100 != 0 or not (IMIN <= d <= IMAX and 0 <= n < NPD)):
                return False
            if a != "-":
                pd, pn = (int(x) for x in a.split(":"))
                if (d, n) < (pd, pn):
                    return False
                if not is_sentinel(pd, pn) and pn % 100 != 0:
                    return False
            return True
        if kind in ("s", "d"):
            return True
        if kind == "yo":
            return int(payload.split(":")[5]) % 1_000_000 == 0
        if kind == "rec":
            n, sv, yo, f, to = payload.split(",")
            return int(yo.split(":")[5]) % 1_000_000 == 0 and (int(f) == I32MIN or int(f) >= 1) and int(to) >= 0
    except ValueError:
        return False
    return False


def _ref_value(pool, kind, payload) -> bytes:
    """documented encoding of one value; `pool` (a list or None) is the oracle's own copy of the shared pool list
    as it is AT THE TIME OF THE CALL and is extended like the format says"""
    if kind == "b":
        return bytes([int(payload)])
    if kind == "c":
        return ref_varint(int(payload))
    if kind == "sc":
        return ref_zigzag(int(payload))
    if kind == "ms":
        return ref_ms(int(payload))
    if kind == "of":
        return ref_ms(int(payload) * 1000)
    if kind == "tr":
        a, b = payload.split("/")
        tup = lambda x: tuple(int(y) for y in x.split(":"))  # noqa: E731
        return ref_trans(None if a == "-" else tup(a), tup(b))
    if kind == "s":
        return ref_str(pool, s_of(payload))
    if kind == "d":
        d = _dict_of(payload)
        out = ref_varint(len(d))
        for k, v in d.items():
            out += ref_str(pool, k) + ref_str(pool, v)
        return out
    if kind == "yo":
        return ref_yo(payload)
    if kind == "rec":
        return ref_rec(pool, payload)
    raise ValueError(kind)


def _script_is_clean(items, pooled):
    """pool actions other than append only BETWEEN documents (before the first value of a document)"""
    if not pooled:
        return True
    seen_value = False
    for tok in items:
        if tok == "/":
            seen_value = False
        elif tok.startswith("P.clear") or tok.startswith("P.set"):
            if seen_value:
                return False
        elif not tok.startswith("P."):
            seen_value = True
    return True


def oracle_session(t):
    if t[0] == "codec.rsession":
        return oracle_rsession(t)
    res = _session_result(t)
    items = t[3:]
    pool0 = p_pool(t[1])
    label = " ".join(t)[:400]
    # 1. bytes: every write emitted the documented encoding, with pool indices taken from the list as it was then
    opool = None if pool0 is None else list(pool0)
    wi = 0
    for tok in items:
        if tok == "/":
            continue
        head, payload = _split_tok(tok)
        if head.startswith("P."):
            _apply_pool_act(opool, head, payload)
            continue
        kind = head.rpartition("*")[2]
        if wi >= len(res["writes"]):
            # the writer raised at this value
            if res["werr"] is not None and res["werr"][3] == "write" and _in_domain(kind, payload):
                return {"key": "session-write-rejected", "what": f"value {kind}={payload} (write #{wi + 1} of the session) raised {res['werr'][2]}; session: {label}"}
            return None
        _, _, data, before = res["writes"][wi]
        if not _in_domain(kind, payload):
            return None          # accepted outside the domain: single-value findings cover that; nothing to round-trip
        exp = _ref_value(opool, kind, payload)
        if data != exp:
            stale = kind in ("s", "d", "rec") and opool is not None
            return {"key": "session-pool-index-stale" if stale else "session-bytes",
                    "what": f"write #{wi + 1} of one writer session ({kind}={payload}, shared pool list at the time of the call: {before!r}) "
                            f"emitted {data.hex()}; the documented encoding with that pool is {exp.hex()}; session: {label}"}
        wi += 1
    if res["werr"] is not None:
        return None
    if opool != res["final_pool"]:
        return {"key": "session-pool-content", "what": f"shared pool after the session is {res['final_pool']!r}, expected {opool!r}; session: {label}"}
    # 2. reading back (only when the pool was changed between documents or by appends)
    if not _script_is_clean(items, pool0 is not None):
        return None
    if res["rerr"] is not None:
        k, pl, e = res["rerr"]
        return {"key": "session-read-raised", "what": f"reading {k}={pl} back (read #{len(res['reads']) + 1}, after {len(res['peeks'])} has_more_data calls) raised {e}; session: {label}"}
    exp_vals = [(k, _expected_text(k, pl)) for doc in res["docs"] for (_, k, pl) in doc]
    got = [(k, txt) for (k, _, txt) in res["reads"]]
    if got != exp_vals:
        i = next((j for j, (a, b) in enumerate(zip(got, exp_vals)) if a != b), min(len(got), len(exp_vals)))
        return {"key": "session-value", "what": f"read #{i + 1} of one reader session gave {got[i] if i < len(got) else None}, written was {exp_vals[i] if i < len(exp_vals) else None} "
                                                 f"(has_more_data had been called {sum(p for d in res['docs'] for (p, _, _) in d)} times in the session); session: {label}"}
    if not all(res["peeks"]):
        return {"key": "session-peek", "what": f"has_more_data returned False before a value that was then read; session: {label}"}
    if any(res["end_peeks"]) or not res["final"].startswith("0 -"):
        return {"key": "session-end", "what": f"after reading everything: has_more_data {res['end_peeks']}, stream/buffer state {res['final']}; session: {label}"}
    return None


def oracle_rsession(t):
    """peeking is pure: the reads give what they give without any has_more_data call, and a peek says whether bytes
    are left (position taken from the run without peeks)"""
    toks, reads, peeks, final = run_rsession(t, True)
    toks0, reads0, _, final0 = run_rsession(t, False)
    label = " ".join(t)[:300]
    if [r[0] for r in reads] != [r[0] for r in reads0]:
        i = next((j for j, (a, b) in enumerate(zip(reads, reads0)) if a[0] != b[0]), min(len(reads), len(reads0)))
        return {"key": "session-peek-changes-read", "what": f"read #{i + 1} gives {reads[i][0] if i < len(reads) else None} with the has_more_data calls and "
                                                             f"{reads0[i][0] if i < len(reads0) else None} without them; session: {label}"}
    data_len = len(unhex(t[2]))
    for idx, b in peeks:
        left = data_len if idx == 0 else reads0[idx - 1][1]
        if left is not None and b != (left > 0):
            return {"key": "session-peek-wrong", "what": f"has_more_data after read #{idx} returned {b} with {left} bytes left; session: {label}"}
    if final is not None and final0 is not None:
        a, b = final.split(" ")[0], final0.split(" ")[0]
        bufd = final.split(" ")[1] != "-"
        if int(a) + (1 if bufd else 0) != int(b):
            return {"key": "session-peek-consumes", "what": f"bytes left at the end: {a} (+{int(bufd)} buffered) with peeks, {b} without; session: {label}"}
    return None


# ---- session generators ---------------------------------------------------------------------------------------

SESSION_NAMES = ["LMT", "GMT", "BST", "", "UTC", "CET", "CEST", "é", "中", "-03", "Europe/London", "\U0001f600", "x" * 130]
BMIN_T, BMAX_T = f"{DUR_MIN_DAYS}:0", f"{DUR_MAX_DAYS}:0"


def _at(total_ns):
    return f"{total_ns // NPD}:{total_ns % NPD}"


def _gen_yo_text(rng, zero=False):
    if zero:      # flag byte 0x00: UTC mode, no day of week, no advance, no add-day
        return f"0:{rng.randrange(1, 13)}:{rng.choice([1, 15, -1, 28])}:0:0:{rng.choice([0, 7200 * 10**9, 1800 * 10**9])}:0"
    tod = rng.choice([rng.randrange(0, 86400) * 10**9, rng.randrange(0, 86_400_000) * 10**6, rng.randrange(0, 48) * 1800 * 10**9, rng.randrange(0, 1440) * 60 * 10**9])
    return f"{rng.randrange(3)}:{rng.randrange(1, 13)}:{rng.choice([1, -1]) * rng.randrange(1, 29)}:{rng.randrange(0, 8)}:{rng.randrange(2)}:{tod}:{rng.randrange(2)}"


def _gen_value(rng, names, prev_state):
    """one in-domain value token `kind=payload` and the strings it offers to the pool (in order). ~40 % of the
    values start with a 0x00 byte."""
    NPH, NPM = 3_600_000_000_000, 60_000_000_000
    c = rng.random()
    if c < 0.10:
        return "c=" + str(rng.choice([0, 0, 0, 1, 127, 128, 16383, 16384, (1 << 21) - 1, 1 << 21, (1 << 28) - 1, 1 << 28, I32MAX, rng.randrange(0, 1 << rng.randrange(1, 32))])), []
    if c < 0.17:
        return "sc=" + str(rng.choice([0, 0, -1, 1, 63, -64, 64, -65, 8191, -8192, I32MAX, I32MIN, rng.randrange(I32MIN, I32MAX + 1), rng.randrange(-300, 300)])), []
    if c < 0.22:
        return "b=" + str(rng.choice([0, 0, 1, 127, 128, 255, rng.randrange(256)])), []
    if c < 0.30:
        v = rng.choice([0, -MSPD + 1800000, 1800000 * rng.randrange(-47, 48), 60000 * rng.randrange(-1439, 1440), 1000 * rng.randrange(-86399, 86400),
                        rng.randrange(-MSPD + 1, MSPD), MSPD - 1, -MSPD + 1, 30, -30])
        return f"ms={v}", []
    if c < 0.37:
        return "of=" + str(rng.choice([0, 0, 3600, -18000, 64800, -64800, 1800, 34200, rng.randrange(-64800, 64801), 60 * rng.randrange(-1080, 1081)])), []
    if c < 0.52:
        k = rng.random()
        e1800 = E1800_DAYS * NPD
        lo, hi = IMIN * NPD, (IMAX + 1) * NPD - 100
        if k < 0.25:
            prev, v = rng.choice(["-", "-", BMIN_T, _at(rng.randrange(lo, hi) // 100 * 100)]), BMIN_T
            if prev not in ("-", BMIN_T):
                prev = BMIN_T
        elif k < 0.33:
            prev, v = rng.choice(["-", BMIN_T, _at(rng.randrange(lo, hi) // 100 * 100), BMAX_T]), BMAX_T
        elif k < 0.58:
            p = rng.randrange(e1800, 15000 * NPD) // NPM * NPM + rng.choice([0, 0, 10**9, 100])
            h = rng.choice([128, 129, 4000, 8760, (1 << 21) - 1, rng.randrange(128, 1 << 21), 127, 1 << 21, 1, 0])
            v = p + h * NPH
            prev, v = _at(p), (_at(v) if v <= hi else _at(p))
        elif k < 0.82:
            m = rng.choice([(1 << 21) + 1, (1 << 21) + 2, 10**8, I32MAX, rng.randrange((1 << 21) + 1, 1 << 27), 1 << 21, I32MAX - 1])
            prev, v = rng.choice(["-", BMIN_T, _at(e1800 - NPD)]), _at(e1800 + m * NPM)
        else:
            x = rng.choice([rng.randrange(lo, hi) // 100 * 100, e1800 - 100, e1800 + 10**9, 0, 100, -100, lo, hi, e1800])
            prev, v = rng.choice(["-", BMIN_T, _at(lo)]), _at(x)
        return f"tr={prev}/{v}", []
    if c < 0.72:
        if names and rng.random() < 0.7:
            s = rng.choice(names)
        else:
            s = rng.choice(["", "", rand_utf8(rng, 6), "Zz", "x" * rng.choice([1, 127, 128])])
        return "s=" + h_of(s), [s]
    if c < 0.82:
        d = {}
        for _ in range(rng.choice([0, 0, 1, 2, 3, 5])):
            k = rng.choice(names) if names and rng.random() < 0.6 else rand_utf8(rng, 4)
            d[k] = rng.choice(names) if names and rng.random() < 0.6 else rand_utf8(rng, 4)
        strs = [x for kv in d.items() for x in kv]
        return "d=" + "/".join(f_poolstr(x) for x in strs), strs
    if c < 0.92:
        return "yo=" + _gen_yo_text(rng, zero=rng.random() < 0.45), []
    name = rng.choice(names) if names else rng.choice(["GMT", "", "BST"])
    fy = rng.choice([I32MIN, I32MIN, rng.randrange(1, 10000), rng.randrange(1900, 2100)])
    ty = rng.choice([I32MAX, I32MAX, rng.randrange(0, 10000), rng.randrange(1900, 2100)])
    yo = f"{rng.randrange(3)}:{rng.randrange(1, 13)}:{rng.choice([1, -1]) * rng.randrange(1, 29)}:{rng.randrange(0, 8)}:{rng.randrange(2)}:{rng.choice([0, 3600 * 10**9, 7200 * 10**9, 1800 * 10**9])}:0"
    return f"rec={h_of(name)},{rng.choice([0, 3600, -3600, 1800, 64800])},{yo},{fy},{ty}", [name]


INVALID_VALUES = ["c=-1", f"c={I32MAX + 1}", "b=256", "b=-1", f"ms={MSPD}", f"ms={-MSPD}", "tr=0:0/-1:0", "of=64801",
                  "yo=0:13:1:0:0:0:0", "yo=0:1:32:0:0:0:0", f"rec={h_of('X')},0,0:2:30:0:0:0:0,2000,2001", f"rec={h_of('X')},0,0:3:1:0:0:0:0,2000,-5"]


def gen_session_ops(ctx, n):
    rng = ctx.rng
    ops = []
    # the seeded-change scenarios, as scripts
    ops.append("codec.session - 1 c=5 2*c=0 2*c=7 2*c=0 2*c=0 2*c=300")
    ops.append(f"codec.session [] 1 of=18000 2*s={h_of('UTC+05')} 2*tr=-/{BMIN_T} c=42")
    ops.append("codec.session - 2 of=0 2*s=-")
    ops.append(f"codec.session [] 0 s={h_of('LMT')} s={h_of('GMT')} s={h_of('BST')} s={h_of('GMT')} / P.clear s={h_of('LMT')} s={h_of('PMT')} s={h_of('GMT')} s={h_of('BST')} / "
               f"P.clear d={h_of('GB')}/{h_of('Europe/London')}/{h_of('GMT')}/{h_of('Etc/GMT')}")
    for _ in range(n):
        pooled = rng.random() < 0.6
        names = rng.sample(SESSION_NAMES, rng.randrange(2, 8))
        pool = [] if pooled and rng.random() < 0.6 else (rng.sample(names, rng.randrange(0, len(names))) if pooled else None)
        sim = None if pool is None else list(pool)      # the generator's copy of the shared list
        target = rng.randrange(5, 61)
        ndocs = rng.choice([1, 1, 2, 3, 4]) if pooled else rng.choice([1, 1, 2])
        dirty = pooled and rng.random() < 0.12
        fail_at = rng.randrange(target) if rng.random() < 0.06 else -1
        items = []
        per_doc = max(1, target // ndocs)
        count = 0
        for d in range(ndocs):
            if d > 0:
                items.append("/")
            if pooled and (d > 0 or rng.random() < 0.3):
                k = rng.random()
                if k < 0.45:
                    items.append("P.clear")
                    sim.clear()
                elif k < 0.70 and len(sim) > 1:
                    rng.shuffle(sim)
                    items.append("P.set=" + f_pool(sim))
                elif k < 0.90:
                    sim[:] = rng.sample(SESSION_NAMES, rng.randrange(0, 5))
                    items.append("P.set=" + f_pool(sim))
                else:
                    x = rng.choice(SESSION_NAMES)
                    sim.append(x)
                    items.append("P.app=" + f_poolstr(x))
                count += 1
            for _ in range(per_doc):
                if count == fail_at:
                    items.append(rng.choice(INVALID_VALUES))
                    count += 1
                    continue
                if pooled and rng.random() < (0.10 if dirty else 0.04):
                    if dirty and rng.random() < 0.7:
                        k = rng.random()
                        if k < 0.4:
                            items.append("P.clear")
                            sim.clear()
                        elif len(sim) > 1:
                            rng.shuffle(sim)
                            items.append("P.set=" + f_pool(sim))
                        else:
                            sim[:] = rng.sample(SESSION_NAMES, 3)
                            items.append("P.set=" + f_pool(sim))
                    else:
                        x = rng.choice(SESSION_NAMES)
                        sim.append(x)
                        items.append("P.app=" + f_poolstr(x))
                    count += 1
                # pooled: prefer strings already in the pool (index 0 often), and strings seen in earlier documents
                cand = names if not pooled else (names + (sim[:1] * 3 if sim else []))
                tok, strs = _gen_value(rng, cand, None)
                if sim is not None:
                    for x in strs:
                        if x not in sim:
                            sim.append(x)
                peeks = rng.choice([0, 0, 1, 1, 2, 2, 3])
                items.append((f"{peeks}*" if peeks else "") + tok)
                count += 1
        if rng.random() < 0.3:
            items.append("/")
        ops.append(f"codec.session {f_pool(pool)} {rng.choice([0, 1, 2, 3, 4])} " + " ".join(items))
    return ops


RKINDS = ["b", "c", "sc", "ms", "of", "s", "d", "yo", "rec"]


def gen_rsession_ops(ctx, n):
    """one reader over given bytes: encodings of random values read back with the SAME or with OTHER kinds, hostile
    bytes, trailing zero bytes; peeks anywhere"""
    rng = ctx.rng
    ops = ["codec.rsession - 000500070000ac02 ? ? c ? ? c ? ? c ? ? c ? ? c ? ? c ? ?",
           "codec.rsession - 3000 of ? ? s ? ?", "codec.rsession - 00 ? ? ? b ? ?", "codec.rsession - - ? ?",
           "codec.rsession 41,~,42 000102 ? ? s ? s ? ? s ? s"]
    for _ in range(n):
        pooled = rng.random() < 0.5
        pool = rng.sample(SESSION_NAMES, rng.randrange(0, 6)) if pooled else None
        sim = None if pool is None else list(pool)
        data = b""
        acts = []
        for _ in range(rng.randrange(1, 14)):
            tok, _ = _gen_value(rng, sim if sim else SESSION_NAMES[:5], None)
            kind, payload = _split_tok(tok)
            if kind == "rec":
                kind, payload = "c", "0"
            data += _ref_value(sim, kind, payload)
            k = kind if rng.random() < 0.8 else rng.choice(RKINDS)
            acts += ["?"] * rng.choice([0, 0, 1, 2, 2, 3])
            acts.append("tr=" + payload.split("/")[0] if k == "tr" else k)
        c = rng.random()
        if c < 0.25:
            data += bytes(rng.choice([0, 0, 0, 1, 0x80, 0xff, rng.randrange(256)]) for _ in range(rng.randrange(1, 4)))
        elif c < 0.35 and data:
            data = data[:rng.randrange(len(data))]
        elif c < 0.45:
            data = bytes(rng.choice([0, 0, 1, 2, 0x7f, 0x80, 0x81, 0xff, 0xc0, 0xa0, rng.randrange(256)]) for _ in range(rng.randrange(0, 24)))
        acts += ["?"] * rng.choice([0, 1, 2, 3])
        if rng.random() < 0.3:
            acts += [rng.choice(RKINDS), "?", "?"]
        # the reader sees the pool as it is at the end (strings appended while "writing")
        ops.append(f"codec.rsession {f_pool(sim)} {hexs(data)} " + " ".join(acts))
    return ops


def neighbours_session(t):
    return []


def run(ctx):
    nq = ctx.scale(25_000, 400_000)
    ops = gen_prim_ops(ctx, nq)
    ops += gen_trans_ops(ctx, nq)
    ops += gen_str_ops(ctx, nq // 4)
    ops += gen_yo_ops(ctx, nq // 6)
    ops += gen_rec_ops(ctx, nq // 6)
    for rel in FILES:
        ops += gen_real_zone_ops(ctx, rel, 1 if ctx.thorough else 12)
    run_files(ctx)
    _Cap.reset()
    ctx.correspond("codec.prim.enc", ops, impl, oracle=oracle, neighbours=neighbours)
    ctx.correspond("codec.prim.dec", gen_dec_ops(ctx, nq), impl, oracle=None)
    ns = ctx.scale(1200, 60_000)
    ctx.correspond("codec.sessions", gen_session_ops(ctx, ns) + gen_rsession_ops(ctx, ns), impl_session, oracle=oracle_session,
                   neighbours=neighbours_session)
    if _Cap.suppressed:
        ctx.note("failures_not_listed_individually", dict(_Cap.suppressed))


def run_files(ctx):
    for rel in FILES:
        data = load_file(rel)
        pool_payload, zfs = zone_fields(data)
        pool = decode_pool(pool_payload)
        cases = [_Case((rel, i, pool, f)) for i, f in enumerate(zfs)]
        ctx.check_cases("zones.reencode." + rel.split("/")[-1], cases, reencode_case, exhaustive=True)
        # model: decoded zone data == code's, and the model's re-encoding reproduces the bytes
        ph = hexs(pool_payload)
        step = 20
        dump_ops, reenc_ops = [], []
        for i in range(0, len(zfs), step):
            chunk = " ".join(hexs(f) for f in zfs[i:i + step])
            dump_ops.append(f"zone.dump {ph} {chunk}")
            reenc_ops.append(f"zone.reenc {ph} {chunk}")
        ctx.correspond("zones.decode." + rel.split("/")[-1], dump_ops, impl_zone, exhaustive=True)
        ctx.correspond("zones.model-reencode." + rel.split("/")[-1], reenc_ops, impl_reenc_expected, exhaustive=True)
        # canonical check (strict decoder of PyodaModel/Codec/Canonical.lean, soundness = write_read_canonical): every real
        # zone field must pass; damaged / non-canonical variants must be classified as the code classifies them
        canon_ops = [f"zone.canon {ph} " + " ".join(hexs(f) for f in zfs[i:i + step]) for i in range(0, len(zfs), step)]
        ctx.correspond("zones.canonical." + rel.split("/")[-1], canon_ops, impl_canon, exhaustive=True)
        real = " ".join(impl_canon(o.split(" ")) for o in canon_ops).split(" ")
        ctx.note("canonical_real_fields." + rel.split("/")[-1], {k: real.count(k) for k in sorted(set(real))})
        if any(x not in ("1", "fixed") for x in real):
            ctx.add_failure({"key": "real-zone-not-canonical", "what": f"{rel}: a zone field of the file is not in canonical form: {sorted(set(real))}"},
                            op="zones.canonical " + rel, source="oracle")
        nc = gen_noncanonical(ctx, zfs, ctx.scale(1200, 60_000))
        nc_ops = [f"zone.canon {ph} " + " ".join(hexs(f) for f in nc[i:i + 40]) for i in range(0, len(nc), 40)]
        ctx.correspond("zones.noncanonical." + rel.split("/")[-1], nc_ops, impl_canon)


def impl_zone(t):
    """decode zone fields with the real reader (exactly what create_zone does) and print them canonically."""
    from pyoda_time.time_zones._fixed_date_time_zone import _FixedDateTimeZone
    from pyoda_time.time_zones._precalculated_date_time_zone import _PrecalculatedDateTimeZone
    pool = decode_pool(unhex(t[1]))
    out = []
    for h in t[2:]:
        def one(h=h):
            field = unhex(h)
            st, r = new_reader(field, pool)
            zid = r.read_string()
            st, r = new_reader(field, pool)
            r.read_string()
            ty = r.read_byte()
            if ty == 1:
                return f_zone(_FixedDateTimeZone.read(r, zid))
            if ty == 2:
                return f_zone(_PrecalculatedDateTimeZone._read(r, zid))
            raise ValueError("zone type")
        out.append(guard(one))
    return " ".join(out)


def impl_canon(t):
    """the code's own notion of canonical bytes for a zone field: it decodes (constructors included) to the end of the
    field and the writer, given the same pool, reproduces the payload without adding strings."""
    from pyoda_time.time_zones._precalculated_date_time_zone import _PrecalculatedDateTimeZone
    pool = decode_pool(unhex(t[1]))
    out = []
    for h in t[2:]:
        def one(h=h):
            field = unhex(h)
            st, r = new_reader(field, pool)
            zid = r.read_string()
            if r.read_byte() != 2:
                return "fixed"
            start = st.tell()
            z = _PrecalculatedDateTimeZone._read(r, zid)
            if st.tell() != len(field):
                return "0"
            plist = list(pool)
            buf, w = new_writer(plist)
            z._write(w)
            return "1" if buf.getvalue() == field[start:] and len(plist) == len(pool) else "0"
        out.append(guard(one))
    return " ".join(out)


def gen_noncanonical(ctx, zfs, n):
    """zone fields that mostly still decode but are not what the writer emits: over-long varints, wrong millisecond /
    transition forms (by byte substitution), trailing bytes"""
    rng = ctx.rng
    out = []
    for f in zfs[:60]:
        p = 0
        while f[p] >= 0x80:
            p += 1
        p += 2                                   # pooled id, type byte -> period count
        if p < len(f) and f[p] < 0x80:
            out.append(f[:p] + bytes([f[p] | 0x80, 0x00]) + f[p + 1:])      # over-long count
        out.append(f + b"\x00")                                               # trailing byte
    for _ in range(n):
        f = bytearray(rng.choice(zfs))
        for _ in range(rng.choice([1, 1, 2])):
            p = rng.randrange(len(f))
            f[p] = rng.choice([(f[p] + 1) % 256, (f[p] - 1) % 256, f[p] ^ 0x80, 0x30, 0x32, 0x2e, rng.randrange(256)])
        out.append(bytes(f))
    return out


def impl_reenc_expected(t):
    """the property's expectation for the model's re-encoding: '=' for every precalculated zone."""
    pool = decode_pool(unhex(t[1]))
    out = []
    for h in t[2:]:
        field = unhex(h)
        st, r = new_reader(field, pool)
        r.read_string()
        out.append("=" if r.read_byte() == 2 else "fixed")
    return " ".join(out)


def replay_op(op, failure):
    if op.startswith("reencode "):
        rel, idx = op.split(" ")[1], int(op.split("#")[1])
        data = load_file(rel)
        pool_payload, zfs = zone_fields(data)
        return reencode_case((rel, idx, decode_pool(pool_payload), zfs[idx]))
    if op.startswith("codec.session ") or op.startswith("codec.rsession "):
        return oracle_session(op.split(" "))
    return oracle(op.split(" "))
