"""C03 — Duration / Instant / Offset do exact integer arithmetic."""
from __future__ import annotations

from common import guard, ints

NPD = 86_400_000_000_000
UNIT_NANOS = {"days": NPD, "hours": 3_600_000_000_000, "minutes": 60_000_000_000, "seconds": 1_000_000_000,
              "milliseconds": 1_000_000, "microseconds": 1_000, "ticks": 100, "nanoseconds": 1}
DMAX = (1 << 30) - 1
DMIN = -(1 << 30)
DUR_MIN_NS = DMIN * NPD
DUR_MAX_NS = (DMAX + 1) * NPD - 1
IMIN, IMAX = -4371222, 2932896
INST_MIN_NS = IMIN * NPD
INST_MAX_NS = (IMAX + 1) * NPD - 1

META = {
    "property": "C03",
    "proof_modules": ["PyodaProofs.C03", "PyodaProofs.Decimal", "PyodaProofs.GenAgreeC03"],
    "drivers": ["drv_elapsed"],
    "theorems": [
        "Pyoda.C03.fromUnits_exact", "Pyoda.C03.fromUnits_raises_iff", "Pyoda.C03.fromNanoseconds_exact",
        "Pyoda.C03.fromNanoseconds_raises_iff", "Pyoda.C03.fromTicks_exact", "Pyoda.C03.fromTicks_raises_iff",
        "Pyoda.C03.add_exact", "Pyoda.C03.add_raises_iff",
        "Pyoda.C03.sub_exact", "Pyoda.C03.sub_raises_iff", "Pyoda.C03.neg_exact", "Pyoda.C03.mulInt_exact",
        "Pyoda.C03.divInt_exact", "Pyoda.C03.lt_iff_val", "Pyoda.C03.eq_iff_val", "Pyoda.C03.compareTo_sign",
        "Pyoda.C03.daysAcc_eq_tdiv", "Pyoda.C03.nanosecondOfDay_eq_tmod", "Pyoda.C03.hours_exact",
        "Pyoda.C03.toUnixSeconds_floor", "Pyoda.C03.fromUnixSeconds_toUnixSeconds", "Pyoda.C03.instant_plus_exact",
        "Pyoda.C03.instant_plus_raises_iff", "Pyoda.C03.instant_minus_exact", "Pyoda.C03.safePlus_spec",
        "Pyoda.C03.offset_add_exact", "Pyoda.C03.offset_fromUnit_trunc",
        # the Decimal-based _towards_zero_division: full model of the 28-digit arithmetic, exact below 10^27
        "Pyoda.Decimal.pyTdivFull_exact", "Pyoda.Decimal.pyTdiv_refines_full", "Pyoda.Decimal.pyTdiv_zero_divisor",
        "Pyoda.Decimal.tdivMag_exact", "Pyoda.Decimal.no_carry", "Pyoda.Decimal.lt_pow_digits", "Pyoda.Decimal.pow_digits_le",
        # agreement of the definitions generated from the Python source (tools/py2lean.py) with the model
        "Pyoda.GenAgree.C03.gen_ticksToDaysAndTickOfDay_eq", "Pyoda.GenAgree.C03.gen_daysAndTickOfDayToTicks_eq",
        "Pyoda.GenAgree.C03.gen_boundedDaysAndTickOfDayToTicks_eq", "Pyoda.GenAgree.C03.gen_Duration_ctor_eq",
        "Pyoda.GenAgree.C03.gen_Duration_fromUnits_eq", "Pyoda.GenAgree.C03.gen_Duration_ctorUnchecked_eq",
        "Pyoda.GenAgree.C03.gen_Duration_floorDays_eq", "Pyoda.GenAgree.C03.gen_Duration_nanosecondOfFloorDay_eq",
        "Pyoda.GenAgree.C03.gen_Duration_daysAcc_eq", "Pyoda.GenAgree.C03.gen_Duration_nanosecondOfDay_eq",
        "Pyoda.GenAgree.C03.gen_Duration_hours_eq", "Pyoda.GenAgree.C03.gen_Duration_minutes_eq",
        "Pyoda.GenAgree.C03.gen_Duration_seconds_eq", "Pyoda.GenAgree.C03.gen_Duration_milliseconds_eq",
        "Pyoda.GenAgree.C03.gen_Duration_microseconds_eq", "Pyoda.GenAgree.C03.gen_Duration_subsecondTicks_eq",
        "Pyoda.GenAgree.C03.gen_Duration_subsecondNanoseconds_eq",
        "Pyoda.GenAgree.C03.gen_Duration_bclCompatibleTicks_eq",
        "Pyoda.GenAgree.C03.gen_Duration_totalNanoseconds_eq", "Pyoda.GenAgree.C03.gen_Duration_toNanos_eq",
        "Pyoda.GenAgree.C03.gen_Duration_plusSmallNanos_eq", "Pyoda.GenAgree.C03.gen_Duration_minusSmallNanos_eq",
        "Pyoda.GenAgree.C03.gen_Duration_add_eq", "Pyoda.GenAgree.C03.gen_Duration_sub_eq",
        "Pyoda.GenAgree.C03.gen_Duration_neg_eq", "Pyoda.GenAgree.C03.gen_Duration_fromNanoseconds_eq",
        "Pyoda.GenAgree.C03.gen_Duration_mulInt_eq", "Pyoda.GenAgree.C03.gen_Duration_rmulInt_eq",
        "Pyoda.GenAgree.C03.gen_Duration_divInt_eq", "Pyoda.GenAgree.C03.gen_Duration_beq_eq",
        "Pyoda.GenAgree.C03.gen_Duration_bne_eq", "Pyoda.GenAgree.C03.gen_Duration_lt_eq",
        "Pyoda.GenAgree.C03.gen_Duration_gt_eq", "Pyoda.GenAgree.C03.gen_Duration_le_eq",
        "Pyoda.GenAgree.C03.gen_Duration_ge_eq", "Pyoda.GenAgree.C03.gen_Duration_compareTo_eq",
        "Pyoda.GenAgree.C03.gen_Duration_fromDays_eq", "Pyoda.GenAgree.C03.gen_Duration_fromHours_eq",
        "Pyoda.GenAgree.C03.gen_Duration_fromMinutes_eq", "Pyoda.GenAgree.C03.gen_Duration_fromSeconds_eq",
        "Pyoda.GenAgree.C03.gen_Duration_fromMilliseconds_eq", "Pyoda.GenAgree.C03.gen_Duration_fromMicroseconds_eq",
        "Pyoda.GenAgree.C03.gen_Duration_fromTicks_eq", "Pyoda.GenAgree.C03.gen_Duration_addStatic_eq",
        "Pyoda.GenAgree.C03.gen_Duration_plus_eq", "Pyoda.GenAgree.C03.gen_Duration_subtractStatic_eq",
        "Pyoda.GenAgree.C03.gen_Duration_minus_eq", "Pyoda.GenAgree.C03.gen_Duration_negateStatic_eq",
        "Pyoda.GenAgree.C03.gen_Duration_equals_eq", "Pyoda.GenAgree.C03.gen_Offset_ctor_eq",
        "Pyoda.GenAgree.C03.gen_Offset_secondsAcc_eq", "Pyoda.GenAgree.C03.gen_Offset_milliseconds_eq",
        "Pyoda.GenAgree.C03.gen_Offset_ticks_eq", "Pyoda.GenAgree.C03.gen_Offset_nanoseconds_eq",
        "Pyoda.GenAgree.C03.gen_Offset_neg_eq", "Pyoda.GenAgree.C03.gen_Offset_fromSeconds_eq",
        "Pyoda.GenAgree.C03.gen_Offset_add_eq", "Pyoda.GenAgree.C03.gen_Offset_sub_eq",
        "Pyoda.GenAgree.C03.gen_Offset_compareTo_eq", "Pyoda.GenAgree.C03.gen_Offset_beq_eq",
        "Pyoda.GenAgree.C03.gen_Offset_bne_eq", "Pyoda.GenAgree.C03.gen_Offset_lt_eq",
        "Pyoda.GenAgree.C03.gen_Offset_le_eq", "Pyoda.GenAgree.C03.gen_Offset_gt_eq",
        "Pyoda.GenAgree.C03.gen_Offset_ge_eq", "Pyoda.GenAgree.C03.gen_Offset_fromMilliseconds_eq",
        "Pyoda.GenAgree.C03.gen_Offset_fromTicks_eq", "Pyoda.GenAgree.C03.gen_Offset_fromNanoseconds_eq",
        "Pyoda.GenAgree.C03.gen_Offset_fromHours_eq", "Pyoda.GenAgree.C03.gen_Offset_fromHoursAndMinutes_eq",
        "Pyoda.GenAgree.C03.gen_Offset_plus_eq", "Pyoda.GenAgree.C03.gen_Offset_minus_eq",
        "Pyoda.GenAgree.C03.gen_Offset_negateStatic_eq", "Pyoda.GenAgree.C03.gen_Instant_ctor_eq",
        "Pyoda.GenAgree.C03.gen_Instant_ofDuration_eq", "Pyoda.GenAgree.C03.gen_Instant_ofDaysInvalid_eq",
        "Pyoda.GenAgree.C03.gen_Instant_beforeMinValue_eq", "Pyoda.GenAgree.C03.gen_Instant_afterMaxValue_eq",
        "Pyoda.GenAgree.C03.gen_Instant_timeSinceEpoch_eq", "Pyoda.GenAgree.C03.gen_Instant_daysSinceEpoch_eq",
        "Pyoda.GenAgree.C03.gen_Instant_nanosecondOfDay_eq", "Pyoda.GenAgree.C03.gen_Instant_isValid_eq",
        "Pyoda.GenAgree.C03.gen_Instant_fromTrusted_eq", "Pyoda.GenAgree.C03.gen_Instant_fromUntrusted_eq",
        "Pyoda.GenAgree.C03.gen_Instant_beq_eq", "Pyoda.GenAgree.C03.gen_Instant_bne_eq",
        "Pyoda.GenAgree.C03.gen_Instant_lt_eq", "Pyoda.GenAgree.C03.gen_Instant_le_eq",
        "Pyoda.GenAgree.C03.gen_Instant_gt_eq", "Pyoda.GenAgree.C03.gen_Instant_ge_eq",
        "Pyoda.GenAgree.C03.gen_Instant_compareTo_eq", "Pyoda.GenAgree.C03.gen_Instant_plus_eq",
        "Pyoda.GenAgree.C03.gen_Instant_minusDur_eq", "Pyoda.GenAgree.C03.gen_Instant_minus_eq",
        "Pyoda.GenAgree.C03.gen_Instant_plusMethod_eq", "Pyoda.GenAgree.C03.gen_Instant_fromUnixTicks_eq",
        "Pyoda.GenAgree.C03.gen_Instant_fromUnixMilliseconds_eq",
        "Pyoda.GenAgree.C03.gen_Instant_fromUnixSeconds_eq", "Pyoda.GenAgree.C03.gen_Instant_toUnixTicks_eq",
        "Pyoda.GenAgree.C03.gen_Instant_toUnixSeconds_eq", "Pyoda.GenAgree.C03.gen_Instant_toUnixMilliseconds_eq",
        "Pyoda.GenAgree.C03.gen_Instant_plusTicks_eq", "Pyoda.GenAgree.C03.gen_Instant_plusNanoseconds_eq",
        "Pyoda.GenAgree.C03.gen_LocalInstant_ofDaysInvalid_eq", "Pyoda.GenAgree.C03.gen_LocalInstant_ofDuration_eq",
        "Pyoda.GenAgree.C03.gen_LocalInstant_ofDays_eq", "Pyoda.GenAgree.C03.gen_LocalInstant_beforeMinValue_eq",
        "Pyoda.GenAgree.C03.gen_LocalInstant_afterMaxValue_eq",
        "Pyoda.GenAgree.C03.gen_LocalInstant_timeSinceLocalEpoch_eq",
        "Pyoda.GenAgree.C03.gen_LocalInstant_daysSinceEpoch_eq",
        "Pyoda.GenAgree.C03.gen_LocalInstant_nanosecondOfDay_eq", "Pyoda.GenAgree.C03.gen_LocalInstant_isValid_eq",
        "Pyoda.GenAgree.C03.gen_LocalInstant_minusZeroOffset_eq", "Pyoda.GenAgree.C03.gen_Instant_plusOffset_eq",
        "Pyoda.GenAgree.C03.gen_LocalInstant_minus_eq", "Pyoda.GenAgree.C03.gen_Instant_safePlus_eq",
        "Pyoda.GenAgree.C03.gen_LocalInstant_safeMinus_eq", "Pyoda.GenAgree.C03.gen_LocalInstant_beq_eq",
        "Pyoda.GenAgree.C03.gen_LocalInstant_lt_eq",
    ],
    "trusted_base": [
        "CPython int arithmetic; _towards_zero_division = int((Decimal(x)/Decimal(y)).quantize(0, ROUND_DOWN)) is modelled IN FULL "
        "(PyodaModel/Decimal.lean: 28 significant digits, half-even, InvalidOperation beyond 28 integer digits) and tied to CPython's decimal "
        "module by the ops `tdivfull` on operands of any size (carry of 0.99..9 into the integer part, half-even ties of 28-digit quotients, "
        "over-long quotients); that it is exact truncation for operands below 10^27 - the domain on which the models use it as `pyTdiv` - is the "
        "theorem Decimal.pyTdivFull_exact (no longer an assumption), and pyTdiv_refines_full says pyTdiv answers only what the full model answers",
        "translator tools/py2lean.py (second tie, besides the sampled correspondence): every member of Duration, Instant, _LocalInstant, Offset and "
        "_TickArithmetic listed under C03 in tools/py2lean_targets.py is re-translated from the current Python source on each run into "
        "lean/PyodaGen/C03.lean and proved equal to the hand-written model for all inputs (PyodaProofs/GenAgreeC03.lean). Trusted there: "
        "Python int = Lean Int; // and % emitted as Int.fdiv/Int.fmod and only for non-zero constant divisors (for the positive divisors "
        "used they equal Lean / and %); >> by a constant = Int.shiftRight; raising calls bound left-to-right in Except PyExc, all other "
        "expressions pure so their evaluation order is irrelevant; isinstance / `is None` tests decided from the declared parameter types "
        "(int arguments only - float and Decimal paths are not translated; classes are final); if-statements by tail duplication; "
        "object construction `self = super().__new__(cls)` + field assignments = structure literal; name mangling and property/classmethod "
        "dispatch resolved by the target list; hand-mapped helpers _towards_zero_division -> pyTdiv, _csharp_modulo -> csharpMod, "
        "_Preconditions._check_argument_range -> checkRange (these three stay tied by correspondence only); exception classes mapped to PyExc by name; "
        "integer constants resolved by AST evaluation of their defining expressions (not by import)",
    ],
    "partial": ["float-valued accessors (total_*), Duration*float, Duration/float, Duration/Duration, julian dates are outside the theorems"],
    "rule": "ops are generated as k*unit+delta at zero, sign changes, day boundaries and range edges plus seeded random; distinct = distinct op line; non-trivial = every op (all exercise arithmetic or a range check)",
}


def _P():
    import pyoda_time as P
    return P


def dur(d, n):
    return _P().Duration._ctor(days=d, nano_of_day=n)


def sd(x):
    return ints(x._floor_days, x._nanosecond_of_floor_day)


def inst(d, n):
    return _P().Instant._ctor(days=d, nano_of_day=n)


def si(x):
    return ints(x._days_since_epoch, x._nanosecond_of_day)


def split(ns):
    return divmod(ns, NPD)


def impl(t):
    P = _P()
    D, I, O = P.Duration, P.Instant, P.Offset
    op = t[0]
    a = [int(x) for x in t[1:] if x.lstrip("-").isdigit()]
    if op == "tdiv":
        from pyoda_time.utility._csharp_compatibility import _towards_zero_division
        return str(_towards_zero_division(a[0], a[1]))
    if op == "tdivfull":
        from pyoda_time.utility._csharp_compatibility import _towards_zero_division
        return str(_towards_zero_division(a[0], a[1]))
    if op == "cmod":
        from pyoda_time.utility._csharp_compatibility import _csharp_modulo
        return str(_csharp_modulo(a[0], a[1]))
    if op == "i32":
        from pyoda_time.utility._csharp_compatibility import _int32_overflow
        return str(_int32_overflow(a[0]))
    if op == "i64":
        from pyoda_time.utility._csharp_compatibility import _int64_overflow
        return str(_int64_overflow(a[0]))
    if op == "dur.from":
        return sd(getattr(D, "from_" + t[1])(int(t[2])))
    if op == "dur.add":
        return sd(dur(a[0], a[1]) + dur(a[2], a[3]))
    if op == "dur.sub":
        return sd(dur(a[0], a[1]) - dur(a[2], a[3]))
    if op == "dur.neg":
        return sd(-dur(a[0], a[1]))
    if op == "dur.mul":
        return sd(dur(a[0], a[1]) * a[2])
    if op == "dur.div":
        return sd(dur(a[0], a[1]) / a[2])
    if op == "dur.cmp":
        x, y = dur(a[0], a[1]), dur(a[2], a[3])
        c = x.compare_to(y)
        return ints(x == y, x < y, x <= y, x > y, x >= y, (c > 0) - (c < 0))
    if op == "dur.acc":
        x = dur(a[0], a[1])
        parts = []
        for name in ["days", "nanosecond_of_day", "hours", "minutes", "seconds", "milliseconds", "microseconds",
                     "subsecond_ticks", "subsecond_nanoseconds", "bcl_compatible_ticks"]:
            parts.append(guard(lambda n=name: str(getattr(x, n))))
        parts.append(str(x.to_nanoseconds()))
        return " ".join(parts)
    if op == "dur.small":
        x = dur(a[0], a[1])
        return guard(lambda: sd(x._plus_small_nanoseconds(a[2]))) + " | " + guard(lambda: sd(x._minus_small_nanoseconds(a[2])))
    if op == "inst.fromunix":
        return si(getattr(I, "from_unix_time_" + t[1])(int(t[2])))
    if op == "inst.tounix":
        x = inst(a[0], a[1])
        return " ".join([guard(lambda: str(x.to_unix_time_seconds())), guard(lambda: str(x.to_unix_time_milliseconds())),
                         guard(lambda: str(x.to_unix_time_ticks()))])
    if op == "inst.plus":
        return si(inst(a[0], a[1]) + dur(a[2], a[3]))
    if op == "inst.minusdur":
        return si(inst(a[0], a[1]) - dur(a[2], a[3]))
    if op == "inst.minus":
        return sd(inst(a[0], a[1]) - inst(a[2], a[3]))
    if op == "inst.plusticks":
        return si(inst(a[0], a[1]).plus_ticks(a[2]))
    if op == "inst.plusnanos":
        return si(inst(a[0], a[1]).plus_nanoseconds(a[2]))
    if op == "inst.safeplus":
        r = inst(a[0], a[1])._safe_plus(O.from_seconds(a[2]))
        return ints(r._days_since_epoch, r._nanosecond_of_day)
    if op == "linst.safeminus":
        from pyoda_time._local_instant import _LocalInstant
        r = _LocalInstant._ctor(days=a[0], nano_of_day=a[1])._safe_minus(O.from_seconds(a[2]))
        return si(r)
    if op == "off.from":
        return str(getattr(O, "from_" + t[1])(int(t[2])).seconds)
    if op == "off.hm":
        return str(O.from_hours_and_minutes(a[0], a[1]).seconds)
    if op == "off.add":
        return str((O.from_seconds(a[0]) + O.from_seconds(a[1])).seconds)
    if op == "off.sub":
        return str((O.from_seconds(a[0]) - O.from_seconds(a[1])).seconds)
    if op == "off.neg":
        return str((-O.from_seconds(a[0])).seconds)
    raise ValueError("unknown op " + op)


# ---------------------------------------------------------------------------------------------
# direct oracle: the property evaluated with Python integers on the real objects
# ---------------------------------------------------------------------------------------------

def tdiv(x, y):
    q = abs(x) // abs(y)
    return q if (x >= 0) == (y > 0) else -q


def _expect_dur(fn, expected_ns, what):
    """fn() must return the normalised Duration of expected_ns, or raise iff expected_ns is out of range."""
    inr = DUR_MIN_NS <= expected_ns <= DUR_MAX_NS
    try:
        r = fn()
    except (ValueError, OverflowError) as e:
        import decimal
        if isinstance(e, decimal.DecimalException):
            return None
        if inr:
            return {"key": "dur-raises-in-range", "what": f"{what}: raised {type(e).__name__} although the exact result {expected_ns} ns is in range"}
        return None
    except ArithmeticError:
        return None  # decimal.InvalidOperation far outside the range: an error is raised, which is all the property asks
    d, n = r._floor_days, r._nanosecond_of_floor_day
    if not inr:
        return {"key": "dur-out-of-range-returned", "what": f"{what}: returned ({d},{n}) although the exact result {expected_ns} ns is outside the Duration range"}
    if not (0 <= n < NPD):
        return {"key": "dur-not-normalised", "what": f"{what}: returned days={d} nano_of_day={n}, not normalised"}
    if d * NPD + n != expected_ns:
        return {"key": "dur-inexact", "what": f"{what}: returned {d * NPD + n} ns, exact result is {expected_ns} ns"}
    return None


def _expect_inst(fn, expected_ns, what):
    inr = INST_MIN_NS <= expected_ns <= INST_MAX_NS
    try:
        r = fn()
    except (ValueError, OverflowError) as e:
        import decimal
        if isinstance(e, decimal.DecimalException):
            return None
        if inr:
            return {"key": "inst-raises-in-range", "what": f"{what}: raised {type(e).__name__} although the exact result is in range"}
        return None
    except ArithmeticError:
        return None
    d, n = r._days_since_epoch, r._nanosecond_of_day
    if not inr:
        return {"key": "inst-out-of-range-returned", "what": f"{what}: returned ({d},{n}); exact result {expected_ns} ns is outside the Instant range"}
    if not (0 <= n < NPD):
        return {"key": "inst-not-normalised", "what": f"{what}: days={d} nano_of_day={n}"}
    if d * NPD + n != expected_ns:
        return {"key": "inst-inexact", "what": f"{what}: {d * NPD + n} != {expected_ns}"}
    return None


def oracle(t):
    P = _P()
    D, I, O = P.Duration, P.Instant, P.Offset
    op = t[0]
    a = [int(x) for x in t[1:] if x.lstrip("-").isdigit()]
    if op == "dur.from":
        u, n = t[1], int(t[2])
        return _expect_dur(lambda: getattr(D, "from_" + u)(n), n * UNIT_NANOS[u], f"Duration.from_{u}({n})")
    if op in ("dur.add", "dur.sub"):
        x, y = dur(a[0], a[1]), dur(a[2], a[3])
        vx, vy = a[0] * NPD + a[1], a[2] * NPD + a[3]
        if op == "dur.add":
            return _expect_dur(lambda: x + y, vx + vy, f"Duration{(a[0], a[1])} + Duration{(a[2], a[3])}")
        return _expect_dur(lambda: x - y, vx - vy, f"Duration{(a[0], a[1])} - Duration{(a[2], a[3])}")
    if op == "dur.neg":
        return _expect_dur(lambda: -dur(a[0], a[1]), -(a[0] * NPD + a[1]), f"-Duration{(a[0], a[1])}")
    if op == "dur.mul":
        return _expect_dur(lambda: dur(a[0], a[1]) * a[2], (a[0] * NPD + a[1]) * a[2], f"Duration{(a[0], a[1])} * {a[2]}")
    if op == "dur.div":
        if a[2] == 0:
            return None
        return _expect_dur(lambda: dur(a[0], a[1]) / a[2], tdiv(a[0] * NPD + a[1], a[2]), f"Duration{(a[0], a[1])} / {a[2]}")
    if op == "dur.cmp":
        x, y = dur(a[0], a[1]), dur(a[2], a[3])
        vx, vy = a[0] * NPD + a[1], a[2] * NPD + a[3]
        c = x.compare_to(y)
        got = (x == y, x < y, x <= y, x > y, x >= y, (c > 0) - (c < 0), x != y)
        exp = (vx == vy, vx < vy, vx <= vy, vx > vy, vx >= vy, (vx > vy) - (vx < vy), vx != vy)
        if got != exp:
            return {"key": "dur-compare", "what": f"comparison of {t[1:]}: got {got}, expected {exp}"}
        if vx == vy and hash(x) != hash(y):
            return {"key": "dur-hash", "what": f"equal durations hash differently {t[1:]}"}
        mx, mn = D.max(x, y), D.min(x, y)
        if mx.to_nanoseconds() != max(vx, vy) or mn.to_nanoseconds() != min(vx, vy):
            return {"key": "dur-minmax", "what": f"min/max wrong for {t[1:]}"}
        return None
    if op == "dur.acc":
        x = dur(a[0], a[1])
        v = a[0] * NPD + a[1]
        nod = v - tdiv(v, NPD) * NPD  # truncated remainder
        exp = {
            "days": tdiv(v, NPD), "nanosecond_of_day": nod, "hours": tdiv(nod, UNIT_NANOS["hours"]),
            "minutes": tdiv(nod, UNIT_NANOS["minutes"]) - tdiv(nod, UNIT_NANOS["hours"]) * 60,
            "seconds": tdiv(nod, 10**9) - tdiv(nod, UNIT_NANOS["minutes"]) * 60,
            "milliseconds": tdiv(nod, 10**6) - tdiv(nod, 10**9) * 1000,
            "microseconds": tdiv(nod, 10**3) - tdiv(nod, 10**9) * 10**6,
            "subsecond_ticks": tdiv(nod, 100) - tdiv(nod, 10**9) * 10**7,
            "subsecond_nanoseconds": nod - tdiv(nod, 10**9) * 10**9,
            "bcl_compatible_ticks": tdiv(v, 100),
        }
        for k, e in exp.items():
            g = getattr(x, k)
            if g != e:
                return {"key": "dur-accessor-" + k, "what": f"Duration({a[0]},{a[1]}).{k} = {g}, exact value {e}"}
        if x.to_nanoseconds() != v:
            return {"key": "dur-to-nanoseconds", "what": f"to_nanoseconds {x.to_nanoseconds()} != {v}"}
        return None
    if op == "dur.small":
        x = dur(a[0], a[1])
        v = a[0] * NPD + a[1]
        if abs(a[2]) <= NPD:
            f = _expect_dur(lambda: x._plus_small_nanoseconds(a[2]), v + a[2], f"Duration{(a[0], a[1])}._plus_small_nanoseconds({a[2]})")
            if f:
                return f
            return _expect_dur(lambda: x._minus_small_nanoseconds(a[2]), v - a[2], f"Duration{(a[0], a[1])}._minus_small_nanoseconds({a[2]})")
        return None
    if op in ("inst.safeplus", "linst.safeminus"):
        v = a[0] * NPD + a[1]
        if not (IMIN <= a[0] <= IMAX):
            return None
        if op == "inst.safeplus":
            r = inst(a[0], a[1])._safe_plus(O.from_seconds(a[2]))
            e = v + a[2] * 10**9
        else:
            from pyoda_time._local_instant import _LocalInstant
            r = _LocalInstant._ctor(days=a[0], nano_of_day=a[1])._safe_minus(O.from_seconds(a[2]))
            e = v - a[2] * 10**9
        d, n = r._days_since_epoch, r._nanosecond_of_day
        if INST_MIN_NS <= e <= INST_MAX_NS:
            if not (0 <= n < NPD) or d * NPD + n != e:
                return {"key": "safe-offset-arith", "what": f"{op} {a}: got (days={d}, nano_of_day={n}), exact value {e} ns (normalised split expected)"}
        elif (d, n) != ((DMIN, 0) if e < INST_MIN_NS else (DMAX, 0)):
            return {"key": "safe-offset-sentinel", "what": f"{op} {a}: got ({d},{n}) for an out-of-range result {e}"}
        return None
    if op == "inst.fromunix":
        u, n = t[1], int(t[2])
        return _expect_inst(lambda: getattr(I, "from_unix_time_" + u)(n), n * UNIT_NANOS[u], f"Instant.from_unix_time_{u}({n})")
    if op == "inst.tounix":
        x = inst(a[0], a[1])
        v = a[0] * NPD + a[1]
        got = (x.to_unix_time_seconds(), x.to_unix_time_milliseconds(), x.to_unix_time_ticks())
        exp = (v // 10**9, v // 10**6, v // 100)
        if got != exp:
            return {"key": "inst-tounix-floor", "what": f"Instant({a[0]},{a[1]}) unix s/ms/ticks = {got}, floor values {exp}"}
        return None
    if op in ("inst.plus", "inst.minusdur"):
        x, y = inst(a[0], a[1]), dur(a[2], a[3])
        vx, vy = a[0] * NPD + a[1], a[2] * NPD + a[3]
        if op == "inst.plus":
            return _expect_inst(lambda: x + y, vx + vy, f"Instant{(a[0], a[1])} + Duration{(a[2], a[3])}")
        return _expect_inst(lambda: x - y, vx - vy, f"Instant{(a[0], a[1])} - Duration{(a[2], a[3])}")
    if op == "inst.minus":
        return _expect_dur(lambda: inst(a[0], a[1]) - inst(a[2], a[3]), (a[0] - a[2]) * NPD + a[1] - a[3], f"Instant - Instant {t[1:]}")
    if op == "inst.plusticks":
        e = a[0] * NPD + a[1] + a[2] * 100
        return _expect_inst(lambda: inst(a[0], a[1]).plus_ticks(a[2]), e, f"Instant{(a[0], a[1])}.plus_ticks({a[2]})")
    if op == "inst.plusnanos":
        e = a[0] * NPD + a[1] + a[2]
        return _expect_inst(lambda: inst(a[0], a[1]).plus_nanoseconds(a[2]), e, f"Instant{(a[0], a[1])}.plus_nanoseconds({a[2]})")
    if op == "off.from":
        u, n = t[1], int(t[2])
        unit_s = {"seconds": (1, 1), "milliseconds": (1, 1000), "ticks": (1, 10**7), "nanoseconds": (1, 10**9), "hours": (3600, 1)}[u]
        lim = 64800 * unit_s[1] // unit_s[0]
        try:
            r = getattr(O, "from_" + u)(n).seconds
        except (ValueError, OverflowError):
            if abs(n) <= lim:
                return {"key": "off-raises-in-range", "what": f"Offset.from_{u}({n}) raised inside +/-18h"}
            return None
        if abs(n) > lim:
            return {"key": "off-out-of-range-returned", "what": f"Offset.from_{u}({n}) returned {r}"}
        if r != tdiv(n * unit_s[0], unit_s[1]):
            return {"key": "off-inexact", "what": f"Offset.from_{u}({n}) = {r} s"}
        return None
    if op in ("off.add", "off.sub"):
        e = a[0] + a[1] if op == "off.add" else a[0] - a[1]
        try:
            r = (O.from_seconds(a[0]) + O.from_seconds(a[1])) if op == "off.add" else (O.from_seconds(a[0]) - O.from_seconds(a[1]))
        except (ValueError, OverflowError):
            if abs(e) <= 64800:
                return {"key": "off-raises-in-range", "what": f"{op} {a} raised"}
            return None
        if abs(e) > 64800 or r.seconds != e:
            return {"key": "off-arith", "what": f"{op} {a} = {r.seconds}, exact {e}"}
        return None
    return None


def neighbours(t):
    """probe the same op with integer arguments moved by ±1 / ±unit"""
    out = []
    for i, x in enumerate(t):
        if x.lstrip("-").isdigit():
            for dlt in (-1, 1):
                u = list(t)
                u[i] = str(int(x) + dlt)
                out.append(" ".join(u))
    return out


# ---------------------------------------------------------------------------------------------
# generators
# ---------------------------------------------------------------------------------------------

def gen_ns(rng, lo, hi):
    """a nanosecond value in [lo, hi] biased to zero, sign changes, day boundaries and the edges"""
    c = rng.random()
    if c < 0.15:
        base = rng.choice([0, lo, hi, -NPD, NPD, -1, 1])
    elif c < 0.55:
        base = rng.randint(lo // NPD, hi // NPD) * NPD if rng.random() < 0.5 else rng.randint(-400, 400) * NPD
    elif c < 0.8:
        u = rng.choice(list(UNIT_NANOS.values()))
        base = rng.randint(-10**6, 10**6) * u
    else:
        base = rng.randint(lo, hi)
    base += rng.choice([0, 0, 1, -1, 99, -99, 100, -100, 999, -999, 10**9 - 1, -(10**9 - 1), NPD - 1, -(NPD - 1), rng.randint(-10**6, 10**6)])
    return max(lo, min(hi, base))


def gen_dur(rng):
    return split(gen_ns(rng, DUR_MIN_NS, DUR_MAX_NS))


def gen_inst(rng):
    return split(gen_ns(rng, INST_MIN_NS, INST_MAX_NS))


def gen_ops(ctx, n):
    rng = ctx.rng
    ops = []
    units = list(UNIT_NANOS)
    # factories: boundaries of every unit's documented range and the float-domain seams of from_ticks
    for u in units:
        un = UNIT_NANOS[u]
        lo, hi = DUR_MIN_NS // un, DUR_MAX_NS // un
        for k in [0, 1, -1, lo, lo - 1, lo + 1, hi, hi + 1, hi - 1, NPD // un, -(NPD // un), NPD // un - 1, -(NPD // un) + 1, 2**63, -2**63, 2**63 - 1]:
            ops.append(f"dur.from {u} {k}")
    TPD = 864_000_000_000
    for k in [2**27 - 1, 2**27, 2**27 + 1, 268435458, 2**28, 2**29 + 12345, 2**30 - 1, 2**30, 10**9]:
        for dlt in (-1, 0, 1):
            ops.append(f"dur.from ticks {k * TPD + dlt}")
    for _ in range(n // 6):
        u = rng.choice(units)
        un = UNIT_NANOS[u]
        v = gen_ns(rng, DUR_MIN_NS - 10 * NPD, DUR_MAX_NS + 10 * NPD)
        ops.append(f"dur.from {u} {v // un + rng.choice([0, 0, 1, -1])}")
    for _ in range(n // 6):
        a, b = gen_dur(rng), gen_dur(rng)
        if rng.random() < 0.3:  # sums near the range edges
            tgt = rng.choice([DUR_MIN_NS, DUR_MAX_NS]) + rng.randint(-3, 3)
            b = split(max(DUR_MIN_NS, min(DUR_MAX_NS, tgt - (a[0] * NPD + a[1]))))
        if rng.random() < 0.2:
            b = split(max(DUR_MIN_NS, min(DUR_MAX_NS, -(a[0] * NPD + a[1]) + rng.randint(-2, 2))))
        ops.append(f"dur.{rng.choice(['add', 'sub', 'cmp'])} {a[0]} {a[1]} {b[0]} {b[1]}")
    for _ in range(n // 10):
        a = gen_dur(rng)
        ops.append(f"dur.neg {a[0]} {a[1]}")
        ops.append(f"dur.acc {a[0]} {a[1]}")
        ops.append(f"dur.small {a[0]} {a[1]} {rng.choice([0, 1, -1, NPD, -NPD, NPD + 1, -NPD - 1, rng.randint(-NPD, NPD), NPD - a[1], a[1] - NPD, -a[1], a[1]])}")
    for _ in range(n // 10):
        a = split(gen_ns(rng, -10**18, 10**18)) if rng.random() < 0.7 else gen_dur(rng)
        k = rng.choice([0, 1, -1, 2, -2, 3, 7, -7, 1000, 86400, rng.randint(-10**6, 10**6), rng.randint(-10**12, 10**12)])
        ops.append(f"dur.mul {a[0]} {a[1]} {k}")
        ops.append(f"dur.div {a[0]} {a[1]} {k}")
    for _ in range(n // 8):
        i = gen_inst(rng)
        ops.append(f"inst.tounix {i[0]} {i[1]}")
        d = gen_dur(rng) if rng.random() < 0.3 else split(gen_ns(rng, -10 * 366 * NPD, 10 * 366 * NPD))
        if rng.random() < 0.3:
            tgt = rng.choice([INST_MIN_NS, INST_MAX_NS]) + rng.randint(-2, 2)
            d = split(max(DUR_MIN_NS, min(DUR_MAX_NS, tgt - (i[0] * NPD + i[1]))))
        ops.append(f"inst.{rng.choice(['plus', 'minusdur'])} {i[0]} {i[1]} {d[0]} {d[1]}")
        j = gen_inst(rng)
        ops.append(f"inst.minus {i[0]} {i[1]} {j[0]} {j[1]}")
        ops.append(f"inst.plusticks {i[0]} {i[1]} {gen_ns(rng, -10**22, 10**22) // 100}")
        ops.append(f"inst.plusnanos {i[0]} {i[1]} {gen_ns(rng, -10**22, 10**22)}")
        o = rng.choice([0, 1, -1, 64800, -64800, rng.randint(-64800, 64800)])
        if rng.random() < 0.3:  # local time + offset lands exactly on a day boundary (carry paths)
            o = max(-64800, min(64800, rng.randint(-18, 18) * 3600 + rng.choice([0, 0, 1800, -1800])))
            i = (i[0], (-o * 10**9) % NPD if rng.random() < 0.5 else (o * 10**9) % NPD)
        ii = i if rng.random() < 0.6 else rng.choice([(IMIN, rng.randint(0, NPD - 1)), (IMAX, rng.randint(0, NPD - 1)), (IMIN, 0), (IMAX, NPD - 1), (DMIN, 0), (DMAX, 0)])
        ops.append(f"inst.safeplus {ii[0]} {ii[1]} {o}")
        ops.append(f"linst.safeminus {ii[0]} {ii[1]} {o}")
    for u, un in [("seconds", 10**9), ("milliseconds", 10**6), ("ticks", 100)]:
        lo, hi = INST_MIN_NS // un, INST_MAX_NS // un
        for k in [0, 1, -1, lo, lo - 1, hi, hi + 1]:
            ops.append(f"inst.fromunix {u} {k}")
        for _ in range(n // 40):
            ops.append(f"inst.fromunix {u} {gen_ns(rng, INST_MIN_NS - NPD, INST_MAX_NS + NPD) // un}")
    for u, lim in [("seconds", 64800), ("milliseconds", 64800_000), ("ticks", 64800 * 10**7), ("nanoseconds", 64800 * 10**9), ("hours", 18)]:
        for k in [0, 1, -1, lim, lim + 1, -lim, -lim - 1, lim - 1, 999, -999, 1999, -1999]:
            ops.append(f"off.from {u} {k}")
        for _ in range(n // 60):
            ops.append(f"off.from {u} {rng.randint(-lim - 5, lim + 5)}")
    for _ in range(n // 20):
        a, b = rng.randint(-64800, 64800), rng.choice([0, 1, -1, 64800, -64800, rng.randint(-64800, 64800)])
        ops.append(f"off.{rng.choice(['add', 'sub'])} {a} {b}")
        ops.append(f"off.neg {a}")
        ops.append(f"off.hm {rng.randint(-19, 19)} {rng.randint(-70, 70)}")
    # helper functions: in-domain samples (ties the Decimal-domain claim to CPython)
    for _ in range(n // 10):
        x = rng.randint(-10**26, 10**26) if rng.random() < 0.5 else rng.randint(-10**12, 10**12)
        y = rng.choice([1, -1, 7, 100, 1000, 10**9, NPD, rng.randint(1, 10**14), -rng.randint(1, 10**14), rng.randint(1, 10**26)])
        ops.append(f"tdiv {x} {y}")
        if rng.random() < 0.3:
            k = rng.randint(-10**12, 10**12)
            ops.append(f"tdiv {k * y + rng.choice([0, 1, -1])} {y}")
        ops.extend(gen_tdivfull(rng))
        ops.append(f"cmod {rng.randint(-10**15, 10**15)} {rng.choice([60, 1000, 10**7, 10**9, NPD, 7, rng.randint(1, 10**6)])}")
        ops.append(f"i32 {rng.randint(-2**34, 2**34)}")
        ops.append(f"i64 {rng.randint(-2**66, 2**66)}")
    return ops


def gen_tdivfull(rng):
    """operands of ANY size for the full Decimal model of _towards_zero_division (model op tdivfull): exact
    multiples +-1, fractions 0.999... that the 28-digit rounding carries into the integer part, 28-digit
    quotients at the half-even tie, quotients of more than 28 digits (InvalidOperation), zero divisors"""
    c = rng.random()
    if c < 0.3:
        y = rng.choice([1, 2, 3, 7, 10, 100, NPD, rng.randint(1, 10**rng.randint(1, 40))]) * rng.choice([1, -1])
        k = rng.randint(0, 10**rng.randint(1, 30))
        x = k * y + rng.choice([0, 1, -1, y - 1, y // 2, y // 2 + 1, rng.randint(-abs(y), abs(y))])
    elif c < 0.55:
        x = rng.randint(-10**rng.randint(1, 60), 10**rng.randint(1, 60))
        y = rng.randint(-10**rng.randint(1, 60), 10**rng.randint(1, 60))
    elif c < 0.8:
        y = 10**rng.randint(20, 40) + rng.randint(-5, 5)
        k = rng.randint(0, 10**rng.randint(0, 29))
        x = (k + 1) * y - rng.randint(1, 10**rng.randint(0, 12))
        if rng.random() < 0.5:
            x = -x
    elif c < 0.97:
        y = 2 * rng.randint(1, 10**5)
        k = rng.randint(10**27, 10**28 - 1)
        x = k * y + y // 2 + rng.choice([0, 1, -1])
    else:
        x, y = rng.choice([0, 1, -1, 10**30]), 0
    return [f"tdivfull {x} {y}"]


def check_offset_from_timedelta(us):
    """Offset.from_timedelta(timedelta(microseconds=us)): the whole seconds of the length of time, truncated towards zero
    (as documented), or ValueError when the length of time lies outside +/- 18 hours - plain integers as reference"""
    import datetime
    from pyoda_time import Offset
    td = datetime.timedelta(microseconds=us)
    lim = 18 * 3600 * 10**6
    want = ("err", "ValueError") if abs(us) > lim else ("ok", (abs(us) // 10**6) * (1 if us >= 0 else -1))
    try:
        o = Offset.from_timedelta(td)
        got = ("ok", o.seconds)
        extra = (o.milliseconds, o.ticks, o.nanoseconds)
    except Exception as e:  # noqa: BLE001
        got = ("err", type(e).__name__)
        extra = None
    if got != want:
        return {"key": "offset-from-timedelta", "what": f"Offset.from_timedelta({td!r}) [= {us} us] gave {got}, expected {want}"}
    if extra is not None and extra != (want[1] * 1000, want[1] * 10**7, want[1] * 10**9):
        return {"key": "offset-accessors", "what": f"Offset.from_timedelta({td!r}): milliseconds/ticks/nanoseconds = {extra} for {want[1]} s"}
    if got[0] == "ok" and Offset.from_timedelta(-td).seconds != -want[1] and abs(us) <= lim:
        return {"key": "offset-from-timedelta", "what": f"Offset.from_timedelta(-{td!r}) is not the negation of from_timedelta({td!r})"}
    return None


def gen_offset_timedeltas(ctx):
    rng = ctx.rng
    lim = 18 * 3600 * 10**6
    out = set()
    for base in (0, 10**6, 3600 * 10**6, 12345 * 10**6, lim - 10**6, lim):
        for d in (0, 1, 2, 499_999, 500_000, 500_001, 999_999, 10**6, 10**6 + 1, 10**6 - 1):
            for sg in (1, -1):
                out.update([sg * (base + d), sg * (base - d)])
    for _ in range(ctx.scale(400, 20_000)):
        out.add(rng.randint(-lim - 10**7, lim + 10**7))
        out.add(rng.choice([1, -1]) * rng.randint(0, 5 * 10**6))
    return sorted(out)


def run(ctx):
    n = ctx.scale(50_000, 3_000_000)
    ops = gen_ops(ctx, n)
    ctx.correspond("elapsed.ops", ops, impl, oracle=oracle, neighbours=neighbours)
    ctx.check_cases("offset.from_timedelta", gen_offset_timedeltas(ctx), check_offset_from_timedelta)
    translator_selftest(ctx)


def translator_selftest(ctx):
    """Differential self-test of tools/py2lean.py (the translator behind the generated-definition tie of C03, C01/C02,
    C10): its corpus of small functions covering every translated construct is translated, the generated Lean is
    evaluated on a grid of inputs and compared with CPython running the same functions. One oracle case per corpus
    function; independent of the repository under test (it validates the translator, not pyoda_time)."""
    import json
    import subprocess
    import sys
    import common
    tool = common.VERIF / "tools" / "py2lean_selftest.py"
    p = subprocess.run([sys.executable, str(tool), "--json"], capture_output=True, text=True, timeout=1800)
    if p.returncode not in (0, 1):
        raise common.InfraError(f"py2lean_selftest exited {p.returncode}: {(p.stdout + p.stderr)[-500:]}")
    r = json.loads(p.stdout)
    if r.get("errors"):
        raise common.InfraError(f"py2lean_selftest could not run: {r['errors'][:2]}")
    dis = {}
    for d in r.get("disagreements", []):
        dis.setdefault(d["function"], d)
    cases = sorted(r["per_function"].items()) + sorted(("refuse:" + k, v) for k, v in r.get("refused", {}).items())
    ctx.note("translator_selftest", {"functions": r["functions"], "evaluations": r["evaluations"], "must_refuse": len(r.get("refused", {}))})

    def fn(case):
        name, st = case
        if name.startswith("refuse:"):
            if not st["ok"]:
                return {"key": "translator-selftest-not-refused",
                        "what": f"py2lean must refuse corpus function {name[7:]} with '{st['expected_fragment']}', but: {st['error']}"}
            return None
        if st["disagree"]:
            d = dis.get(name, {})
            return {"key": "translator-selftest-disagreement",
                    "what": f"py2lean translation of corpus function {name} differs from CPython on {st['disagree']} of {st['inputs']} inputs, "
                            f"e.g. input {d.get('input')}: python {d.get('python')} / generated Lean {d.get('lean')}"}
        return None
    ctx.check_cases("translator.selftest", cases, fn)


def replay_op(op, failure):
    if failure.get("source", "") == "oracle:offset.from_timedelta":
        return check_offset_from_timedelta(int(op))
    return oracle(op.split(" "))
