"""C04 — each time zone partitions the whole timeline into maximal offset intervals."""
from __future__ import annotations

import zonelib as Z
from common import InfraError, guard, model_eval
from zonelib import AMAX, BMIN, MAXI, MINI, NPD, NPS

META = {
    "property": "C04",
    "proof_modules": ["PyodaProofs.C04", "PyodaProofs.C04Spec", "PyodaProofs.C04Tail", "PyodaProofs.C04TailRules",
                      "PyodaProofs.C04Seq", "PyodaProofs.C04TailEnd", "PyodaProofs.C04Zone", "PyodaProofs.C04Walk", "PyodaProofs.GenAgreeC05"],
    "drivers": ["drv_zone"],
    "theorems": [
        "Pyoda.C04.search_spec", "Pyoda.C04.precalc_get_contains", "Pyoda.C04.precalc_get_unique",
        "Pyoda.C04.precalc_abut", "Pyoda.C04.periodsWF_sound", "Pyoda.C04.fixed_partition",
        "Pyoda.C04.tail_seam", "Pyoda.C04.altmap_get_shape",
        "Pyoda.C04.precalc_spec", "Pyoda.C04.agrees", "Pyoda.C04.dataOK_sound", "Pyoda.C04.dataOK_gives_spec",
        "Pyoda.C04.altmap_get_dst", "Pyoda.C04.altmap_get_std", "Pyoda.C04.altmap_partition", "Pyoda.C04.recSpec_of_rule",
        "Pyoda.C04.ruleOK_sound", "Pyoda.C04.tailOK_sound", "Pyoda.C04.tail_partition_of_tailOK", "Pyoda.C04.tail_partition_of_tailOK_stdFirst",
        "Pyoda.C04.SeqSpec.partition", "Pyoda.C04.SeqSpec.index_unique",
        "Pyoda.C04.recSpec_of_rule_end", "Pyoda.C04.getD_last", "Pyoda.C04.getS_last", "Pyoda.C04.ruleOKE_sound",
        "Pyoda.C04.tailOKE_sound", "Pyoda.C04.tail_seq", "Pyoda.C04.tail_partition_end",
        "Pyoda.C04.tail_valid", "Pyoda.C04.tail_walls", "Pyoda.C04.tailLen_sound",
        "Pyoda.C04.SeqSpec.glue", "Pyoda.C04.stored_seq", "Pyoda.C04.seam_seq", "Pyoda.C04.zoneSeq_spec",
        "Pyoda.C04.zoneOK_sound", "Pyoda.C04.zoneOK_gives_spec",
        "Pyoda.C04.zoneOK_sound_max", "Pyoda.C04.maximal_differ", "Pyoda.C04.walk_partition", "Pyoda.C04.zoneOK_walk",
        "Pyoda.C04.dataOK_zoneSeq", "Pyoda.C04.dataOK_walk", "Pyoda.C04.fixed_zoneSeq",
        "Pyoda.C04.adjacent_differ", "Pyoda.C04.adjacent_differ_notail",
        # agreement of the definitions generated from the Python source (tools/py2lean.py) with the model
        "Pyoda.GenAgree.C05.gen_ZoneInterval_rawStart_eq", "Pyoda.GenAgree.C05.gen_ZoneInterval_rawEnd_eq",
        "Pyoda.GenAgree.C05.gen_ZoneInterval_wallOffset_eq", "Pyoda.GenAgree.C05.gen_ZoneInterval_savings_eq",
        "Pyoda.GenAgree.C05.gen_ZoneInterval_hasStart_eq", "Pyoda.GenAgree.C05.gen_ZoneInterval_hasEnd_eq",
        "Pyoda.GenAgree.C05.gen_ZoneInterval_start_eq", "Pyoda.GenAgree.C05.gen_ZoneInterval_end_eq",
        "Pyoda.GenAgree.C05.gen_ZoneInterval_containsInstant_eq",
        "Pyoda.GenAgree.C05.gen_ZoneInterval_containsLocal_eq",
        "Pyoda.GenAgree.C05.gen_ZoneLocalMapping_earlyInterval_eq",
        "Pyoda.GenAgree.C05.gen_ZoneLocalMapping_lateInterval_eq",
        "Pyoda.GenAgree.C05.gen_Zone_getEarlierMatchingInterval_eq",
        "Pyoda.GenAgree.C05.gen_Zone_getLaterMatchingInterval_eq",
        "Pyoda.GenAgree.C05.gen_Zone_getIntervalBeforeGap_eq", "Pyoda.GenAgree.C05.gen_Zone_getIntervalAfterGap_eq",
        "Pyoda.GenAgree.C05.gen_Zone_mapLocal_eq", "Pyoda.GenAgree.C05.gen_Precalc_loop_rel",
        "Pyoda.GenAgree.C05.gen_Precalc_getZoneIntervalNoTail_eq",
        "Pyoda.GenAgree.C05.gen_Precalc_getZoneIntervalNoTail_loop1_eq",
        "Pyoda.GenAgree.C05.gen_Precalc_getZoneIntervalTail_loop1_eq",
        "Pyoda.GenAgree.C05.gen_Precalc_getZoneIntervalTail_eq", "Pyoda.GenAgree.C05.gen_ZoneLocalMapping_count_eq",
        "Pyoda.GenAgree.C05.gen_ZoneLocalMapping_first_eq", "Pyoda.GenAgree.C05.gen_ZoneLocalMapping_last_eq",
        "Pyoda.GenAgree.C05.gen_ZoneLocalMapping_single_eq", "Pyoda.GenAgree.C05.gen_first_is_model",
        "Pyoda.GenAgree.C05.gen_last_is_model", "Pyoda.GenAgree.C05.gen_single_is_model",
    ],
    "trusted_base": [
        "translator tie (tools/py2lean.py; generated file lean/PyodaGen/C05.lean shared by C04 and C05, agreement in PyodaProofs/GenAgreeC05.lean): DateTimeZone.map_local and its four helpers "
        "(__get_earlier/later_matching_interval with their walrus tests on optional intervals, __get_interval_before/after_gap), ZoneInterval's __contains__ / _contains / has_start / has_end / guarded start / end, "
        "and _PrecalculatedDateTimeZone.get_zone_interval (tail dispatch with the memoised first tail interval, and the binary search as a fuel-recursive loop with an early return) are re-translated from the current source on every run and "
        "proved equal to mapLocal / earlierMatching / laterMatching / intervalBeforeGap / intervalAfterGap / Precalc.search / Precalc.get of PyodaModel/Zone.lean (the search by a step-for-step relation with fuel 2^63 periods). "
        "Trusted there: the translator's semantics (self-test of C03); the model's integer timeline as the representation of Instant / _LocalInstant / Duration / Offset objects (lean/PyodaGen/GlueC05.lean: comparisons, "
        "instant - Duration.epsilon and _LocalInstant._minus as range-checked integer subtraction, _minus_zero_offset as the identity, _days_since_epoch as floor division by a day — object-level arithmetic is tied by GenAgreeC03), "
        "ZoneInterval as the model's ZI with __local_start/__local_end = safe_plus of the bounds (what __init__ computes), ZoneLocalMapping._ctor keeping (early, late, count), the zone's own get_zone_interval and the tail zone's as abstract callees. "
        "ZoneLocalMapping.count / single / first / last are tied too, with __build_zoned_date_time abstract: which interval is built and which of SkippedTimeError / AmbiguousTimeError / the unreachable RuntimeError is raised (single builds both candidates before raising AmbiguousTimeError), and with the model's reading of a built value (its instant, buildInstant) they are Mapping.first / last / single for count <= 2. Outside the tie: the stock resolvers (closures over ZonedDateTime objects), ZonedDateTime construction itself, at_start_of_day, ZoneRecurrence / ZoneYearOffset",
        "zone data (periods, tail rules) are read from the code's decoded objects and sent to the model per run; C06 ties them to the file bytes",
        "zones with a recurring tail: zoneOK_sound / zoneOK_gives_spec derive the whole-zone description (one strictly increasing transition sequence from the beginning to the end of time: stored periods, the clamped first tail interval at the seam, the tail intervals through year 9999, the final interval ending at the after-max sentinel; lookup constant on each interval, intervals abut) and the C05 hypotheses from ONE decidable check, zoneOK (stored periods well-formed and >= 36 h, every yearly occurrence of both rules for 1900..9999 inside its own local year and two days inside the end of time, the two rules alternate, consecutive tail transitions >= 36 h apart, the stored periods end at a valid instant after the first covered tail transition, the clamped seam interval >= 36 h), which the compiled driver evaluates on the current data of every zone with a tail each run (op zone.ok; trusted: Lean compiler for that evaluation); the Gregorian year search used by the rules is the one proved in C01 (getYear_spec, greg_wf)",
        "walks and maximality: walk_partition / zoneOK_walk / dataOK_walk (the walk from the minimum instant to past the maximum instant returns abutting intervals covering every valid instant, the last one ending at the after-max sentinel) and adjacent_differ / adjacent_differ_notail (adjacent intervals differ in name or offsets) rest on the same evaluated checks plus zoneMaximal / maximal (stored periods pairwise, the last stored period against the first tail interval, the two tail rules against each other), also evaluated on every zone each run; a zone failing them is reported as a failure",
        "the older tail theorems (tail_partition_of_tailOK, years 1901..9994) stay, with their own evaluated check tailOK (op tail.ok)",
    ],
    "partial": ["zones whose data fail zoneOK (none in tzdb 2023c; listed in the evidence notes when there are any) are decided by model execution plus correspondence only",
                "instants before the first tail transition of 1901 inside the tail map alone (never reached through Precalc.get, whose stored periods cover them) are outside the tail theorems"],
    "rule": "instants: every stored period boundary -1ns/0/+1ns of every zone, tail transitions through 2100 and in far years, range ends, seeded random; distinct = distinct (zone, instant); non-trivial = zone has more than one interval",
}


def zones(ctx):
    """(safe id, real id, zone) for the run: all canonical zones; aliases sampled (all in thorough)"""
    from pyoda_time.time_zones._tzdb_date_time_zone_source import TzdbDateTimeZoneSource
    cm = TzdbDateTimeZoneSource.default.canonical_id_map
    canon = sorted(set(cm.values()))
    aliases = sorted(k for k, v in cm.items() if k != v)
    if not ctx.thorough:
        aliases = ctx.rng.sample(aliases, min(25, len(aliases)))
    tz = Z.tzdb()
    return [(Z.safe_id(i), i, tz[i]) for i in canon + aliases]


def fixed_offsets(ctx):
    offs = [0, 1, -1, 1800, -1800, 3600, 64800, -64800, 64799, 45 * 60, 12345]
    # around every half hour (for_offset keeps a table of the whole half hours): a few seconds and minutes off
    for k in ctx.rng.sample(range(-36, 37), ctx.scale(10, 73)):
        offs += [k * 1800 + d for d in (0, 1, -1, 59, -59, 60, -60, 1799) if -64800 <= k * 1800 + d <= 64800]
    offs += [ctx.rng.randint(-64800, 64800) for _ in range(ctx.scale(20, 400))]
    return list(dict.fromkeys(offs))


def fixed_zones(ctx):
    Pm = Z.P()
    return [(f"fixed{o}", None, Pm.DateTimeZone.for_offset(Pm.Offset.from_seconds(o))) for o in fixed_offsets(ctx)]


def check_fixed_zone(o):
    """DateTimeZone.for_offset(o): one interval over all of time with wall = standard = o, savings 0, advertised range [o, o]"""
    Pm = Z.P()
    z = Pm.DateTimeZone.for_offset(Pm.Offset.from_seconds(o))
    again = Pm.DateTimeZone.for_offset(Pm.Offset.from_seconds(o))
    for t in (MINI, 0, MAXI, 1234567890123456789):
        zi = z.get_zone_interval(Z.ns_inst(t))
        got = (zi.wall_offset.seconds, zi.standard_offset.seconds, zi.savings.seconds, z.get_utc_offset(Z.ns_inst(t)).seconds,
               z.min_offset.seconds, z.max_offset.seconds, zi.has_start, zi.has_end)
        if got != (o, o, 0, o, o, o, False, False):
            return {"key": "fixed-zone-wrong-offset", "what": f"DateTimeZone.for_offset({o} s) -> zone {z.id!r}: at instant {t} (wall, standard, savings, "
                    f"get_utc_offset, min, max, has_start, has_end) = {got}, expected ({o}, {o}, 0, {o}, {o}, {o}, False, False)"}
    if again.id != z.id or again.get_utc_offset(Z.ns_inst(0)).seconds != o:
        return {"key": "fixed-zone-wrong-offset", "what": f"DateTimeZone.for_offset({o} s) asked twice gives {z.id!r} then {again.id!r}"}
    return None


def impl_factory(zmap):
    def impl(t):
        op = t[0]
        if op == "zone.def":
            return "ok"
        z = zmap[t[1]]
        if op == "zone.get":
            return Z.zi_str(z.get_zone_interval(Z.ns_inst(int(t[2]))))
        if op == "zone.walk":
            fr, to, maxn = int(t[2]), int(t[3]), int(t[4])
            out = []
            cur = fr
            while cur < to and len(out) < maxn:
                zi = z.get_zone_interval(Z.ns_inst(cur))
                out.append(zi)
                cur = Z.inst_ns(zi._raw_end)
            return str(len(out)) + "".join(" | " + Z.zi_str(x) for x in out)
        raise ValueError(op)
    return impl


def oracle_factory(zmap):
    def oracle(t):
        op = t[0]
        if op == "zone.get":
            z = zmap[t[1]]
            ti = int(t[2])
            inst = Z.ns_inst(ti)
            zi = z.get_zone_interval(inst)
            s, e = Z.inst_ns(zi._raw_start), Z.inst_ns(zi._raw_end)
            if not (s <= ti < e):
                return {"key": "interval-does-not-contain-instant", "what": f"{z.id}: get_zone_interval({ti}) = [{s},{e}) does not contain it"}
            w = zi.wall_offset.seconds
            if z.get_utc_offset(inst).seconds != w:
                return {"key": "utc-offset-not-wall", "what": f"{z.id}: get_utc_offset({ti}) != wall offset of its interval"}
            if zi.standard_offset.seconds + zi.savings.seconds != w:
                return {"key": "wall-not-std-plus-savings", "what": f"{z.id} at {ti}"}
            if not (z.min_offset.seconds <= w <= z.max_offset.seconds):
                return {"key": "wall-outside-min-max", "what": f"{z.id} at {ti}: wall {w} not in [{z.min_offset.seconds},{z.max_offset.seconds}]"}
            # constant on the interval: the ends give the same interval / the neighbours abut
            if MINI <= e - 1 and e - 1 <= MAXI and z.get_zone_interval(Z.ns_inst(e - 1)) != zi:
                return {"key": "interval-not-constant", "what": f"{z.id}: instant {e - 1} inside [{s},{e}) maps to another interval"}
            if MINI <= s <= MAXI and z.get_zone_interval(Z.ns_inst(s)) != zi:
                return {"key": "interval-not-constant", "what": f"{z.id}: start {s} of the interval maps to another interval"}
            if e <= MAXI:
                nx = z.get_zone_interval(Z.ns_inst(e))
                if Z.inst_ns(nx._raw_start) != e:
                    return {"key": "gap-or-overlap", "what": f"{z.id}: interval after [{s},{e}) starts at {Z.inst_ns(nx._raw_start)}"}
                if nx.name == zi.name and nx.wall_offset == zi.wall_offset and nx.savings == zi.savings:
                    return {"key": "adjacent-intervals-equal", "what": f"{z.id}: intervals around {e} have equal name and offsets"}
            elif e != AMAX:
                return {"key": "bad-end-sentinel", "what": f"{z.id}: end {e}"}
            return None
        if op == "zone.walk":
            z = zmap[t[1]]
            fr, to, maxn = int(t[2]), int(t[3]), int(t[4])
            prev = None
            cur = fr
            n = 0
            while cur < to and n < maxn:
                zi = z.get_zone_interval(Z.ns_inst(cur))
                s, e = Z.inst_ns(zi._raw_start), Z.inst_ns(zi._raw_end)
                if not (s <= cur < e):
                    return {"key": "interval-does-not-contain-instant", "what": f"{z.id}: walking at {cur} got [{s},{e})"}
                if prev is not None and s != Z.inst_ns(prev._raw_end):
                    return {"key": "gap-or-overlap", "what": f"{z.id}: walking, interval at {cur} starts at {s}"}
                if prev is not None and prev.name == zi.name and prev.wall_offset == zi.wall_offset and prev.savings == zi.savings:
                    return {"key": "adjacent-intervals-equal", "what": f"{z.id}: around {s}"}
                prev = zi
                cur = e
                n += 1
            if fr == MINI and to > MAXI and n < maxn and (prev is None or Z.inst_ns(prev._raw_end) != AMAX):
                return {"key": "walk-does-not-reach-end-of-time", "what": f"{z.id}"}
            return None
        return None
    return oracle


def year_ns(y):
    import datetime
    return (datetime.date(max(1, min(9999, y)), 1, 1).toordinal() - 719163) * NPD


def run(ctx):
    fz = fixed_zones(ctx)
    ctx.check_cases("fixed-zones.offset-asked-for", [int(sid[5:]) for sid, _, _ in fz], check_fixed_zone)
    zs = zones(ctx) + fz
    zmap = {sid: z for sid, _, z in zs}
    defs = [Z.zone_def_line(sid, z) for sid, _, z in zs]
    ctx.note("zones", len(zs))
    # (a) data hypotheses evaluated by the model on the current data
    wf = model_eval(defs + [f"zone.wf {sid}" for sid, _, _ in zs], "drv_zone")[len(defs):]
    minlen = AMAX
    n_tail = 0
    n_dataok = 0
    not_dataok = []
    for (sid, rid, z), r in zip(zs, wf):
        p = r.split(" ")
        if p[0] == "fixed":
            continue
        if p[:3] != ["1", "1", "1"]:
            ctx.add_failure({"key": "periods-not-wellformed", "what": f"{z.id}: validate/periodsWF/maximal = {p[:3]} on the decoded periods"}, op=f"zone.wf {sid}", source="model-eval:PeriodsWF")
        minlen = min(minlen, int(p[3]))
        if (int(p[4]), int(p[5])) != (z.min_offset.seconds, z.max_offset.seconds):
            ctx.add_failure({"key": "min-max-offset", "what": f"{z.id}: advertised min/max offset {z.min_offset.seconds}/{z.max_offset.seconds}, data give {p[4]}/{p[5]}"}, op=f"zone.wf {sid}", source="model-eval")
        if Z.zone_data(z)[1] is not None:
            n_tail += 1
        elif len(p) > 6:
            if p[6] == "1":
                n_dataok += 1
            else:
                not_dataok.append(z.id)
    ctx.note("shortest_finite_period_hours", minlen / 3.6e12)
    ctx.note("zones_with_tail", n_tail)
    tz_tail = [(sid, z) for sid, rid, z in zs if Z.zone_data(z)[1] is not None]
    tok = model_eval(defs + [f"tail.ok {sid} 1900 9996" for sid, _ in tz_tail], "drv_zone")[len(defs):]
    ctx.note("tail_zones_with_partition_hypotheses_discharged_by_tailOK", {"dst_first": tok.count("1"), "std_first": tok.count("2")})
    ctx.note("tail_zones_failing_tailOK", [z.id for (sid, z), r in zip(tz_tail, tok) if r not in ("1", "2")][:20])
    # whole-zone check of the zones with a tail (zoneOK: stored periods, tail rules through 9999, seam, 36 h minimum),
    # evaluated on the current data; a zone for which it is false is not a violation by itself (it falls back to
    # execution + correspondence) and is listed in the notes
    zok = [r.split(" ") for r in model_eval(defs + [f"zone.ok {sid}" for sid, _ in tz_tail], "drv_zone")[len(defs):]]
    bad = [(sid, z) for (sid, z), r in zip(tz_tail, zok) if r[0] != "1"]
    ctx.note("tail_zones_passing_zoneOK_(tail_through_9999_seam_minlen)", {"passing": len(tz_tail) - len(bad), "of": len(tz_tail),
             "dst_first": sum(1 for r in zok if r[:2] == ["1", "1"]), "std_first": sum(1 for r in zok if r[:2] == ["1", "2"])})
    # maximality on the data (hypothesis of adjacent_differ): stored periods pairwise, seam, the two tail rules
    notmax = [z.id for (sid, z), r in zip(tz_tail, zok) if len(r) < 3 or r[2] != "1"]
    ctx.note("tail_zones_passing_zoneMaximal", {"passing": len(tz_tail) - len(notmax), "of": len(tz_tail), "failing": notmax[:40]})
    for zid in notmax:
        ctx.add_failure({"key": "adjacent-intervals-equal-in-data", "what": f"{zid}: zoneMaximal is false on the decoded data (two adjacent stored periods, the seam, or the two tail rules do not differ in name/offsets)"}, op=f"zone.ok {Z.safe_id(zid)}", source="model-eval:zoneMaximal")
    if bad:
        toke = model_eval(defs + [f"tail.oke {sid}" for sid, _ in bad], "drv_zone")[len(defs):]
        ctx.note("tail_zones_failing_zoneOK", [f"{z.id} (tailOKE={r})" for (sid, z), r in zip(bad, toke)][:40])
    else:
        ctx.note("tail_zones_failing_zoneOK", [])
    ctx.note("tailless_zones_with_C05_hypotheses_discharged_by_dataOK_and_theorem", n_dataok)
    ctx.note("tailless_zones_failing_dataOK", not_dataok[:20])
    ctx.oracles["data.PeriodsWF"] = {"cases": len(zs), "failures": sum(1 for f in ctx.failures if f["source"].startswith("model-eval")), "exhaustive": True}
    if ctx.thorough:
        keys = [(sid, rid) for sid, rid, _ in zs]
        chunks = [keys[i::15] for i in range(15)]
        ctx.parallel(_explore, [c for c in chunks if c])
    else:
        _explore(ctx, [(sid, rid) for sid, rid, _ in zs])


def _zone_of(sid, rid):
    if rid is None:
        Pm = Z.P()
        return Pm.DateTimeZone.for_offset(Pm.Offset.from_seconds(int(sid[5:])))
    return Z.tzdb()[rid]


def _explore(ctx, keys):
    """point queries and walks for the given zones (runs in worker processes in the thorough tier)"""
    zs = [(sid, rid, _zone_of(sid, rid)) for sid, rid in keys]
    zmap = {sid: z for sid, _, z in zs}
    defs = [Z.zone_def_line(sid, z) for sid, _, z in zs]
    # (b) point queries
    ops = list(defs)
    rng = ctx.rng
    for sid, rid, z in zs:
        periods, tail = Z.zone_data(z)
        pts = set()
        for p in periods:
            for b in (Z.inst_ns(p._raw_start), Z.inst_ns(p._raw_end)):
                if MINI <= b <= MAXI:
                    pts.update([b - 1, b, b + 1])
        pts.update([MINI, MINI + 1, MAXI, MAXI - 1, 0])
        if tail is not None:
            ts = Z.inst_ns(periods[-1]._raw_end)
            pts.update([ts, ts - 1, ts + 1])
            yrs = [2037, 2038, 2100, 2400, 5000, 9998, 9999] + ([rng.randint(2038, 9999) for _ in range(3)] if not ctx.thorough else list(range(2038, 9999, 97)))
            for y in yrs:
                base = year_ns(y)
                for k in range(0, 12):
                    pts.add(base + k * 30 * NPD + rng.randint(0, NPD))
        for _ in range(ctx.scale(6, 200)):
            pts.add(rng.randint(MINI, MAXI))
            pts.add(rng.randint(-5 * 10**18, 5 * 10**18))
        for t in sorted(pts):
            if MINI <= t <= MAXI:
                ops.append(f"zone.get {sid} {t}")
    # (b2) the zone behind the cache, asked directly: the cached zone only ever asks it at the starts of its 32-day
    # periods and at transitions, so what it answers anywhere else is never seen through the public object
    H = 3600 * 10**9
    for sid, rid, z in zs:
        inner = Z.unwrap(z)
        if inner is z:
            continue
        usid = "u~" + sid
        zmap[usid] = inner
        ops.append(Z.zone_def_line(usid, z))
        periods, tail = Z.zone_data(z)
        pts = {MINI, MINI + 1, 0}
        for k in list(range(0, 30)) + [36, 48, 24 * 31, 24 * 366]:
            pts.update([MAXI - k * H, MAXI - k * H - 1, MINI + k * H])
        bs = [Z.inst_ns(p._raw_end) for p in periods if MINI <= Z.inst_ns(p._raw_end) <= MAXI]
        for b in (bs if ctx.thorough else rng.sample(bs, min(len(bs), 6))):
            d = (b // NPD) * NPD
            pts.update([b - 1, b, b + 1, d, d + 1, d + NPD - 1, d - 1, b - H, b + H])
        if tail is not None:
            for y in [2038, 9998, 9999] + [rng.randint(2038, 9999) for _ in range(2)]:
                pts.update(year_ns(y) + k * 30 * NPD + rng.randint(0, NPD) for k in range(12))
        for _ in range(ctx.scale(4, 100)):
            pts.add(rng.randint(MINI, MAXI))
        ops += [f"zone.get {usid} {t}" for t in sorted(pts) if MINI <= t <= MAXI]
        if tail is not None and (ctx.thorough or rng.random() < 0.2):
            ops.append(f"zone.walk {usid} {year_ns(9997)} {MAXI + 1} 100")
    # (c) walks: whole precalculated part + tail through 2100 (quick) / to the end of time (thorough)
    for sid, rid, z in zs:
        stop = MAXI + 1 if ctx.thorough else year_ns(2101)
        ops.append(f"zone.walk {sid} {MINI} {stop} 40000")
        if not ctx.thorough and Z.zone_data(z)[1] is not None and rng.random() < 0.15:
            y = rng.randint(2200, 9990)
            ops.append(f"zone.walk {sid} {year_ns(y)} {year_ns(y + 8)} 100")
            ops.append(f"zone.walk {sid} {year_ns(9990)} {MAXI + 1} 100")
    dis = ctx.correspond("zone.get+walk", ops, impl_factory(zmap), oracle=oracle_factory(zmap),
                         nontrivial=lambda t, r: t[0] != "zone.def", exhaustive=False)
    ctx.note("ops", len(ops))
    # (d) the same point queries in OTHER ORDERS on FRESH zone objects: the suite above asks every zone in ascending
    # order on the provider's shared object, so state kept between lookups (interval cache slots, memoised
    # intervals) is only ever filled in one way. Here each chosen zone is re-created (source.for_id builds a new
    # object) and asked in descending order, in a seeded shuffle, and far-future-first; the model is the same pure
    # function of (zone, instant), so any order dependence shows as a disagreement.
    from pyoda_time.time_zones._tzdb_date_time_zone_source import TzdbDateTimeZoneSource
    src = TzdbDateTimeZoneSource.default
    real = [(sid, rid) for sid, rid, _ in zs if rid is not None]
    chosen = real if ctx.thorough else rng.sample(real, min(len(real), 45))
    by_zone = {}
    for o in ops:
        t = o.split(" ")
        if t[0] == "zone.get":
            by_zone.setdefault(t[1], []).append(o)
    for label in ("descending", "shuffled", "future-first"):
        fresh = {sid: src.for_id(rid) for sid, rid in chosen}
        oo = [Z.zone_def_line(sid, fresh[sid]) for sid, _ in chosen]
        for sid, _ in chosen:
            zo = list(by_zone.get(sid, []))
            if not ctx.thorough and len(zo) > 160:
                zo = rng.sample(zo, 160)
            zo.sort(key=lambda o: int(o.split(" ")[2]))
            if label == "descending":
                zo.reverse()
            elif label == "shuffled":
                rng.shuffle(zo)
            else:
                k = len(zo) // 2
                zo = zo[k:][::-1][:3] + zo[:k] + zo[k:]
            oo.extend(zo)
        hist = {}
        base_impl, base_oracle = impl_factory(fresh), oracle_factory(fresh)

        def impl_h(t, _h=hist, _i=base_impl):
            if t[0] == "zone.get":
                _h.setdefault(t[1], []).append(" ".join(t))
            return _i(t)

        def oracle_h(t, _h=hist, _o=base_oracle):
            f = _o(t)
            if f and t[0] == "zone.get":
                f = dict(f)
                f["history"] = list(_h.get(t[1], []))[-400:]      # the lookups made on this zone object so far, in order
                f["what"] += f" [after {len(_h.get(t[1], []))} earlier lookups on the same fresh zone object; the replay repeats them]"
            return f
        ctx.correspond("zone.get.order." + label, oo, impl_h, oracle=oracle_h,
                       nontrivial=lambda t, r: t[0] != "zone.def", exhaustive=False)




def replay_op(op, failure):
    if failure.get("source", "") == "oracle:fixed-zones.offset-asked-for":
        return check_fixed_zone(int(op))
    t = op.split(" ")
    zid = t[1]
    if zid.startswith("u~"):
        z = Z.unwrap(Z.tzdb()[next((k for k in Z.all_ids() if Z.safe_id(k) == zid[2:]), zid[2:])])
        return oracle_factory({zid: z})(t)
    if failure.get("history"):
        # order-dependent failure: rebuild a fresh zone object and repeat the recorded lookups first
        from pyoda_time.time_zones._tzdb_date_time_zone_source import TzdbDateTimeZoneSource
        rid = next((k for k in TzdbDateTimeZoneSource.default.canonical_id_map if Z.safe_id(k) == zid), zid)
        z = TzdbDateTimeZoneSource.default.for_id(rid)
        im = impl_factory({zid: z})
        for h in failure["history"]:
            if h != op:
                guard(im, h.split(" "))
        return oracle_factory({zid: z})(t)
    tz = Z.tzdb()
    if zid.startswith("fixed"):
        z = Z.P().DateTimeZone.for_offset(Z.P().Offset.from_seconds(int(zid[5:])))
    else:
        z = tz[zid]
    return oracle_factory({zid: z})(t)
