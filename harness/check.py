#!/usr/bin/env python3
"""./check Cxx [--tier quick|thorough] [--seed N] [--replay file]   (exit 0 ok, 1 violation, 2 infrastructure)"""
from __future__ import annotations

import argparse
import importlib
import json
import os
import sys
import traceback

sys.path.insert(0, os.path.dirname(os.path.abspath(__file__)))
import common  # noqa: E402


def main() -> int:
    ap = argparse.ArgumentParser()
    ap.add_argument("prop")
    ap.add_argument("--tier", default=os.environ.get("VERIF_TIER", "quick"), choices=["quick", "thorough"])
    ap.add_argument("--seed", type=int, default=int(os.environ.get("VERIF_SEED", "1") or 1))
    ap.add_argument("--replay")
    ap.add_argument("--no-proof", action="store_true", help="development only: skip the proof step")
    a = ap.parse_args()
    prop = a.prop.upper()
    try:
        boot = common.bootstrap()
        mod = importlib.import_module(prop.lower())
        meta = mod.META
        if a.replay:
            payload = json.loads(open(a.replay).read())
            return mod.replay(payload) if hasattr(mod, "replay") else generic_replay(mod, payload)
        drivers = meta.get("drivers", ["drv_elapsed"])
        ctx = common.Ctx(prop, a.tier, a.seed, drivers[0])
        if a.no_proof:
            proof = {"ok": True, "theorems": {t: [] for t in meta.get("theorems", [])}, "problems": [], "checker_cmd": "(skipped)"}
        else:
            proof = common.run_proof(prop, meta["proof_modules"], meta.get("theorems", []), ctx.thorough, drivers)
        mod.run(ctx)
        return common.finish(ctx, proof, meta, boot)
    except common.InfraError as e:
        print(f"INFRA-ERROR [{prop}]: {e}", file=sys.stderr)
        return 2
    except Exception as e:  # noqa: BLE001
        traceback.print_exc()
        # an exception that was RAISED INSIDE the code under test while the harness was generating or evaluating (not an
        # exception of the harness itself) is a finding about the tree, not an infrastructure problem: report it, with
        # the traceback as the replay (never happens on the unchanged tree, where every generator call succeeds)
        tb = traceback.extract_tb(e.__traceback__)
        repo = str(common.REPO.resolve())
        if tb and os.path.realpath(tb[-1].filename).startswith(repo + os.sep + "pyoda_time"):
            common.REPLAYS.mkdir(exist_ok=True)
            path = common.REPLAYS / f"{prop}-harness-crash.json"
            path.write_text(json.dumps({"property": prop, "kind": "exception-in-code-under-test-while-generating",
                                        "exception": f"{type(e).__name__}: {e}", "raised_in": f"{tb[-1].filename}:{tb[-1].lineno} {tb[-1].name}",
                                        "traceback": traceback.format_exc()[-3000:],
                                        "note": "the harness builds its operands and references with the library itself; this call cannot fail on a tree where the property holds"}, indent=1))
            print(f"VIOLATION property={prop} replay={path} no-failing-input-found")
            return 1
        print(f"INFRA-ERROR [{prop}]: unexpected exception in the harness", file=sys.stderr)
        return 2


def generic_replay(mod, payload) -> int:
    """Re-run the failing op of a replay file through the module's oracle on the real code."""
    f = payload.get("failure") or {}
    op = f.get("op", "")
    print("replaying:", op)
    if hasattr(mod, "replay_op"):
        r = mod.replay_op(op, f)
        print("result:", r)
        if r:
            print(f"VIOLATION property={payload.get('property')} replay={payload.get('replay_cmd', '')}")
            return 1
        return 0
    print("no replay_op in module; payload follows")
    print(json.dumps(payload, indent=1)[:4000])
    return 1


if __name__ == "__main__":
    sys.exit(main())
