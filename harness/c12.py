"""C12 — value types are immutable values with consistent equality, hashing and ordering.

Three layers:
  (K)  correspondence model-vs-code on triples of values of every value type (`tri.<type> ints…`);
  (S)  direct oracle on the same triples: equality is an equivalence that holds exactly when the components are
       equal, equal ⇒ equal hash, all ordering operators / compare_to / min / max follow one total order that agrees
       with the timeline (day numbers, nanoseconds), cross-calendar ordering raises, unrelated operands are refused;
  (I)  immutability support checks (the part a pure model cannot exhibit): snapshot differential over generated call
       sequences, static AST pass over the value-type sources, attempts to rebind read-only properties.
"""
from __future__ import annotations

import ast
import inspect
import os

NPD = 86_400_000_000_000
DMAX = (1 << 30) - 1
DMIN = -(1 << 30)
IMIN, IMAX = -4371222, 2932896

META = {
    "property": "C12",
    "proof_modules": ["PyodaProofs.C12", "PyodaProofs.C12Hebrew", "PyodaProofs.C12Days", "PyodaProofs.GenAgreeC12"],
    "drivers": ["drv_compare", "drv_calendar"],
    "theorems": [
        "Pyoda.C12.packed_order_iff_fields", "Pyoda.C12.unpack_pack", "Pyoda.C12.pack_injective",
        "Pyoda.C12.packCal_injective", "Pyoda.C12.packed_negative_year_order",
        "Pyoda.C12.duration_eq_iff_components", "Pyoda.C12.duration_eq_equivalence", "Pyoda.C12.duration_hash_congr",
        "Pyoda.C12.duration_cmp_total_order", "Pyoda.C12.duration_ops_agree_with_cmp", "Pyoda.C12.duration_cmp_iff_timeline",
        "Pyoda.C12.instant_eq_iff_components", "Pyoda.C12.instant_eq_equivalence", "Pyoda.C12.instant_hash_congr",
        "Pyoda.C12.instant_cmp_total_order", "Pyoda.C12.instant_ops_agree_with_cmp", "Pyoda.C12.instant_cmp_iff_timeline",
        "Pyoda.C12.offset_eq_iff_components", "Pyoda.C12.offset_eq_equivalence", "Pyoda.C12.offset_hash_congr",
        "Pyoda.C12.offset_cmp_total_order", "Pyoda.C12.offset_ops_agree_with_cmp", "Pyoda.C12.offset_cmp_iff_timeline",
        "Pyoda.C12.localTime_eq_iff_components", "Pyoda.C12.localTime_eq_equivalence", "Pyoda.C12.localTime_hash_congr",
        "Pyoda.C12.localTime_cmp_total_order", "Pyoda.C12.localTime_ops_agree_with_cmp", "Pyoda.C12.localTime_cmp_iff_timeline",
        "Pyoda.C12.localDate_eq_iff_components", "Pyoda.C12.localDate_eq_equivalence", "Pyoda.C12.localDate_hash_congr",
        "Pyoda.C12.localDate_cmp_total_order", "Pyoda.C12.localDate_ops_agree_with_cmp", "Pyoda.C12.localDate_cmp_iff_timeline",
        "Pyoda.C12.localDate_cross_calendar_raises", "Pyoda.C12.localDate_cross_calendar_eq_false",
        "Pyoda.C12.hebrewScriptural_cmp_iff_civil_lex", "Pyoda.C12.hebrewScriptural_tishri_boundary",
        "Pyoda.C12.scripturalToCivil_injective", "Pyoda.C12.hebrewScriptural_cmp_iff_days_partial",
        "Pyoda.C12.hebrewScriptural_cmp_iff_days", "Pyoda.C12.hebrewScriptural_lt_iff_days",
        "Pyoda.C12.calMatches_of_ordinal", "Pyoda.C12.calCompare_iff_days", "Pyoda.C12.days_inj",
        "Pyoda.C12.localDate_cmp_iff_days", "Pyoda.C12.localDate_lt_iff_days", "Pyoda.C12.yearMonth_cmp_iff_days",
        "Pyoda.C12.localDateTime_cmp_iff_days",
        "Pyoda.C12.localDateTime_eq_iff_components", "Pyoda.C12.localDateTime_eq_equivalence", "Pyoda.C12.localDateTime_hash_congr",
        "Pyoda.C12.localDateTime_cmp_total_order", "Pyoda.C12.localDateTime_ops_agree_with_cmp",
        "Pyoda.C12.localDateTime_cmp_iff_timeline", "Pyoda.C12.localDateTime_cross_calendar_raises",
        "Pyoda.C12.yearMonth_eq_iff_components", "Pyoda.C12.yearMonth_eq_equivalence", "Pyoda.C12.yearMonth_hash_congr",
        "Pyoda.C12.yearMonth_cmp_total_order", "Pyoda.C12.yearMonth_ops_agree_with_cmp", "Pyoda.C12.yearMonth_cmp_iff_timeline",
        "Pyoda.C12.yearMonth_cross_calendar_raises",
        "Pyoda.C12.annualDate_eq_iff_components", "Pyoda.C12.annualDate_eq_equivalence", "Pyoda.C12.annualDate_hash_congr",
        "Pyoda.C12.annualDate_cmp_total_order", "Pyoda.C12.annualDate_ops_agree_with_cmp", "Pyoda.C12.annualDate_cmp_iff_timeline",
        "Pyoda.C12.offsetDate_eq_iff_components", "Pyoda.C12.offsetDate_eq_equivalence", "Pyoda.C12.offsetDate_hash_congr",
        "Pyoda.C12.offsetTime_eq_iff_components", "Pyoda.C12.offsetTime_eq_equivalence", "Pyoda.C12.offsetTime_hash_congr",
        "Pyoda.C12.offsetDateTime_eq_iff_components", "Pyoda.C12.offsetDateTime_eq_equivalence", "Pyoda.C12.offsetDateTime_hash_congr",
        "Pyoda.C12.offsetDateTime_equal_instant_not_equal",
        "Pyoda.C12.zonedDateTime_eq_iff_components", "Pyoda.C12.zonedDateTime_eq_equivalence",
        "Pyoda.C12.interval_eq_iff_components", "Pyoda.C12.interval_eq_equivalence", "Pyoda.C12.interval_hash_congr",
        "Pyoda.C12.dateInterval_eq_iff_components", "Pyoda.C12.dateInterval_eq_equivalence", "Pyoda.C12.dateInterval_hash_congr",
        "Pyoda.C12.period_eq_iff_components", "Pyoda.C12.period_eq_equivalence", "Pyoda.C12.period_hash_congr",
        "Pyoda.C12.zoneInterval_eq_iff_components", "Pyoda.C12.zoneInterval_eq_equivalence", "Pyoda.C12.zoneInterval_hash_congr",
        "Pyoda.C12.fixedZone_eq_iff_components", "Pyoda.C12.fixedZone_eq_equivalence", "Pyoda.C12.fixedZone_hash_congr",
        # agreement of the definitions generated from the Python source (tools/py2lean.py) with the model
        "Pyoda.GenAgree.C12.gen_YMD_ctorRaw_eq", "Pyoda.GenAgree.C12.gen_YMD_ctorFields_eq",
        "Pyoda.GenAgree.C12.gen_YMD_year_eq", "Pyoda.GenAgree.C12.gen_YMD_month_eq",
        "Pyoda.GenAgree.C12.gen_YMD_day_eq", "Pyoda.GenAgree.C12.gen_YMDC_ctorYmd_eq",
        "Pyoda.GenAgree.C12.gen_YMD_withCalendarOrdinal_eq", "Pyoda.GenAgree.C12.gen_YMD_compareTo_eq",
        "Pyoda.GenAgree.C12.gen_YMD_compareToNone_eq", "Pyoda.GenAgree.C12.gen_YMD_beq_eq",
        "Pyoda.GenAgree.C12.gen_YMD_bne_eq", "Pyoda.GenAgree.C12.gen_YMD_lt_eq", "Pyoda.GenAgree.C12.gen_YMD_le_eq",
        "Pyoda.GenAgree.C12.gen_YMD_gt_eq", "Pyoda.GenAgree.C12.gen_YMD_ge_eq",
        "Pyoda.GenAgree.C12.gen_YMD_equals_eq", "Pyoda.GenAgree.C12.gen_YMD_hash_eq",
        "Pyoda.GenAgree.C12.gen_YMDC_ctorFields_eq", "Pyoda.GenAgree.C12.gen_YMDC_calendarOrdinal_eq",
        "Pyoda.GenAgree.C12.gen_YMDC_month_eq", "Pyoda.GenAgree.C12.gen_YMDC_day_eq",
        "Pyoda.GenAgree.C12.gen_YMDC_year_eq", "Pyoda.GenAgree.C12.gen_YMDC_toYearMonthDay_eq",
        "Pyoda.GenAgree.C12.gen_YMDC_beq_eq", "Pyoda.GenAgree.C12.gen_YMDC_equals_eq",
        "Pyoda.GenAgree.C12.gen_YMDC_hash_eq", "Pyoda.GenAgree.C12.gen_Calc_compare_eq",
        "Pyoda.GenAgree.C12.gen_Offset_beq_eq", "Pyoda.GenAgree.C12.gen_Offset_bne_eq",
        "Pyoda.GenAgree.C12.gen_Offset_compareTo_eq", "Pyoda.GenAgree.C12.gen_Offset_compareToNone_eq",
        "Pyoda.GenAgree.C12.gen_Offset_lt_eq", "Pyoda.GenAgree.C12.gen_Offset_le_eq",
        "Pyoda.GenAgree.C12.gen_Offset_gt_eq", "Pyoda.GenAgree.C12.gen_Offset_ge_eq",
        "Pyoda.GenAgree.C12.gen_Offset_equals_eq", "Pyoda.GenAgree.C12.gen_Offset_hash_eq",
        "Pyoda.GenAgree.C12.gen_LocalTime_beq_eq", "Pyoda.GenAgree.C12.gen_LocalTime_bne_eq",
        "Pyoda.GenAgree.C12.gen_LocalTime_lt_eq", "Pyoda.GenAgree.C12.gen_LocalTime_le_eq",
        "Pyoda.GenAgree.C12.gen_LocalTime_gt_eq", "Pyoda.GenAgree.C12.gen_LocalTime_ge_eq",
        "Pyoda.GenAgree.C12.gen_LocalTime_compareTo_eq", "Pyoda.GenAgree.C12.gen_LocalTime_compareToNone_eq",
        "Pyoda.GenAgree.C12.gen_LocalTime_hash_eq", "Pyoda.GenAgree.C12.gen_LocalDate_calendarOrdinal_eq",
        "Pyoda.GenAgree.C12.gen_LocalDate_yearMonthDay_eq", "Pyoda.GenAgree.C12.gen_LocalDate_trustedCompareTo_eq",
        "Pyoda.GenAgree.C12.gen_LocalDate_beq_eq", "Pyoda.GenAgree.C12.gen_LocalDate_bne_eq",
        "Pyoda.GenAgree.C12.gen_LocalDate_lt_eq", "Pyoda.GenAgree.C12.gen_LocalDate_le_eq",
        "Pyoda.GenAgree.C12.gen_LocalDate_gt_eq", "Pyoda.GenAgree.C12.gen_LocalDate_ge_eq",
        "Pyoda.GenAgree.C12.gen_LocalDate_compareTo_eq", "Pyoda.GenAgree.C12.gen_LocalDate_compareToNone_eq",
        "Pyoda.GenAgree.C12.gen_LocalDate_hash_eq", "Pyoda.GenAgree.C12.gen_LocalDate_calendar_eq",
        "Pyoda.GenAgree.C12.gen_LocalDateTime_calendar_eq", "Pyoda.GenAgree.C12.gen_LocalDateTime_beq_eq",
        "Pyoda.GenAgree.C12.gen_LocalDateTime_bne_eq", "Pyoda.GenAgree.C12.gen_LocalDateTime_equals_eq",
        "Pyoda.GenAgree.C12.gen_LocalDateTime_compareTo_eq", "Pyoda.GenAgree.C12.gen_LocalDateTime_compareToNone_eq",
        "Pyoda.GenAgree.C12.gen_LocalDateTime_lt_eq", "Pyoda.GenAgree.C12.gen_LocalDateTime_le_eq",
        "Pyoda.GenAgree.C12.gen_LocalDateTime_gt_eq", "Pyoda.GenAgree.C12.gen_LocalDateTime_ge_eq",
        "Pyoda.GenAgree.C12.gen_YearMonth_calendarOrdinal_eq", "Pyoda.GenAgree.C12.gen_YearMonth_yearMonthDay_eq",
        "Pyoda.GenAgree.C12.gen_YearMonth_trustedCompareTo_eq", "Pyoda.GenAgree.C12.gen_YearMonth_beq_eq",
        "Pyoda.GenAgree.C12.gen_YearMonth_bne_eq", "Pyoda.GenAgree.C12.gen_YearMonth_equals_eq",
        "Pyoda.GenAgree.C12.gen_YearMonth_hash_eq", "Pyoda.GenAgree.C12.gen_YearMonth_lt_eq",
        "Pyoda.GenAgree.C12.gen_YearMonth_le_eq", "Pyoda.GenAgree.C12.gen_YearMonth_gt_eq",
        "Pyoda.GenAgree.C12.gen_YearMonth_ge_eq", "Pyoda.GenAgree.C12.gen_YearMonth_compareTo_eq",
        "Pyoda.GenAgree.C12.gen_YearMonth_compareToNone_eq", "Pyoda.GenAgree.C12.gen_AnnualDate_beq_eq",
        "Pyoda.GenAgree.C12.gen_AnnualDate_bne_eq", "Pyoda.GenAgree.C12.gen_AnnualDate_equals_eq",
        "Pyoda.GenAgree.C12.gen_AnnualDate_hash_eq", "Pyoda.GenAgree.C12.gen_AnnualDate_compareTo_eq",
        "Pyoda.GenAgree.C12.gen_AnnualDate_compareToNone_eq", "Pyoda.GenAgree.C12.gen_AnnualDate_lt_eq",
        "Pyoda.GenAgree.C12.gen_AnnualDate_le_eq", "Pyoda.GenAgree.C12.gen_AnnualDate_gt_eq",
        "Pyoda.GenAgree.C12.gen_AnnualDate_ge_eq",
    ],
    "trusted_base": [
        "translator tie (tools/py2lean.py; GenAgreeC12): _YearMonthDay (both _ctor forms, _year/_month/_day, _with_calendar_ordinal, compare_to, == != < <= > >=, equals, __hash__), _YearMonthDayCalendar (both _ctor forms, _calendar_ordinal, _year/_month/_day, _to_year_month_day, ==, equals, __hash__), the default calculator's compare, Offset and LocalTime (== != < <= > >=, compare_to incl. None, equals, the __hash__ key), LocalDate (__calendar_ordinal, _year_month_day, __trusted_compare_to, == !=, < <= > >= and compare_to with the calendar guard, __hash__, calendar), LocalDateTime (calendar, == != equals, compare_to incl. None, < <= > >= with the calendar-identity guard), YearMonth (the same members as LocalDate, on __start_of_month) and AnnualDate (== != equals __hash__ compare_to incl. None < <= > >=) are re-translated from the source on every run and proved equal to the Compare model: the bit packing for ANY year and 5-bit month / 6-bit day / 6-bit ordinal fields. CalendarSystem._compare is an abstract callee of the LocalDate members (the theorems instantiate it by calCompare on the unpacked values); _calendar_ordinal goes through the _CalendarOrdinal enum (equal to the model for a field that names a calendar). Duration/Instant comparisons: GenAgreeC03. The builtin hash(obj) inside a __hash__ is the model's objHash applied to the translated __hash__ of the object; a CalendarSystem object is carried as its ordinal (CalendarSystem._for_ordinal keeps one object per ordinal and calendars are compared by identity; hand-written, PyodaGen/GlueC12.lean). Outside the tie: the Hebrew calculator's compare, LocalDateTime.__hash__ (_hash_code_helper over a calendar object), Offset*/Interval/ZoneInterval equality (C11/C18/C05 ties cover their ==), max/min (builtins)",
        "CPython: hash(int) is reduction modulo 2^61-1 with -1 mapped to -2; a __hash__ result outside the Py_ssize_t range is reduced the same way; x << k | y equals x*2^k + y for 0 <= y < 2^k; built-in min/max return the first argument unless the second is strictly smaller/greater",
        "hash(str) and hash(CalendarSystem) (object identity) are inputs of the modelled hash functions, not modelled",
        "the hypothesis wfCheck (Heb.cal true) = true of hebrewScriptural_cmp_iff_days / _lt_iff_days is discharged by EVALUATING the executable checker on the compiled calendar driver (op `cal.wf 5`, all 9999 years, in every run of this check and of C01; Lean compiler trusted for that step); WF c of the generic *_cmp_iff_days theorems is the hypothesis of property C01, established there for all 19 calendars",
        "the timeline position of a LocalDate in the direct oracle is the value of LocalDate._days_since_epoch of the real code (its correctness is property C01)",
    ],
    "partial": [
        "attribute mutation is a runtime behaviour the model cannot exhibit; covered by harness checks (snapshot differential over generated call sequences, static AST pass, read-only property rebinding)",
        "hebrewScriptural_cmp_iff_days (PyodaProofs/C12Days.lean) proves the full statement hebrewScriptural_cmp_iff_daysStatement (sign of the scriptural comparison = sign of the comparison of absolute day numbers) under the hypothesis wfCheck (Heb.cal true) = true; hebrewScriptural_cmp_iff_days_partial is the unconditional (year, day-of-year) form",
        "localDate/yearMonth/localDateTime _cmp_iff_days (C12Days.lean) lift cmp_iff_timeline from packed (year, month, day) keys to day numbers for any calendar description c with WF c (hypothesis of property C01, proved symbolically or discharged by cal.wf in C01's run) and CalMatches ord c (proved for all 19 ordinals: calMatches_of_ordinal)",
        "OffsetDateTime.comparer.local/instant, Period.normalizing_equality_comparer and Period.create_comparer do not exist in the pinned tree (TODO markers in the source); nothing to model. ZonedDateTime defines __eq__ without __hash__ and is therefore unhashable: hashing is not supported for it, so hash_congr has no instance",
        "Period.__hash__ is the built-in tuple hash of its ten components; modelled as an uninterpreted function of the component tuple (hash_congr is congruence), values are compared by the direct oracle only",
    ],
    "rule": "one op = one triple of values of one type (equal copies, adjacent, far apart, other calendar, other offset with the same instant, Hebrew months around Tishri); distinct = distinct op line; non-trivial = every op (each evaluates all operators on four ordered pairs of the triple)",
}

# ---------------------------------------------------------------------------------------------
# value types: token layout, builders
# ---------------------------------------------------------------------------------------------

STRS = ["UTC", "UTC+01", "X", "Zone/A", "", "x", "BST", "GMT", "UTC+01:00"]
ARITY = {"dur": 2, "inst": 2, "off": 1, "lt": 1, "ld": 4, "ldt": 5, "ym": 3, "ad": 2, "od": 5, "ot": 2, "odt": 6,
         "zdt": 10, "iv": 6, "div": 7, "per": 10, "zi": 9, "fz": 3}
ORDERED = {"dur", "inst", "off", "lt", "ld", "ldt", "ym", "ad"}
# types whose hash value is a modelled function of integer components (no str / identity hash inside)
HASHED = {"dur", "inst", "off", "lt", "ld", "ym", "ad", "od", "ot", "odt", "iv", "div"}
PAIRS = [(0, 1), (1, 2), (0, 2), (1, 0)]

_mem = {}


def _P():
    import pyoda_time as P
    return P


def cal(o):
    c = _mem.get(("cal", o))
    if c is None:
        from pyoda_time._calendar_ordinal import _CalendarOrdinal
        c = _mem[("cal", o)] = _P().CalendarSystem._for_ordinal(_CalendarOrdinal(o))
    return c


def tz_zone(i):
    z = _mem.get(("tz", i))
    if z is None:
        P = _P()
        ids = ["Europe/London", "Europe/Paris", "America/New_York", "Asia/Kolkata"]
        z = _mem[("tz", i)] = P.DateTimeZoneProviders.tzdb[ids[i]]
    return z


def mk_zone(k, a, b, c):
    if k == 0:
        from pyoda_time.time_zones._fixed_date_time_zone import _FixedDateTimeZone
        return _FixedDateTimeZone(_P().Offset.from_seconds(a), STRS[b], STRS[c])  # a fresh object on every build
    return tz_zone(a)


def mk_inst(has, d, n):
    return _P().Instant._ctor(days=d, nano_of_day=n) if has else None


def build(ty, v):
    P = _P()
    if ty == "dur":
        return P.Duration._ctor(days=v[0], nano_of_day=v[1])
    if ty == "inst":
        return P.Instant._ctor(days=v[0], nano_of_day=v[1])
    if ty == "off":
        return P.Offset.from_seconds(v[0])
    if ty == "lt":
        return P.LocalTime.from_nanoseconds_since_midnight(v[0])
    if ty == "ld":
        return P.LocalDate(v[1], v[2], v[3], cal(v[0]))
    if ty == "ldt":
        return P.LocalDate(v[1], v[2], v[3], cal(v[0])).at(P.LocalTime.from_nanoseconds_since_midnight(v[4]))
    if ty == "ym":
        return P.YearMonth(year=v[1], month=v[2], calendar=cal(v[0]))
    if ty == "ad":
        return P.AnnualDate(v[0], v[1])
    if ty == "od":
        return P.OffsetDate(P.LocalDate(v[1], v[2], v[3], cal(v[0])), P.Offset.from_seconds(v[4]))
    if ty == "ot":
        return P.OffsetTime(P.LocalTime.from_nanoseconds_since_midnight(v[0]), P.Offset.from_seconds(v[1]))
    if ty == "odt":
        return P.OffsetDateTime(build("ldt", v[:5]), P.Offset.from_seconds(v[5]))
    if ty == "zdt":
        return P.ZonedDateTime(local_date_time=build("ldt", v[:5]), zone=mk_zone(*v[6:10]), offset=P.Offset.from_seconds(v[5]))
    if ty == "iv":
        return P.Interval(mk_inst(*v[0:3]), mk_inst(*v[3:6]))
    if ty == "div":
        return P.DateInterval(P.LocalDate(v[1], v[2], v[3], cal(v[0])), P.LocalDate(v[4], v[5], v[6], cal(v[0])))
    if ty == "per":
        b = P.PeriodBuilder()
        (b.years, b.months, b.weeks, b.days, b.hours, b.minutes, b.seconds, b.milliseconds, b.ticks, b.nanoseconds) = v
        return b.build()
    if ty == "zi":
        from pyoda_time.time_zones import ZoneInterval
        return ZoneInterval(name=STRS[v[0]], start=mk_inst(*v[1:4]), end=mk_inst(*v[4:7]),
                            wall_offset=P.Offset.from_seconds(v[7]), savings=P.Offset.from_seconds(v[8]))
    if ty == "fz":
        return mk_zone(0, v[0], v[1], v[2])
    raise ValueError("unknown type " + ty)


def klass(ty):
    P = _P()
    if ty == "zi":
        from pyoda_time.time_zones import ZoneInterval
        return ZoneInterval
    if ty == "fz":
        from pyoda_time.time_zones._fixed_date_time_zone import _FixedDateTimeZone
        return _FixedDateTimeZone
    return {"dur": P.Duration, "inst": P.Instant, "off": P.Offset, "lt": P.LocalTime, "ld": P.LocalDate,
            "ldt": P.LocalDateTime, "ym": P.YearMonth, "ad": P.AnnualDate, "od": P.OffsetDate, "ot": P.OffsetTime,
            "odt": P.OffsetDateTime, "zdt": P.ZonedDateTime, "iv": P.Interval, "div": P.DateInterval, "per": P.Period}[ty]


def split3(t):
    ty = t[0].split(".", 1)[1]
    n = ARITY[ty]
    a = [int(x) for x in t[1:]]
    if len(a) != 3 * n:
        raise ValueError("bad arity")
    return ty, [tuple(a[0:n]), tuple(a[n:2 * n]), tuple(a[2 * n:3 * n])]


# ---------------------------------------------------------------------------------------------
# impl: what the real code answers
# ---------------------------------------------------------------------------------------------

def _b(fn):
    try:
        r = fn()
    except ValueError:
        return "E"
    except TypeError:
        return "T"
    if r is True:
        return "1"
    if r is False:
        return "0"
    return "?" + type(r).__name__


def _sgn(fn):
    try:
        c = fn()
    except ValueError:
        return "E"
    except TypeError:
        return "T"
    return str((c > 0) - (c < 0))


def _idx(fn, x):
    try:
        r = fn()
    except ValueError:
        return "E"
    except TypeError:
        return "T"
    return "0" if r == x else "1"


def pair_reply(ty, K, x, y):
    out = [_b(lambda: x == y), _b(lambda: x != y)]
    if ty in ORDERED:
        out += [_b(lambda: x < y), _b(lambda: x <= y), _b(lambda: x > y), _b(lambda: x >= y), _sgn(lambda: x.compare_to(y))]
        if ty not in ("ym", "ad"):  # YearMonth / AnnualDate have no min/max
            out += [_idx(lambda: K.min(x, y), x), _idx(lambda: K.max(x, y), x)]
    return " ".join(out)


def impl(t):
    if not t[0].startswith("tri."):
        raise ValueError("unknown op " + t[0])
    ty, vals = split3(t)
    objs = [build(ty, v) for v in vals]
    K = klass(ty)
    parts = [pair_reply(ty, K, objs[i], objs[j]) for i, j in PAIRS]
    s = " ; ".join(parts)
    if ty in HASHED:
        s += " # " + " ".join(str(hash(o)) for o in objs)
    return s


# ---------------------------------------------------------------------------------------------
# direct oracle
# ---------------------------------------------------------------------------------------------

def timeline_key(ty, v, o):
    """(group, position): values of different groups must not be ordered; inside a group the position is the order"""
    if ty in ("dur", "inst"):
        return 0, v[0] * NPD + v[1]
    if ty in ("off", "lt"):
        return 0, v[0]
    if ty == "ld":
        return v[0], o._days_since_epoch
    if ty == "ldt":
        return v[0], (o.date._days_since_epoch, v[4])
    if ty == "ym":
        return v[0], _P().LocalDate(v[1], v[2], 1, cal(v[0]))._days_since_epoch
    if ty == "ad":
        return 0, (v[0], v[1])
    return None


def _unrelated(ty):
    P = _P()
    other = P.Offset.from_seconds(5) if ty != "off" else P.Duration.from_seconds(5)
    return [None, 5, other, "x"]


def _r(x):
    """repr that cannot fail (repr of a pyoda value goes through the text patterns, which is not this property)"""
    try:
        return repr(x)
    except Exception:  # noqa: BLE001
        return "<" + type(x).__name__ + ">"


def _refusals(ty, K, a):
    import operator as op
    for X in _unrelated(ty):
        try:
            if (a == X) is not False or (a != X) is not True or (X == a) is not False or (X != a) is not True:
                return {"key": f"{ty}-eq-unrelated-answered-true", "what": f"{_r(a)} == {_r(X)} is not False (or != not True)"}
        except Exception as e:  # noqa: BLE001
            return {"key": f"{ty}-eq-unrelated-raises", "what": f"{_r(a)} == {_r(X)} raised {type(e).__name__}: {e}"}
        for name, f in (("<", op.lt), ("<=", op.le), (">", op.gt), (">=", op.ge)):
            for l, r in ((a, X), (X, a)):
                try:
                    res = f(l, r)
                except TypeError:
                    continue
                except Exception as e:  # noqa: BLE001
                    return {"key": f"{ty}-order-unrelated-wrong-exception",
                            "what": f"{_r(l)} {name} {_r(r)} raised {type(e).__name__} ({e}) instead of TypeError"}
                return {"key": f"{ty}-order-unrelated-answered", "what": f"{_r(l)} {name} {_r(r)} returned {_r(res)} instead of being refused"}
        if ty in ORDERED:
            try:
                res = a.compare_to(X)
            except TypeError:
                res = None
            except Exception as e:  # noqa: BLE001
                return {"key": f"{ty}-compare-to-unrelated-wrong-exception", "what": f"{_r(a)}.compare_to({_r(X)}) raised {type(e).__name__}: {e}"}
            if res is not None and not (X is None and res == 1):  # compare_to(None) == 1 is the documented IComparable rule
                return {"key": f"{ty}-compare-to-unrelated-answered", "what": f"{_r(a)}.compare_to({_r(X)}) returned {_r(res)}"}
            if hasattr(K, "min") and X is not None:
                for nm in ("min", "max"):
                    for args in ((a, X), (X, a)):
                        try:
                            res = getattr(K, nm)(*args)
                        except Exception:  # noqa: BLE001  (any refusal is accepted for the static helpers)
                            continue
                        return {"key": f"{ty}-minmax-unrelated-answered", "what": f"{K.__name__}.{nm}{_r(args)} returned {_r(res)}"}
    return None


def oracle(t):
    if not t[0].startswith("tri."):
        return None
    ty, vals = split3(t)
    K = klass(ty)
    objs = [build(ty, v) for v in vals]
    # ---- equality: exactly component equality; equivalence; equals(); != is the negation
    for i in range(3):
        for j in range(3):
            x, y = objs[i], objs[j]
            exp = vals[i] == vals[j]
            got = x == y
            if got is not exp:
                return {"key": f"{ty}-eq-not-components", "what": f"{ty} {vals[i]} == {vals[j]} gave {got!r}; components equal: {exp}"}
            if (x != y) is not (not exp):
                return {"key": f"{ty}-ne-not-negation", "what": f"{ty} {vals[i]} != {vals[j]} gave {x != y!r} while == gave {got!r}"}
            if (y == x) is not got:
                return {"key": f"{ty}-eq-not-symmetric", "what": f"{ty} {vals[i]} vs {vals[j]}"}
            if hasattr(x, "equals") and x.equals(y) is not exp:
                return {"key": f"{ty}-equals-disagrees", "what": f"{ty} {vals[i]}.equals({vals[j]}) = {x.equals(y)!r}, == gives {got!r}"}
    if objs[0] == objs[1] and objs[1] == objs[2] and not objs[0] == objs[2]:
        return {"key": f"{ty}-eq-not-transitive", "what": f"{ty} {vals}"}
    # ---- hashing
    try:
        hs = [hash(o) for o in objs]
    except TypeError:
        hs = None
        if ty != "zdt":
            return {"key": f"{ty}-unhashable", "what": f"hash() of a {K.__name__} raised TypeError"}
    if hs is not None:
        for i, j in ((0, 1), (1, 2), (0, 2)):
            if vals[i] == vals[j] and hs[i] != hs[j]:
                return {"key": f"{ty}-hash-differs-for-equal", "what": f"{ty} {vals[i]}: equal values hash to {hs[i]} and {hs[j]}"}
        distinct = len(set(vals))
        if len(set(objs)) != distinct or len({o: 1 for o in objs}) != distinct:
            return {"key": f"{ty}-set-membership", "what": f"{ty} {vals}: set/dict of the triple has {len(set(objs))} members, {distinct} distinct values"}
        for i, j in ((0, 1), (1, 2), (2, 0)):
            if (objs[j] in {objs[i]}) is not (vals[i] == vals[j]) or ({objs[i]: 7}.get(objs[j]) == 7) is not (vals[i] == vals[j]):
                return {"key": f"{ty}-set-membership", "what": f"{ty} {vals[j]} in {{{vals[i]}}} wrong"}
    # ---- ordering
    if ty in ORDERED:
        keys = [timeline_key(ty, v, o) for v, o in zip(vals, objs)]
        for i in range(3):
            for j in range(3):
                x, y = objs[i], objs[j]
                (gx, kx), (gy, ky) = keys[i], keys[j]
                got = (_b(lambda: x < y), _b(lambda: x <= y), _b(lambda: x > y), _b(lambda: x >= y), _sgn(lambda: x.compare_to(y)))
                mm = (_idx(lambda: K.min(x, y), x), _idx(lambda: K.max(x, y), x)) if hasattr(K, "min") else ()
                if gx != gy:
                    if any(g != "E" for g in got + mm):
                        return {"key": f"{ty}-cross-calendar-not-refused",
                                "what": f"{ty} {vals[i]} vs {vals[j]} (different calendars): <,<=,>,>=,compare_to,min,max gave {got + mm}, all must raise ValueError"}
                    continue
                exp = (str(int(kx < ky)), str(int(kx <= ky)), str(int(kx > ky)), str(int(kx >= ky)), str((kx > ky) - (kx < ky)))
                if got != exp:
                    return {"key": f"{ty}-order-not-timeline",
                            "what": f"{ty} {vals[i]} vs {vals[j]}: <,<=,>,>=,sign(compare_to) = {got}, timeline positions {kx} and {ky} require {exp}"}
                if (kx == ky) != (vals[i] == vals[j]):
                    return {"key": f"{ty}-timeline-tie-not-equal", "what": f"{ty} {vals[i]} vs {vals[j]}: same position {kx} but different components"}
                if mm:
                    mn, mx = K.min(x, y), K.max(x, y)
                    lo, hi = (x, y) if kx <= ky else (y, x)
                    if not (mn == lo and mx == hi):
                        return {"key": f"{ty}-minmax-not-timeline", "what": f"{ty} min/max of {vals[i]} and {vals[j]} gave {_r(mn)}, {_r(mx)}"}
    else:
        import operator as op
        for f in (op.lt, op.le, op.gt, op.ge):
            try:
                r = f(objs[0], objs[1])
            except TypeError:
                continue
            return {"key": f"{ty}-unordered-type-answered", "what": f"{K.__name__} has no documented order but {f.__name__} returned {r!r}"}
    return _refusals(ty, K, objs[0])


def neighbours(t):
    out = []
    for i, x in enumerate(t):
        if i >= 1:
            for dlt in (-1, 1):
                u = list(t)
                u[i] = str(int(x) + dlt)
                out.append(" ".join(u))
    return out


# ---------------------------------------------------------------------------------------------
# generators
# ---------------------------------------------------------------------------------------------

CAL_WEIGHTS = [0] * 6 + [1] * 3 + [2] * 3 + [3] + [4] * 3 + [5] * 8 + list(range(6, 19))


def gen_ns(rng, lo, hi):
    c = rng.random()
    if c < 0.15:
        base = rng.choice([0, lo, hi, -NPD, NPD, -1, 1])
    elif c < 0.5:
        base = rng.randint(-400, 400) * NPD
    elif c < 0.7:
        base = rng.randint(lo // NPD, hi // NPD) * NPD
    else:
        base = rng.randint(lo, hi)
    base += rng.choice([0, 0, 1, -1, 999, -999, 10**9 - 1, NPD - 1, -(NPD - 1), rng.randint(-10**6, 10**6)])
    return max(lo, min(hi, base))


def gen_nod(rng):
    return rng.choice([0, 1, NPD - 1, NPD // 2, 12 * 3600 * 10**9, rng.randrange(NPD), rng.randrange(86400) * 10**9])


def gen_off(rng):
    return rng.choice([0, 1, -1, 3600, -3600, 64800, -64800, 19800, rng.randint(-64800, 64800), rng.randint(-18, 18) * 3600])


def enc_ld(d):
    return (int(d.calendar._ordinal), d.year, d.month, d.day)


def gen_days(rng, c):
    lo, hi = c._min_days, c._max_days
    r = rng.random()
    if r < 0.2:
        return rng.choice([lo, hi, lo + 1, hi - 1, 0, -1, 1, lo + rng.randint(0, 800), hi - rng.randint(0, 800)])
    if r < 0.5:
        return max(lo, min(hi, rng.randint(-40000, 40000)))
    if r < 0.65 and lo < -719162 - 400:
        return -719162 + rng.randint(-800, 400)  # around year 1 / year 0 / negative years of the Gregorian-like calendars
    return rng.randint(lo, hi)


def gen_ld_obj(rng, o=None):
    P = _P()
    if o is None:
        o = rng.choice(CAL_WEIGHTS)
    c = cal(o)
    if o in (4, 5) and rng.random() < 0.5:
        # Hebrew: months around the Tishri / Nisan boundaries
        y = rng.choice([1, 9999, 5780, 5782, 5784, rng.randint(1, 9999)])
        m = rng.choice([1, 6, 7, 12, 13, rng.randint(1, 13)])
        m = min(m, c.get_months_in_year(y))
        dd = rng.choice([1, 29, 30, rng.randint(1, 30)])
        dd = min(dd, c.get_days_in_month(y, m))
        try:
            return P.LocalDate(y, m, dd, c)
        except ValueError:
            pass
    for _ in range(5):
        d = P.LocalDate._ctor(days_since_epoch=gen_days(rng, c), calendar=c)
        try:  # only dates the public constructor accepts (the pinned Um Al Qura calculator maps some days to year 1501: C01)
            return P.LocalDate(d.year, d.month, d.day, c)
        except ValueError:
            continue
    return P.LocalDate(2000, 1, 1, cal(0))


def vary_ld(rng, d, allow_cal=True):
    """a date related to d: equal copy, adjacent, far, other calendar (always one the public constructor accepts)"""
    P = _P()
    try:
        e = _vary_ld(rng, d, allow_cal)
        return P.LocalDate(e.year, e.month, e.day, e.calendar)
    except Exception:  # noqa: BLE001  (date arithmetic at the edge of a calendar's range is property C09, not this one)
        return P.LocalDate(d.year, d.month, d.day, d.calendar)


def _vary_ld(rng, d, allow_cal):
    P = _P()
    c = d.calendar
    r = rng.random()
    try:
        if r < 0.25:
            return P.LocalDate(d.year, d.month, d.day, c)
        if r < 0.45:
            return d.plus_days(rng.choice([-1, 1, -2, 2, 7, -7, 29, 30, -30]))
        if r < 0.55:
            return d.plus_months(rng.choice([-1, 1, 6, -6, 12, 13, -13]))
        if r < 0.62:
            return d.plus_years(rng.choice([-1, 1, -19, 19, 100]))
        if r < 0.8 or not allow_cal:
            return gen_ld_obj(rng, int(c._ordinal))
        if r < 0.9:
            return d.with_calendar(cal(rng.choice(CAL_WEIGHTS)))
        return P.LocalDate(d.year, d.month, d.day, cal(rng.choice(CAL_WEIGHTS)))
    except (ValueError, OverflowError):
        return P.LocalDate(d.year, d.month, d.day, c)


def gen_fz(rng):
    o = rng.choice([0, 3600, 3600, -3600, 7200, rng.randint(-64800, 64800)])
    i = rng.choice([0, 1, 1, 2, 3, 4, 8])
    n = i if rng.random() < 0.6 else rng.randrange(len(STRS))
    return (o, i, n)


def gen_zone_and_instant(rng):
    """(zone tokens, zone object, instant) for ZonedDateTime"""
    P = _P()
    ns = gen_ns(rng, (IMIN + 2) * NPD, (IMAX - 1) * NPD)
    if rng.random() < 0.5:
        fz = gen_fz(rng)
        return (0,) + fz, mk_zone(0, *fz), ns
    i = rng.randrange(4)
    if rng.random() < 0.7:
        ns = rng.randint(-5 * 10**8, 2 * 10**9) * 10**9 + rng.choice([0, 1, 999999999])
    return (1, i, 0, 0), tz_zone(i), ns


def gen_value(rng, ty):
    P = _P()
    if ty == "dur":
        return divmod(gen_ns(rng, DMIN * NPD, (DMAX + 1) * NPD - 1), NPD)
    if ty == "inst":
        return divmod(gen_ns(rng, IMIN * NPD, (IMAX + 1) * NPD - 1), NPD)
    if ty == "off":
        return (gen_off(rng),)
    if ty == "lt":
        return (gen_nod(rng),)
    if ty == "ld":
        return enc_ld(gen_ld_obj(rng))
    if ty == "ldt":
        return enc_ld(gen_ld_obj(rng)) + (gen_nod(rng),)
    if ty == "ym":
        return enc_ld(gen_ld_obj(rng))[:3]
    if ty == "ad":
        m = rng.randint(1, 12)
        return (m, rng.randint(1, [31, 29, 31, 30, 31, 30, 31, 31, 30, 31, 30, 31][m - 1]))
    if ty == "od":
        return enc_ld(gen_ld_obj(rng)) + (gen_off(rng),)
    if ty == "ot":
        return (gen_nod(rng), gen_off(rng))
    if ty == "odt":
        return enc_ld(gen_ld_obj(rng)) + (gen_nod(rng), gen_off(rng))
    if ty == "zdt":
        ztoks, z, ns = gen_zone_and_instant(rng)
        c = cal(rng.choice([0, 0, 1, 2, 5, 3]))
        i = P.Instant._ctor(days=ns // NPD, nano_of_day=ns % NPD)
        try:
            zdt = P.ZonedDateTime(instant=i, zone=z, calendar=c)
        except (ValueError, OverflowError):
            zdt = P.ZonedDateTime(instant=P.Instant.from_unix_time_seconds(ns // 10**9 % 10**9), zone=z, calendar=cal(0))
        return enc_ld(zdt.date) + (zdt.time_of_day.nanosecond_of_day, zdt.offset.seconds) + ztoks
    if ty == "iv":
        a, b = sorted([gen_ns(rng, IMIN * NPD, (IMAX + 1) * NPD - 1), gen_ns(rng, IMIN * NPD, (IMAX + 1) * NPD - 1)])
        s = (1,) + divmod(a, NPD) if rng.random() < 0.8 else (0, 0, 0)
        e = (1,) + divmod(b, NPD) if rng.random() < 0.8 else (0, 0, 0)
        return s + e
    if ty == "div":
        d = gen_ld_obj(rng)
        e = vary_ld(rng, d, allow_cal=False)
        if e < d:
            d, e = e, d
        return enc_ld(d) + enc_ld(e)[1:]
    if ty == "per":
        k = rng.random()
        if k < 0.3:
            v = [0] * 10
            v[rng.randrange(10)] = rng.choice([1, -1, 7, 24, 60, 1000, rng.randint(-10**6, 10**6)])
            return tuple(v)
        return tuple(rng.choice([0, 0, 1, -1, rng.randint(-100, 100), rng.randint(-2**31, 2**31 - 1)]) for _ in range(10))
    if ty == "zi":
        iv = gen_value(rng, "iv")
        if iv[0] and iv[3] and iv[1:3] == iv[4:6]:
            iv = iv[:3] + (0, 0, 0)
        return (rng.randrange(len(STRS)),) + iv + (gen_off(rng), rng.choice([0, 3600, 1800, gen_off(rng)]))
    if ty == "fz":
        return gen_fz(rng)
    raise ValueError(ty)


def vary(rng, ty, v):
    """a value related to v (equal / adjacent / one component changed / far)"""
    P = _P()
    r = rng.random()
    if r < 0.3:
        return tuple(v)
    if ty in ("dur", "inst"):
        lo, hi = (DMIN * NPD, (DMAX + 1) * NPD - 1) if ty == "dur" else (IMIN * NPD, (IMAX + 1) * NPD - 1)
        ns = v[0] * NPD + v[1] + rng.choice([1, -1, NPD, -NPD, NPD - 1, 1 - NPD, rng.randint(-10**12, 10**12)])
        return divmod(max(lo, min(hi, ns)), NPD) if r < 0.8 else gen_value(rng, ty)
    if ty == "off":
        return (max(-64800, min(64800, v[0] + rng.choice([1, -1, 3600, -3600]))),) if r < 0.8 else gen_value(rng, ty)
    if ty == "lt":
        return (max(0, min(NPD - 1, v[0] + rng.choice([1, -1, 10**9, -10**9]))),) if r < 0.8 else gen_value(rng, ty)
    if ty in ("ld", "ldt", "od", "odt", "ym"):
        d = P.LocalDate(v[1], v[2], 1 if ty == "ym" else v[3], cal(v[0]))
        rest = tuple(v[4:]) if ty != "ym" else ()
        k = rng.random()
        if ty == "ym":
            e = vary_ld(rng, d)
            return enc_ld(e)[:3]
        if k < 0.5 or not rest:
            return enc_ld(vary_ld(rng, d)) + rest
        if ty == "ldt":
            return tuple(v[:4]) + vary(rng, "lt", rest)
        if ty == "od":
            return tuple(v[:4]) + vary(rng, "off", rest)
        # odt: change the time, the offset, or move to another offset keeping the instant
        if k < 0.65:
            return tuple(v[:4]) + vary(rng, "lt", rest[:1]) + rest[1:]
        if k < 0.8:
            return tuple(v[:5]) + vary(rng, "off", rest[1:])
        try:
            w = build("odt", v).with_offset(P.Offset.from_seconds(gen_off(rng)))
            return enc_ld(w.date) + (w.nanosecond_of_day, w.offset.seconds)
        except (ValueError, OverflowError):
            return tuple(v)
    if ty == "ad":
        return gen_value(rng, ty) if r > 0.6 else (v[0], max(1, v[1] - 1))
    if ty == "ot":
        k = rng.random()
        if k < 0.4:
            return vary(rng, "lt", v[:1]) + tuple(v[1:])
        if k < 0.8:
            return tuple(v[:1]) + vary(rng, "off", v[1:])
        dlt = rng.choice([3600, -3600, 1800])  # same instant of day, other offset
        if -64800 <= v[1] + dlt <= 64800:
            return ((v[0] + dlt * 10**9) % NPD, v[1] + dlt)
        return tuple(v)
    if ty == "zdt":
        k = rng.random()
        z = mk_zone(*v[6:10])
        x = build("zdt", v)
        ztoks = tuple(v[6:10])

        def enc(y, zt):
            return enc_ld(y.date) + (y.time_of_day.nanosecond_of_day, y.offset.seconds) + zt
        try:
            if k < 0.3:   # same instant, other calendar
                return enc(P.ZonedDateTime(instant=x.to_instant(), zone=z, calendar=cal(rng.choice([0, 1, 2, 5]))), ztoks)
            if k < 0.6:   # same instant, other zone
                zt2, z2, _ = gen_zone_and_instant(rng)
                return enc(P.ZonedDateTime(instant=x.to_instant(), zone=z2, calendar=x.calendar), zt2)
            if k < 0.8:   # adjacent instant
                i2 = x.to_instant().plus_nanoseconds(rng.choice([1, -1, 10**9, 3600 * 10**9, -3600 * 10**9]))
                return enc(P.ZonedDateTime(instant=i2, zone=z, calendar=x.calendar), ztoks)
        except (ValueError, OverflowError):
            return tuple(v)
        return gen_value(rng, ty)
    if ty == "per" and r < 0.35:
        # the same length of time written with other components (1 tick = 100 ns, 1 ms = 10 000 ticks, 1 week = 7 days,
        # ...): a DIFFERENT period (equality is component-wise), which a comparison of totals would call equal
        u = list(v)
        i, j, f = rng.choice([(8, 9, 100), (7, 8, 10_000), (6, 7, 1000), (5, 6, 60), (4, 5, 60), (3, 4, 24), (2, 3, 7), (0, 1, 12), (7, 9, 1_000_000)])
        k = rng.choice([1, -1, 2, rng.randint(-50, 50) or 3])
        u[i] -= k
        u[j] += k * f
        try:
            build(ty, tuple(u))
            return tuple(u)
        except (ValueError, OverflowError):
            return tuple(v)
    if ty in ("iv", "per", "zi", "fz", "div"):
        if r > 0.85:
            return gen_value(rng, ty)
        w = list(v)
        for _ in range(6):
            u = list(w)
            i = rng.randrange(1, len(u)) if ty == "div" else rng.randrange(len(u))
            if ty == "fz" or (ty == "zi" and i == 0):
                u[i] = rng.randrange(len(STRS)) if i > 0 or ty == "zi" else u[i] + rng.choice([1, -1, 3600])
            else:
                u[i] = u[i] + rng.choice([1, -1])
            try:
                build(ty, tuple(u))
                if ty in ("iv", "zi"):  # keep tokens canonical: absent instants are written 0 0 0
                    base = 0 if ty == "iv" else 1
                    for s in (base, base + 3):
                        if u[s] not in (0, 1) or (u[s] == 0 and (u[s + 1] or u[s + 2])) or not (0 <= u[s + 2] < NPD):
                            raise ValueError
                if ty == "div" or ty == "fz":
                    if ty == "fz" and not (0 <= u[1] < len(STRS) and 0 <= u[2] < len(STRS)):
                        raise ValueError
                return tuple(u)
            except (ValueError, OverflowError, IndexError):
                continue
        return tuple(v)
    return gen_value(rng, ty)


def gen_triple(rng, ty):
    a = tuple(gen_value(rng, ty))
    b = tuple(vary(rng, ty, a))
    c = tuple(vary(rng, ty, rng.choice([a, b])))
    vs = [a, b, c]
    rng.shuffle(vs)
    return f"tri.{ty} " + " ".join(str(x) for v in vs for x in v)


def fixed_ops():
    """hand-picked triples: Hebrew Tishri boundary, negative years, equal instants with different offsets"""
    ops = []
    for y in (5780, 5782, 1, 9999):  # scriptural: month 7 (Tishri) starts the year, month 6 (Elul) ends it
        ops.append(f"tri.ld 5 {y} 6 29 5 {y} 7 1 5 {y} 1 1")
        ops.append(f"tri.ld 5 {y} 12 1 5 {y} 1 1 5 {y} 7 30")
        ops.append(f"tri.ld 4 {y} 6 29 4 {y} 7 1 4 {y} 1 1")
        ops.append(f"tri.ym 5 {y} 6 5 {y} 7 5 {y} 1")
        ops.append(f"tri.ldt 5 {y} 6 29 0 5 {y} 7 1 {NPD - 1} 5 {y} 7 1 0")
    ops.append("tri.ld 5 5782 13 1 5 5782 1 1 5 5782 12 30")  # leap year: Adar II before Nisan
    for o in (0, 1, 2):
        ops.append(f"tri.ld {o} -1 12 31 {o} 0 1 1 {o} 1 1 1")
        ops.append(f"tri.ld {o} -9997 1 1 {o} -1 1 1 {o} 9998 12 31")
        ops.append(f"tri.ym {o} -1 12 {o} 0 1 {o} 1 1")
        ops.append(f"tri.ldt {o} -1 12 31 {NPD - 1} {o} 0 1 1 0 {o} 0 1 1 1")
    ops.append("tri.ld 0 2020 2 29 1 2020 2 29 2 2020 2 29")
    ops.append("tri.odt 0 2020 1 1 0 0 0 2020 1 1 3600000000000 3600 0 2019 12 31 82800000000000 -3600")
    ops.append("tri.od 0 2020 1 1 0 0 2020 1 1 3600 0 2020 1 1 0")
    ops.append("tri.ot 0 0 3600000000000 3600 0 0")
    ops.append(f"tri.dur 0 0 -1 {NPD - 1} 0 1")
    ops.append(f"tri.inst {IMIN} 0 {IMAX} {NPD - 1} 0 0")
    ops.append("tri.iv 0 0 0 0 0 0 1 0 0 0 0 0 0 0 0 1 0 0")
    ops.append("tri.fz 3600 1 1 3600 1 8 3600 8 1")
    ops.append("tri.zdt 0 2020 6 1 0 3600 0 3600 1 1 0 2020 6 1 0 3600 1 0 0 0 0 2020 6 1 0 3600 0 3600 1 1")
    return ops


TYPE_MIX = (["ld"] * 6 + ["ldt"] * 3 + ["ym"] * 3 + ["dur", "inst", "off", "lt", "ad"] * 2 +
            ["od", "ot", "odt", "odt", "zdt", "zdt", "iv", "div", "per", "zi", "fz"])


def gen_ops(ctx, n):
    rng = ctx.rng
    ops = fixed_ops()
    for ty in ARITY:
        for _ in range(40):
            ops.append(gen_triple(rng, ty))
    while len(ops) < n:
        ops.append(gen_triple(rng, rng.choice(TYPE_MIX)))
    return ops


# ---------------------------------------------------------------------------------------------
# (I) immutability support checks — harness only
# ---------------------------------------------------------------------------------------------

VALUE_TYPES = ["dur", "inst", "off", "lt", "ld", "ldt", "ym", "ad", "od", "ot", "odt", "zdt", "iv", "div", "per", "zi", "fz"]
OPERATORS = ["__add__", "__radd__", "__sub__", "__rsub__", "__neg__", "__pos__", "__abs__", "__mul__", "__rmul__",
             "__truediv__", "__floordiv__", "__mod__", "__eq__", "__ne__", "__lt__", "__le__", "__gt__", "__ge__",
             "__hash__", "__repr__", "__str__", "__format__", "__contains__", "__iter__", "__len__", "__bool__"]


def _slot_names(cls):
    out = []
    for k in cls.__mro__:
        sl = k.__dict__.get("__slots__", ())
        if isinstance(sl, str):
            sl = (sl,)
        for s in sl:
            if s.startswith("__") and not s.endswith("__"):
                s = "_" + k.__name__.lstrip("_") + s
            out.append(s)
    return out


def snapshot(o, depth=0, _opaque=None):
    """recursive picture of all instance attributes (instance dict incl. name-mangled names, and slots)"""
    import enum
    if o is None or isinstance(o, (bool, int, float, str, bytes, complex)):
        return (type(o).__name__, o)
    if isinstance(o, enum.Enum):
        return ("enum", type(o).__name__, o.name)
    if isinstance(o, (tuple, list)):
        return (type(o).__name__,) + tuple(snapshot(x, depth + 1) for x in o)
    if isinstance(o, dict):
        return ("dict",) + tuple((repr(k), snapshot(v, depth + 1)) for k, v in o.items())
    P = _P()
    # stateful non-value classes (caches inside): identity only — rebinding the reference is still noticed
    from pyoda_time.time_zones._fixed_date_time_zone import _FixedDateTimeZone
    if isinstance(o, P.CalendarSystem) or (isinstance(o, P.DateTimeZone) and not isinstance(o, _FixedDateTimeZone)):
        return ("ref", type(o).__name__, id(o))
    if depth > 8 or not type(o).__module__.startswith("pyoda_time"):
        return ("ref", type(o).__name__, id(o))
    items = []
    d = getattr(o, "__dict__", None)
    if d is not None:
        for k in sorted(d):
            items.append((k, snapshot(d[k], depth + 1)))
    for s in _slot_names(type(o)):
        if s in ("__dict__", "__weakref__"):
            continue
        try:
            items.append((s, snapshot(object.__getattribute__(o, s), depth + 1)))
        except AttributeError:
            items.append((s, ("unset",)))
    return ("obj", type(o).__name__, tuple(items))


class _Pool:
    def __init__(self, rng):
        import datetime as dt
        P = _P()
        self.rng = rng
        self.vals = {ty: [build(ty, tuple(gen_value(rng, ty))) for _ in range(12)] for ty in VALUE_TYPES}
        for ty in ("ld", "ldt", "ym", "od", "odt", "div"):  # enough ISO values for same-calendar operands to meet
            k = 0
            while k < 8:
                v = tuple(gen_value(rng, ty))
                if v[0] == 0:
                    self.vals[ty].append(build(ty, v))
                    k += 1
        self.vals["per"] += [P.Period.from_days(3), P.Period.from_months(1), P.Period.from_years(-1), P.Period.from_hours(5),
                             P.Period.from_weeks(2) + P.Period.from_days(1)]
        self.by_name = {klass(ty).__name__: self.vals[ty] for ty in VALUE_TYPES}
        self.by_name["DateTimeZone"] = [tz_zone(0), tz_zone(2), P.DateTimeZone.utc, mk_zone(0, 3600, 1, 1)]
        self.by_name["CalendarSystem"] = [cal(o) for o in (0, 1, 2, 4, 5, 13)]
        self.by_name["IsoDayOfWeek"] = [P.IsoDayOfWeek.MONDAY, P.IsoDayOfWeek.SUNDAY, P.IsoDayOfWeek.WEDNESDAY]
        self.by_name["PeriodUnits"] = [P.PeriodUnits.DAYS, P.PeriodUnits.ALL_UNITS, P.PeriodUnits.YEAR_MONTH_DAY, P.PeriodUnits.HOURS | P.PeriodUnits.MINUTES]
        self.by_name["int"] = [0, 1, -1, 2, 3, 7, 12, 29, 30, 59, 100, 1000, -1000, 2020, 10**9, 10**12]
        self.by_name["float"] = [0.0, 1.5, -2.25, 1e6]
        self.by_name["str"] = ["", "G", "o", "r", "uuuu-MM-dd", "HH:mm", "en-US", "x"]
        self.by_name["bool"] = [True, False]
        self.by_name["None"] = [None]
        self.by_name["datetime"] = [dt.datetime(2020, 1, 2, 3, 4, 5), dt.datetime(2020, 1, 2, 3, 4, 5, tzinfo=dt.timezone.utc)]
        self.by_name["date"] = [dt.date(2020, 2, 29)]
        self.by_name["time"] = [dt.time(1, 2, 3)]
        self.by_name["timedelta"] = [dt.timedelta(days=1, seconds=5), dt.timedelta(microseconds=-1)]
        eras = cal(0).eras
        eras = list(eras() if callable(eras) else eras)
        self.by_name["Era"] = [eras[0], eras[-1]]
        self.by_name["Callable"] = [P.DateAdjusters.end_of_month, P.DateAdjusters.start_of_month, P.TimeAdjusters.truncate_to_second,
                                    P.TimeAdjusters.truncate_to_hour, P.time_zones.Resolvers.lenient_resolver]
        self.by_name["ZoneLocalMappingResolver"] = [P.time_zones.Resolvers.lenient_resolver, P.time_zones.Resolvers.strict_resolver]
        self.by_name["IClock"] = [P.testing.FakeClock(P.Instant.from_unix_time_seconds(0))] if hasattr(P, "testing") and hasattr(P.testing, "FakeClock") else []
        self.by_name["CultureInfo"] = []
        self.everything = [x for ty in VALUE_TYPES for x in self.vals[ty]] + [None, 5, "x"]

    def for_annotation(self, ann, pname, mname=""):
        rng = self.rng
        names = []
        if isinstance(ann, str) and "Callable" in ann:
            P = _P()
            if "date" in mname:
                return rng.choice([P.DateAdjusters.end_of_month, P.DateAdjusters.start_of_month, P.DateAdjusters.day_of_month(3)])
            if "time" in mname:
                return rng.choice([P.TimeAdjusters.truncate_to_second, P.TimeAdjusters.truncate_to_hour])
        if isinstance(ann, str):
            txt = ann.replace("datetime.", "").replace("dt.", "")
            for part in txt.replace("[", "|").replace("]", "|").replace(",", "|").split("|"):
                part = part.strip().split(".")[-1]
                if part in self.by_name and self.by_name[part]:
                    names.append(part)
        if not names:
            if pname in ("other", "x", "y", "value"):
                return rng.choice(self.everything)
            return rng.choice(self.everything + self.by_name["int"])
        return rng.choice(self.by_name[rng.choice(names)])


class _Hang(BaseException):
    pass


class _deadline:
    """SIGALRM watchdog: a call that blocks (lock re-acquisition, read from stdin, …) becomes a reported failure"""

    def __init__(self, seconds, what):
        self.seconds, self.what = seconds, what

    def __enter__(self):
        import signal
        import threading
        self.active = threading.current_thread() is threading.main_thread()
        if self.active:
            def on_alarm(signum, frame):
                raise _Hang(self.what)
            self.old = signal.signal(signal.SIGALRM, on_alarm)
            signal.setitimer(signal.ITIMER_REAL, self.seconds)
        return self

    def __exit__(self, *a):
        import signal
        if self.active:
            signal.setitimer(signal.ITIMER_REAL, 0)
            signal.signal(signal.SIGALRM, self.old)
        return False


def _members(cls):
    names = [n for n in dir(cls) if not n.startswith("_")]
    names += [n for n in OPERATORS if any(n in k.__dict__ for k in cls.__mro__ if k is not object)]
    return names


def _call_member(pool, cls, recv, name):
    """returns (status, result, operands) — operands are the objects whose state must not change"""
    rng = pool.rng
    static = inspect.getattr_static(cls, name)
    if isinstance(static, property):
        before = snapshot(recv)
        try:
            res = getattr(recv, name)
            st = "ok"
        except Exception:  # noqa: BLE001
            res, st = None, "raised"
        return st, res, [(recv, before)]
    target = getattr(cls, name) if isinstance(static, (staticmethod, classmethod)) else getattr(recv, name, None)
    if target is None or not callable(target):
        return "skip", None, []
    try:
        sig = inspect.signature(target)
        params = list(sig.parameters.values())
    except (TypeError, ValueError):
        params = None
    args, kwargs = [], {}
    if params is None:
        args = [rng.choice(pool.everything)] if name not in ("__hash__", "__repr__", "__str__", "__neg__", "__pos__", "__abs__", "__bool__", "__len__", "__iter__") else []
    else:
        own = pool.by_name.get(cls.__name__, [])
        for p in params:
            if p.kind in (p.VAR_POSITIONAL, p.VAR_KEYWORD):
                continue
            if p.default is not p.empty and rng.random() < 0.5:
                continue
            ann = p.annotation if p.annotation is not p.empty else None
            v = pool.for_annotation(ann, p.name, name)
            if isinstance(static, (staticmethod, classmethod)) and ann is None and own:
                v = rng.choice(own)
            if p.kind == p.KEYWORD_ONLY:
                kwargs[p.name] = v
            else:
                args.append(v)
    operands = [recv] + args + list(kwargs.values())
    snaps = [(o, snapshot(o)) for o in operands if type(o).__module__.startswith("pyoda_time")]
    try:
        with _deadline(20, f"{cls.__name__}.{name}"):
            res = target(*args, **kwargs)
        if inspect.isgenerator(res):
            res = None
        st = "ok"
    except _Hang:
        res, st = None, "hang"
    except Exception:  # noqa: BLE001
        res, st = None, "raised"
    return st, res, snaps


def immutability_dynamic(ctx, rng):
    pool = _Pool(rng)
    classes = {ty: klass(ty) for ty in VALUE_TYPES}
    value_classes = tuple(classes.values())
    stats = {"calls": 0, "ok": 0, "raised": 0, "members": 0, "members_with_successful_call": 0}
    never_ok = []
    failures = []

    def check(st, snaps, where):
        stats["calls"] += 1
        stats[st] = stats.get(st, 0) + 1
        if st == "hang":
            failures.append({"key": "call-hangs:" + where, "what": f"{where} did not return within 20 s"})
        for o, before in snaps:
            after = snapshot(o)
            if after != before:
                failures.append({"key": "operand-mutated:" + where, "what": f"{where}: attribute state of a {type(o).__name__} operand changed from {before!r} to {after!r}"[:1500]})

    # self-test of the detector: FakeClock.advance must be seen as a mutation
    P = _P()
    fc = P.testing.FakeClock(P.Instant.from_unix_time_seconds(0))
    b = snapshot(fc)
    fc.advance_seconds(1)
    if snapshot(fc) == b:
        from common import InfraError
        raise InfraError("snapshot differential does not notice FakeClock.advance_seconds")

    reps = ctx.scale(6, 60)
    for ty, cls in classes.items():
        for name in _members(cls):
            stats["members"] += 1
            ok = 0
            for _ in range(reps * (3 if ok == 0 else 1)):
                recv = rng.choice(pool.vals[ty])
                st, res, snaps = _call_member(pool, cls, recv, name)
                if st == "skip":
                    break
                check(st, snaps, f"{cls.__name__}.{name}")
                ok += st == "ok"
            if ok:
                stats["members_with_successful_call"] += 1
            else:
                never_ok.append(f"{cls.__name__}.{name}")
    # call sequences: results feed the next call; the first receiver is compared at the end as well
    for _ in range(ctx.scale(400, 20000)):
        ty = rng.choice(VALUE_TYPES)
        recv = first = rng.choice(pool.vals[ty])
        first_snap = snapshot(first)
        for _step in range(6):
            cls = type(recv)
            name = rng.choice(_members(cls))
            st, res, snaps = _call_member(pool, cls, recv, name)
            if st == "skip":
                continue
            check(st, snaps, f"{cls.__name__}.{name}")
            if st == "ok" and isinstance(res, value_classes) and rng.random() < 0.7:
                recv = res
        if snapshot(first) != first_snap:
            failures.append({"key": "operand-mutated:sequence", "what": f"{type(first).__name__} changed over a call sequence"})
    ctx.note("immutability.dynamic", {**stats, "members_never_successfully_called": never_ok[:60]})
    return failures


CTOR_NAMES = {"__init__", "__new__", "_ctor", "__ctor", "__init_subclass__"}
# (file suffix, class) pairs that are stateful by design (not value types)
STATEFUL_ALLOW = {("testing/_fake_clock.py", "FakeClock"), ("utility/_cache.py", "_Cache"), ("_period_builder.py", "PeriodBuilder"),
                  ("_date_time_zone.py", "_DateTimeZoneMeta"), ("_date_time_zone.py", "DateTimeZone")}
VALUE_FILES = ["_duration.py", "_instant.py", "_offset.py", "_local_date.py", "_local_time.py", "_local_date_time.py",
               "_year_month.py", "_annual_date.py", "_offset_date.py", "_offset_time.py", "_offset_date_time.py",
               "_zoned_date_time.py", "_interval.py", "_date_interval.py", "_period.py", "_year_month_day.py",
               "_year_month_day_calendar.py", "time_zones/_zone_interval.py", "time_zones/_fixed_date_time_zone.py",
               "utility/_hash_code_helper.py", "calendars/_hebrew_year_month_day_calculator.py", "_local_instant.py",
               "_date_time_zone.py"]


def scan_mutations(path):
    """(class, method, line, text) of every attribute store/delete on `self` or another parameter outside constructors"""
    tree = ast.parse(open(path, encoding="utf-8").read())
    out = []
    for cls in ast.walk(tree):
        if not isinstance(cls, ast.ClassDef):
            continue
        for m in cls.body:
            if not isinstance(m, (ast.FunctionDef, ast.AsyncFunctionDef)):
                continue
            params = [a.arg for a in m.args.posonlyargs + m.args.args + m.args.kwonlyargs]
            bare = m.name.split("__")[-1] if m.name.startswith("_") and "__" in m.name[1:] and not m.name.endswith("__") else m.name
            is_ctor = m.name in CTOR_NAMES or bare in ("ctor",) or m.name.startswith("_ctor") or m.name.startswith("__ctor")
            fresh = set()  # locals bound to a newly allocated object inside this function
            for n in ast.walk(m):
                if isinstance(n, ast.Assign) and isinstance(n.value, ast.Call):
                    s = ast.unparse(n.value.func)
                    if s.endswith("__new__") or s.endswith("_ctor") or s.endswith("__ctor") or s in ("cls", "copy.copy"):
                        for tg in n.targets:
                            if isinstance(tg, ast.Name):
                                fresh.add(tg.id)
            for n in ast.walk(m):
                tgs = []
                if isinstance(n, ast.Assign):
                    tgs = list(n.targets)
                elif isinstance(n, (ast.AugAssign, ast.AnnAssign)):
                    if not (isinstance(n, ast.AnnAssign) and n.value is None):
                        tgs = [n.target]
                elif isinstance(n, ast.Delete):
                    tgs = list(n.targets)
                elif isinstance(n, ast.Call) and ast.unparse(n.func) in ("setattr", "object.__setattr__", "delattr", "object.__delattr__",
                                                                          "super().__setattr__"):
                    if n.args and isinstance(n.args[0], ast.Name):
                        tgs = [ast.Attribute(value=n.args[0], attr="?", ctx=ast.Store())]
                flat = []
                for tg in tgs:
                    flat += list(tg.elts) if isinstance(tg, (ast.Tuple, ast.List)) else [tg]
                for tg in flat:
                    while isinstance(tg, ast.Subscript):
                        tg = tg.value
                    if isinstance(tg, ast.Attribute) and isinstance(tg.value, ast.Name):
                        nm = tg.value.id
                        if nm in fresh and nm not in params:
                            continue
                        if is_ctor and nm in ("self", "cls"):
                            continue
                        if nm in params or nm == "self":
                            out.append((cls.name, m.name, n.lineno, ast.unparse(n)[:100]))
    return out


def immutability_static(ctx, rng=None):
    import pyoda_time
    root = os.path.dirname(pyoda_time.__file__)
    failures, flagged_allowed = [], []
    # self-test: the scanner must flag the known stateful class
    probe = scan_mutations(os.path.join(root, "testing/_fake_clock.py"))
    if not any(c == "FakeClock" and m == "advance" for c, m, _, _ in probe):
        from common import InfraError
        raise InfraError("static mutation scan does not flag FakeClock.advance")
    n_files = 0
    for rel in VALUE_FILES:
        p = os.path.join(root, rel)
        if not os.path.exists(p):
            failures.append({"key": "static-scan-missing-file", "what": f"value-type source {rel} not found"})
            continue
        n_files += 1
        for c, m, line, text in scan_mutations(p):
            if (rel, c) in STATEFUL_ALLOW:
                flagged_allowed.append(f"{rel}:{line} {c}.{m}")
                continue
            failures.append({"key": f"static-mutation:{rel}:{c}.{m}", "what": f"{rel}:{line} {c}.{m} stores to an attribute of its receiver/argument outside a constructor: {text}"})
    ctx.note("immutability.static", {"files": n_files, "allow_listed_hits": flagged_allowed})
    return failures


def immutability_rebind(ctx, rng):
    """read-only properties must refuse assignment and deletion from outside"""
    failures = []
    n = 0
    plain_public = []
    for ty in VALUE_TYPES:
        cls = klass(ty)
        o = build(ty, tuple(gen_value(rng, ty)))
        before = snapshot(o)
        for name in dir(cls):
            if name.startswith("_"):
                continue
            st = inspect.getattr_static(cls, name)
            if not isinstance(st, property):
                continue
            n += 1
            if st.fset is not None:
                failures.append({"key": f"property-has-setter:{cls.__name__}.{name}", "what": f"{cls.__name__}.{name} defines a setter"})
                continue
            for what, f in (("assignment", lambda: setattr(o, name, 0)), ("deletion", lambda: delattr(o, name))):
                try:
                    f()
                except AttributeError:
                    continue
                except Exception as e:  # noqa: BLE001
                    failures.append({"key": f"rebind-wrong-exception:{cls.__name__}.{name}", "what": f"{what} raised {type(e).__name__}"})
                    continue
                failures.append({"key": f"rebind-accepted:{cls.__name__}.{name}", "what": f"{what} of read-only property {cls.__name__}.{name} from outside was accepted"})
        d = getattr(o, "__dict__", {})
        plain_public += [f"{cls.__name__}.{k}" for k in d if not k.startswith("_")]
        if snapshot(o) != before:
            failures.append({"key": f"rebind-changed-state:{cls.__name__}", "what": f"state of a {cls.__name__} changed after refused rebinding attempts"})
    ctx.note("immutability.rebind", {"properties_tried": n, "plain_public_instance_attributes": plain_public})
    return failures


_IMM = {"dynamic": immutability_dynamic, "static": immutability_static, "rebind": immutability_rebind}


def _imm_run(ctx, case):
    """case = '<phase>:<seed>:<tier>' — self-contained, so that a replay repeats exactly the same calls"""
    import random
    phase = case.split(":")[0]
    return _IMM[phase](ctx, random.Random("c12:" + case))


def _imm_case(ctx):
    def fn(case):
        fs = _imm_run(ctx, case)
        for f in fs[1:20]:
            ctx.add_failure(f, op=case, source="oracle:immutability." + case.split(":")[0])
        return fs[0] if fs else None
    return fn


# ---------------------------------------------------------------------------------------------

def run(ctx):
    n = ctx.scale(50_000, 1_500_000)
    ops = gen_ops(ctx, n)
    ctx.correspond("compare.triples", ops, impl, oracle=oracle, neighbours=neighbours)
    ctx.check_cases("wfCheck (Heb.cal true) evaluated on drv_calendar (hypothesis of hebrewScriptural_cmp_iff_days)",
                    ["cal.wf 5"], _wf_case)
    import c12_routes
    ctx.check_cases("equality.routes (one value built by many public routes: ==, hash, order, normalised)",
                    c12_routes.gen_cases(ctx.rng, ctx.scale(2_500, 120_000)), c12_routes.case_fn)
    tag = f"{getattr(ctx, 'seed', 0)}:{ctx.tier}"
    ctx.check_cases("immutability (support, harness only)", [f"static:{tag}", f"rebind:{tag}", f"dynamic:{tag}"], _imm_case(ctx))


def _wf_case(op):
    import common
    r = common.model_eval([op], "drv_calendar")[0]
    if r != "1":
        return {"key": "hebrew-scriptural-wf-check-fails",
                "what": f"{op} -> {r}: the Hebrew scriptural calendar description fails the evaluated well-formedness check, the hypothesis of hebrewScriptural_cmp_iff_days is not discharged"}
    return None


def replay_op(op, failure):
    if op.startswith("cal.wf"):
        return _wf_case(op)
    if op.startswith(("('instant'", "('duration'", "('ldt'", "('ld'", "('ym'", "('zi'", "('iv'")):
        import ast
        import c12_routes
        return c12_routes.case_fn(ast.literal_eval(op))
    if op.split(":")[0] in _IMM:
        tier = op.split(":")[2] if op.count(":") >= 2 else "quick"

        class _C:
            thorough = tier == "thorough"

            def scale(self, q, t):
                return t if self.thorough else q

            def note(self, k, v):
                pass

            def add_failure(self, *a, **k):
                pass
        _C.tier = tier
        fs = _imm_run(_C(), op)
        for f in fs:
            if f["key"] == failure.get("key"):
                return f
        return fs[0] if fs else None
    return oracle(op.split(" "))
