"""C01 — every calendar maps day numbers to valid dates one-to-one and in order.

(K) correspondence: ops `cal.*` evaluated by the Lean model (driver `drv_calendar`) and by the real code through
    CalendarSystem.for_id / LocalDate / with_calendar / get_days_in_* …;
(S) direct oracle: the property itself evaluated on the real code alone for the same inputs (round trip, strict
    monotonicity of consecutive days, derived fields, rejection outside the advertised range, eras).
Both run inside a pool of worker processes (each with its own pinned driver); the parent only merges counts,
disagreements and failures into the check context.  VERIF_PROCS sets the pool size (default 8 quick, 16 thorough).
"""
from __future__ import annotations

import os
import time
from collections import Counter

import common
from common import guard, ints

IDS = ["ISO", "Gregorian", "Julian", "Coptic", "Hebrew Civil", "Hebrew Scriptural", "Persian Simple",
       "Persian Arithmetic", "Persian Algorithmic", "Hijri Astronomical-Base15", "Hijri Astronomical-Base16",
       "Hijri Astronomical-Indian", "Hijri Astronomical-HabashAlHasib", "Hijri Civil-Base15", "Hijri Civil-Base16",
       "Hijri Civil-Indian", "Hijri Civil-HabashAlHasib", "Um Al Qura", "Badi"]
NCAL = len(IDS)
DRIVER = "drv_calendar"

META = {
    "property": "C01",
    "proof_modules": ["PyodaProofs.C01", "PyodaProofs.C01Lemmas", "PyodaProofs.C01Instances", "PyodaProofs.C01Islamic",
                      "PyodaProofs.C01Persian", "PyodaProofs.C01PersianSimple", "PyodaProofs.C01PersianArithmetic",
                      "PyodaProofs.C01IsoFast", "PyodaProofs.C01WfCheck", "PyodaProofs.GenAgreeC01",
                      "PyodaProofs.GenAgreeC01Heb", "PyodaProofs.GenAgreeC01Cache", "PyodaProofs.GenAgreeC01Tab"],
    "drivers": ["drv_calendar"],
    "theorems": [
        "Pyoda.C01.getYear_spec", "Pyoda.C01.days_ymd_days", "Pyoda.C01.ymd_days_ymd", "Pyoda.C01.strict_mono",
        "Pyoda.C01.cmp_neg_of_days_lt", "Pyoda.C01.derived_fields", "Pyoda.C01.era_roundtrip", "Pyoda.C01.eras_reachable",
        "Pyoda.C01.out_of_range_rejected", "Pyoda.C01.invalid_fields_rejected", "Pyoda.C01.with_calendar_roundtrip",
        "Pyoda.C01.pack_unpack", "Pyoda.C01.viaPacked_id",
        "Pyoda.C01.greg_wf", "Pyoda.C01.jul_wf", "Pyoda.C01.copt_wf", "Pyoda.C01.isl_wf", "Pyoda.C01.islamic_wf",
        "Pyoda.C01.persian_wf", "Pyoda.C01.persianSimple_wf", "Pyoda.C01.persianArithmetic_wf",
        "Pyoda.C01.wfCheck_sound", "Pyoda.C01.estOf_mono", "Pyoda.C01.tdiv_mono",
        "Pyoda.C01.gregorian_days_ymd_days", "Pyoda.C01.gregorian_ymd_days_ymd", "Pyoda.C01.gregorian_out_of_range_rejected",
        "Pyoda.C01.julian_days_ymd_days", "Pyoda.C01.coptic_days_ymd_days",
        "Pyoda.C01.greg_daysOfYmdFast_eq", "Pyoda.C01.greg_ymdOfDaysFast_eq", "Pyoda.C01.greg_validate_eq",
        # agreement of the definitions generated from the Python source (tools/py2lean.py) with the model
        "Pyoda.GenAgree.C01.gen_Greg_isGregorianLeapYear_eq", "Pyoda.GenAgree.C01.gen_Greg_isLeap_eq",
        "Pyoda.GenAgree.C01.gen_Greg_len_eq", "Pyoda.GenAgree.C01.gen_Greg_start_eq",
        "Pyoda.GenAgree.C01.gen_Greg_validate_eq", "Pyoda.GenAgree.C01.gen_Greg_validateYmd_eq",
        "Pyoda.GenAgree.C01.gen_GJ_len_eq", "Pyoda.GenAgree.C01.gen_GJ_dim_eq",
        "Pyoda.GenAgree.C01.gen_GJ_toMonth_eq", "Pyoda.GenAgree.C01.gen_GJ_split_eq",
        "Pyoda.GenAgree.C01.gen_Greg_dim_eq", "Pyoda.GenAgree.C01.gen_Greg_toMonth_eq",
        "Pyoda.GenAgree.C01.gen_Greg_split_eq", "Pyoda.GenAgree.C01.gen_Jul_isLeap_eq",
        "Pyoda.GenAgree.C01.gen_Jul_start_eq", "Pyoda.GenAgree.C01.gen_Jul_len_eq",
        "Pyoda.GenAgree.C01.gen_Jul_dim_eq", "Pyoda.GenAgree.C01.gen_Jul_toMonth_eq",
        "Pyoda.GenAgree.C01.gen_Jul_split_eq", "Pyoda.GenAgree.C01.gen_Copt_isLeap_eq",
        "Pyoda.GenAgree.C01.gen_Copt_len_eq", "Pyoda.GenAgree.C01.gen_Copt_dim_eq",
        "Pyoda.GenAgree.C01.gen_Copt_toMonth_eq", "Pyoda.GenAgree.C01.gen_Copt_split_eq",
        "Pyoda.GenAgree.C01.gen_Copt_start_eq", "Pyoda.GenAgree.C01.gen_Isl_len_eq",
        "Pyoda.GenAgree.C01.gen_Isl_len_model", "Pyoda.GenAgree.C01.gen_Isl_dim_eq",
        "Pyoda.GenAgree.C01.gen_Isl_toMonth_eq", "Pyoda.GenAgree.C01.gen_Isl_split_eq",
        "Pyoda.GenAgree.C01.gen_Pers_len_eq", "Pyoda.GenAgree.C01.gen_Pers_dim_eq",
        "Pyoda.GenAgree.C01.gen_Pers_toMonth_eq", "Pyoda.GenAgree.C01.gen_Pers_split_eq",
        "Pyoda.GenAgree.C01.gen_Pers_leapArithmetic_eq", "Pyoda.GenAgree.C01.gen_Isl_isLeap_eq",
        "Pyoda.GenAgree.C01.gen_Pers_leapSimple_eq", "Pyoda.GenAgree.C01.gen_Isl_start_loop1_eq",
        "Pyoda.GenAgree.C01.gen_Isl_start_loop2_eq", "Pyoda.GenAgree.C01.gen_Isl_start_eq",
        "Pyoda.GenAgree.C01.gen_dayOfWeek_eq", "Pyoda.GenAgree.C01.gen_Calc_minYear_eq",
        "Pyoda.GenAgree.C01.gen_Calc_maxYear_eq", "Pyoda.GenAgree.C01.gen_Calc_daysAtStartOfYear1_eq",
        "Pyoda.GenAgree.C01.gen_Calc_getYear_loop1_eq", "Pyoda.GenAgree.C01.gen_Calc_getYear_loop2_agree",
        "Pyoda.GenAgree.C01.gen_Calc_getYear_agree", "Pyoda.GenAgree.C01.gen_Calc_getYearMonthDay_eq",
        "Pyoda.GenAgree.C01.gen_Calc_ymdOfDays_agree", "Pyoda.GenAgree.C01.gen_Calc_daysOfYmdRaw_eq",
        "Pyoda.GenAgree.C01.gen_Calc_validate_eq", "Pyoda.GenAgree.C01.gen_Calc_dayOfYear_eq",
        "Pyoda.GenAgree.C01Cache.gen_Entry_getValidator_eq", "Pyoda.GenAgree.C01Cache.gen_Entry_getCacheIndex_eq",
        "Pyoda.GenAgree.C01Cache.gen_Entry_new_eq", "Pyoda.GenAgree.C01Cache.gen_Entry_invalid_eq",
        "Pyoda.GenAgree.C01Cache.gen_Entry_isValidForYear_eq",
        "Pyoda.GenAgree.C01Cache.gen_Entry_startOfYearDays_eq",
        "Pyoda.GenAgree.C01Cache.gen_Calc_getStartOfYearInDays_eq",
        "Pyoda.GenAgree.C01Cache.gen_Heb_computeCacheEntry_eq",
        "Pyoda.GenAgree.C01Cache.gen_Heb_getOrPopulateCache_eq", "Pyoda.GenAgree.C01Cache.gen_yearCache_transparent",
        "Pyoda.GenAgree.C01Cache.gen_hebrewCache_transparent", "Pyoda.GenAgree.C01Heb.gen_Heb_isLeap_eq",
        "Pyoda.GenAgree.C01Heb.gen_Heb_elapsedNoCache_eq", "Pyoda.GenAgree.C01Heb.gen_Heb_elapsedDays_eq",
        "Pyoda.GenAgree.C01Heb.gen_Heb_isHeshvanLong_eq", "Pyoda.GenAgree.C01Heb.gen_Heb_isKislevShort_eq",
        "Pyoda.GenAgree.C01Heb.gen_Heb_daysInMonth_eq", "Pyoda.GenAgree.C01Heb.gen_Heb_daysInYear_eq",
        "Pyoda.GenAgree.C01Heb.gen_Heb_toMonth_eq", "Pyoda.GenAgree.C01Heb.gen_Heb_toMonth_rejects",
        "Pyoda.GenAgree.C01Heb.gen_Heb_split_eq", "Pyoda.GenAgree.C01Heb.gen_Heb_civilToScriptural_eq",
        "Pyoda.GenAgree.C01Heb.gen_Heb_scripturalToCivil_eq",
        "Pyoda.GenAgree.C01Heb.gen_HebCalc_calendarToCivilMonth_eq",
        "Pyoda.GenAgree.C01Heb.gen_HebCalc_calendarToScripturalMonth_eq",
        "Pyoda.GenAgree.C01Heb.gen_HebCalc_civilToCalendarMonth_eq",
        "Pyoda.GenAgree.C01Heb.gen_HebCalc_scripturalToCalendarMonth_eq",
        "Pyoda.GenAgree.C01Heb.gen_HebCalc_isLeap_eq", "Pyoda.GenAgree.C01Heb.gen_HebCalc_monthsInYear_eq",
        "Pyoda.GenAgree.C01Heb.gen_HebCalc_daysInYear_eq", "Pyoda.GenAgree.C01Heb.gen_HebCalc_startOfYear_eq",
        "Pyoda.GenAgree.C01Heb.gen_HebCalc_daysInMonth_eq", "Pyoda.GenAgree.C01Heb.gen_HebCalc_toMonth_eq",
        "Pyoda.GenAgree.C01Heb.gen_HebCalc_split_eq", "Pyoda.GenAgree.C01Tab.gen_Calc_minYear_eq",
        "Pyoda.GenAgree.C01Tab.gen_Calc_maxYear_eq", "Pyoda.GenAgree.C01Tab.gen_Badi_daysInAyyamiHa_eq",
        "Pyoda.GenAgree.C01Tab.gen_Badi_nawRuzDayInMarch_eq", "Pyoda.GenAgree.C01Tab.gen_Badi_start_eq",
        "Pyoda.GenAgree.C01Tab.gen_Badi_len_eq", "Pyoda.GenAgree.C01Tab.gen_Badi_months_eq",
        "Pyoda.GenAgree.C01Tab.gen_Badi_isLeap_eq", "Pyoda.GenAgree.C01Tab.gen_Badi_toMonth_eq",
        "Pyoda.GenAgree.C01Tab.gen_Badi_dim_eq", "Pyoda.GenAgree.C01Tab.gen_Badi_dim_rejects",
        "Pyoda.GenAgree.C01Tab.gen_Badi_isInAyyamiHa_eq", "Pyoda.GenAgree.C01Tab.gen_Badi_daysSinceEpoch_eq",
        "Pyoda.GenAgree.C01Tab.gen_Badi_validate_eq", "Pyoda.GenAgree.C01Tab.gen_UAQ_len_eq",
        "Pyoda.GenAgree.C01Tab.gen_UAQ_isLeap_eq", "Pyoda.GenAgree.C01Tab.gen_UAQ_start_eq",
        "Pyoda.GenAgree.C01Tab.gen_UAQ_dim_eq", "Pyoda.GenAgree.C01Tab.gen_UAQ_toMonth_loop1_eq",
        "Pyoda.GenAgree.C01Tab.gen_UAQ_toMonth_eq", "Pyoda.GenAgree.C01Tab.gen_UAQ_split_loop1_eq",
        "Pyoda.GenAgree.C01Tab.gen_UAQ_split_eq", "Pyoda.GenAgree.C01Tab.gen_Pers_leapAstronomical_eq",
    ],
    "trusted_base": [
        "CPython int arithmetic; _towards_zero_division exact for the (< 10^9) operands of the calendar code",
        "the year-start caches are transparent (modelled and checked under C13)",
        "table snapshot lean/PyodaModel/Calendar/Tables.lean tied to the code by suite calendar.tables (every entry, every run)",
        "for Hebrew civil, Hebrew scriptural, Um Al Qura, Badi and Persian astronomical the hypothesis WF of the C01 theorems is "
        "discharged by EVALUATION of the executable checker wfCheck on the compiled driver (op cal.wf, every run, all years; "
        "the Lean compiler is trusted for that step) plus the proved theorem wfCheck_sound : wfCheck c = true -> WF c, instead "
        "of a symbolic instance; the other 14 ordinals have symbolic instances (kernel-checked) and are evaluated as well",
        "translator tie, further groups (tools/py2lean_targets.py C01Heb, C01Cache, C01Tab; PyodaProofs/GenAgreeC01Heb|C01Cache|C01Tab.lean): "
        "Hebrew (_hebrew_scriptural_calculator.py incl. __elapsed_days_no_cache, month lengths, month starts, day-of-year split through match statements; "
        "_hebrew_month_converter.py; the non-arithmetic members of _hebrew_year_month_day_calculator.py for both month numberings), with __get_or_populate_cache "
        "as an abstract callee instantiated by the cache-free packed value; the year-start caches themselves (_YearStartCacheEntry, "
        "_YearMonthDayCalculator._get_start_of_year_in_days, Hebrew __compute_cache_entry / __get_or_populate_cache) as explicit state-passing functions "
        "over a dict parameter, proved to be single steps of the C13 cache model so that yearCache_transparent / hebrewCache_transparent apply to the generated code "
        "(gen_yearCache_transparent, gen_hebrewCache_transparent); Badi, Um Al Qura and the Persian astronomical leap rule with their tables evaluated from the source "
        "(base64 literals; the three Um Al Qura dicts by running the statements of the class body) and compared entry by entry with the model's tables and recomputed "
        "year lengths / year starts by kernel evaluation. Trusted in addition: a dict attribute as the function key -> optional value (PyDict; KeyError for a missing key), "
        "the translator's interpreter for class bodies, match statements over integer literals as if-chains, `x is Enum.MEMBER` for declared enum-valued attributes as equality, "
        "Badi's ISO LocalDate(year, 3, day)._days_since_epoch and CalendarSystem.iso leap rule as abstract callees (instantiated with the Gregorian model), "
        "bounds |year| < 10^23 for __elapsed_days_no_cache. Outside: Badi._get_year_month_day_from_year_and_day_of_year (float division), Persian year-start list filled in __init__, "
        "Hebrew/Badi _add_months/_months_between/_set_year (C09)",
        "translator tools/py2lean.py (second tie, besides the correspondence suites): the leap rules, year starts, year and month "
        "lengths, month starts and day-of-year splits of the Gregorian, Julian, Coptic/fixed-month, tabular Islamic and Persian "
        "calculators listed under C01 in tools/py2lean_targets.py are re-translated from the current Python source on each run into "
        "lean/PyodaGen/C01.lean and proved equal to the hand-written calendar model (PyodaProofs/GenAgreeC01.lean; shared by C01 and C02). "
        "Trusted there: Python int = Lean Int; // and % = Int.fdiv/Int.fmod for non-zero constant divisors; >> by a constant = "
        "Int.shiftRight; x & (2^k-1) = x mod 2^k, other & | ^ and run-time shifts through PyodaGen/Support.lean; raising calls bound left-to-right in Except PyExc; if-statements by tail duplication; "
        "virtual calls self._is_leap_year of shared base classes are function parameters instantiated with the generated leap rule of "
        "each calculator; class-level tables built by a static function at class creation are evaluated from the source by the "
        "translator's small interpreter (for/range/append/yield) and read with pyIndex (IndexError outside, negative index wraps); "
        "helpers _towards_zero_division -> pyTdiv, _csharp_modulo -> csharpMod, _check_argument_range -> checkRange, "
        "_YearMonthDay._ctor and its _year/_month/_day accessors -> a plain triple (packing: pack_unpack). The calendar-independent layer "
        "_YearMonthDayCalculator (_get_year with its two while loops as fuel-recursive functions, fuel 64 = yearFuel, out of fuel = !dom; "
        "_get_year_month_day_from_days_since_epoch, _get_days_since_epoch, _validate_year_month_day, _get_day_of_year) is translated with "
        "its virtual members as abstract callees instantiated by the model record c : Calc; gen_Calc_getYear_agree / ymdOfDays_agree are "
        "equalities up to the kind of error when the fuel runs out. The bit-test leap rules of the tabular Islamic and the Persian simple "
        "calendars (`pattern & (1 << year_of_cycle) > 0`: run-time shift pyShl, two's-complement pyAnd of PyodaGen/Support.lean, proved "
        "equal to Nat.testBit) and the Islamic year start (its `for i in range(...)` loop as a fuel-recursive function, proved equal to "
        "the model's sumFrom) are translated too. Not translated (correspondence only): the year-start cache, the 1900-2100 table paths "
        "of the Gregorian calculator (tables filled in __init__), the Persian astronomical leap rule (bytes table) and the Persian "
        "year-start list (built in __init__), Hebrew, Um Al Qura, Badi",
    ],
    "partial": [],
    "rule": "year tables: every year of every calendar (exhaustive); days: first/last days of every year, sampled month "
            "boundaries, range edges, table seams, seeded random; rejection: fields and days just outside the tables; "
            "distinct = distinct op line; non-trivial = every op (each evaluates calendar arithmetic or a range check)",
}


# ---------------------------------------------------------------------------------------------
# access to the real code
# ---------------------------------------------------------------------------------------------

_cals: dict = {}


def _P():
    import pyoda_time as P
    return P


def cal(c: int):
    k = _cals.get(c)
    if k is None:
        k = _cals[c] = _P().CalendarSystem.for_id(IDS[c])
    return k


def tag(c: int) -> str:
    return IDS[c].replace(" ", "")


def fm(c: int) -> int:
    """first month of the year in the calendar's own numbering"""
    return 7 if c == 5 else 1


def month_order(c: int, n: int) -> list[int]:
    return list(range(7, n + 1)) + list(range(1, 7)) if c == 5 else list(range(1, n + 1))


def from_days(c: int, d: int):
    return _P().LocalDate._ctor(days_since_epoch=d, calendar=cal(c))


def date(c: int, y: int, m: int, d: int):
    return _P().LocalDate(y, m, d, cal(c))


def ymd(x) -> tuple[int, int, int]:
    return (x.year, x.month, x.day)


def era_obj(c: int, name: str):
    E = _P().calendars.Era
    return {"CE": E.common, "BCE": E.before_common, "AM": E.anno_martyrum if c == 3 else E.anno_mundi,
            "EH": E.anno_hegirae, "AP": E.anno_persico, "BE": E.bahai}[name]


# ---------------------------------------------------------------------------------------------
# impl: the op evaluated on the real code
# ---------------------------------------------------------------------------------------------

def impl(t):
    op = t[0]
    P = _P()
    if op == "cal.range":
        k = cal(int(t[1]))
        return ints(k.min_year, k.max_year, k._min_days, k._max_days)
    if op == "cal.year":
        c, y = int(t[1]), int(t[2])
        k = cal(c)
        ln, n, lp = k.get_days_in_year(y), k.get_months_in_year(y), k.is_leap_year(y)
        s = date(c, y, fm(c), 1)._days_since_epoch
        dims = [k.get_days_in_month(y, m) for m in range(1, n + 1)]
        before = [date(c, y, m, 1).day_of_year - 1 for m in range(1, n + 1)]
        return ints(s, ln, n, int(lp), *dims, *before)
    if op == "cal.month":
        c, y, m = int(t[1]), int(t[2]), int(t[3])
        ln = cal(c).get_days_in_month(y, m)
        return ints(date(c, y, m, 1).day_of_year - 1, ln)
    if op == "cal.ymd":
        c, d = int(t[1]), int(t[2])
        x = from_days(c, d)
        return f"{x.year} {x.month} {x.day} {x.day_of_year} {int(x.day_of_week)} {x.era.name} {x.year_of_era}"
    if op == "cal.days":
        c = int(t[1])
        return str(date(c, int(t[2]), int(t[3]), int(t[4]))._days_since_epoch)
    if op == "cal.cmp":
        c = int(t[1])
        a = date(c, int(t[2]), int(t[3]), int(t[4]))
        b = date(c, int(t[5]), int(t[6]), int(t[7]))
        r = a.compare_to(b)
        return str((r > 0) - (r < 0))
    if op == "cal.era":
        c, y = int(t[1]), int(t[2])
        x = date(c, y, fm(c), 1)
        return f"{x.era.name} {x.year_of_era}"
    if op == "cal.abs":
        c = int(t[1])
        return str(cal(c).get_absolute_year(int(t[3]), era_obj(c, t[2])))
    if op == "cal.eras":
        return " ".join(e.name for e in cal(int(t[1])).eras())
    if op == "cal.erarange":
        c = int(t[1])
        e = era_obj(c, t[2])
        return ints(cal(c).get_min_year_of_era(e), cal(c).get_max_year_of_era(e))
    if op == "cal.conv":
        c1, c2 = int(t[1]), int(t[5])
        return ints(*ymd(date(c1, int(t[2]), int(t[3]), int(t[4])).with_calendar(cal(c2))))
    if op == "cal.isofast":
        return ints(*ymd(P.LocalDate._ctor(days_since_epoch=int(t[1]))))
    if op == "cal.pack":
        from pyoda_time._calendar_ordinal import _CalendarOrdinal
        from pyoda_time._year_month_day_calendar import _YearMonthDayCalendar
        v = _YearMonthDayCalendar._ctor(year=int(t[1]), month=int(t[2]), day=int(t[3]), calendar_ordinal=_CalendarOrdinal(int(t[4])))
        return ints(v._YearMonthDayCalendar__value, v._year, v._month, v._day, int(v._calendar_ordinal))
    if op == "cal.tbl":
        return str(_table(t[1])[int(t[2])])
    raise common.InfraError(f"unknown op {t!r}")


_tables: dict = {}


def _table(name):
    if name not in _tables:
        if name == "uaq":
            from pyoda_time.calendars._um_al_qura_year_month_day_calculator import _UmAlQuraYearMonthDayCalculator as U
            ml = U._UmAlQuraYearMonthDayCalculator__MONTH_LENGTHS
            _tables[name] = [ml[i] for i in range(len(ml))]
        elif name == "badi":
            from pyoda_time.calendars._badi_year_month_day_calculator import _BadiYearMonthDayCalculator as B
            _tables[name] = list(B.year_info_raw)
        elif name == "pastro":
            from pyoda_time.calendars._persian_year_month_day_calculator import _PersianAstronomicalYearMonthDayCalculator as A
            _tables[name] = list(A._PersianAstronomicalYearMonthDayCalculator__astronomical_leap_year_bits)
        else:
            raise common.InfraError("unknown table " + name)
    return _tables[name]


# ---------------------------------------------------------------------------------------------
# oracle: the property evaluated on the real code alone
# ---------------------------------------------------------------------------------------------

def F(key, c, what):
    return {"key": f"{key}:{tag(c)}", "what": f"{IDS[c]}: {what}"}


def raises_value_error(fn) -> bool:
    try:
        fn()
    except ValueError:
        return True
    return False


def start_of_year(c, y):
    return date(c, y, fm(c), 1)._days_since_epoch


def o_range(c):
    k = cal(c)
    lo, hi = k._min_days, k._max_days
    a = from_days(c, lo)
    if ymd(a) != (k.min_year, fm(c), 1):
        return F("range-start-not-first-day-of-min-year", c, f"first advertised day {lo} is {ymd(a)}, min_year is {k.min_year}")
    b = from_days(c, hi)
    if b.year != k.max_year:
        return F("range-end-not-in-max-year", c, f"last advertised day {hi} maps to {ymd(b)} but max_year is {k.max_year}")
    n = k.get_months_in_year(k.max_year)
    last_m = month_order(c, n)[-1]
    if (b.month, b.day) != (last_m, k.get_days_in_month(k.max_year, last_m)) or b.day_of_year != k.get_days_in_year(k.max_year):
        return F("range-end-not-last-day-of-max-year", c, f"last advertised day {hi} is {ymd(b)} (day of year {b.day_of_year})")
    for d in (lo - 1, lo - 2, hi + 1, hi + 2, lo - 400, hi + 400):
        if not raises_value_error(lambda d=d: from_days(c, d)):
            return F("day-outside-range-accepted", c, f"day {d} outside [{lo}, {hi}] was mapped to {ymd(from_days(c, d))}")
    return None


def o_ymd(c, d, light=False, thin=False):
    """thin: run the costlier second half (plus_days, eras, other-calendar round trip) on a deterministic third of the days"""
    k = cal(c)
    lo, hi = k._min_days, k._max_days
    if d < lo or d > hi:
        if not raises_value_error(lambda: from_days(c, d)):
            return F("day-outside-range-accepted", c, f"day {d} outside [{lo}, {hi}] was mapped to {ymd(from_days(c, d))}")
        return None
    x = from_days(c, d)
    y, m, dd = ymd(x)
    if y < k.min_year or y > k.max_year:
        return F("day-maps-outside-year-range", c, f"day {d} (inside [{lo}, {hi}]) maps to {(y, m, dd)}, years are [{k.min_year}, {k.max_year}]")
    n = k.get_months_in_year(y)
    if not 1 <= m <= n:
        return F("month-exceeds-months-in-year", c, f"day {d} -> {(y, m, dd)} but the year has {n} months")
    dim = k.get_days_in_month(y, m)
    if not 1 <= dd <= dim:
        return F("day-exceeds-days-in-month", c, f"day {d} -> {(y, m, dd)} but the month has {dim} days")
    try:
        z = date(c, y, m, dd)
    except ValueError as e:
        return F("produced-date-rejected", c, f"day {d} -> {(y, m, dd)} which the constructor rejects ({e})")
    back = z._days_since_epoch
    if back != d or z != x:
        return F("roundtrip-days", c, f"day {d} -> {(y, m, dd)} -> day {back}")
    s = start_of_year(c, y)
    if x.day_of_year != d - s + 1 or not 1 <= x.day_of_year <= k.get_days_in_year(y):
        return F("day-of-year", c, f"day {d} -> {(y, m, dd)} day_of_year {x.day_of_year}, year starts on day {s} and has {k.get_days_in_year(y)} days")
    if d < hi:
        x1 = from_days(c, d + 1)
        if not (x < x1 and x1 > x and x <= x1 and x != x1 and x.compare_to(x1) < 0 and not x1 < x):
            return F("not-strictly-increasing", c, f"day {d} -> {ymd(x)}, day {d + 1} -> {ymd(x1)}: not strictly increasing under the calendar's ordering")
        if not light and not (thin and (d * 2654435761 >> 5) % 3 != 0):
            try:
                p1 = x.plus_days(1)
            except Exception as e:  # noqa: BLE001
                return F("plus-days-1", c, f"{ymd(x)}.plus_days(1) raised {type(e).__name__}: {e}; next day is {ymd(x1)}")
            if p1 != x1:
                return F("plus-days-1", c, f"{ymd(x)}.plus_days(1) = {ymd(p1)}, day {d + 1} is {ymd(x1)}")
    if light or (thin and (d * 2654435761 >> 5) % 3 != 0):
        return None
    # era / year-of-era convert back
    e, yoe = x.era, x.year_of_era
    if k.get_absolute_year(yoe, e) != y:
        return F("era-roundtrip", c, f"year {y}: era {e.name} year_of_era {yoe} -> absolute {k.get_absolute_year(yoe, e)}")
    # another calendar and back
    iso = cal(0)
    if iso._min_days <= d <= iso._max_days:
        w = x.with_calendar(iso)
        if w._days_since_epoch != d or w.with_calendar(k) != x:
            return F("with-calendar-roundtrip", c, f"{(y, m, dd)} -> ISO {ymd(w)} (day {w._days_since_epoch}) -> {ymd(w.with_calendar(k))}")
    return None


def o_days(c, y, m, dd):
    k = cal(c)
    try:
        x = date(c, y, m, dd)
    except ValueError:
        # rejected: it must not be a date of the calendar
        try:
            ok = k.min_year <= y <= k.max_year and 1 <= m <= k.get_months_in_year(y) and 1 <= dd <= k.get_days_in_month(y, m)
        except ValueError:
            ok = False
        if ok:
            return F("valid-date-rejected", c, f"LocalDate({y}, {m}, {dd}) rejected although year, month and day are inside the reported tables")
        return None
    if not k.min_year <= y <= k.max_year:
        d = guard(lambda: str(x._days_since_epoch))
        return F("year-outside-range-accepted", c, f"LocalDate({y}, {m}, {dd}) accepted (day {d}) although years are [{k.min_year}, {k.max_year}] and days [{k._min_days}, {k._max_days}]")
    d = x._days_since_epoch
    if not k._min_days <= d <= k._max_days:
        return F("accepted-date-outside-day-range", c, f"LocalDate({y}, {m}, {dd}) accepted but its day {d} is outside [{k._min_days}, {k._max_days}]")
    if not (1 <= m <= k.get_months_in_year(y) and 1 <= dd <= k.get_days_in_month(y, m)):
        return F("field-outside-tables-accepted", c, f"LocalDate({y}, {m}, {dd}) accepted; months {k.get_months_in_year(y)}")
    b = from_days(c, d)
    if ymd(b) != (y, m, dd) or b != x:
        return F("roundtrip-ymd", c, f"{(y, m, dd)} -> day {d} -> {ymd(b)}")
    return None


LEAP_LEN = {**{c: (366,) for c in (0, 1, 2, 3, 6, 7, 8, 18)}, **{c: (355,) for c in range(9, 18)}, 4: (383, 384, 385), 5: (383, 384, 385)}
COMMON_LEN = {**{c: (365,) for c in (0, 1, 2, 3, 6, 7, 8, 18)}, **{c: (354,) for c in range(9, 18)}, 4: (353, 354, 355), 5: (353, 354, 355)}


def o_year(c, y):
    k = cal(c)
    if y < k.min_year or y > k.max_year:
        for fn in (lambda: k.get_days_in_year(y), lambda: k.get_months_in_year(y), lambda: k.is_leap_year(y),
                   lambda: date(c, y, fm(c), 1), lambda: k.get_days_in_month(y, 1)):
            if not raises_value_error(fn):
                return F("year-outside-range-accepted", c, f"year {y} outside [{k.min_year}, {k.max_year}] accepted by a year-indexed query or the constructor")
        return None
    ln, n, lp = k.get_days_in_year(y), k.get_months_in_year(y), k.is_leap_year(y)
    s = start_of_year(c, y)
    nxt = k._max_days + 1 if y == k.max_year else start_of_year(c, y + 1)
    if nxt - s != ln:
        return F("year-length-vs-year-starts", c, f"year {y} starts on day {s}, the next year on day {nxt} (distance {nxt - s}) but get_days_in_year = {ln}")
    if ln not in (LEAP_LEN[c] if lp else COMMON_LEN[c]):
        return F("leap-flag-vs-year-length", c, f"year {y}: is_leap_year {lp}, {ln} days")
    first = from_days(c, s)
    if ymd(first) != (y, fm(c), 1):
        return F("year-start", c, f"day {s} should be the first day of {y}, is {ymd(first)}")
    if y > k.min_year:
        prev = from_days(c, s - 1)
        if prev.year != y - 1 or prev.day_of_year != k.get_days_in_year(y - 1):
            return F("year-end", c, f"day {s - 1} (before the first day of {y}) is {ymd(prev)}, day of year {prev.day_of_year}")
    acc = 0
    for m in month_order(c, n):
        dim = k.get_days_in_month(y, m)
        if dim < 1:
            return F("month-length", c, f"{y}-{m} has {dim} days")
        doy = date(c, y, m, 1).day_of_year
        if doy - 1 != acc:
            return F("month-start", c, f"{y}-{m}-1 has day_of_year {doy}, the months before it total {acc} days")
        acc += dim
    if acc != ln:
        return F("month-lengths-vs-year-length", c, f"year {y}: months total {acc} days, get_days_in_year = {ln}")
    if raises_value_error(lambda: k.get_days_in_month(y, n + 1)) is False or raises_value_error(lambda: k.get_days_in_month(y, 0)) is False:
        return F("month-outside-range-accepted", c, f"year {y}: get_days_in_month accepts month 0 or {n + 1}")
    return None


def o_cmp(c, a, b):
    try:
        x, z = date(c, *a), date(c, *b)
    except ValueError:
        return None
    dx, dz = x._days_since_epoch, z._days_since_epoch
    r = x.compare_to(z)
    sg = (r > 0) - (r < 0)
    want = (dx > dz) - (dx < dz)
    ops = ((x < z) == (want < 0), (x <= z) == (want <= 0), (x > z) == (want > 0), (x >= z) == (want >= 0), (x == z) == (want == 0))
    if sg != want or not all(ops):
        return F("order-vs-day-numbers", c, f"{a} (day {dx}) vs {b} (day {dz}): compare_to sign {sg}, operators {ops}")
    return None


def o_eras(c):
    k = cal(c)
    try:
        es = list(k.eras())
    except Exception as e:  # noqa: BLE001
        return {"key": "eras-listing-raises", "what": f"{IDS[c]}: CalendarSystem.eras() raised {type(e).__name__}: {e}"}
    if not es:
        return F("eras-empty", c, "no eras listed")
    seen = set()
    for e in es:
        lo, hi = k.get_min_year_of_era(e), k.get_max_year_of_era(e)
        for yoe in (lo, hi):
            y = k.get_absolute_year(yoe, e)
            x = date(c, y, fm(c), 1)
            if x.era != e or x.year_of_era != yoe or not k.min_year <= y <= k.max_year:
                return F("era-roundtrip", c, f"era {e.name} year_of_era {yoe} -> absolute {y} -> era {x.era.name} year_of_era {x.year_of_era}")
            seen.add(y)
        for yoe in (lo - 1, hi + 1):
            if not raises_value_error(lambda yoe=yoe: k.get_absolute_year(yoe, e)):
                return F("era-year-outside-range-accepted", c, f"era {e.name}: year_of_era {yoe} outside [{lo}, {hi}] accepted")
    if k.min_year not in seen or k.max_year not in seen:
        return F("eras-do-not-cover-year-range", c, f"extreme years reachable through eras: {sorted(seen)}")
    # every era the calendar does NOT list (compared by identity: two eras are both called "AM") must be refused
    E = _P().calendars.Era
    universe = [E.common, E.before_common, E.anno_martyrum, E.anno_mundi, E.anno_hegirae, E.anno_persico, E.bahai]
    for e in universe:
        if any(e is x for x in es):
            continue
        for what, fn in (("get_absolute_year(1, era)", lambda e=e: k.get_absolute_year(1, e)),
                         ("get_min_year_of_era(era)", lambda e=e: k.get_min_year_of_era(e)),
                         ("get_max_year_of_era(era)", lambda e=e: k.get_max_year_of_era(e)),
                         ("LocalDate(1, first month, 1, calendar, era)", lambda e=e: _P().LocalDate(max(1, k.min_year), fm(c), 1, k, e))):
            if not raises_value_error(fn):
                return F("foreign-era-accepted", c, f"{what} accepts the era {e.name} ({e._resource_identifier if hasattr(e, '_resource_identifier') else ''}), "
                         f"which is not one of the calendar's eras {[x.name for x in es]}")
    return None


def o_era(c, y):
    k = cal(c)
    if not k.min_year <= y <= k.max_year:
        return None
    x = date(c, y, fm(c), 1)
    back = k.get_absolute_year(x.year_of_era, x.era)
    if back != y:
        return F("era-roundtrip", c, f"year {y}: era {x.era.name} year_of_era {x.year_of_era} -> absolute {back}")
    try:
        listed = x.era in list(k.eras())
    except Exception as e:  # noqa: BLE001
        return {"key": "eras-listing-raises", "what": f"{IDS[c]}: CalendarSystem.eras() raised {type(e).__name__}: {e}"}
    if not listed:
        return F("era-not-listed", c, f"year {y} has era {x.era.name} which eras() does not list")
    return None


def o_conv(c1, y, m, dd, c2):
    try:
        a = date(c1, y, m, dd)
    except ValueError:
        return None
    d = a._days_since_epoch
    k2 = cal(c2)
    if not k2._min_days <= d <= k2._max_days:
        if not raises_value_error(lambda: a.with_calendar(k2)):
            return F("conversion-outside-range-accepted", c2, f"{IDS[c1]} {(y, m, dd)} (day {d}) converted to {ymd(a.with_calendar(k2))}, range [{k2._min_days}, {k2._max_days}]")
        return None
    b = a.with_calendar(k2)
    a2 = b.with_calendar(cal(c1))
    if b._days_since_epoch != d or a2 != a:
        return F("with-calendar-roundtrip", c2, f"{IDS[c1]} {(y, m, dd)} (day {d}) -> {ymd(b)} (day {b._days_since_epoch}) -> {ymd(a2)}")
    return None


def o_isofast(d):
    P = _P()
    iso = cal(0)
    if not iso._min_days <= d <= iso._max_days:
        if not raises_value_error(lambda: P.LocalDate._ctor(days_since_epoch=d)):
            return F("day-outside-range-accepted", 0, f"calendar-less constructor accepted day {d}")
        return None
    a = P.LocalDate._ctor(days_since_epoch=d)
    b = from_days(0, d)
    if a != b or a._days_since_epoch != d:
        return F("iso-table-path", 0, f"day {d}: calendar-less constructor gives {ymd(a)} (day {a._days_since_epoch}), general path {ymd(b)}")
    return None


def o_eractor(c, y):
    """every valid (month, day) corner of absolute year y built through LocalDate(year_of_era, m, d, calendar, era) must
    equal the date built from the absolute year; fields that are invalid for the ABSOLUTE year must be rejected with
    ValueError and fields valid for it must be accepted (the year-of-era number is another year: validation has to
    happen after the era is resolved)"""
    P = _P()
    k = cal(c)
    if not k.min_year <= y <= k.max_year:
        return None
    base = date(c, y, fm(c), 1)
    e, yoe = base.era, base.year_of_era
    months = k.get_months_in_year(y)
    for m in sorted({1, 2, months, max(1, months - 1), fm(c)}):
        dim = k.get_days_in_month(y, m)
        for dd in (1, dim, dim + 1, 28, 29, 30):
            valid = 1 <= dd <= dim
            try:
                x = P.LocalDate(yoe, m, dd, k, e)
            except ValueError:
                if valid:
                    return F("era-constructor-rejects-valid-date", c, f"LocalDate({yoe}, {m}, {dd}, era={e.name}) rejected although absolute year {y} month {m} has {dim} days")
                continue
            if not valid:
                return F("era-constructor-accepts-invalid-date", c, f"LocalDate({yoe}, {m}, {dd}, era={e.name}) accepted: absolute year {y} month {m} has {dim} days; it became {ymd(x)} day {x._days_since_epoch}")
            w = date(c, y, m, dd)
            if x != w or ymd(x) != (y, m, dd) or x._days_since_epoch != w._days_since_epoch:
                return F("era-constructor-wrong-date", c, f"LocalDate({yoe}, {m}, {dd}, era={e.name}) = {ymd(x)} day {x._days_since_epoch}, expected {(y, m, dd)} day {w._days_since_epoch}")
    return None


def o_pack(y, m, d, o):
    if not (-16383 <= y <= 16384 and 1 <= m <= 32 and 1 <= d <= 64 and 0 <= o < 19):
        return None
    r = guard(impl, ["cal.pack", str(y), str(m), str(d), str(o)]).split(" ")
    if r[1:] != [str(y), str(m), str(d), str(o)]:
        return {"key": "pack-unpack", "what": f"_YearMonthDayCalendar({y}, {m}, {d}, {o}) reads back as {r[1:]}"}
    return None


def oracle(t, light=False):
    op = t[0]
    a = [int(x) for x in t[1:] if x.lstrip("-").isdigit()]
    if op == "cal.range":
        return o_range(a[0])
    if op == "cal.ymd":
        return o_ymd(a[0], a[1], light == 1, light == 2)
    if op == "cal.days":
        return o_days(*a)
    if op == "cal.year":
        return o_year(a[0], a[1])
    if op == "cal.cmp":
        return o_cmp(a[0], tuple(a[1:4]), tuple(a[4:7]))
    if op == "cal.eras":
        return o_eras(a[0])
    if op == "cal.era":
        return o_era(a[0], a[1])
    if op == "cal.conv":
        return o_conv(*a)
    if op == "cal.isofast":
        return o_isofast(a[0])
    if op == "cal.pack":
        return o_pack(*a)
    return None


def neighbours(t):
    """probes around a disagreement: adjacent days / fields and the year rows of the affected years"""
    op = t[0]
    out = []
    if op == "cal.ymd":
        c, d = int(t[1]), int(t[2])
        out += [f"cal.ymd {c} {d + k}" for k in (-1, 1, -2, 2)]
        out.append(f"cal.range {c}")
        ys = set()
        for dd in (d, d - 1, d + 1):
            try:
                ys.add(from_days(c, dd).year)
            except Exception:  # noqa: BLE001
                pass
        for y in sorted(ys):
            out += [f"cal.year {c} {y + k}" for k in (0, -1, 1)]
    elif op == "cal.year":
        c, y = int(t[1]), int(t[2])
        out += [f"cal.year {c} {y + k}" for k in (-1, 1)] + [f"cal.range {c}"]
    elif op in ("cal.days", "cal.conv", "cal.cmp", "cal.month"):
        c, y = int(t[1]), int(t[2])
        out += [f"cal.year {c} {y + k}" for k in (0, -1, 1)] + [f"cal.range {c}"]
        if op == "cal.days":
            out += [f"cal.days {c} {y} {int(t[3])} {int(t[4]) + k}" for k in (-1, 1)]
    elif op in ("cal.era", "cal.abs", "cal.erarange"):
        out.append(f"cal.eras {t[1]}")
    return out


# ---------------------------------------------------------------------------------------------
# parallel correspondence
# ---------------------------------------------------------------------------------------------

def nprocs(ctx) -> int:
    v = os.environ.get("VERIF_PROCS")
    if v:
        return max(1, int(v))
    return min(os.cpu_count() or 1, 16 if ctx.thorough else 8)


def expand(spec):
    if spec[0] == "ops":
        return spec[1]
    if spec[0] == "days":
        _, c, lo, hi = spec
        return [f"cal.ymd {c} {d}" for d in range(lo, hi)]
    raise common.InfraError(f"bad spec {spec[0]}")


def _work(job):
    suite, spec, light, impl_fn, oracle_fn, neigh_fn, driver = job
    try:
        ops = expand(spec)
        model = common.model_eval(ops, driver)
        res = {"n": 0, "agree": 0, "skipped": 0, "disagree": 0, "dis": [], "failures": [], "fail_counts": Counter(),
               "dist": Counter(), "samples": [], "unexplained": [], "by_op": Counter()}
        per_key = Counter()

        def add_failure(f, op, source):
            res["fail_counts"][f["key"]] += 1
            per_key[f["key"]] += 1
            if per_key[f["key"]] <= 6:
                g = dict(f)
                g["op"], g["source"] = op, source
                res["failures"].append(g)

        def run_oracle(toks):
            try:
                return oracle_fn(toks, light) if light else oracle_fn(toks)
            except RecursionError:
                raise
            except Exception as e:  # noqa: BLE001
                import traceback
                return {"key": "oracle-exception", "what": f"oracle raised {type(e).__name__}: {e} at {' '.join(toks)}",
                        "trace": traceback.format_exc()[-800:]}

        for op, m in zip(ops, model):
            toks = op.split(" ")
            r = guard(impl_fn, toks)
            res["n"] += 1
            res["dist"][toks[0] + (":err" if r.startswith("!") else "")] += 1
            if m.startswith("?"):
                return {"infra": f"model rejected op {op!r}: {m}"}
            if m.startswith("!dom"):
                res["skipped"] += 1
            elif m == r:
                res["agree"] += 1
            else:
                res["disagree"] += 1
                res["by_op"][toks[0]] += 1
                if len(res["dis"]) < 60:
                    res["dis"].append({"suite": suite, "op": op, "model": m, "impl": r})
            f = run_oracle(toks)
            if f:
                add_failure(f, op, f"oracle@{suite}")
        if ops:
            res["samples"].append(f"{ops[len(ops) // 2]} -> {guard(impl_fn, ops[len(ops) // 2].split(' '))}")
        for d in res["dis"][:40]:
            found = False
            for pr in [d["op"]] + (list(neigh_fn(d["op"].split(" "))) if neigh_fn else []):
                f = run_oracle(pr.split(" "))
                if f:
                    add_failure(f, pr, f"search@{suite}")
                    found = True
                    break
            if not found:
                res["unexplained"].append({"kind": "correspondence", **d})
        return res
    except common.InfraError as e:
        return {"infra": str(e)}


class CountingSet(set):
    """`ctx.distinct` for runs with tens of millions of ops: counts instead of storing"""

    def __init__(self):
        super().__init__()
        self.extra = 0

    def __len__(self):
        return super().__len__() + self.extra


_pool = None


def get_pool(ctx):
    global _pool
    if _pool is None:
        import multiprocessing as mp
        _P()  # import before forking so that the workers share it
        _pool = mp.get_context("fork").Pool(nprocs(ctx))
    return _pool


def pcorrespond(ctx, suite, specs, impl_fn=None, oracle_fn=None, neigh_fn=None, exhaustive=False, light=False, driver=DRIVER):
    """Ctx.correspond, evaluated in worker processes; `specs` is a list of op lists / generator specs."""
    impl_fn, oracle_fn, neigh_fn = impl_fn or impl, oracle_fn or oracle, neigh_fn or neighbours
    st = ctx.suites.setdefault(suite, {"ops": 0, "agree": 0, "skipped_dom": 0, "disagree": 0, "exhaustive": exhaustive,
                                       "first_disagreements": []})
    if not isinstance(ctx.distinct, CountingSet):
        cs = CountingSet()
        cs.update(ctx.distinct)
        ctx.distinct = cs
    jobs = [(suite, sp, light, impl_fn, oracle_fn, neigh_fn, driver) for sp in specs]
    pool = get_pool(ctx)
    for res in pool.imap_unordered(_work, jobs):
        if "infra" in res:
            raise common.InfraError(res["infra"])
        st["ops"] += res["n"]
        st["agree"] += res["agree"]
        st["skipped_dom"] += res["skipped"]
        st["disagree"] += res["disagree"]
        if res["by_op"]:
            bo = st.setdefault("disagree_by_op", {})
            for k, v in res["by_op"].items():
                bo[k] = bo.get(k, 0) + v
        for d in res["dis"]:
            if len(st["first_disagreements"]) < 5:
                st["first_disagreements"].append(d)
        ctx.evaluations += res["n"]
        ctx.distinct.extra += res["n"]
        ctx.distribution.update(res["dist"])
        if len(ctx.samples) < 10:
            ctx.samples += res["samples"][:1]
        for f in res["failures"]:
            ctx.add_failure(f, op=f["op"], source=f["source"])
        if res["fail_counts"]:
            fc = st.setdefault("oracle_failures_by_key", {})
            for k, v in res["fail_counts"].items():
                fc[k] = fc.get(k, 0) + v
        ctx.unexplained += res["unexplained"][:10]
    return st


def chunks(ops, size):
    seen, uniq = set(), []
    for o in ops:
        if o not in seen:
            seen.add(o)
            uniq.append(o)
    return [("ops", uniq[i:i + size]) for i in range(0, len(uniq), size)]


# ---------------------------------------------------------------------------------------------
# generators
# ---------------------------------------------------------------------------------------------

def ranges():
    """(min_year, max_year, min_days, max_days) per calendar as the running code advertises them"""
    return [(cal(c).min_year, cal(c).max_year, cal(c)._min_days, cal(c)._max_days) for c in range(NCAL)]


def gen_year_ops():
    ops = []
    for c, (ylo, yhi, _, _) in enumerate(ranges()):
        ops += [f"cal.year {c} {y}" for y in range(ylo - 2, yhi + 3)]
    return ops


def gen_table_ops():
    return [f"cal.tbl uaq {i}" for i in range(186)] + [f"cal.tbl badi {i}" for i in range(830)] + \
           [f"cal.tbl pastro {i}" for i in range(1174)]


def year_starts(c):
    """start day of every year (from the code) — used only to aim the day generators at boundaries"""
    k = cal(c)
    return [start_of_year(c, y) for y in range(k.min_year, k.max_year + 1)]


def gen_day_ops(ctx, per_year_edge=2, n_month=2000, n_random=3000):
    rng = ctx.rng
    ops = []
    for c, (ylo, yhi, dlo, dhi) in enumerate(ranges()):
        k = cal(c)
        starts = year_starts(c)
        days = set()
        for s in starts:
            for j in range(-per_year_edge, per_year_edge):
                days.add(s + j)
        # range edges (inside and outside), the 1900/2100 table seams, the Unix epoch
        for e in (dlo, dhi):
            days.update(range(e - 3, e + 4))
        days.update(range(dhi - 800, dhi + 5, 7))
        for s in (-25567, 47846, 0, -719162, 47847 + 365):
            days.update(range(s - 2, s + 3))
        days.update([dlo - 1000, dhi + 1000, dlo - 10 ** 7, dhi + 10 ** 7])
        # month boundaries of sampled (year, month)
        for _ in range(n_month):
            y = rng.randint(ylo, yhi)
            m = rng.randint(1, k.get_months_in_year(y))
            s = date(c, y, m, 1)._days_since_epoch
            days.update((s - 2, s - 1, s, s + 1))
        for _ in range(n_random):
            days.add(rng.randint(dlo, dhi))
        ops += [f"cal.ymd {c} {d}" for d in sorted(days)]
    return ops


ERA_CASES = []


def gen_field_ops(ctx, n=1500):
    rng = ctx.rng
    ops = []
    for c, (ylo, yhi, dlo, dhi) in enumerate(ranges()):
        k = cal(c)
        ops.append(f"cal.range {c}")
        ops.append(f"cal.eras {c}")
        ys = [ylo, ylo + 1, yhi - 1, yhi] + [rng.randint(ylo, yhi) for _ in range(n)]
        if c in (0, 1):
            ys += [1899, 1900, 1901, 2099, 2100, 2101, 0, -1, 1, 4, 100, 400, 2000, 2024]
        if c == 18:
            ys += [171, 172, 173, 249, 250, 253, 645, 649, 653, 998, 999]
        for y in ys:
            n_m = k.get_months_in_year(y)
            for m in {1, 2, n_m, rng.randint(1, n_m), 12 if n_m >= 12 else 1, 18 if n_m >= 18 else 1}:
                dim = k.get_days_in_month(y, m)
                for dd in {1, dim, rng.randint(1, dim), 20, 21}:
                    if dd <= dim:
                        ops.append(f"cal.days {c} {y} {m} {dd}")
                # rejection just outside the tables
                ops.append(f"cal.days {c} {y} {m} {dim + 1}")
                ops.append(f"cal.days {c} {y} {m} 0")
            ops.append(f"cal.days {c} {y} {n_m + 1} 1")
            ops.append(f"cal.days {c} {y} 0 1")
            ops.append(f"cal.era {c} {y}")
        for y in (ylo - 1, ylo - 2, yhi + 1, yhi + 2, ylo - 10000, yhi + 10000):
            for m, dd in ((1, 1), (fm(c), 1), (12, 29), (2, 30), (0, 0)):
                ops.append(f"cal.days {c} {y} {m} {dd}")
            ops.append(f"cal.era {c} {y}")
        for m, dd in ((-1, 1), (1, -1), (33, 1), (1, 65), (14, 1), (13, 1), (20, 1), (19, 20), (18, 24), (18, 25), (13, 6), (13, 7), (12, 31), (2, 29), (2, 30), (6, 31)):
            for y in (ylo, yhi, rng.randint(ylo, yhi), rng.randint(ylo, yhi)):
                ops.append(f"cal.days {c} {y} {m} {dd}")
        # ordering of pairs of valid dates (adjacent and random)
        for _ in range(n // 3):
            d1 = rng.randint(dlo, dhi)
            d2 = min(dhi, max(dlo, d1 + rng.choice([0, 1, -1, 29, 30, -30, 354, 365, 366, -366, rng.randint(-10 ** 6, 10 ** 6)])))
            a, b = from_days(c, d1), from_days(c, d2)
            ops.append(f"cal.cmp {c} {a.year} {a.month} {a.day} {b.year} {b.month} {b.day}")
        # eras
        names = ["CE", "BCE", "AM", "EH", "AP", "BE"]
        for nm in names:
            ops.append(f"cal.erarange {c} {nm}")
            for yoe in (0, 1, 2, yhi - 1, yhi, yhi + 1, 1 - ylo, 2 - ylo, -ylo, ylo, ylo - 1, rng.randint(1, yhi)):
                ops.append(f"cal.abs {c} {nm} {yoe}")
        # conversions to other calendars and back (including targets whose range is exceeded)
        for _ in range(n // 3):
            d = rng.choice([dlo, dhi, rng.randint(dlo, dhi), rng.randint(-30000, 45000)])
            d = min(dhi, max(dlo, d))
            a = from_days(c, d)
            c2 = rng.randrange(NCAL)
            ops.append(f"cal.conv {c} {a.year} {a.month} {a.day} {c2}")
    for d in list(range(-25567 - 400, -25567 + 400)) + list(range(47846 - 400, 47846 + 400)) + list(range(-3, 4)) + \
            [rng.randint(-25567, 47846) for _ in range(3000)] + [rng.randint(-4371222, 2932896) for _ in range(2000)] + \
            [-4371222, -4371223, 2932896, 2932897]:
        ops.append(f"cal.isofast {d}")
    # the table-driven ISO path around EVERY year boundary of 1500..2700 (the optimised window and a wide margin: a
    # window that is widened or moved must still agree with the general path) and a thinner sweep of all years
    iso_starts = year_starts(0)
    y0 = ranges()[0][0]
    for i, st in enumerate(iso_starts):
        y = y0 + i
        if 1500 <= y <= 2700:
            for j in range(-16, 17):
                ops.append(f"cal.isofast {st + j}")
        elif y % 7 == 0:
            for j in (-1, 0, 1, 13, 31, 59, 60):
                ops.append(f"cal.isofast {st + j}")
    # era-based construction: LocalDate(year_of_era, month, day, calendar, era)
    for c, (ylo, yhi, dlo, dhi) in enumerate(ranges()):
        ys = [ylo, ylo + 1, yhi, yhi - 1, 0, 1, -1, 2, -3, -4, 4, 5, -99, -100, -399, -400, 1900, 2000] + [rng.randint(ylo, yhi) for _ in range(n // 20)]
        for y in ys:
            if ylo <= y <= yhi:
                ERA_CASES.append((c, y))
    for _ in range(3000):
        y = rng.choice([-9998, 9999, 1, 0, -1, rng.randint(-16383, 16384), rng.randint(-9998, 9999)])
        ops.append(f"cal.pack {y} {rng.randint(1, 32)} {rng.randint(1, 64)} {rng.randrange(19)}")
    return ops


def check_ids(_):
    got = sorted(_P().CalendarSystem.ids)
    if got != sorted(IDS):
        return {"key": "calendar-ids", "what": f"CalendarSystem.ids = {got}; the check knows {sorted(IDS)}"}
    for c in range(NCAL):
        if int(cal(c)._ordinal) != c:
            return {"key": "calendar-ids", "what": f"{IDS[c]} has ordinal {int(cal(c)._ordinal)}, expected {c}"}
    return None


SYMBOLIC_WF = {0, 1, 2, 3, 6, 7, 9, 10, 11, 12, 13, 14, 15, 16}     # ordinals with a kernel-checked WF instance


def _wf_eval(c):
    try:
        return c, common.model_eval([f"cal.wf {c}"], DRIVER)[0]
    except common.InfraError as e:
        return c, "infra:" + str(e)


def finish_wf(ctx, async_res):
    """Collect `cal.wf` for all 19 ordinals. 1 = every conjunct of WF holds for every year of the model (with
    wfCheck_sound this discharges the hypothesis of the C01 theorems). A 0 is recorded in the notes as 'WF not
    discharged'; it becomes a failure when the code-side oracles also found a problem in that calendar."""
    res = dict(async_res.get(timeout=600))
    for c, r in res.items():
        if r.startswith("infra:"):
            raise common.InfraError(r[6:])
    st = ctx.oracles.setdefault("wf-check (driver evaluation of wfCheck, all years)", {"cases": 0, "failures": 0, "exhaustive": True})
    not_discharged = []
    for c in range(NCAL):
        st["cases"] += 1
        ctx.evaluations += 1
        if res[c] == "1":
            continue
        not_discharged.append(IDS[c])
        code_side = [f for f in ctx.failures if f.get("key", "").endswith(":" + tag(c))]
        if code_side:
            st["failures"] += 1
            ctx.add_failure({"key": f"wf-check-fails:{tag(c)}",
                             "what": f"{IDS[c]}: wfCheck evaluates to {res[c]!r} on the model and the code-side oracle reports {code_side[0]['key']}: {code_side[0]['what'][:200]}"},
                            op=f"cal.wf {c}", source="wf-check")
    ctx.note("wf_check", {IDS[c]: res[c] for c in range(NCAL)})
    ctx.note("WF not discharged", not_discharged)
    ctx.note("WF discharged by", {IDS[c]: ("symbolic instance + evaluation" if c in SYMBOLIC_WF else "evaluation of wfCheck + wfCheck_sound") for c in range(NCAL) if res[c] == "1"})


def run(ctx):
    t0 = time.time()
    ctx.check_cases("calendar.ids", ["ids"], check_ids, exhaustive=True)
    wf_async = get_pool(ctx).map_async(_wf_eval, list(range(NCAL)), chunksize=1)
    pcorrespond(ctx, "calendar.tables", chunks(gen_table_ops(), 4000), exhaustive=True)
    pcorrespond(ctx, "calendar.years", chunks(gen_year_ops(), 1500), exhaustive=True)
    ctx.note("t_years_s", round(time.time() - t0, 1))
    pcorrespond(ctx, "calendar.fields", chunks(gen_field_ops(ctx, ctx.scale(1000, 20000)), 4000))
    ctx.check_cases("era.constructor (LocalDate(year_of_era, m, d, calendar, era) against the absolute-year date)",
                    sorted(set(ERA_CASES)), lambda cy: o_eractor(*cy))
    ctx.note("t_fields_s", round(time.time() - t0, 1))
    if ctx.thorough:
        specs = []
        for c, (_, _, dlo, dhi) in enumerate(ranges()):
            step = 50000
            specs += [("days", c, a, min(a + step, dhi + 3)) for a in range(dlo - 2, dhi + 3, step)]
        pcorrespond(ctx, "calendar.days.all", specs, exhaustive=True, light=1)
        pcorrespond(ctx, "calendar.days", chunks(gen_day_ops(ctx, 3, 20000, 20000), 5000))
    else:
        pcorrespond(ctx, "calendar.days", chunks(gen_day_ops(ctx), 5000), light=2)
    ctx.note("t_days_s", round(time.time() - t0, 1))
    finish_wf(ctx, wf_async)
    ctx.note("t_wf_s", round(time.time() - t0, 1))
    ctx.note("processes", nprocs(ctx))


def replay_op(op, failure):
    if op.startswith("(") and failure.get("key", "").startswith("era-constructor"):
        import ast
        return o_eractor(*ast.literal_eval(op))
    t = op.split(" ")
    if t[0] == "cal.wf":
        r = common.model_eval([op], DRIVER)[0]
        return None if r == "1" else {"key": f"wf-check-fails:{tag(int(t[1]))}", "what": f"{IDS[int(t[1])]}: wfCheck evaluates to {r!r}"}
    return oracle(t)
