"""C05 — local date-times map to exactly the instants whose local rendering is that value."""
from __future__ import annotations

import zonelib as Z
from common import exc_name, guard
from zonelib import AMAX, BMIN, MAXI, MINI, NPD, NPS

H18 = 64800 * NPS

META = {
    "property": "C05",
    "proof_modules": ["PyodaProofs.C05", "PyodaProofs.C05Resolvers", "PyodaProofs.C05StartOfDay", "PyodaProofs.C04Spec", "PyodaProofs.C04Zone", "PyodaProofs.GenAgreeC05"],
    "drivers": ["drv_zone"],
    "theorems": [
        "Pyoda.C05.containsLocal_iff", "Pyoda.C05.mapLocal_sound", "Pyoda.C05.mapLocal_complete",
        "Pyoda.C05.mapLocal_count_le_two", "Pyoda.C05.mapLocal_sorted", "Pyoda.C05.mapLocal_gap",
        "Pyoda.C05.instant_roundtrip", "Pyoda.C05.strict_spec", "Pyoda.C05.lenient_spec", "Pyoda.C05.startOfDay_spec_partial", "Pyoda.C05.toy_spec", "Pyoda.C04.dataOK_gives_spec",
        "Pyoda.C04.zoneOK_gives_spec",
        "Pyoda.C05.mapLocal_intervals_valid", "Pyoda.C05.no_earlier_on_date", "Pyoda.C05.startOfDay_spec",
        "Pyoda.C05.single_first_last_spec", "Pyoda.C05.first_last_are_results", "Pyoda.C05.gap_transition_valid",
        "Pyoda.C05.resolveLocal_spec", "Pyoda.C05.strict_lenient_are_combinations",
        # agreement of the definitions generated from the Python source (tools/py2lean.py) with the model
        "Pyoda.GenAgree.C05.gen_ZoneInterval_rawStart_eq", "Pyoda.GenAgree.C05.gen_ZoneInterval_rawEnd_eq",
        "Pyoda.GenAgree.C05.gen_ZoneInterval_wallOffset_eq", "Pyoda.GenAgree.C05.gen_ZoneInterval_savings_eq",
        "Pyoda.GenAgree.C05.gen_ZoneInterval_hasStart_eq", "Pyoda.GenAgree.C05.gen_ZoneInterval_hasEnd_eq",
        "Pyoda.GenAgree.C05.gen_ZoneInterval_start_eq", "Pyoda.GenAgree.C05.gen_ZoneInterval_end_eq",
        "Pyoda.GenAgree.C05.gen_ZoneInterval_containsInstant_eq",
        "Pyoda.GenAgree.C05.gen_ZoneInterval_containsLocal_eq",
        "Pyoda.GenAgree.C05.gen_ZoneLocalMapping_earlyInterval_eq",
        "Pyoda.GenAgree.C05.gen_ZoneLocalMapping_lateInterval_eq",
        "Pyoda.GenAgree.C05.gen_Zone_getEarlierMatchingInterval_eq",
        "Pyoda.GenAgree.C05.gen_Zone_getLaterMatchingInterval_eq",
        "Pyoda.GenAgree.C05.gen_Zone_getIntervalBeforeGap_eq", "Pyoda.GenAgree.C05.gen_Zone_getIntervalAfterGap_eq",
        "Pyoda.GenAgree.C05.gen_Zone_mapLocal_eq", "Pyoda.GenAgree.C05.gen_Precalc_loop_rel",
        "Pyoda.GenAgree.C05.gen_Precalc_getZoneIntervalNoTail_eq",
        "Pyoda.GenAgree.C05.gen_Precalc_getZoneIntervalNoTail_loop1_eq",
        "Pyoda.GenAgree.C05.gen_Precalc_getZoneIntervalTail_loop1_eq",
        "Pyoda.GenAgree.C05.gen_Precalc_getZoneIntervalTail_eq", "Pyoda.GenAgree.C05.gen_ZoneLocalMapping_count_eq",
        "Pyoda.GenAgree.C05.gen_ZoneLocalMapping_first_eq", "Pyoda.GenAgree.C05.gen_ZoneLocalMapping_last_eq",
        "Pyoda.GenAgree.C05.gen_ZoneLocalMapping_single_eq", "Pyoda.GenAgree.C05.gen_first_is_model",
        "Pyoda.GenAgree.C05.gen_last_is_model", "Pyoda.GenAgree.C05.gen_single_is_model",
    ],
    "trusted_base": [
        "translator tie (tools/py2lean.py; generated file lean/PyodaGen/C05.lean shared by C04 and C05, agreement in PyodaProofs/GenAgreeC05.lean): DateTimeZone.map_local and its four helpers "
        "(__get_earlier/later_matching_interval with their walrus tests on optional intervals, __get_interval_before/after_gap), ZoneInterval's __contains__ / _contains / has_start / has_end / guarded start / end, "
        "and _PrecalculatedDateTimeZone.get_zone_interval (tail dispatch with the memoised first tail interval, and the binary search as a fuel-recursive loop with an early return) are re-translated from the current source on every run and "
        "proved equal to mapLocal / earlierMatching / laterMatching / intervalBeforeGap / intervalAfterGap / Precalc.search / Precalc.get of PyodaModel/Zone.lean (the search by a step-for-step relation with fuel 2^63 periods). "
        "Trusted there: the translator's semantics (self-test of C03); the model's integer timeline as the representation of Instant / _LocalInstant / Duration / Offset objects (lean/PyodaGen/GlueC05.lean: comparisons, "
        "instant - Duration.epsilon and _LocalInstant._minus as range-checked integer subtraction, _minus_zero_offset as the identity, _days_since_epoch as floor division by a day — object-level arithmetic is tied by GenAgreeC03), "
        "ZoneInterval as the model's ZI with __local_start/__local_end = safe_plus of the bounds (what __init__ computes), ZoneLocalMapping._ctor keeping (early, late, count), the zone's own get_zone_interval and the tail zone's as abstract callees. "
        "ZoneLocalMapping.count / single / first / last are tied too, with __build_zoned_date_time abstract: which interval is built and which of SkippedTimeError / AmbiguousTimeError / the unreachable RuntimeError is raised (single builds both candidates before raising AmbiguousTimeError), and with the model's reading of a built value (its instant, buildInstant) they are Mapping.first / last / single for count <= 2. Outside the tie: the stock resolvers (closures over ZonedDateTime objects), ZonedDateTime construction itself, at_start_of_day, ZoneRecurrence / ZoneYearOffset",
        "theorems are over an abstract zone `get` satisfying Partition, Bounded (|wall| <= 18 h) and MinLen (finite intervals >= 36 h); C04 establishes these for the model of the bundled zones from evaluated decidable checks with soundness theorems: dataOK_gives_spec (zones without a recurring tail, check dataOK) and zoneOK_gives_spec (zones with a recurring tail, check zoneOK: stored periods, tail rules through year 9999, seam, 36 h minimum); both are evaluated by the compiled driver on every zone each run (counts in the evidence notes of C04)",
        "domain of the main theorems: local instants at least 18 h inside the ends of time; nearer the ends the model keeps the code's sentinel logic and is compared by correspondence only",
    ],
    "partial": ["intervals shorter than 36 h (none in the bundled data) and local instants within 18 h of the ends of time are covered by execution/correspondence, not by the theorems"],
    "rule": "ops zone.resolvers evaluate ZoneLocalMapping.single/first/last and all 3 x 4 combinations of the stock ambiguous/skipped-time resolvers through resolve_local; local instants: local start/end of both neighbours of sampled transitions + {-1s,-1ns,0,+1ns,+1s}, midnights around them, ends of time, seeded random, ISO and Julian/Hebrew calendars; distinct = distinct (zone, local instant); non-trivial = zone has a transition within 2 days of the local instant or the instant is random",
}


def _zmap(ctx):
    import c04
    zs = c04.zones(ctx) + c04.fixed_zones(ctx)[:6]
    return zs


def _ldt(l, cal):
    Pm = Z.P()
    if cal == 0:
        return Z.ns_local(l)
    c = [None, Pm.CalendarSystem.julian, Pm.CalendarSystem.hebrew_civil, Pm.CalendarSystem.coptic][cal]
    return Z.ns_local(l, c)


def _inst_of(zdt):
    return Z.inst_ns(zdt.to_instant())


def impl_factory(zmap):
    def impl(t):
        op = t[0]
        if op == "zone.def":
            return "ok"
        z = zmap[t[1]]
        l = int(t[2])
        cal = int(t[3]) if len(t) > 3 else 0
        ldt = _ldt(l, cal)
        if op == "zone.maplocal":
            m = z.map_local(ldt)
            e, la = m.early_interval, m.late_interval
            return f"{m.count} {Z.inst_ns(e._raw_start)} {Z.inst_ns(e._raw_end)} {e.wall_offset.seconds} {Z.inst_ns(la._raw_start)} {Z.inst_ns(la._raw_end)} {la.wall_offset.seconds}"
        if op == "zone.resolve":
            def insts():
                m = z.map_local(ldt)
                if m.count == 0:
                    return ""
                if m.count == 1:
                    return str(_inst_of(m.first()))
                return f"{_inst_of(m.first())} {_inst_of(m.last())}"
            return f"{guard(insts)} | {guard(lambda: str(_inst_of(z.at_strictly(ldt))))} | {guard(lambda: str(_inst_of(z.at_leniently(ldt))))}"
        if op == "zone.resolvers":
            return resolvers_reply(z, ldt)
        if op == "zone.startofday":
            return str(_inst_of(z.at_start_of_day(ldt.date)))
        raise ValueError(op)
    return impl


def _stock_resolvers():
    R = Z.P().time_zones.Resolvers if hasattr(Z.P(), "time_zones") else None
    if R is None:
        from pyoda_time.time_zones import Resolvers as R  # noqa: N811
    amb = [("earlier", R.return_earlier), ("later", R.return_later), ("throw", R.throw_when_ambiguous)]
    skp = [("endOfBefore", R.return_end_of_interval_before), ("startOfAfter", R.return_start_of_interval_after),
           ("forwardShifted", R.return_forward_shifted), ("throw", R.throw_when_skipped)]
    return R, amb, skp


def resolvers_reply(z, ldt):
    """single | first | last | the 3 x 4 combinations of the stock resolvers through resolve_local, as instants"""
    R, amb, skp = _stock_resolvers()
    m = z.map_local(ldt)
    sh = lambda fn: guard(lambda: str(_inst_of(fn())))  # noqa: E731
    combos = [sh(lambda a=a, k=k: z.resolve_local(ldt, R.create_mapping_resolver(a, k))) for _, a in amb for _, k in skp]
    return f"{sh(m.single)} | {sh(m.first)} | {sh(m.last)} | {' '.join(combos)}"


def resolvers_oracle(z, l, ldt, exp):
    """the property on the real code: what every stock resolver / single / first / last must return, from the
    zone's own intervals (`exp` = instants rendering as the local value, earlier first)"""
    R, amb, skp = _stock_resolvers()
    m = z.map_local(ldt)

    def outcome(fn):
        try:
            zdt = fn()
        except Exception as e:  # noqa: BLE001
            return ("err", exc_name(e), None)
        return ("ok", _inst_of(zdt), zdt)

    def want_ok(name, got, t):
        if got[0] != "ok" or got[1] != t:
            return {"key": "resolver-wrong-" + name, "what": f"{z.id} local {l}: {name} gave {got[:2]}, expected instant {t}"}
        zdt = got[2]
        off = z.get_utc_offset(zdt.to_instant()).seconds
        if zdt.offset.seconds != off or zdt.zone is not z or zdt.calendar != ldt.calendar:
            return {"key": "resolver-result-out-of-step", "what": f"{z.id} local {l}: {name} returned offset {zdt.offset.seconds} "
                    f"(zone offset at its instant: {off}), zone/calendar kept: {zdt.zone is z}/{zdt.calendar == ldt.calendar}"}
        # the local date-time the result shows must be its instant plus its offset, normalised: day and time of day
        loc = t + off * NPS
        ld = zdt.local_date_time
        shown = (ld.date._days_since_epoch, ld.nanosecond_of_day)
        if shown != (loc // NPD, loc % NPD):
            return {"key": "resolver-result-local-not-normalised", "what": f"{z.id} local {l}: {name} returned instant {t} offset {off}s, whose local "
                    f"date-time is day {loc // NPD} + {loc % NPD} ns, but the result shows day {shown[0]} + {shown[1]} ns (hour {ld.hour})"}
        return None

    def want_err(name, got, err):
        if got[:2] != ("err", err):
            return {"key": "resolver-wrong-" + name, "what": f"{z.id} local {l}: {name} gave {got[:2]}, expected {err}"}
        return None

    n = len(exp)
    if m.count != n:
        return None  # reported by the maplocal oracle
    checks = []
    if n == 0:
        tr = Z.inst_ns(m.early_interval._raw_end)
        shifted = l - m.early_interval.wall_offset.seconds * NPS
        for nm, fn in (("single", m.single), ("first", m.first), ("last", m.last)):
            checks.append(want_err(nm, outcome(fn), "!skippedTime"))
        for an, a in amb:
            for kn, k in skp:
                got = outcome(lambda a=a, k=k: z.resolve_local(ldt, R.create_mapping_resolver(a, k)))
                nm = f"resolve({an},{kn})"
                if kn == "throw":
                    checks.append(want_err(nm, got, "!skippedTime"))
                else:
                    t = {"endOfBefore": tr - 1, "startOfAfter": tr, "forwardShifted": shifted}[kn]
                    if MINI <= t <= MAXI:
                        checks.append(want_ok(nm, got, t))
    else:
        checks.append(want_ok("first", outcome(m.first), exp[0]))
        checks.append(want_ok("last", outcome(m.last), exp[-1]))
        checks.append(want_ok("single", outcome(m.single), exp[0]) if n == 1 else want_err("single", outcome(m.single), "!ambiguousTime"))
        for an, a in amb:
            for kn, k in skp:
                got = outcome(lambda a=a, k=k: z.resolve_local(ldt, R.create_mapping_resolver(a, k)))
                nm = f"resolve({an},{kn})"
                if n == 1:
                    checks.append(want_ok(nm, got, exp[0]))
                elif an == "throw":
                    checks.append(want_err(nm, got, "!ambiguousTime"))
                else:
                    checks.append(want_ok(nm, got, exp[0] if an == "earlier" else exp[1]))
    for c in checks:
        if c:
            return c
    return None


def neighbourhood(z, t0):
    """intervals of the real zone around instant t0 (two each side)"""
    t0 = max(MINI, min(MAXI, t0))
    cur = z.get_zone_interval(Z.ns_inst(t0))
    out = [cur]
    a = cur
    for _ in range(3):
        s = Z.inst_ns(a._raw_start)
        if s <= MINI:
            break
        a = z.get_zone_interval(Z.ns_inst(s - 1))
        out.insert(0, a)
    b = cur
    for _ in range(3):
        e = Z.inst_ns(b._raw_end)
        if e > MAXI:
            break
        b = z.get_zone_interval(Z.ns_inst(e))
        out.append(b)
    return out


def expected_instants(z, l):
    """all instants t (any, even unrepresentable) with t + wall(interval containing t) == l, from the zone's own intervals"""
    res = []
    for iv in neighbourhood(z, l):
        t = l - iv.wall_offset.seconds * NPS
        if Z.inst_ns(iv._raw_start) <= t < Z.inst_ns(iv._raw_end):
            res.append(t)
    return sorted(set(res))


def oracle_factory(zmap):
    Pm = Z.P()

    def oracle(t):
        op = t[0]
        if op == "zone.def":
            return None
        z = zmap[t[1]]
        l = int(t[2])
        cal = int(t[3]) if len(t) > 3 else 0
        ldt = _ldt(l, cal)
        exp_all = expected_instants(z, l)
        exp = [x for x in exp_all if MINI <= x <= MAXI]
        if op == "zone.resolvers":
            if not (MINI + H18 <= l <= MAXI - H18):
                return None
            return resolvers_oracle(z, l, ldt, exp)
        if op in ("zone.maplocal", "zone.resolve"):
            m = z.map_local(ldt)
            if m.count not in (0, 1, 2):
                return {"key": "maplocal-count-range", "what": f"{z.id} local {l}: count {m.count}"}
            if m.count != len(exp):
                if m.count == len(exp_all):
                    return {"key": "maplocal-candidate-outside-instant-range",
                            "what": f"{z.id} local {l}: count {m.count} includes an instant outside [Instant.min, Instant.max] ({[x for x in exp_all if x not in exp]})"}
                return {"key": "maplocal-count-wrong", "what": f"{z.id} local {l}: count {m.count}, instants rendering as it: {exp}"}
            got = []
            try:
                if m.count >= 1:
                    got.append(m.first())
                if m.count == 2:
                    got.append(m.last())
            except Exception as e:  # noqa: BLE001
                return {"key": "maplocal-result-raises", "what": f"{z.id} local {l}: first()/last() raised {type(e).__name__}"}
            gi = [_inst_of(g) for g in got]
            if gi != exp:
                return {"key": "maplocal-instants-wrong", "what": f"{z.id} local {l}: results {gi}, expected {exp}"}
            for g in got:
                if g.local_date_time != ldt:
                    return {"key": "maplocal-result-renders-differently", "what": f"{z.id} local {l}: result renders as {g.local_date_time!r}"}
            if m.count == 0:
                e, la = m.early_interval, m.late_interval
                if Z.inst_ns(e._raw_end) != Z.inst_ns(la._raw_start):
                    return {"key": "gap-intervals-not-adjacent", "what": f"{z.id} local {l}: early ends {Z.inst_ns(e._raw_end)}, late starts {Z.inst_ns(la._raw_start)}"}
                tr = Z.inst_ns(e._raw_end)
                if not (tr + e.wall_offset.seconds * NPS <= l < tr + la.wall_offset.seconds * NPS):
                    return {"key": "gap-does-not-bracket", "what": f"{z.id} local {l}: not inside the gap at {tr}"}
            if m.count == 1 and (m.early_interval != m.late_interval):
                return {"key": "single-mapping-two-intervals", "what": f"{z.id} local {l}"}
            # resolvers
            def outcome(fn):
                try:
                    return ("ok", _inst_of(fn()))
                except Exception as e:  # noqa: BLE001
                    return ("err", exc_name(e))
            st = outcome(lambda: z.at_strictly(ldt))
            le = outcome(lambda: z.at_leniently(ldt))
            if m.count == 0:
                if st != ("err", "!skippedTime"):
                    return {"key": "strict-on-skipped", "what": f"{z.id} local {l}: at_strictly gave {st}"}
                shifted = l - m.early_interval.wall_offset.seconds * NPS
                if MINI <= shifted <= MAXI and le != ("ok", shifted):
                    return {"key": "lenient-on-skipped", "what": f"{z.id} local {l}: at_leniently gave {le}, expected instant {shifted} (shifted forward by the gap)"}
            elif m.count == 1:
                if st != ("ok", exp[0]) or le != ("ok", exp[0]):
                    return {"key": "resolver-on-unambiguous", "what": f"{z.id} local {l}: strict {st} lenient {le} expected {exp[0]}"}
            else:
                if st != ("err", "!ambiguousTime"):
                    return {"key": "strict-on-ambiguous", "what": f"{z.id} local {l}: at_strictly gave {st}"}
                if le != ("ok", exp[0]):
                    return {"key": "lenient-on-ambiguous", "what": f"{z.id} local {l}: at_leniently gave {le}, expected the earlier instant {exp[0]}"}
            return None
        if op == "zone.startofday":
            date = ldt.date
            day0 = (l // NPD) * NPD
            # earliest instant whose local date is `date`
            cands = []
            for iv in neighbourhood(z, day0):
                w = iv.wall_offset.seconds * NPS
                lo = max(Z.inst_ns(iv._raw_start), day0 - w)
                hi = min(Z.inst_ns(iv._raw_end), day0 + NPD - w)
                if lo < hi:
                    cands.append(lo)
            cands = [c for c in cands if MINI <= c <= MAXI]
            try:
                r = ("ok", _inst_of(z.at_start_of_day(date)))
            except Exception as e:  # noqa: BLE001
                r = ("err", exc_name(e))
            if not cands:
                if r[0] == "ok":
                    return {"key": "startofday-on-skipped-day", "what": f"{z.id} {date!r}: returned {r} although no instant has that local date"}
                return None
            if r != ("ok", min(cands)):
                if r[0] == "err" and (day0 - H18 < MINI or day0 + NPD + H18 > MAXI):
                    return {"key": "maplocal-candidate-outside-instant-range", "what": f"{z.id} {date!r}: at_start_of_day raised {r[1]} at the end of time"}
                return {"key": "startofday-wrong", "what": f"{z.id} day starting at local {day0}: got {r}, earliest instant with that date is {min(cands)}"}
            return None
        return None
    return oracle


def roundtrip_case(zmap):
    def fn(c):
        sid, t = c
        z = zmap[sid]
        inst = Z.ns_inst(t)
        try:
            zdt = inst.in_zone(z)
            ldt = zdt.local_date_time
        except OverflowError:
            return None  # local time outside the representable range at the very ends of time
        m = z.map_local(ldt)
        rs = []
        if m.count >= 1:
            rs.append(_inst_of(m.first()))
        if m.count == 2:
            rs.append(_inst_of(m.last()))
        if t not in rs:
            return {"key": "instant-roundtrip", "what": f"{z.id}: instant {t} renders as {ldt!r} but map_local gives {rs}"}
        return None
    return fn


def run(ctx):
    zs = _zmap(ctx)
    keys = [(sid, rid) for sid, rid, _ in zs]
    if ctx.thorough:
        chunks = [keys[i::15] for i in range(15)]
        ctx.parallel(_explore, [c for c in chunks if c])
    else:
        _explore(ctx, keys)


def _explore(ctx, keys):
    import c04
    zs = [(sid, rid, c04._zone_of(sid, rid)) for sid, rid in keys]
    zmap = {sid: z for sid, _, z in zs}
    rng = ctx.rng
    defs = [Z.zone_def_line(sid, z) for sid, _, z in zs]
    ops = list(defs)
    rt_cases = []
    budget = ctx.scale(2600, 30000)  # transitions to probe (per worker in the thorough tier)
    trans = []  # (sid, transition instant, wall before, wall after)
    for sid, rid, z in zs:
        periods, tail = Z.zone_data(z)
        for a, b in zip(periods, periods[1:]):
            trans.append((sid, Z.inst_ns(b._raw_start), a.wall_offset.seconds, b.wall_offset.seconds))
        if tail is not None:
            import c04
            for y in ([2040, 2100, 5000, 9998, 9999] if not ctx.thorough else range(2038, 10000, 61)):
                cur = c04.year_ns(y)
                for _ in range(3):
                    zi = z.get_zone_interval(Z.ns_inst(min(cur, MAXI)))
                    e = Z.inst_ns(zi._raw_end)
                    if e > MAXI:
                        break
                    nx = z.get_zone_interval(Z.ns_inst(e))
                    trans.append((sid, e, zi.wall_offset.seconds, nx.wall_offset.seconds))
                    cur = e
    ctx.note("transitions_total", len(trans))
    # always include the largest jumps and the ones nearest the ends of time
    trans.sort(key=lambda x: -abs(x[2] - x[3]))
    chosen = trans[:150] + rng.sample(trans[150:], min(budget, max(0, len(trans) - 150)))
    deltas = [-NPS, -1, 0, 1, NPS]
    for sid, tr, w0, w1 in chosen:
        ls = set()
        for w in (w0, w1):
            for d in deltas:
                ls.add(tr + w * NPS + d)
        lo, hi = tr + min(w0, w1) * NPS, tr + max(w0, w1) * NPS
        ls.add((lo + hi) // 2)
        for d in (-1, 0, 1):
            ls.add(((tr + w1 * NPS) // NPD + d) * NPD)
        pick = rng.sample(sorted(ls), min(len(ls), 8))
        if w1 > w0:
            # skipped local values whose forward-shifted result is exactly a local midnight (day carry at the boundary)
            gap = (w1 - w0) * NPS
            m0 = -((-(tr + w1 * NPS)) // NPD) * NPD          # first local midnight >= local start of the later interval
            while m0 < tr + w1 * NPS + gap:
                if m0 - gap not in pick:
                    pick.append(m0 - gap)
                for d in (-1, 1):
                    if lo <= m0 - gap + d < hi:
                        pick.append(m0 - gap + d)
                m0 += NPD
        for l in pick:
            if MINI + H18 <= l <= MAXI - H18:
                cal = rng.choice([0, 0, 0, 1, 2, 3])
                if not (-600000 * NPD <= l <= 1500000 * NPD):
                    cal = 0  # non-ISO calendars cover a narrower range of days
                ops.append(f"zone.maplocal {sid} {l} {cal}" if cal else f"zone.maplocal {sid} {l}")
                ops.append(f"zone.resolve {sid} {l}")
                ops.append(f"zone.resolvers {sid} {l} {cal}" if cal else f"zone.resolvers {sid} {l}")
        day = ((tr + w1 * NPS) // NPD) * NPD
        for d in (-1, 0, 1):
            cal = rng.choice([0, 0, 1, 2, 3]) if -600000 * NPD <= day <= 1500000 * NPD else 0
            ops.append(f"zone.startofday {sid} {day + d * NPD} {cal}" if cal else f"zone.startofday {sid} {day + d * NPD}")
        for d in (-1, 0, 1, -NPS, NPS):
            if MINI <= tr + d <= MAXI:
                rt_cases.append((sid, tr + d))
    # ends of time and random
    sids = [s for s, _, _ in zs]
    for sid in rng.sample(sids, min(len(sids), ctx.scale(40, len(sids)))):
        for l in [MINI, MINI + 1, MINI + H18, MINI + H18 - 1, MINI + NPD, MAXI, MAXI - H18, MAXI - H18 + 1, MAXI - NPD + 1, 0]:
            ops.append(f"zone.maplocal {sid} {l}")
            ops.append(f"zone.resolve {sid} {l}")
            ops.append(f"zone.resolvers {sid} {l}")
        ops.append(f"zone.startofday {sid} {MINI}")
        ops.append(f"zone.startofday {sid} {(MAXI // NPD) * NPD}")
        for _ in range(ctx.scale(10, 200)):
            l = rng.randint(MINI + H18, MAXI - H18) if rng.random() < 0.5 else rng.randint(-3 * 10**18, 3 * 10**18)
            ops.append(f"zone.maplocal {sid} {l}")
            ops.append(f"zone.resolve {sid} {l}")
            if rng.random() < 0.3:
                ops.append(f"zone.resolvers {sid} {l}")
            rt_cases.append((sid, rng.randint(MINI, MAXI)))
    ctx.correspond("zone.maplocal+resolve", ops, impl_factory(zmap), oracle=oracle_factory(zmap),
                   nontrivial=lambda t, r: t[0] != "zone.def")
    ctx.check_cases("instant.roundtrip", rt_cases, roundtrip_case(zmap))
    ctx.note("ops", len(ops))
    # the same local values in OTHER ORDERS on FRESH zone objects (the suite above asks the provider's shared objects in
    # generation order): every answer is a pure function of (zone, local value), so the model replies are the same
    from pyoda_time.time_zones._tzdb_date_time_zone_source import TzdbDateTimeZoneSource
    src = TzdbDateTimeZoneSource.default
    real = [(sid, rid) for sid, rid, _ in zs if rid is not None]
    chosen = real if ctx.thorough else rng.sample(real, min(len(real), 40))
    by_zone = {}
    for o in ops:
        t = o.split(" ")
        if t[0] in ("zone.maplocal", "zone.resolve", "zone.startofday", "zone.resolvers"):
            by_zone.setdefault(t[1], []).append(o)
    for label in ("descending", "shuffled", "ascending+neighbour-periods"):
        fresh = {sid: src.for_id(rid) for sid, rid in chosen}
        oo = [Z.zone_def_line(sid, fresh[sid]) for sid, _ in chosen]
        for sid, _ in chosen:
            zo = list(by_zone.get(sid, []))
            cap = 120 if label != "ascending+neighbour-periods" else 50
            if not ctx.thorough and len(zo) > cap:
                zo = rng.sample(zo, cap)
            if label == "ascending+neighbour-periods":
                # the zone-interval cache works in 32-day periods hashed into 512 slots: ask each local value AFTER values
                # one period and one whole table (16384 days) earlier, in ascending order, so that neighbouring and
                # colliding cache entries are already filled when the value near the transition is asked
                extra = []
                for o in zo:
                    t = o.split(" ")
                    for back in (32 * NPD, 31 * NPD, 16384 * NPD):
                        l2 = int(t[2]) - back
                        if MINI + H18 <= l2 <= MAXI - H18 and len(t) == 3:
                            extra.append(f"zone.maplocal {t[1]} {l2}")
                zo = zo + extra
            zo.sort(key=lambda o: int(o.split(" ")[2]), reverse=(label == "descending"))
            if label == "shuffled":
                rng.shuffle(zo)
            oo.extend(zo)
        hist = {}
        base_impl, base_oracle = impl_factory(fresh), oracle_factory(fresh)

        def impl_h(t, _h=hist, _i=base_impl):
            if t[0] != "zone.def":
                _h.setdefault(t[1], []).append(" ".join(t))
            return _i(t)

        def oracle_h(t, _h=hist, _o=base_oracle):
            f = _o(t)
            if f and t[0] != "zone.def":
                f = dict(f)
                f["history"] = list(_h.get(t[1], []))[-300:]
                f["what"] += f" [after {len(_h.get(t[1], []))} earlier queries on the same fresh zone object; the replay repeats them]"
            return f
        ctx.correspond("zone.maplocal.order." + label, oo, impl_h, oracle=oracle_h, nontrivial=lambda t, r: t[0] != "zone.def")


def replay_op(op, failure):
    t = op.split(" ")
    if t[0].startswith("zone.") and failure.get("history"):
        from pyoda_time.time_zones._tzdb_date_time_zone_source import TzdbDateTimeZoneSource
        zid = t[1]
        rid = next((k for k in TzdbDateTimeZoneSource.default.canonical_id_map if Z.safe_id(k) == zid), zid)
        z = TzdbDateTimeZoneSource.default.for_id(rid)
        im = impl_factory({zid: z})
        for h in failure["history"]:
            if h != op:
                guard(im, h.split(" "))
        return oracle_factory({zid: z})(t)
    if t[0].startswith("zone."):
        zid = t[1]
        z = Z.tzdb()[zid] if not zid.startswith("fixed") else Z.P().DateTimeZone.for_offset(Z.P().Offset.from_seconds(int(zid[5:])))
        return oracle_factory({zid: z})(t)
    return None
