"""text.history — the answers of a pattern object must not depend on which other patterns / cultures were created before or
after it (shared by C07, C08 and C17; same idea as c13_fmt.py for the format-info layer).

A *sequence* is a list of steps built deterministically from (focus, seed):
  {"k": "new", "id": n, "spec": <pattern spec>, "probes": [...]}   create / fetch the pattern object, keep it alive, ask it
  {"k": "again", "id": n}                                            ask the live object `n` the same probes once more
pattern spec = ["b", type, attribute]                               a built-in pattern object (LocalTimePattern.extended_iso, …)
             | ["c", type, pattern text, culture name, culture variant, template | None]
culture variant = stock (the shared read-only culture of that name) | clone (an unmodified mutable clone) |
                  greg (clone with date_time_format.calendar = GregorianCalendar(): the culture's own common-era name) |
                  names (clone with other month/day names, am/pm designators and time separator) | ro-greg / ro-names
                  (read-only wrappers of such clones: their format info — and pattern cache — is retained by the library)
probe = ["f", value]  format the value, then parse the produced text      | ["p", text]  parse the text

The oracle runs the sequence in the checking process (after everything the check did before), and in two FRESH interpreters:
once in the same order and once with the creation order reversed.  Every answer of every object must be the same in the
three runs, and a live object asked again later must repeat its first answer."""
from __future__ import annotations

import json
import os
import random
import subprocess
import sys
import tempfile

NAMES_FOR_ERA = ["th-TH", "ar-SA", "fa-IR"]
VARIANTS = ["stock", "greg", "names", "clone", "ro-greg", "ro-names"]


def _c07():
    import c07
    return c07


# ---------------------------------------------------------------------------------------------------
# evaluation (identical in the checking process and in the child interpreters)
# ---------------------------------------------------------------------------------------------------

def build_culture(name, variant):
    from pyoda_time._compatibility._culture_info import CultureInfo
    if variant == "stock":
        return CultureInfo.invariant_culture if name == "" else CultureInfo.read_only(CultureInfo.get_culture_info(name))
    # a culture object of its own (not the library's cached one), so that nothing looked up on the shared object before
    # the clone was taken is copied into it (see oracle culture.calendar-switch for that hazard)
    base = CultureInfo.invariant_culture if name == "" else CultureInfo(name)
    c = base.clone()
    d = c.date_time_format
    if variant in ("greg", "ro-greg"):
        from pyoda_time._compatibility._gregorian_calendar import GregorianCalendar
        d.calendar = GregorianCalendar()
    if variant in ("names", "ro-names"):
        d.month_names = [(x + "x") if x else x for x in d.month_names]
        d.month_genitive_names = [(x + "xg") if x else x for x in d.month_genitive_names]
        d.abbreviated_month_names = [(x + "y") if x else x for x in d.abbreviated_month_names]
        d.abbreviated_month_genitive_names = [(x + "yg") if x else x for x in d.abbreviated_month_genitive_names]
        d.day_names = [x + "z" for x in d.day_names]
        d.abbreviated_day_names = [x + "w" for x in d.abbreviated_day_names]
        d.am_designator = "aq"
        d.pm_designator = "pq"
        d.time_separator = "." if d.time_separator == ":" else ":"
    if variant.startswith("ro-"):
        c = CultureInfo.read_only(c)
    return c


def make_pattern(spec, cultures):
    c07 = _c07()
    if spec[0] == "b":
        return c07.builtin(spec[1], spec[2])
    _, ty, text, cname, variant, tmpl = spec
    key = (cname, variant)
    if key not in cultures:
        cultures[key] = build_culture(cname, variant)
    cu = cultures[key]
    cls = c07.pcls(ty)
    if tmpl is None:
        return cls.create(text, cu)
    return cls.create(text, cu, c07.template_value(ty, tuple(tmpl)))


def _val(ty, v):
    return tuple(v) if isinstance(v, list) else v


def ask(pat, ty, probes):
    c07 = _c07()
    out = []
    for kind, x in probes:
        if kind == "f":
            try:
                s = pat.format(c07.mk(ty, _val(ty, x)))
            except Exception as e:  # noqa: BLE001
                out.append(["format!" + type(e).__name__])
                continue
            out.append(["text", s] + _parse(pat, ty, s))
        else:
            out.append(_parse(pat, ty, x))
    return out


def _parse(pat, ty, s):
    c07 = _c07()
    try:
        r = pat.parse(s)
        if not r.success:
            return ["fail"]
        v = c07.unmk(ty, r.value)
        return ["ok", list(v) if isinstance(v, tuple) else v]
    except Exception as e:  # noqa: BLE001
        return ["parse!" + type(e).__name__]


def run_sequence(steps, order="fwd"):
    """-> (first answers by id, [(id, late answers, position)])"""
    c07 = _c07()
    T = c07._T()
    cultures, live, probes, first, again = {}, {}, {}, {}, []
    seq = steps if order == "fwd" else [s for s in reversed(steps) if s["k"] == "new"]
    for pos, st in enumerate(seq):
        if st["k"] == "new":
            n = st["id"]
            ty = st["spec"][1]
            try:
                live[n] = make_pattern(st["spec"], cultures)
            except T.InvalidPatternError:
                first[n] = ["create!InvalidPatternError"]
                continue
            except Exception as e:  # noqa: BLE001
                first[n] = ["create!" + type(e).__name__]
                continue
            probes[n] = (ty, st["probes"])
            first[n] = ask(live[n], ty, st["probes"])
        else:
            n = st["id"]
            if n in live:
                ty, pr = probes[n]
                again.append((n, ask(live[n], ty, pr), pos))
    return first, again


# ---------------------------------------------------------------------------------------------------
# sequences
# ---------------------------------------------------------------------------------------------------

CULTURE_TEXTS = {
    "date": ["yyyy-MM-dd g", "dddd d MMMM yyyy", "ddd dd MMM yy gg", "D", "d", "M", "yyyy/MM/dd", "MMMM yyyy g", "d MMM"],
    "time": ["hh:mm tt", "h:mm t", "HH:mm:ss", "t", "T"],
    "datetime": ["yyyy-MM-dd HH:mm g", "dddd d MMMM yyyy hh:mm tt", "F", "f", "g", "G", "yyyy-MM-dd HH':'mm g"],
    "annual": ["MMMM dd", "MMM d", "G"],
    "instant": ["yyyy-MM-dd HH:mm g", "ddd d MMM yyyy HH:mm:ss"],
    "offset": ["g", "l", "m"],
}
CULTURE_VALUES = {
    "date": [("ISO", 2024, 2, 29), ("ISO", 1, 1, 1), ("ISO", -43, 3, 15), ("ISO", 1999, 12, 31)],
    "time": [15 * 3600 * 10**9 + 30 * 60 * 10**9 + 45 * 10**9, 3 * 3600 * 10**9 + 5 * 60 * 10**9],
    "datetime": [("ISO", 2024, 2, 29, 15 * 3600 * 10**9 + 30 * 60 * 10**9), ("ISO", -43, 3, 15, 3 * 3600 * 10**9 + 5 * 60 * 10**9), ("ISO", 1999, 12, 31, 0)],
    "annual": [(2, 29), (12, 1)],
    "instant": [(19782, 15 * 3600 * 10**9 + 30 * 60 * 10**9), (-735000, 3 * 3600 * 10**9)],
    "offset": [19800, -3600, 0],
}

WIDTH_FAMILIES = {
    "time": ["HH':'mm':'ss;" + "F" * k for k in range(1, 10)] + ["HH:mm:ss." + "F" * k for k in (1, 2, 3, 6, 9)] + ["HH:mm:ss.fff", "HH:mm:ss;ffffff", "H:m:s", "hh:mm:ss;FFF tt", "HH:mm", "HH':'mm':'ss"],
    "datetime": ["uuuu'-'MM'-'dd'T'HH':'mm':'ss;" + "F" * k for k in range(1, 10)] + ["uuuu-MM-dd HH:mm:ss." + "F" * k for k in (1, 3, 6)] + ["yy-M-d H:m", "uuuu'-'MM'-'dd' 'HH':'mm':'ss;FFF", "u-M-d'T'H:m:s.fff", "yyyy-MM-dd'T'HH:mm"],
    "instant": ["uuuu'-'MM'-'dd'T'HH':'mm':'ss;" + "F" * k + "'Z'" for k in range(1, 10)] + ["uuuu-MM-dd HH:mm:ss.FFF'Z'", "u-M-d'T'H:m'Z'"],
    "date": ["uuuu-MM-dd", "u-M-d", "yy-MM-dd", "yyyy-M-d g", "uuu-MM-d", "uuuu'-'MM'-'dd '('c')'", "dd/MM/uuuu"],
    "offset": ["+HH:mm", "+H", "-HH:mm:ss", "+HH", "+HHmm", "-H:m:s", "Z+HH:mm"],
    "duration": ["-D:hh:mm:ss." + "F" * k for k in (1, 3, 6, 9)] + ["-H:mm:ss." + "F" * k for k in (1, 3, 9)] + ["-S.fff", "-M:ss", "-DD:h:m:s", "-D:hh:mm:ss.fffffffff"],
    "annual": ["MM-dd", "M-d", "MMM d", "MMMM dd", "dd/MM"],
}


def stdlib_texts(ty, rng):
    """ISO texts as the standard library writes them (microsecond fractions), for the built-in ISO patterns"""
    import datetime as dt
    us = rng.choice([123456, 100001, 654321, 999999, 500000, 120000, 1])
    t = dt.time(rng.randrange(24), rng.randrange(60), rng.randrange(60), us)
    d = dt.date(rng.randint(1, 9999), rng.randint(1, 12), rng.randint(1, 28))
    if ty == "time":
        return [t.isoformat(), t.replace(microsecond=0).isoformat()]
    if ty == "date":
        return [d.isoformat()]
    if ty == "datetime":
        return [dt.datetime.combine(d, t).isoformat(), dt.datetime.combine(d, t.replace(microsecond=0)).isoformat()]
    if ty == "instant":
        return [dt.datetime.combine(d, t).isoformat() + "Z", dt.datetime.combine(d, t.replace(microsecond=0)).isoformat() + "Z"]
    if ty == "offset":
        return ["+05:30", "-08:00", "Z", "+00:00"]
    if ty == "duration":
        return ["1:02:03:04.123456", "-0:00:00:00.5", "26:03:04.123456789"]
    if ty == "annual":
        return ["02-29", "12-31"]
    return []


def _probes_for(rng, ty, n=2, calid="ISO"):
    c07 = _c07()
    out = []
    for _ in range(n):
        v = c07.gen_value(rng, ty, calid)
        if v is not None:
            out.append(["f", list(v) if isinstance(v, tuple) else v])
    return out


def seq_culture(rng, names):
    steps = []
    groups = []
    for name in names:
        tys = rng.sample(list(CULTURE_TEXTS), 4)
        if "date" not in tys:
            tys[0] = "date"
        for ty in tys:
            text = rng.choice(CULTURE_TEXTS[ty])
            if ty == "date" and rng.random() < 0.4:
                text = "yyyy-MM-dd g"
            vs = rng.sample(VARIANTS, rng.choice([2, 3, 4]))
            if name in NAMES_FOR_ERA and rng.random() < 0.7:
                vs = [v for v in vs if v not in ("greg", "stock")] + ["greg", "stock"]
                rng.shuffle(vs)
            probes = [["f", list(v) if isinstance(v, tuple) else v] for v in CULTURE_VALUES[ty]]
            groups.append([["c", ty, text, name, v, None] for v in vs] + [probes])
    # interleave the groups, keeping the (random) variant order inside each group
    cursors = [0] * len(groups)
    while True:
        avail = [i for i, g in enumerate(groups) if cursors[i] < len(g) - 1]
        if not avail:
            break
        i = rng.choice(avail)
        steps.append({"k": "new", "id": len([s for s in steps if s["k"] == "new"]), "spec": groups[i][cursors[i]], "probes": groups[i][-1]})
        cursors[i] += 1
        if rng.random() < 0.25:
            news = [s["id"] for s in steps if s["k"] == "new"]
            steps.append({"k": "again", "id": rng.choice(news)})
    for n in rng.sample([s["id"] for s in steps if s["k"] == "new"], min(30, len([s for s in steps if s["k"] == "new"]))):
        steps.append({"k": "again", "id": n})
    return steps


def seq_width(rng, cnames):
    c07 = _c07()
    steps = []
    nid = 0
    builtins = []
    for ty, attr, prec, cals in c07.BUILTINS:
        probes = []
        for _ in range(2):
            v = c07.trunc_value(ty, c07.gen_value(rng, ty), prec)
            probes.append(["f", list(v) if isinstance(v, tuple) else v])
        if prec == 1 or attr in ("general", "general_iso"):
            probes += [["p", t] for t in stdlib_texts(ty, rng)]
        steps.append({"k": "new", "id": nid, "spec": ["b", ty, attr], "probes": probes})
        builtins.append((nid, ty))
        nid += 1
    live = list(builtins)
    for _ in range(rng.choice([40, 60, 80])):
        ty = rng.choices(list(WIDTH_FAMILIES), [6, 6, 4, 2, 2, 3, 1])[0]
        text = rng.choice(WIDTH_FAMILIES[ty])
        cname = "" if rng.random() < 0.75 or len(cnames) < 2 else rng.choice(cnames[1:])
        probes = _probes_for(rng, ty, 2) + [["p", t] for t in stdlib_texts(ty, rng)[:1]]
        steps.append({"k": "new", "id": nid, "spec": ["c", ty, text, cname, "stock", None], "probes": probes})
        live.append((nid, ty))
        nid += 1
        same = [n for n, t in live[:-1] if t == ty or (t, ty) in (("instant", "datetime"), ("datetime", "instant"), ("time", "datetime"), ("datetime", "time"))]
        for _ in range(2):
            if same and rng.random() < 0.8:
                steps.append({"k": "again", "id": rng.choice(same)})
            else:
                steps.append({"k": "again", "id": rng.choice(live)[0]})
    for n, _ in builtins:
        steps.append({"k": "again", "id": n})
    return steps


def seq_random(rng, cnames):
    c07 = _c07()
    steps = []
    nid = 0
    types = ["time", "date", "datetime", "offset", "duration", "annual", "instant"]
    texts = {}
    for _ in range(rng.choice([40, 60])):
        ty = rng.choices(types, [5, 5, 5, 2, 3, 1, 2])[0]
        if ty in texts and rng.random() < 0.35:
            text = rng.choice(texts[ty])       # the same text again: another culture / variant / template
        else:
            text = c07.gen_custom(rng, ty) if rng.random() < 0.9 else rng.choice(c07.STANDARD[ty])
            texts.setdefault(ty, []).append(text)
        cname = "" if rng.random() < 0.4 or len(cnames) < 2 else rng.choice(cnames[1:])
        variant = rng.choice(["stock", "stock", "clone", "names", "ro-names", "greg"])
        tmpl = None
        calid = "ISO"
        if ty in ("date", "datetime") and rng.random() < 0.25:
            calid = rng.choice(c07.cal_ids())
            v = c07.gen_value(rng, "date", calid)
            if v is not None:
                tmpl = list(v) + ([rng.choice([0, c07.gen_nod(rng)])] if ty == "datetime" else [])
            else:
                calid = "ISO"
        steps.append({"k": "new", "id": nid, "spec": ["c", ty, text, cname, variant, tmpl], "probes": _probes_for(rng, ty, 3, calid)})
        nid += 1
        if rng.random() < 0.5:
            steps.append({"k": "again", "id": rng.randrange(nid)})
    for n in rng.sample(range(nid), min(nid, 25)):
        steps.append({"k": "again", "id": n})
    return steps


def build_sequence(focus, seed, cnames):
    rng = random.Random(f"{focus}:{seed}")
    if focus == "culture":
        names = [n for n in NAMES_FOR_ERA if n in cnames]
        rest = [n for n in cnames if n not in names]
        names += rng.sample(rest, min(2, len(rest)))
        if not names:
            names = [""]
        return seq_culture(rng, names)
    if focus == "width":
        return seq_width(rng, cnames)
    return seq_random(rng, cnames)


# ---------------------------------------------------------------------------------------------------
# the oracle
# ---------------------------------------------------------------------------------------------------

def _spawn(steps, order):
    """start a fresh interpreter on the sequence; -> (process, path of the steps file)"""
    import common
    here = os.path.dirname(os.path.abspath(__file__))
    with tempfile.NamedTemporaryFile("w", suffix=".json", delete=False) as f:
        json.dump(steps, f)
        path = f.name
    p = subprocess.Popen([sys.executable, os.path.join(here, "texthist.py"), path, order], stdout=subprocess.PIPE, stderr=subprocess.PIPE, text=True,
                         env=dict(os.environ, PYODA_REPO=str(common.REPO)))
    return p, path


def _collect(job):
    p, path = job
    try:
        out, err = p.communicate(timeout=600)
    finally:
        try:
            os.unlink(path)
        except OSError:
            pass
    if p.returncode != 0:
        raise RuntimeError("child interpreter failed: " + err[-400:])
    d = json.loads(out)
    return {int(k): v for k, v in d["first"].items()}, [(a, b, c) for a, b, c in d["again"]]


def _collect_quiet(job):
    try:
        job[0].communicate(timeout=30)
    except Exception:  # noqa: BLE001
        pass
    try:
        os.unlink(job[1])
    except OSError:
        pass


def _norm(x):
    return json.loads(json.dumps(x, ensure_ascii=True))


def _describe(spec):
    if spec[0] == "b":
        c07 = _c07()
        return f"{c07.PCLS[spec[1]]}.{spec[2]}"
    c07 = _c07()
    _, ty, text, cname, variant, tmpl = spec
    return f"{c07.PCLS[ty]}.create({text!r}, culture {cname!r}" + ("" if variant == "stock" else f" [{variant}]") + (f", template {tuple(tmpl)!r}" if tmpl else "") + ")"


def _first_diff(probes, a, b):
    if len(a) != len(b) or not probes or len(a) != len(probes):
        return f"{a!r} / {b!r}"
    for pr, x, y in zip(probes, a, b):
        if x != y:
            return f"probe {pr!r}: {x!r} / {y!r}"
    return f"{a!r} / {b!r}"


def oracle_history(case):
    """case = (focus, seed, culture names)"""
    c07 = _c07()
    focus, seed, cnames = case
    if not c07.have_icu():
        cnames = [""]
    steps = build_sequence(focus, seed, list(cnames))
    by_id = {s["id"]: s for s in steps if s["k"] == "new"}
    jobs = {order: _spawn(steps, order) for order in ("fwd", "rev")}      # the fresh interpreters run meanwhile
    try:
        first, again = run_sequence(steps, "fwd")
    except BaseException:
        for j in jobs.values():
            j[0].kill()
            _collect_quiet(j)
        raise
    results = {order: _collect(j) for order, j in jobs.items()}
    first = _norm(first)
    first = {int(k): v for k, v in first.items()}
    # 1. a live object repeats its first answer, whatever was created in between
    for n, late, pos in again:
        if _norm(late) != first[n]:
            between = [_describe(s["spec"]) for s in steps[:pos] if s["k"] == "new" and s["id"] > n][-6:]
            return c07.fail("text-history:answer-changes-over-time",
                            f"{_describe(by_id[n]['spec'])} asked again after {len(between)}+ other creations (last: {between}) answers differently — first / later: "
                            + _first_diff(by_id[n]["probes"], first[n], _norm(late)))
    # 2. the same answers in fresh interpreters, in this order and with the creation order reversed
    for order in ("fwd", "rev"):
        cf, cagain = results[order]
        for n in by_id:
            if cf.get(n) != first[n]:
                return c07.fail("text-history:answer-depends-on-creation-order",
                                f"{_describe(by_id[n]['spec'])}: the checking process answers differently from a fresh interpreter running the same {len(by_id)} creations "
                                + ("in the same order" if order == "fwd" else "in reversed order") + " — here / fresh: " + _first_diff(by_id[n]["probes"], first[n], cf.get(n)))
        for n, late, pos in cagain:
            if late != cf[n]:
                return c07.fail("text-history:answer-changes-over-time", f"{_describe(by_id[n]['spec'])} (fresh interpreter) asked again answers differently — first / later: "
                                + _first_diff(by_id[n]["probes"], cf[n], late))
    return None


def run_history(ctx, plan):
    """plan = [(focus, number of sequences)]"""
    c07 = _c07()
    cn = c07.culture_names(ctx, 8)
    cases = []
    for focus, n in plan:
        for _ in range(n):
            cases.append((focus, ctx.rng.getrandbits(32), tuple(cn)))
    ctx.check_cases("text.history", cases, oracle_history)


if __name__ == "__main__":
    # child mode: python texthist.py <steps.json> <fwd|rev>  ->  JSON on stdout
    sys.path.insert(0, os.environ.get("PYODA_REPO", "/repo"))
    try:
        import icu  # noqa: F401
    except Exception:  # noqa: BLE001
        sys.path.insert(0, os.path.join(os.path.dirname(os.path.abspath(__file__)), "icu_stub"))
    with open(sys.argv[1]) as fh:
        _steps = json.load(fh)
    _first, _again = run_sequence(_steps, sys.argv[2])
    print(json.dumps({"first": _first, "again": _again}, ensure_ascii=True))
