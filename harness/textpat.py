"""Generic stepped-pattern model (PyodaModel/Text/PatternCursor, Stepped, Compile, Engine, Buckets): ops evaluated on the
real code, generators and correspondence suites shared by C07 and C08.

Ops:
  pcur.quoted <closeCode> <restHex> | pcur.repeat <charCode> <restHex> <max> | pcur.embedded <restHex>
  pat.compile <type> <patternHex> <culture>   -> ok <shape> | !invalidPattern | !<other exception>
  pat.fmt  <type> <patternHex> <culture> <value fields…>   -> textHex | !dom | !<exception>
  pat.parse <type> <patternHex> <culture> <textHex>        -> ok fields… | fail | !dom | !<exception>
  pat.calids | cu.names <culture>  (evaluated here on the code's data; pat.delim / pat.wf / cu.check are model-only)
type = time | date | offset | datetime | datetime:<y>,<m>,<d>,<nod> (LocalDateTime with that ISO template value) |
       annual | annual:<m>,<d> | duration | instant (InstantPattern; values as UTC date-time fields)
culture = `inv` or `c:<hex>` (the culture record read from the code's _PyodaFormatInfo, U+001F-joined, 92 fields)."""
from __future__ import annotations

import c07
from c07 import fail, hexs, unhex

SEP = "\x1f"
SEP2 = "\x1e"
DEFAULT_TMPL = (2000, 1, 1, 0)
_BLOB2NAME = {"inv": ""}
_NAME2BLOB = {"": "inv"}


def culture_blob(cname):
    """the Culture record of the model, read from the code"""
    if cname in _NAME2BLOB:
        return _NAME2BLOB[cname]
    fi = c07.fmt_info(cname)
    d = fi.date_time_format

    def tab(t, n):
        t = list(t)
        return [(x or "") for x in (t + [""] * n)[:n]]
    fs = [fi.time_separator, fi.date_separator, fi.am_designator, fi.pm_designator]
    fs += tab(fi.long_month_names, 14) + tab(fi.short_month_names, 14) + tab(fi.long_month_genitive_names, 14) + tab(fi.short_month_genitive_names, 14)
    fs += tab(fi.long_day_names, 8) + tab(fi.short_day_names, 8)
    fs += [d.short_date_pattern, d.long_date_pattern, d.month_day_pattern, d.short_time_pattern, d.long_time_pattern]
    fs += [fi.offset_pattern_long, fi.offset_pattern_medium, fi.offset_pattern_short, fi.offset_pattern_long_no_punctuation,
           fi.offset_pattern_medium_no_punctuation, fi.offset_pattern_short_no_punctuation]
    assert len(fs) == 87
    # LocalDateTime 'F' pattern; era names of the ISO calendar's eras (primary, all: longest first as the code sorts them)
    P = c07._P()
    eras = list(P.CalendarSystem.iso.eras())
    assert [e.name for e in eras] == ["BCE", "CE"]
    fs += [d.full_date_time_pattern or ""] + [fi.get_era_primary_name(e) or "" for e in eras]
    fs += [SEP2.join(fi.get_era_names(e)) for e in eras]
    assert len(fs) == 92
    # the single eras of the other calendars (era ids 2..6 of the model)
    xeras = other_eras()
    fs += [fi.get_era_primary_name(e) or "" for e in xeras]
    fs += [SEP2.join(fi.get_era_names(e)) for e in xeras]
    assert len(fs) == 102
    eras = eras + xeras
    if any(SEP in f for f in fs) or any(SEP2 in f for f in fs[:90] + fs[92:97]) or any(n == "" for e in eras for n in fi.get_era_names(e)):
        blob = None
    else:
        try:
            blob = "c:" + hexs(SEP.join(fs))
        except UnicodeEncodeError:
            blob = None
    _NAME2BLOB[cname] = blob
    if blob:
        _BLOB2NAME[blob] = cname
    return blob


# ---------------------------------------------------------------------------------------------------
# case folding: `_match_case_insensitive` compares `substring.lower() == match.lower()`.  str.lower() works character
# by character except for U+0130 (lower() has two characters) and the final-sigma rule for U+03A3; the model takes the
# folding of the other non-ASCII characters as a table sent with the op and answers !dom when a character is not listed
# ---------------------------------------------------------------------------------------------------

def fold_pairs(strings):
    """[(ch, ch.lower())] for the non-ASCII characters of `strings` whose lower() is one character (not U+03A3)"""
    seen = {}
    for st in strings:
        for ch in st:
            if ord(ch) >= 128 and ch not in seen:
                lo = ch.lower()
                if len(lo) == 1 and ch != "\u03a3" and not 0xd800 <= ord(ch) <= 0xdfff:
                    seen[ch] = lo
    return seen


_CULT_STRINGS = {}


def culture_strings(cname):
    """every string of the culture a text step compares case-insensitively"""
    if cname not in _CULT_STRINGS:
        fi = c07.fmt_info(cname)
        P = c07._P()
        ss = [fi.am_designator or "", fi.pm_designator or ""]
        for t in (fi.long_month_names, fi.short_month_names, fi.long_month_genitive_names, fi.short_month_genitive_names,
                  fi.long_day_names, fi.short_day_names):
            ss += [x or "" for x in t]
        for e in list(P.CalendarSystem.iso.eras()) + other_eras():
            ss += list(fi.get_era_names(e)) + [fi.get_era_primary_name(e) or ""]
        _CULT_STRINGS[cname] = ss
    return _CULT_STRINGS[cname]


def fold_token(cname, text=""):
    d = fold_pairs(culture_strings(cname) + [text])
    if not d:
        return "-"
    try:
        return hexs("".join(k + v for k, v in d.items()))
    except UnicodeEncodeError:
        return "-"


def fold_lower(table):
    """the model's folding as a string function: ASCII by ascii_lower, other characters by the table"""
    def low(st):
        return "".join(chr(ord(ch) + 32) if "A" <= ch <= "Z" else (ch if ord(ch) < 128 else table.get(ch, ch)) for ch in st)
    return low


def unfold_token(tok):
    st = unhex(tok)
    return {st[i]: st[i + 1] for i in range(0, len(st) - 1, 2)}


def other_eras():
    """anno martyrum (Coptic), anno mundi (Hebrew), anno persico, anno hegirae, Bahá'í — taken from the calendars"""
    P = c07._P()
    CS = P.CalendarSystem
    out = []
    for cid in ("Coptic", "Hebrew Civil", "Persian Simple", "Hijri Civil-Indian", "Badi"):
        es = list(CS.for_id(cid).eras())
        assert len(es) == 1
        out.append(es[0])
    return out


_ORD = {}


def cal_by_ord(k):
    if not _ORD:
        P = c07._P()
        for cid in P.CalendarSystem.ids:
            c = P.CalendarSystem.for_id(cid)
            _ORD[int(c._ordinal)] = c
    return _ORD[k]


def ord_of(calid):
    return int(c07.cal(calid)._ordinal)


def describe(u):
    """shape of a pattern object as the model prints it"""
    n = type(u).__name__
    if n.endswith("SteppedPattern"):
        acts = u._SteppedPattern__parse_actions
        return f"S{u._SteppedPattern__used_fields.value}/{len(acts) if acts is not None else 0}"
    if n.endswith("ZPrefixPattern"):
        return "Z(" + describe(u._ZPrefixPattern__full_pattern) + ")"
    if n.endswith("CompositePattern"):
        return "C(" + ",".join(describe(p) for p in u._CompositePattern__patterns) + ")"
    if hasattr(u, "_underlying_pattern"):
        return describe(u._underlying_pattern)
    return "?" + n


def split_type(tok):
    """'datetime:2000,1,1,0' -> ('datetime', (2000, 1, 1, 0)); other types have no template"""
    if tok.startswith("dateC:"):
        return "date", tuple(int(x) for x in tok.split(":", 1)[1].split(","))
    if tok.startswith("datetimeC:"):
        return "datetime", tuple(int(x) for x in tok.split(":", 1)[1].split(","))
    if tok.startswith("datetime"):
        if ":" in tok:
            return "datetime", tuple(int(x) for x in tok.split(":", 1)[1].split(","))
        return "datetime", DEFAULT_TMPL
    if tok.startswith("annual"):
        if ":" in tok:
            return "annual", tuple(int(x) for x in tok.split(":", 1)[1].split(","))
        return "annual", (1, 1)
    return tok, None


_TPATS = {}


def create_t(tok, text, cname, fresh=False):
    """pattern creation through the public API for a type token (LocalDateTime: with the token's template value)"""
    ty, tm = split_type(tok)
    if ty not in ("datetime", "annual") and not tok.startswith("dateC:"):
        return c07._fresh(ty, text, cname, "ISO") if fresh else c07.create(ty, text, cname)
    k = (tok, text, cname)
    if not fresh and k in _TPATS:
        return _TPATS[k]
    P = c07._P()
    T = c07._T()
    if ty == "annual":
        pat = T.AnnualDatePattern.create(text, c07.culture(cname), P.AnnualDate(tm[0], tm[1]))
    elif tok.startswith("dateC:"):
        pat = T.LocalDatePattern.create(text, c07.culture(cname), P.LocalDate(tm[1], tm[2], tm[3], cal_by_ord(tm[0])))
    elif tok.startswith("datetimeC:"):
        tv = P.LocalDate(tm[1], tm[2], tm[3], cal_by_ord(tm[0])).at(P.LocalTime.from_nanoseconds_since_midnight(tm[4]))
        pat = T.LocalDateTimePattern.create(text, c07.culture(cname), tv)
    else:
        tv = P.LocalDate(tm[0], tm[1], tm[2]).at(P.LocalTime.from_nanoseconds_since_midnight(tm[3]))
        pat = T.LocalDateTimePattern.create(text, c07.culture(cname), tv)
    if len(_TPATS) > 20000:
        _TPATS.clear()
    _TPATS[k] = pat
    return pat


def underlying(pat):
    """the pattern object behind the public wrappers (DurationPattern, InstantPattern and the Instant adapter keep it
    in a private attribute `__pattern`)"""
    for _ in range(6):
        if hasattr(pat, "_underlying_pattern"):
            pat = pat._underlying_pattern
            continue
        priv = [k for k in getattr(pat, "__dict__", {}) if k.endswith("__pattern")]
        if not priv:
            break
        pat = getattr(pat, priv[0])
    return pat


def impl(t):
    op = t[0]
    if op.startswith("pcur."):
        from pyoda_time.text.patterns._pattern_cursor import _PatternCursor
        if op == "pcur.quoted":
            q = chr(int(t[1]))
            c = _PatternCursor(q + unhex(t[2]))
            c.move_next()
            s = c.get_quoted_string(q)
            return f"ok {hexs(s)} {c.index}"
        if op == "pcur.repeat":
            ch = chr(int(t[1]))
            c = _PatternCursor(ch + unhex(t[2]))
            c.move_next()
            return f"ok {c.get_repeat_count(int(t[3]))}"
        if op == "pcur.embedded":
            c = _PatternCursor("l" + unhex(t[1]))
            c.move_next()
            s = c.get_embedded_pattern()
            return f"ok {hexs(s)} {c.index}"
    if op == "pat.calids":
        return hexs(SEP.join(c07._P().CalendarSystem.ids))
    if op == "inst.extents":
        P = c07._P()
        return "1" if all(c07.INST_MIN_DAYS <= cal_by_ord(k)._min_days and cal_by_ord(k)._max_days <= c07.INST_MAX_DAYS for k in range(19)) else "0"
    if op == "pat.calords":
        return hexs(SEP.join(cal_by_ord(k).id for k in range(19)))
    if op == "cu.names":
        return names_conditions(_BLOB2NAME[t[1]], fold_lower(unfold_token(t[2])) if len(t) > 2 else ascii_lower)
    if op in ("inst.fmt", "inst.parse"):
        # the Instant adapter: values as (day number, nanosecond of day)
        text, cname = unhex(t[1]), _BLOB2NAME[t[2]]
        pat = c07.create("instant", text, cname)
        P = c07._P()
        if op == "inst.fmt":
            days, nod = int(t[3]), int(t[4])
            if days < c07.INST_MIN_DAYS:
                x = P.Instant._before_min_value()
            elif days > c07.INST_MAX_DAYS:
                x = P.Instant._after_max_value()
            else:
                x = P.Instant._ctor(days=days, nano_of_day=nod)
            return hexs(pat.format(x))
        r = pat.parse(unhex(t[3]))
        if not r.success:
            return "fail"
        return f"ok {r.value._days_since_epoch} {r.value._nanosecond_of_day}"
    if op == "pat.compile":
        tok, text, cname = t[1], unhex(t[2]), _BLOB2NAME[t[3]]
        pat = create_t(tok, text, cname, fresh=True)
        return "ok " + describe(underlying(pat))
    if op == "pat.fmt":
        tok, text, cname = t[1], unhex(t[2]), _BLOB2NAME[t[3]]
        ty = split_type(tok)[0]
        pat = create_t(tok, text, cname)
        a = [int(x) for x in t[4:]]
        return hexs(pat.format(value_of(ty, a)))
    if op == "pat.parse":
        tok, text, cname = t[1], unhex(t[2]), _BLOB2NAME[t[3]]
        ty = split_type(tok)[0]
        pat = create_t(tok, text, cname)
        r = pat.parse(unhex(t[4]))
        if not r.success:
            return "fail"
        return "ok " + " ".join(str(x) for x in fields_of(ty, r.value))
    raise ValueError("unknown op " + op)


def value_of(ty, a):
    P = c07._P()
    if ty == "time":
        return P.LocalTime.from_nanoseconds_since_midnight(a[0])
    if ty == "date":
        return P.LocalDate(a[0], a[1], a[2]) if len(a) == 3 else P.LocalDate(a[0], a[1], a[2], cal_by_ord(a[3]))
    if ty == "offset":
        return P.Offset.from_seconds(a[0])
    if ty == "datetime":
        d = P.LocalDate(a[0], a[1], a[2]) if len(a) == 4 else P.LocalDate(a[0], a[1], a[2], cal_by_ord(a[4]))
        return d.at(P.LocalTime.from_nanoseconds_since_midnight(a[3]))
    if ty == "annual":
        return P.AnnualDate(a[0], a[1])
    if ty == "duration":
        return P.Duration._ctor(days=a[0], nano_of_day=a[1])
    if ty == "instant":
        return P.Instant._ctor(days=P.LocalDate(a[0], a[1], a[2])._days_since_epoch, nano_of_day=a[3])
    raise ValueError(ty)


def fields_of(ty, x):
    if ty == "time":
        return [x.nanosecond_of_day]
    if ty == "date":
        return [x.year, x.month, x.day] + ([int(x.calendar._ordinal)] if x.calendar.id != "ISO" else [])
    if ty == "offset":
        return [x.seconds]
    if ty == "datetime":
        return [x.year, x.month, x.day, x.nanosecond_of_day] + ([int(x.calendar._ordinal)] if x.calendar.id != "ISO" else [])
    if ty == "annual":
        return [x.month, x.day]
    if ty == "duration":
        return [x._floor_days, x._nanosecond_of_floor_day]
    if ty == "instant":
        ldt = x.in_utc().local_date_time
        return [ldt.year, ldt.month, ldt.day, ldt.nanosecond_of_day]
    raise ValueError(ty)


def oracle(t):
    """the property at the op's input, on the real code"""
    import c08
    op = t[0]
    if op == "pat.compile":
        tok, text, cname = t[1], unhex(t[2]), _BLOB2NAME[t[3]]
        ty, tm = split_type(tok)
        f = c08.oracle_create((ty, text, cname))
        if f or tm in (None, DEFAULT_TMPL):
            return f
        T = c07._T()
        try:
            create_t(tok, text, cname, fresh=True)
        except T.InvalidPatternError:
            return None
        except Exception as e:  # noqa: BLE001
            return fail("create-raises-" + type(e).__name__ + c08._where(e), f"LocalDateTimePattern.create({text!r}, culture {cname!r}, template {tm}) raised {type(e).__name__}: {str(e)[:120]}")
        return None
    if op == "pat.parse":
        tok, text, cname = t[1], unhex(t[2]), _BLOB2NAME[t[3]]
        ty = split_type(tok)[0]
        try:
            pat = create_t(tok, text, cname)
        except Exception:  # noqa: BLE001
            return None
        return c08.parse_failure(ty, pat, unhex(t[4]), f"{c07.PCLS[ty]} {text!r} culture {cname!r}" + (f" template {tok}" if ":" in tok else ""))
    if op == "pat.fmt":
        tok, text, cname = t[1], unhex(t[2]), _BLOB2NAME[t[3]]
        ty = split_type(tok)[0]
        a = [int(x) for x in t[4:]]
        try:
            pat = create_t(tok, text, cname)
            x = value_of(ty, a)
        except Exception:  # noqa: BLE001
            return None
        label = f"{c07.PCLS[ty]} {text!r} culture {cname!r}" + (f" template {tok}" if ":" in tok else "")
        try:
            s1 = pat.format(x)
            s2 = pat.format(value_of(ty, a))
        except Exception as e:  # noqa: BLE001
            return fail("format-raises-" + type(e).__name__, f"{label}: format({a!r}) raised {type(e).__name__}: {e}")
        if s1 != s2:
            return fail("format-nondeterministic", f"{label}: format({a!r}) gave {s1!r} then {s2!r}")
        return c08.parse_failure(ty, pat, s1, label)
    if op in ("inst.fmt", "inst.parse"):
        text, cname = unhex(t[1]), _BLOB2NAME[t[2]]
        try:
            pat = c07.create("instant", text, cname)
        except Exception:  # noqa: BLE001
            return None
        label = f"InstantPattern {text!r} culture {cname!r}"
        if op == "inst.parse":
            return c08.parse_failure("instant", pat, unhex(t[3]), label)
        days, nod = int(t[3]), int(t[4])
        if not c07.INST_MIN_DAYS <= days <= c07.INST_MAX_DAYS:
            return None
        try:
            s1 = pat.format(c07.mk("instant", (days, nod)))
        except Exception as e:  # noqa: BLE001
            return fail("format-raises-" + type(e).__name__, f"{label}: format({(days, nod)!r}) raised {type(e).__name__}: {e}")
        return c08.parse_failure("instant", pat, s1, label)
    if op.startswith("pcur."):
        got = c07.guard(impl, t)
        if got.startswith("!") and got != "!invalidPattern":
            return fail("pattern-cursor-raises-" + got[1:], f"{' '.join(t[:2])}: the pattern cursor raised {got[1:]} (only InvalidPatternError is documented)")
    return None


# ---------------------------------------------------------------------------------------------------
# generators
# ---------------------------------------------------------------------------------------------------

MODEL_TYPES = ["time", "date", "offset", "datetime", "annual", "duration", "instant"]


def type_token(rng, ty):
    """the op's type token: LocalDateTime patterns mostly with the default template, sometimes another ISO one"""
    if ty in ("date", "datetime") and rng.random() < (0.3 if ty == "date" else 0.2):
        # a template value in any of the 19 calendars (ordinal in the token)
        calid = rng.choice(c07.cal_ids())
        c = c07.cal(calid)
        v = None
        if rng.random() < 0.3:
            y = rng.randint(c.min_year, c.max_year)
            m = c.get_months_in_year(y) - rng.choice([0, 0, 1])
            v = c07.date_from_days(calid, c07._P().LocalDate(y, m, rng.choice([1, c.get_days_in_month(y, m)]), c)._days_since_epoch)
        v = v or c07.gen_value(rng, "date", calid)
        if v is not None:
            if ty == "date":
                return f"dateC:{ord_of(calid)},{v[1]},{v[2]},{v[3]}"
            nod = rng.choice([0, 0, c07.gen_nod(rng), 13 * c07.NPH + 30 * c07.NPM])
            return f"datetimeC:{ord_of(calid)},{v[1]},{v[2]},{v[3]},{nod}"
    if ty == "annual" and rng.random() < 0.3:
        m = rng.randint(1, 12)
        return f"annual:{m},{rng.choice([1, 28, 29, [31, 29, 31, 30, 31, 30, 31, 31, 30, 31, 30, 31][m - 1]])}"
    if ty != "datetime" or rng.random() < 0.7:
        return ty
    y = rng.choice([2000, 1999, 2024, 1, -5, 9999, -9998, 1950, 150, rng.randint(-9998, 9999)])
    m = rng.randint(1, 12)
    d = rng.choice([1, 28, 29, 30, 31, rng.randint(1, 28)])
    dim = [31, 29 if (y % 4 == 0 and (y % 100 != 0 or y % 400 == 0)) else 28, 31, 30, 31, 30, 31, 31, 30, 31, 30, 31][m - 1]
    d = min(d, dim)
    nod = rng.choice([0, 0, c07.gen_nod(rng), 13 * c07.NPH + 30 * c07.NPM, 23 * c07.NPH + 59 * c07.NPM + 59 * c07.NPS + 999_999_999])
    return f"datetime:{y},{m},{d},{nod}"
CUR_POOL = list("abHm'\"\\<>%. Z0") + ["é", "\0", "日"]


def gen_cursor_ops(ctx, n):
    rng = ctx.rng
    ops = []
    fixed = ["", "'", "abc'", "abc", "a\\'b'c", "\\", "a\\", "''", "\"", "x\"y", "\\\\'"]
    for q in "'\"":
        for s in fixed:
            ops.append(f"pcur.quoted {ord(q)} {hexs(s)}")
    for s in ["", "<", "<>", "<a>", "<a", "a>", "<<a>>", "<<a>", "<'>'>", "<'>", "<\\>>", "<\\", "<a>b", "<\"<\">x", "x<a>", "<a'b\\'c'>"]:
        ops.append(f"pcur.embedded {hexs(s)}")
    for _ in range(n):
        k = rng.randint(0, 8)
        s = "".join(rng.choice(CUR_POOL) for _ in range(k))
        try:
            h = hexs(s)
        except UnicodeEncodeError:
            continue
        ops.append(f"pcur.quoted {ord(rng.choice(chr(39) + chr(34)))} {h}")
        ops.append(f"pcur.embedded {hexs(rng.choice(['<', '<', '', 'x']) + s + rng.choice(['>', '>', '', '>>']))}")
        ch = rng.choice("HMdy.F")
        ops.append(f"pcur.repeat {ord(ch)} {hexs(ch * rng.randint(0, 6) + rng.choice(['', 'x', ch.lower(), ':']))} {rng.randint(1, 5)}")
    return ops


def gen_compile_ops(ctx, n, cnames):
    """valid and malformed pattern texts of the three modelled types"""
    import c08
    rng = ctx.rng
    ops = ["pat.calids", "pat.calords", "inst.extents"]
    pool = list("HhmsfFtTuyMdcglZDS+-:/.;'\"\\%<> ,xQ0\0é") + ["''", "'x'", "\\\\"]
    texts = []
    for ty in MODEL_TYPES:
        for b in c08.BAD_FORMS:
            texts.append((ty, b))
        for ch in "abcdefghijklmnopqrstuvwxyzABCDEFGHIJKLMNOPQRSTUVWXYZ%'\"\\/:.;+-<> 5":
            texts.append((ty, ch))
            texts.append((ty, "%" + ch))
    if "datetime" in MODEL_TYPES:
        # embedded date / time / date-time patterns next to every other field: which combinations creation refuses
        import text_entrypoints as te
        for e in te.EMBEDDED:
            for f in te.FIELD_SPECS:
                texts += [("datetime", f"{e} {f}"), ("datetime", f"{f} {e}")]
    for _ in range(n):
        ty = rng.choice(MODEL_TYPES)
        c = rng.random()
        s = c07.gen_custom(rng, ty)
        if c < 0.45:
            pass
        elif c < 0.8:
            s = c08.mutate_pattern(rng, s, pool)
        elif c < 0.9:
            s = c08.mutate_pattern(rng, c08.mutate_pattern(rng, s, pool), pool)
        else:
            s = "".join(rng.choice(pool) * rng.choice([1, 1, 1, 2, 3, 4, 5, 10]) for _ in range(rng.randint(1, 6)))
        texts.append((ty, s))
    for ty, s in texts:
        try:
            h = hexs(s)
        except UnicodeEncodeError:
            continue
        cn = "" if rng.random() < 0.7 or len(cnames) < 2 else rng.choice(cnames[1:])
        blob = culture_blob(cn)
        if blob is None:
            blob = "inv"
        ops.append(f"pat.compile {type_token(rng, ty)} {h} {blob}")
    # every standard letter in every sampled culture
    for cn in cnames:
        blob = culture_blob(cn)
        if blob is None:
            continue
        for ty in MODEL_TYPES:
            for ch in c07.STANDARD[ty]:
                ops.append(f"pat.compile {ty} {hexs(ch)} {blob}")
    return ops


# LocalDateTime patterns that exercise the date/time combination rules (24:00, 12-hour fields with 24, template parts)
DT_FIXED_PATTERNS = ["uuuu-MM-dd HH:mm", "uuuu-MM-dd HH:mm:ss", "HH uuuu/MM/dd", "uuuu-MM-dd HH", "dd/MM/yyyy HH:mm tt", "uuuu-MM-dd HH hh",
                     "uuuu-MM-dd HH:mm:ss.FFF", "MM-dd HH:mm", "yyyy-MM-dd HH:mm gg", "yy-M-d H:m:s", "uuuu MMM dd HH:mm", "dddd dd MMMM uuuu HH:mm",
                     "uuuu-MM-dd'T'HH:mm:ss;FFFFFFFFF", "HH:mm", "uuuu-MM-dd h:mm t", "uuuu-MM-dd hh tt HH"]


DURATION_EXTREMES = ["-1073741824:00:00:00", "-1073741824:00:00:00.000000001", "1073741823:23:59:59.999999999", "1073741824:00:00:00",
                     "-25769803776:00:00", "25769803775:59:59.999999999", "25769803776:00:00", "-25769803776:00:00.000000001", "0:00:00:00", "-0:00:00:00"]


def hour24_variants(rng, txt):
    """texts with an hour field of 24 (and midnight / non-midnight remainders) spliced into a formatted value"""
    out = []
    runs = [(i, j) for (i, j) in __import__("c08").digit_runs(txt) if j - i <= 2]
    for _ in range(2):
        if not runs:
            break
        i, j = rng.choice(runs)
        t = txt[:i] + "24" + txt[j:]
        out.append(t)
        # zero the other short runs so that 24:00 is actually reached sometimes
        cs = list(t)
        for (a, b) in runs:
            if a > i and rng.random() < 0.8:
                for k in range(a, b):
                    if k + (2 - (j - i)) < len(cs) and cs[k + (2 - (j - i))].isdigit():
                        cs[k + (2 - (j - i))] = "0"
        out.append("".join(cs))
    return out


def gen_engine_ops(ctx, npat, cnames, hostile):
    """pat.fmt for arbitrary values and pat.parse for the produced texts (plus mutations when `hostile`)
    over generated and standard patterns of the modelled types"""
    import c08
    rng = ctx.rng
    fmt_ops, parse_ops = [], []
    pats = []
    for _ in range(npat):
        ty = rng.choices(MODEL_TYPES, [4, 4, 2, 6, 2, 5, 2])[0]
        pats.append((ty, c07.gen_custom(rng, ty)))
    for ty in MODEL_TYPES:
        for ch in c07.STANDARD[ty]:
            pats.extend([(ty, ch)] * 3)
    pats.extend(("datetime", p) for p in DT_FIXED_PATTERNS)
    # embedded patterns (their own bucket, the outer template's date / time as template), mostly with a template value
    for _ in range(max(20, npat // 12)):
        d = c07.join_fields(rng, "date", c07.gen_date_fields(rng, with_cal=False) or ["uuuu"])
        t = c07.join_fields(rng, "time", c07.gen_time_fields(rng) or ["HH"])
        parts = ["ld<" + d + ">", "lt<" + t + ">"] if rng.random() < 0.7 else (["ld<" + d + ">", t] if rng.random() < 0.5 else [d, "lt<" + t + ">"])
        if rng.random() < 0.3:
            parts.reverse()
        pats.append(("datetime!", parts[0] + c07.lit(rng, "datetime") + parts[1]))
    pats.extend([("datetime!", "ld<yyyy-MM-dd>'T'lt<HH:mm:ss>"), ("datetime!", "ld<d>lt<HH>"), ("datetime!", "lt<HH:mm:ss.FFF>' 'ld<D>")])
    for ty, text in pats:
        try:
            h = hexs(text)
        except UnicodeEncodeError:
            continue
        cn = "" if rng.random() < 0.6 or len(cnames) < 2 else rng.choice(cnames[1:])
        blob = culture_blob(cn)
        if blob is None:
            cn, blob = "", "inv"
        force_tmpl = ty.endswith("!")
        ty = ty.rstrip("!")
        tok = type_token(rng, ty)
        if force_tmpl and tok == "datetime" and rng.random() < 0.8:
            for _ in range(20):
                tok = type_token(rng, ty)
                if tok != "datetime":
                    break
        try:
            pat = create_t(tok, text, cn)
        except Exception:  # noqa: BLE001 — creation is the compile suite's business
            continue
        info = c07.analyse(ty, c07.effective_text(ty, text, cn), cn)
        tcal = "ISO"
        if tok.startswith(("dateC:", "datetimeC:")):
            tcal = cal_by_ord(int(tok.split(":")[1].split(",")[0])).id
        forced = []
        if ty == "duration" and text in ("o", "j"):
            forced = [(c07.DUR_MIN_DAYS, 0), (c07.DUR_MAX_DAYS, c07.NPD - 1), (c07.DUR_MIN_DAYS, 1), (-1, c07.NPD - 1), (-1, 0), (0, 0), (-1, 1), (0, c07.NPD - 1)]
        for rep in range(4 + len(forced)):
            v = None
            if rep >= 4:
                v = forced[rep - 4]
            vcal = tcal
            if ty in ("date", "datetime") and info.ok and "c" in info.f and rng.random() < 0.7:
                vcal = rng.choice(c07.cal_ids())       # the calendar field: values of any calendar
            if v is None and info.ok and rng.random() < 0.6:
                v = c07.representable(rng, ty, info, pat, vcal)
            if v is None:
                v = c07.gen_value(rng, ty, vcal) if ty in ("date", "datetime") else c07.gen_value(rng, ty)
            if v is None:
                continue
            if ty == "instant":
                a = fields_of("instant", c07.mk("instant", v))
            elif ty in ("date", "datetime"):
                a = list(v[1:]) + ([ord_of(v[0])] if v[0] != "ISO" else [])
            else:
                a = list(v) if ty in ("annual", "duration") else [v]
            fmt_ops.append(f"pat.fmt {tok} {h} {blob} " + " ".join(str(x) for x in a))
            if ty == "instant":
                fmt_ops.append(f"inst.fmt {h} {blob} {v[0]} {v[1]}")
                if rep == 0:
                    for dd, nn in ((c07.INST_MIN_DAYS, 0), (c07.INST_MAX_DAYS, c07.NPD - 1), (c07.INST_MIN_DAYS - 1, 0), (c07.INST_MAX_DAYS + 1, 0),
                                   (-25567, 0), (-25568, c07.NPD - 1), (47846, 5), (47847, 0), (0, 0), (-1, c07.NPD - 1)):
                        fmt_ops.append(f"inst.fmt {h} {blob} {dd} {nn}")
            try:
                txt = pat.format(c07.mk(ty, v))
            except Exception:  # noqa: BLE001
                continue
            texts = [txt]
            if hostile:
                texts += [c08.mutate(rng, txt), c08.mutate(rng, txt)] + c08.out_of_range_variants(rng, txt, 2)
                if rng.random() < 0.1:
                    texts += ["", txt + "\0", txt.swapcase()]
            if ty in ("date", "datetime") and v[0] in txt and info.ok and "c" in info.f:
                for oc in rng.sample(c07.cal_ids(), 2):
                    texts.append(txt.replace(v[0], oc))          # the fields of one calendar read under another
            if ty == "datetime" and "H" in text:
                texts += hour24_variants(rng, txt)
            if ty == "duration" and text in ("o", "j"):
                texts += rng.sample(c08.builtin_out_of_range("duration"), 12) + DURATION_EXTREMES
            for tx in texts:
                try:
                    parse_ops.append(f"pat.parse {tok} {h} {blob} {hexs(tx)} {fold_token(cn, tx)}")
                    if ty == "instant":
                        parse_ops.append(f"inst.parse {h} {blob} {hexs(tx)} {fold_token(cn, tx)}")
                except UnicodeEncodeError:
                    pass
    return fmt_ops, parse_ops


def run_engine_correspondence(ctx, hostile):
    """generic engine vs the real patterns: format (string equality) and parse (outcome and value)"""
    if not c07.model_available():
        return
    cnames = c07.culture_names(ctx, 8)
    fmt_ops, parse_ops = gen_engine_ops(ctx, ctx.scale(900 if hostile else 1500, 40_000), cnames, hostile)
    ctx.correspond("text.pat.fmt", fmt_ops, impl, oracle=oracle, driver="drv_text")
    ctx.correspond("text.pat.parse", parse_ops, impl, oracle=oracle, driver="drv_text")
    # how many of the generated patterns does the round-trip theorem's decidable criterion cover? (information only)
    seen, dl = set(), []
    for op in fmt_ops:
        t = op.split(" ")
        if t[0] != "pat.fmt":
            continue
        key = " ".join(t[1:4])
        if key not in seen:
            seen.add(key)
            dl.append("pat.delim " + key + " " + fold_token(_BLOB2NAME.get(t[3], "")))
    rep = c07.model_eval(dl, "drv_text")
    ctx.note("stepped_roundtrip:Delimited-holds", {"patterns": len(rep), "delimited": rep.count("1"), "not": rep.count("0"), "not-stepped": rep.count("-")})
    ctx.note("segmented_roundtrip:DelimitedSegs-holds", {"patterns-with-embedded-parts": rep.count("3") + rep.count("2"), "delimited": rep.count("3"), "not": rep.count("2")})
    # compileDate_wf / compileDateTime_wf say every accepted date-like pattern passes the decidable check; evaluated here as well
    wl = ["pat.wf " + " ".join(x.split(" ")[1:4]) for x in dl if x.split(" ")[1].split(":")[0] in ("date", "datetime", "annual", "instant", "dateC", "datetimeC")]
    wrep = c07.model_eval(wl, "drv_text")
    if "0" in wrep:
        raise c07.InfraError("pat.wf = 0 for an accepted pattern (contradicts compileDate_wf / compileDateTime_wf): " + wl[wrep.index("0")])
    ctx.note("success_value_valid:dtWF-holds", {"patterns": len(wrep), "wf": wrep.count("1"), "segWF(embedded parts)": wrep.count("2"), "other": wrep.count("-")})
    for k in ("text.pat.fmt", "text.pat.parse"):
        st = ctx.suites.get(k)
        if st:
            ctx.note(k + ":outside-modelled-subset(!dom)", st["skipped_dom"])


# ---------------------------------------------------------------------------------------------------
# NamesOK: the decidable name-table conditions of the text-step theorems, evaluated on the code's format info
# ---------------------------------------------------------------------------------------------------

def ascii_lower(s):
    return "".join(chr(ord(ch) + 32) if "A" <= ch <= "Z" else ch for ch in s)


def _tables(cname):
    fi = c07.fmt_info(cname)
    P = c07._P()
    eras = list(P.CalendarSystem.iso.eras())

    def tab(t, n):
        t = list(t)
        return [(x or "") for x in (t + [""] * n)[:n]]
    return {"m3g": tab(fi.short_month_genitive_names, 14), "m3p": tab(fi.short_month_names, 14), "m4g": tab(fi.long_month_genitive_names, 14),
            "m4p": tab(fi.long_month_names, 14), "d3": tab(fi.short_day_names, 8), "d4": tab(fi.long_day_names, 8),
            "am": fi.am_designator or "", "pm": fi.pm_designator or "",
            "era": [(0, n) for n in fi.get_era_names(eras[0])] + [(1, n) for n in fi.get_era_names(eras[1])],
            "eraP": [fi.get_era_primary_name(eras[0]) or "", fi.get_era_primary_name(eras[1]) or ""]}


def _table_ok(fmt, t1, t2, lo, hi, low):
    """-> (ok, danger characters, [(K, name, index, extending candidate)])"""
    ok, danger, exts = True, [], []
    for K in range(lo, hi + 1):
        a = fmt[K] if K < len(fmt) else None
        if a is None:
            ok = False
            continue
        if a == "":
            ok = False
        for t in (t1, t2 or []):
            for p, c in enumerate(t):
                if p != K and len(c) == len(a) and low(c) == low(a):
                    ok = False
        for t in (t1, t2 or []):
            for p, c in enumerate(t):
                if len(c) > len(a) and low(c[:len(a)]) == low(a):
                    danger.append(low(c[len(a)]))
                    exts.append((K, a, p, c))
    return ok, danger, exts


def names_analysis(cname, low):
    """the NamesOK conditions with the case folding `low` (ascii_lower = the model's; str.lower = the code's)"""
    T = _tables(cname)
    out = {}
    for cnt, g, p in ((3, "m3g", "m3p"), (4, "m4g", "m4p")):
        t1, t2 = T[g], (None if T[p] == T[g] else T[p])
        out[f"m{cnt}g"] = _table_ok(T[g], t1, t2, 1, 12, low)
        out[f"m{cnt}p"] = _table_ok(T[p], t1, t2, 1, 12, low)
    for cnt in (3, 4):
        out[f"d{cnt}"] = _table_ok(T[f"d{cnt}"], T[f"d{cnt}"], None, 1, 7, low)
    am, pm = T["am"], T["pm"]
    for cnt in (1, 2):
        if not am or not pm:
            ok = True
        elif cnt == 1:
            ok = low(am[:1]) != low(pm[:1])
        else:
            L, S = (pm, am) if len(pm) > len(am) else (am, pm)
            ok = low(L[:len(S)]) != low(S)
        out[f"t{cnt}"] = (ok, [], [])
    if not am and not pm:
        dn = []
    elif not am:
        dn = [low(pm[:1])]
    elif not pm:
        dn = [low(am[:1])]
    else:
        dn = []
    out["tdanger"] = dn
    eok, edanger, eext = True, [], []
    for e in (0, 1):
        Pn = T["eraP"][e]
        res = None
        ds = []
        for (e2, n) in T["era"]:
            if len(n) <= len(Pn) and low(Pn[:len(n)]) == low(n):
                res = (len(n) == len(Pn) and e2 == e)
                break
            if len(n) > len(Pn) and low(n[:len(Pn)]) == low(Pn):
                ds.append(low(n[len(Pn)]))
                eext.append((e, Pn, e2, n))
        if not res or Pn == "":
            eok = False
        if res:
            edanger += ds
    out["era"] = (eok, edanger, eext)
    return out


def names_conditions(cname, low):
    """reply of op cu.names"""
    a = names_analysis(cname, low)
    bits = "".join("1" if a[k][0] else "0" for k in ("m3g", "m3p", "m4g", "m4p", "d3", "d4", "t1", "t2", "era"))
    dangers = ["".join(a[k][1]) for k in ("m3g", "m3p", "m4g", "m4p", "d3", "d4")] + ["".join(a["tdanger"]), "".join(a["era"][1])]
    return bits + " " + hexs(SEP.join(dangers))


def hazard_examples(cname):
    """concrete (pattern, value) pairs, run on the real code, that do not round-trip because of the culture's name
    tables (case folding as the code does it); at most one per kind"""
    P, T = c07._P(), c07._T()
    a = names_analysis(cname, str.lower)
    cu = c07.culture(cname)
    out = []

    def q(x):
        return "'" + x.replace("\\", "\\\\").replace("'", "\\'") + "'"

    def try_(cls, ptext, v, kind):
        try:
            pat = cls.create(ptext, cu)
            s = pat.format(v)
            r = pat.parse(s)
        except Exception as e:  # noqa: BLE001
            out.append({"kind": kind, "pattern": ptext, "value": str(v), "raised": type(e).__name__})
            return
        if not r.success or r.value != v:
            out.append({"kind": kind, "pattern": ptext, "value": repr(v), "text": s, "parsed": (repr(r.value) if r.success else "failure")})

    for k, gen, cnt in (("m3p", False, 3), ("m3g", True, 3), ("m4p", False, 4), ("m4g", True, 4)):
        ok, dn, exts = a[k]
        if exts:
            K, nm, p, c = exts[0]
            try_(T.LocalDatePattern, ("dd " if gen else "") + "M" * cnt + q(c[len(nm):]) + " uuuu", P.LocalDate(2021, K, 5), "month-name-extended:" + k)
    for k, cnt in (("d3", 3), ("d4", 4)):
        ok, dn, exts = a[k]
        if exts:
            K, nm, p, c = exts[0]
            try_(T.LocalDatePattern, "d" * cnt + q(c[len(nm):]) + " uuuu-MM-dd", P.LocalDate(2021, 3, K), "day-name-extended:" + k)  # 2021-03-01 is a Monday
    if not a["t1"][0]:
        try_(T.LocalTimePattern, "h:mm t", P.LocalTime(15, 30), "am-pm-first-characters-equal")
    if not a["t2"][0]:
        try_(T.LocalTimePattern, "h:mm tt", P.LocalTime(15, 30), "am-pm-designator-prefix")
    ok, dn, exts = a["era"]
    if not ok:
        try_(T.LocalDatePattern, "yyyy gg MM dd", P.LocalDate(-5, 1, 8), "era-primary-name-misread")
        try_(T.LocalDatePattern, "yyyy gg MM dd", P.LocalDate(5, 1, 8), "era-primary-name-misread")
    return out


def run_names(ctx):
    """model-vs-harness agreement on the NamesOK conditions (ASCII folding) for the cultures of the run, and the list
    of cultures whose tables fail them / carry extension hazards, with concrete non-round-tripping values"""
    if not c07.model_available():
        return
    cnames = c07.culture_names(ctx, 40)
    ops = []
    for cn in cnames:
        blob = culture_blob(cn)
        if blob is not None:
            ops.append(f"cu.names {blob} {fold_token(cn)}")
    ctx.correspond("text.names", ops, impl, driver="drv_text")
    failing, extended, examples = {}, {}, {}
    for cn in cnames:
        a = names_analysis(cn, str.lower)
        bad = [k for k in ("m3g", "m3p", "m4g", "m4p", "d3", "d4", "t1", "t2", "era") if not a[k][0]]
        ext = [k for k in ("m3g", "m3p", "m4g", "m4p", "d3", "d4", "era") if a[k][1]]
        if bad:
            failing[cn or "(invariant)"] = bad
        if ext:
            extended[cn or "(invariant)"] = {k: "".join(sorted(set(a[k][1]))) for k in ext}
        if bad or any(k != "era" for k in ext):
            ex = hazard_examples(cn)
            if ex:
                examples[cn or "(invariant)"] = ex[:3]
    ctx.note("NamesOK:cultures-evaluated", len(cnames))
    ctx.note("NamesOK:failing(tables that cannot be told apart)", failing)
    ctx.note("NamesOK:extension-hazards(a following literal can continue a name)", dict(list(extended.items())[:60]))
    ctx.note("NamesOK:concrete-non-round-trips", dict(list(examples.items())[:40]))


def culture_hypotheses(ctx, cnames):
    """the decidable culture conditions the theorems assume (compileOffset_total: offsetTextsCustom;
    date/datetime/annual/instant_success_valid: monthHeadsEmpty), evaluated by the model on the culture records of this
    run and, independently, on the code's format info; cultures failing one are recorded in the notes (the theorem does
    not speak about them).  The second flag of cu.check (dtTextsNoL) is no longer a hypothesis of any theorem."""
    ops, names = [], []
    for cn in cnames:
        blob = culture_blob(cn)
        if blob is None:
            continue
        ops.append(f"cu.check {blob}")
        names.append(cn)
    rep = c07.model_eval(ops, "drv_text")
    failing = {"offsetTextsCustom": [], "dtTextsNoL": [], "monthHeadsEmpty": []}
    for cn, r in zip(names, rep):
        fi = c07.fmt_info(cn)
        d = fi.date_time_format
        own = [all(len(x) >= 2 for x in [fi.offset_pattern_long, fi.offset_pattern_medium, fi.offset_pattern_short, fi.offset_pattern_long_no_punctuation,
                                         fi.offset_pattern_medium_no_punctuation, fi.offset_pattern_short_no_punctuation]),
               all("l" not in (x or "") for x in [d.long_date_pattern, d.short_time_pattern, d.full_date_time_pattern, d.short_date_pattern, d.long_time_pattern]),
               all((list(t) + [""])[0] in ("", None) for t in [fi.long_month_names, fi.short_month_names, fi.long_month_genitive_names, fi.short_month_genitive_names])]
        got = [x == "1" for x in r.split(" ")]
        if got != own:
            raise c07.InfraError(f"cu.check for culture {cn!r}: model {got} / harness {own}")
        for k, ok in zip(failing, got):
            if not ok:
                failing[k].append(cn)
    ctx.note("culture-hypotheses:evaluated", len(names))
    ctx.note("culture-hypotheses:failing", {k: v for k, v in failing.items() if k != "dtTextsNoL"})


def run_compile_correspondence(ctx):
    if not c07.model_available():
        return
    cnames = c07.culture_names(ctx, 8)
    # data hypothesis of compileOffset_total: the culture's offset pattern texts are custom patterns (>= 2 characters)
    def offset_texts_custom(cn):
        fi = c07.fmt_info(cn)
        ts = [fi.offset_pattern_long, fi.offset_pattern_medium, fi.offset_pattern_short, fi.offset_pattern_long_no_punctuation,
              fi.offset_pattern_medium_no_punctuation, fi.offset_pattern_short_no_punctuation]
        if all(len(x) >= 2 for x in ts):
            return None
        return fail("culture-offset-pattern-not-custom", f"culture {cn!r}: an offset pattern text has fewer than two characters: {ts!r}")
    ctx.check_cases("hypothesis.offsetTextsCustom", cnames, offset_texts_custom, exhaustive=ctx.thorough)
    culture_hypotheses(ctx, cnames)
    # hypothesis CalExtents of C08.parseInstant_spec: every calendar lies inside the Instant range (evaluated by the model)
    if c07.model_eval(["inst.extents"], "drv_text") != ["1"]:
        raise c07.InfraError("inst.extents != 1: a calendar description reaches outside the Instant range (hypothesis CalExtents)")
    ctx.note("CalExtents(evaluated by the compiled model)", 1)
    ctx.correspond("text.pcur", gen_cursor_ops(ctx, ctx.scale(1500, 100_000)), impl, oracle=oracle, driver="drv_text")
    ctx.correspond("text.pat.compile", gen_compile_ops(ctx, ctx.scale(5000, 300_000), cnames), impl, oracle=oracle, driver="drv_text")
