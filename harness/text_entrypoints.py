"""C07/C08 support: rarely used entry points of the pattern classes.

 modifiers   with_two_digit_year_max / with_template_value / with_calendar / with_culture applied in every order must
             give patterns that format and parse identically and keep every setting (C07: format -> parse)
 bclformat   format(value, spec), f-strings and __format__ must write what the pattern object created from the same
             text writes, also for pattern texts with leading / trailing spaces (C07: formatting is a function of
             (pattern, culture, value))
 annual      AnnualDate patterns WITHOUT a day (or month) field and a template value with day 29..31: parse never raises
             and a success is a valid annual date (C08)
 emptyampm   cultures whose AM and PM designators are both empty, patterns with t / tt with and without hour fields:
             parse never raises and a success is a valid time (C08)
Direct oracles on the real code."""
from __future__ import annotations

import itertools


def _P():
    import pyoda_time as P
    return P


def _T():
    from pyoda_time import text
    return text


def _cultures():
    from pyoda_time._compatibility._culture_info import CultureInfo
    out = [CultureInfo.invariant_culture]
    for n in ("en-US", "fr-FR", "fi-FI"):
        try:
            out.append(CultureInfo.get_culture_info(n))
        except Exception:  # noqa: BLE001
            pass
    return out


def check_modifiers(case):
    P, T = _P(), _T()
    kind, text, ymax, cal_id, seed = case
    cul = _cultures()[seed % len(_cultures())]
    cal = P.CalendarSystem.for_id(cal_id)
    if kind == "date":
        base = T.LocalDatePattern.create(text, _cultures()[0])
        tmpl = P.LocalDate(2000 + seed % 50, 1 + seed % 12, 1 + seed % 28)
        mk = lambda y: P.LocalDate(y, 6, 19).with_calendar(cal)  # noqa: E731
    else:
        base = T.LocalDateTimePattern.create(text, _cultures()[0])
        tmpl = P.LocalDateTime(2000 + seed % 50, 1 + seed % 12, 1 + seed % 28, seed % 24, 0, 0)
        mk = lambda y: P.LocalDateTime(y, 6, 19, 10, 30, 0).with_calendar(cal)  # noqa: E731
    mods = [("with_two_digit_year_max", lambda p: p.with_two_digit_year_max(ymax)),
            ("with_template_value", lambda p: p.with_template_value(tmpl)),
            ("with_calendar", lambda p: p.with_calendar(cal)),
            ("with_culture", lambda p: p.with_culture(cul))]
    results = {}
    for order in itertools.permutations(range(4)):
        if order[2:] == (1, 2) or order.index(1) > order.index(2):
            # with_calendar converts the current template value: only orders with the template set before the calendar
            # are comparable with each other
            continue
        p = base
        for i in order:
            p = mods[i][1](p)
        names = " -> ".join(mods[i][0] for i in order)
        have = getattr(p, "two_digit_year_max", None)
        if have is None:        # LocalDateTimePattern has no public property on this tree: the behaviour below decides
            have = getattr(p, "_LocalDateTimePattern__two_digit_year_max", ymax)
        if have != ymax:
            return {"key": "pattern-modifier-drops-setting", "what": f"{kind} pattern {text!r}: after {names} two_digit_year_max is {have}, was set to {ymax}"}
        tv = getattr(p, "template_value", None) or getattr(p, "_LocalDateTimePattern__template_value")
        if tv.calendar != cal:
            return {"key": "pattern-modifier-drops-setting", "what": f"{kind} pattern {text!r}: after {names} the template value is in {tv.calendar.id}, expected {cal.id}"}
        outs = []
        tc = tv.year - tv.year % 100
        for yy in (0, 1, 30, 31, ymax, (ymax + 1) % 100, 99):
            y = tc + yy if yy <= ymax else tc - 100 + yy
            try:
                v = (P.LocalDate(y, 6, 19, cal) if kind == "date" else P.LocalDateTime(y, 6, 19, 10, 30, 0, calendar=cal))
            except Exception:  # noqa: BLE001
                continue
            txt = p.format(v)
            r = p.parse(txt)
            outs.append((txt, r.success and r.value == v))
            if "yy" in text and "yyyy" not in text and not (r.success and r.value == v):
                return {"key": "pattern-modifier-roundtrip", "what": f"{kind} pattern {text!r} after {names} (two-digit-year max {ymax}, template {tv!r}): "
                        f"{v!r} is written {txt!r} and read back as {r.value if r.success else 'a failure'!r}"}
        results[names] = outs
    first = None
    for names, outs in results.items():
        if first is None:
            first = (names, outs)
        elif outs != first[1]:
            return {"key": "pattern-modifier-order", "what": f"{kind} pattern {text!r}: {names} and {first[0]} give patterns that behave differently: {outs[:3]} vs {first[1][:3]}"}
    return None


def check_simple_modifiers(case):
    """LocalTime / AnnualDate / Offset patterns: with_culture and with_template_value commute and equal create(...)"""
    P, T = _P(), _T()
    kind, text, ci, seed = case
    cul = _cultures()[ci % len(_cultures())]
    if kind == "time":
        PT, tmpl = T.LocalTimePattern, P.LocalTime(seed % 24, seed % 60, seed % 59)
        vals = [P.LocalTime(h, 5, 6) for h in (0, 1, 11, 12, 13, 23)]
    else:
        PT, tmpl = T.AnnualDatePattern, P.AnnualDate(1 + seed % 12, 1 + seed % 28)
        vals = [P.AnnualDate(m, d) for m, d in ((1, 1), (2, 29), (7, 31), (12, 25))]
    try:
        ref = PT.create(text, cul, tmpl)
    except Exception:  # noqa: BLE001
        return None
    base = PT.create(text, _cultures()[0])
    a = base.with_culture(cul).with_template_value(tmpl)
    b = base.with_template_value(tmpl).with_culture(cul)
    def beh(p):
        out = []
        for v in vals:
            t = p.format(v)
            r = p.parse(t)
            out.append((t, (r.value if r.success else None)))
        return out
    r0, ra, rb = beh(ref), beh(a), beh(b)
    if not (r0 == ra == rb):
        return {"key": "pattern-modifier-order", "what": f"{kind} pattern {text!r}, culture {cul.name!r}, template {tmpl!r}: create(...) gives {r0[:2]}, "
                f"with_culture().with_template_value() {ra[:2]}, with_template_value().with_culture() {rb[:2]}"}
    for p, nm in ((a, "with_culture().with_template_value()"), (b, "with_template_value().with_culture()")):
        if p.template_value != tmpl or p.pattern_text != text:
            return {"key": "pattern-modifier-drops-setting", "what": f"{kind} pattern {text!r}: after {nm} template_value={p.template_value!r} pattern_text={p.pattern_text!r}"}
    return None


REDUNDANT = [("time", "HH:mm '('hh')'"), ("time", "H '/' h tt"), ("time", "hh tt '='HH:mm:ss"), ("time", "HH tt"), ("time", "H h"), ("time", "HH:mm:ss t"),
             ("datetime", "uuuu-MM-dd HH:mm '('h tt')'"), ("datetime", "uuuu-MM-dd'T'HH:mm '('hh')'"),
             ("date", "uuuu-MM-dd '('MMMM')'"), ("date", "dd MMM MM uuuu"), ("date", "dddd dd MMMM uuuu"), ("date", "ddd uuuu-MM-dd"),
             ("date", "yyyy g uuuu-MM-dd"), ("date", "yy uuuu-MM-dd"), ("datetime", "dddd uuuu-MM-dd HH:mm"),
             ("annual", "MM MMMM dd"), ("annual", "MMM/MM/dd")]


def check_redundant_fields(case):
    """patterns that write one component twice (H and h, MM and MMMM, day and day-of-week, yyyy and uuuu): the two
    writings of every value agree with each other when read back (C07: format -> parse is the identity)"""
    P, T = _P(), _T()
    kind, text = case
    cul = _cultures()[0]
    if kind == "time":
        pat = T.LocalTimePattern.create(text, cul)
        vals = [P.LocalTime(h, m, 0) for h in range(24) for m in ((0, 7, 59) if "mm" in text else (0,))]
    elif kind == "datetime":
        pat = T.LocalDateTimePattern.create(text, cul)
        vals = [P.LocalDateTime(2021, 3, d, h, m, 0) for h in range(24) for m in (0, 59) for d in (1, 14, 31)]
    elif kind == "date":
        pat = T.LocalDatePattern.create(text, cul)
        vals = [P.LocalDate(y, m, d) for y in (1999, 2000, 2024, 2100) for m in range(1, 13) for d in (1, 15, 28)] + [P.LocalDate(2024, 2, 29), P.LocalDate(2000, 2, 29)]
    else:
        pat = T.AnnualDatePattern.create(text, cul)
        vals = [P.AnnualDate(m, d) for m in range(1, 13) for d in (1, 28)] + [P.AnnualDate(2, 29), P.AnnualDate(1, 31), P.AnnualDate(12, 31)]
    for v in vals:
        txt = pat.format(v)
        r = pat.parse(txt)
        if not r.success:
            return {"key": "roundtrip-redundant-fields", "what": f"{kind} pattern {text!r}: {v!r} is written {txt!r}, which the pattern rejects: {r.exception}"}
        if r.value != v:
            return {"key": "roundtrip-redundant-fields", "what": f"{kind} pattern {text!r}: {v!r} is written {txt!r} and read back as {r.value!r}"}
    return None


STANDARD_DATE_LETTERS = {"date": "dDR", "datetime": "oOrRsSfFgG"}


def check_standard_with_calendar(case):
    """standard (one-letter) patterns with a template value in another calendar - created with the template, or moved
    there by with_calendar / with_template_value: a value of that calendar that is written and read back comes back
    as the same value IN THAT CALENDAR (C07; calendar is part of the value)"""
    P, T = _P(), _T()
    kind, letter, cal_id = case
    cal = P.CalendarSystem.for_id(cal_id)
    inv = _cultures()[0]
    y = min(max(cal.min_year + 1, 1400 if cal.max_year >= 1400 else 100), cal.max_year - 1)
    if kind == "date":
        PT, tmpl = T.LocalDatePattern, P.LocalDate(y, 1, 1, cal)
        vals = [P.LocalDate(y, m, d, cal) for m, d in ((1, 1), (2, 15), (cal.get_months_in_year(y), 1))]
    else:
        PT, tmpl = T.LocalDateTimePattern, P.LocalDateTime(y, 1, 1, 0, 0, 0, calendar=cal)
        vals = [P.LocalDateTime(y, m, d, 13, 45, 0, calendar=cal) for m, d in ((1, 1), (2, 15), (cal.get_months_in_year(y), 1))]  # f and g write no seconds
    makers = [("create(letter, culture, template)", lambda: PT.create(letter, inv, tmpl)),
              ("create(letter).with_calendar(cal)", lambda: PT.create_with_invariant_culture(letter).with_calendar(cal)),
              ("create(letter).with_template_value(template)", lambda: PT.create_with_invariant_culture(letter).with_template_value(tmpl))]
    for how, mk in makers:
        try:
            pat = mk()
        except Exception:  # noqa: BLE001
            continue
        for v in vals:
            try:
                txt = pat.format(v)
            except Exception:  # noqa: BLE001
                continue
            r = pat.parse(txt)
            if r.success and (r.value != v or r.value.calendar != cal):
                return {"key": "roundtrip-standard-pattern-other-calendar", "what": f"{kind} pattern {letter!r} via {how}, calendar {cal.id}: {v!r} is written {txt!r} "
                        f"and read back as {r.value!r} in calendar {r.value.calendar.id}"}
            if not r.success and letter in "RoOrsS" and cal_id in ("ISO", "Gregorian", "Julian", "Coptic"):
                return {"key": "roundtrip-standard-pattern-other-calendar", "what": f"{kind} pattern {letter!r} via {how}, calendar {cal.id}: its own text {txt!r} is rejected: {r.exception}"}
    return None


def check_bclformat(case):
    P, T = _P(), _T()
    from pyoda_time._compatibility._culture_info import CultureInfo
    ty, spec = case
    val, PT = {"time": (P.LocalTime(13, 5, 9), T.LocalTimePattern), "date": (P.LocalDate(2024, 2, 29), T.LocalDatePattern),
               "datetime": (P.LocalDateTime(2024, 2, 29, 13, 5, 9), T.LocalDateTimePattern),
               "offset": (P.Offset.from_hours_and_minutes(5, 30), T.OffsetPattern),
               "duration": (P.Duration.from_seconds(93784), T.DurationPattern),
               "annual": (P.AnnualDate(2, 29), T.AnnualDatePattern),
               "instant": (P.Instant.from_utc(2024, 2, 29, 13, 5, 9), T.InstantPattern)}[ty]
    try:
        pat = PT.create(spec, CultureInfo.current_culture)
    except Exception:  # noqa: BLE001
        return None
    want = pat.format(val)
    for how, got in (("format(value, spec)", format(val, spec)), ("f-string", f"{val:{spec}}"), ("__format__", val.__format__(spec))):
        if got != want:
            return {"key": "format-spec-differs-from-pattern", "what": f"{ty}: {how} with spec {spec!r} writes {got!r}; the pattern object created from the same "
                    f"text for the current culture writes {want!r}"}
    r = pat.parse(want)
    if not r.success:
        return {"key": "format-spec-roundtrip", "what": f"{ty} pattern {spec!r}: its own text {want!r} does not parse"}
    return None


def check_annual(case):
    P, T = _P(), _T()
    text, tm, td, culture_i = case
    cul = _cultures()[culture_i % len(_cultures())]
    try:
        pat = T.AnnualDatePattern.create(text, cul, P.AnnualDate(tm, td))
    except Exception as e:  # noqa: BLE001
        from pyoda_time.text import InvalidPatternError
        if isinstance(e, InvalidPatternError):
            return None
        return {"key": "annual-create-raises", "what": f"AnnualDatePattern.create({text!r}, template {tm}-{td}) raised {type(e).__name__}: {e}"}
    pats = [pat]
    try:
        pats.append(T.AnnualDatePattern.create(text, cul).with_template_value(P.AnnualDate(tm, td)))
    except Exception as e:  # noqa: BLE001
        return {"key": "annual-create-raises", "what": f"with_template_value({tm}-{td}) on {text!r} raised {type(e).__name__}: {e}"}
    fmtinfo_months = [pat.format(P.AnnualDate(m, 1)) for m in range(1, 13)]
    texts = fmtinfo_months + [f"{m:02d}" for m in range(1, 13)] + ["02", "2", "13", "00", "", "x"]
    for p in pats:
        for txt in texts:
            try:
                r = p.parse(txt)
                ok = r.success
                v = r.value if ok else None
            except Exception as e:  # noqa: BLE001
                return {"key": "annual-parse-raises", "what": f"AnnualDatePattern {text!r} with template {tm:02d}-{td:02d}: parse({txt!r}) raised {type(e).__name__}: {e}"}
            if ok:
                dim = [31, 29, 31, 30, 31, 30, 31, 31, 30, 31, 30, 31][v.month - 1]
                if not (1 <= v.month <= 12 and 1 <= v.day <= dim):
                    return {"key": "annual-success-invalid", "what": f"AnnualDatePattern {text!r} template {tm}-{td}: parse({txt!r}) succeeded with month {v.month} day {v.day}"}
    return None


def check_emptyampm(case):
    P, T = _P(), _T()
    text, kind, tmpl_hour = case
    from pyoda_time._compatibility._culture_info import CultureInfo
    cul = CultureInfo.get_culture_info("en-US").clone() if len(_cultures()) > 1 else CultureInfo.invariant_culture.clone()
    cul.date_time_format.am_designator = ""
    cul.date_time_format.pm_designator = ""
    try:
        if kind == "time":
            pat = T.LocalTimePattern.create(text, cul, P.LocalTime(tmpl_hour, 7, 8))
            vals = [P.LocalTime(h, 5, 6) for h in (0, 2, 11, 12, 13, 23)]
        else:
            pat = T.LocalDateTimePattern.create(text, cul, P.LocalDateTime(2021, 12, 31, tmpl_hour, 7, 8))
            vals = [P.LocalDateTime(2021, 12, 31, h, 5, 6) for h in (0, 2, 11, 12, 13, 23)]
    except Exception as e:  # noqa: BLE001
        from pyoda_time.text import InvalidPatternError
        if isinstance(e, InvalidPatternError):
            return None
        return {"key": "emptyampm-create-raises", "what": f"{kind} pattern {text!r} in a culture without AM/PM designators: create raised {type(e).__name__}: {e}"}
    texts = set()
    for v in vals:
        try:
            texts.add(pat.format(v))
        except Exception as e:  # noqa: BLE001
            return {"key": "emptyampm-format-raises", "what": f"{kind} pattern {text!r} (no designators): format({v!r}) raised {type(e).__name__}: {e}"}
    for txt in sorted(texts) + ["05:06 ", " 30", "", "05:06"]:
        try:
            r = pat.parse(txt)
        except Exception as e:  # noqa: BLE001
            return {"key": "emptyampm-parse-raises", "what": f"{kind} pattern {text!r} (no designators): parse({txt!r}) raised {type(e).__name__}: {e}"}
        if r.success:
            v = r.value
            if not (0 <= v.hour <= 23 and 0 <= v.minute <= 59 and 0 <= v.second <= 59 and 0 <= v.nanosecond_of_day < 86_400_000_000_000):
                return {"key": "emptyampm-success-invalid", "what": f"{kind} pattern {text!r} (no designators), template hour {tmpl_hour}: parse({txt!r}) succeeded with "
                        f"hour={v.hour} minute={v.minute} second={v.second}"}
    return None


META_TAILS = ["{", "}", "{}", "{0}", "{1}", "{x}", "{0!r}", "{:>10}", "%s", "%d", "%(a)s", "%", "$x", "${x}", "\\", "{{", "}}"]


def check_format_meta(case):
    """a text with characters that mean something to str.format / % / string.Template, at every position of a valid text:
    parse never raises, a failure carries UnparsableValueError and its message can be read (C08)"""
    P, T = _P(), _T()
    ty, spec, meta = case
    val, PT = {"time": (P.LocalTime(13, 5, 9), T.LocalTimePattern), "date": (P.LocalDate(2024, 2, 29), T.LocalDatePattern),
               "datetime": (P.LocalDateTime(2024, 2, 29, 13, 5, 9), T.LocalDateTimePattern),
               "offset": (P.Offset.from_hours_and_minutes(5, 30), T.OffsetPattern),
               "duration": (P.Duration.from_seconds(93784), T.DurationPattern),
               "annual": (P.AnnualDate(2, 29), T.AnnualDatePattern),
               "instant": (P.Instant.from_utc(2024, 2, 29, 13, 5, 9), T.InstantPattern)}[ty]
    try:
        pat = PT.create_with_invariant_culture(spec)
    except Exception:  # noqa: BLE001
        return None
    good = pat.format(val)
    for k in sorted({0, 1, len(good) // 2, len(good) - 1, len(good)}):
        if k < 0 or k > len(good):
            continue
        for txt in (good[:k] + meta + good[k:], good[:k] + meta + good[k + 1:]):
            try:
                r = pat.parse(txt)
                if not r.success:
                    e = r.exception
                    str(e)
                    if not isinstance(e, T.UnparsableValueError):
                        return {"key": "parse-failure-wrong-exception", "what": f"{ty} pattern {spec!r}: parse({txt!r}) failed with {type(e).__name__}, not UnparsableValueError"}
                    try:
                        r.value
                        return {"key": "failure-value-readable", "what": f"{ty} pattern {spec!r}: parse({txt!r}) failed but .value did not raise"}
                    except T.UnparsableValueError:
                        pass
            except Exception as e:  # noqa: BLE001
                return {"key": "parse-raises@format-meta", "what": f"{ty} pattern {spec!r}: parse({txt!r}) raised {type(e).__name__}: {e} (valid text {good!r} with {meta!r} at {k})"}
    return None


def check_hour24_last_day(case):
    """24:00 on the last (and first) representable day of every calendar, calendar given by the template or by the c
    specifier: parse never raises; on the day before the last it is the next midnight (C08)"""
    P, T = _P(), _T()
    cal_id, how = case
    cal = P.CalendarSystem.for_id(cal_id)
    # the greatest date of the maximum year (the year need not end with its highest month number: Hebrew scriptural)
    last = max(P.LocalDate(cal.max_year, m, cal.get_days_in_month(cal.max_year, m), cal) for m in range(1, cal.get_months_in_year(cal.max_year) + 1))
    before = last.plus_days(-1)
    if how == "template":
        pat = T.LocalDateTimePattern.create("uuuu-MM-dd'T'HH:mm:ss", _cultures()[0], P.LocalDateTime(2000, 1, 1, 0, 0, 0).with_calendar(cal))
        mk = lambda d: f"{d.year:04d}-{d.month:02d}-{d.day:02d}T24:00:00"  # noqa: E731
    else:
        pat = T.LocalDateTimePattern.create_with_invariant_culture("uuuu-MM-dd'T'HH:mm:ss c")
        mk = lambda d: f"{d.year:04d}-{d.month:02d}-{d.day:02d}T24:00:00 {cal.id}"  # noqa: E731
    for d, want in ((last, None), (before, last)):
        txt = mk(d)
        try:
            r = pat.parse(txt)
        except Exception as e:  # noqa: BLE001
            return {"key": "parse-raises@hour24-range-end", "what": f"LocalDateTimePattern ({how}, calendar {cal.id}): parse({txt!r}) raised {type(e).__name__}: {e}"}
        if want is not None:
            if not (r.success and r.value.date == want and r.value.nanosecond_of_day == 0):
                return {"key": "hour24-not-next-midnight", "what": f"LocalDateTimePattern ({how}, calendar {cal.id}): parse({txt!r}) gave {r.value if r.success else r.exception!r}, expected midnight of {want!r}"}
        elif r.success:
            return {"key": "hour24-past-range-end-accepted", "what": f"LocalDateTimePattern ({how}, calendar {cal.id}): parse({txt!r}) succeeded with {r.value!r} although the next day does not exist"}
    return None


EMBEDDED = ["ld<uuuu'-'MM'-'dd>", "lt<HH':'mm>", "ld<uuuu'-'MM'-'dd>'T'lt<HH':'mm>", "l<uuuu'-'MM'-'dd'T'HH':'mm>", "ld<d>", "lt<t>"]
FIELD_SPECS = ["c", "'('c')'", "g", "uuuu", "yyyy", "yy", "MM", "MMM", "MMMM", "dd", "ddd", "dddd", "HH", "hh", "mm", "ss", "tt", "t", "FFF", "fff", ";FFF", ".FFF"]


def check_embedded_conflicts(case):
    """LocalDateTime patterns that combine an embedded date / time / date-time pattern with one more field: creation
    raises InvalidPatternError or the created pattern reads every text - also texts naming another calendar, in which
    the embedded date may not exist - without raising (C08)"""
    P, T = _P(), _T()
    emb, field, after = case
    text = f"{emb} {field}" if after else f"{field} {emb}"
    try:
        pat = T.LocalDateTimePattern.create_with_invariant_culture(text)
    except T.InvalidPatternError:
        return None
    except Exception as e:  # noqa: BLE001
        return {"key": "create-raises@embedded", "what": f"LocalDateTimePattern.create({text!r}) raised {type(e).__name__}: {e}"}
    texts = []
    for v in (P.LocalDateTime(2024, 1, 31, 10, 15, 0), P.LocalDateTime(170, 1, 31, 0, 0, 0), P.LocalDateTime(1400, 12, 30, 23, 59, 0), P.LocalDateTime(9999, 12, 31, 13, 0, 0)):
        try:
            t = pat.format(v)
        except Exception as e:  # noqa: BLE001
            return {"key": "format-raises@embedded", "what": f"LocalDateTimePattern {text!r}: format({v!r}) raised {type(e).__name__}: {e}"}
        texts.append(t)
        if "ISO" in t:
            texts += [t.replace("ISO", cid) for cid in P.CalendarSystem.ids]
    for t in texts:
        try:
            r = pat.parse(t)
        except Exception as e:  # noqa: BLE001
            return {"key": "parse-raises@embedded", "what": f"LocalDateTimePattern {text!r}: parse({t!r}) raised {type(e).__name__}: {e}"}
        if r.success:
            v = r.value
            cal = v.calendar
            try:
                P.LocalDate(v.year, v.month, v.day, cal)
            except Exception as e:  # noqa: BLE001
                return {"key": "parse-success-invalid@embedded", "what": f"LocalDateTimePattern {text!r}: parse({t!r}) succeeded with {v.year}-{v.month}-{v.day} in {cal.id}, which is not a date ({e})"}
    return None


def check_short_month_days(case):
    """a day of month beyond the month's length (but below 29) in calendars with short months, calendar from the
    template or from the c specifier: a failure result, never a success carrying a date that does not exist (C08)"""
    P, T = _P(), _T()
    cal_id, how = case
    cal = P.CalendarSystem.for_id(cal_id)
    out = []
    y = min(max(cal.min_year, 5), cal.max_year)
    for year in sorted({y, y + 1, y + 2, y + 3, cal.max_year}):
        if not (cal.min_year <= year <= cal.max_year):
            continue
        for m in range(1, cal.get_months_in_year(year) + 1):
            n = cal.get_days_in_month(year, m)
            for d in sorted({n, n + 1, n + 2, 20, 28, 29, 30, 31, 32}):
                out.append((year, m, d, d <= n))
    if how == "template":
        pat = T.LocalDatePattern.create_with_invariant_culture("uuuu-MM-dd").with_calendar(cal)
        mk = lambda yy, m, d: f"{yy:04d}-{m:02d}-{d:02d}"  # noqa: E731
    else:
        pat = T.LocalDatePattern.create_with_invariant_culture("uuuu-MM-dd c")
        mk = lambda yy, m, d: f"{yy:04d}-{m:02d}-{d:02d} {cal.id}"  # noqa: E731
    for yy, m, d, valid in out:
        txt = mk(yy, m, d)
        try:
            r = pat.parse(txt)
        except Exception as e:  # noqa: BLE001
            return {"key": "parse-raises@short-month", "what": f"LocalDatePattern ({how}, {cal.id}): parse({txt!r}) raised {type(e).__name__}: {e}"}
        if r.success != valid:
            return {"key": "day-of-month-range@short-month", "what": f"LocalDatePattern ({how}, {cal.id}): parse({txt!r}) {'succeeded' if r.success else 'failed'}; "
                    f"month {m} of {yy} has {cal.get_days_in_month(yy, m)} days" + (f" (value: year={r.value.year} month={r.value.month} day={r.value.day})" if r.success else f" ({r.exception})")}
        if r.success and (r.value.year, r.value.month, r.value.day) != (yy, m, d):
            return {"key": "day-of-month-range@short-month", "what": f"LocalDatePattern ({how}, {cal.id}): parse({txt!r}) gave {r.value!r}"}
    return None


def cases_c07(ctx):
    rng = ctx.rng
    mod, bcl = [], []
    for _ in range(ctx.scale(40, 1500)):
        kind = rng.choice(["date", "datetime"])
        text = rng.choice(["yy-MM-dd", "dd/MM/yy", "yyyy-MM-dd", "yy MMM dd", "uuuu-MM-dd"]) + ("" if kind == "date" else " HH:mm")
        mod.append((kind, text, rng.choice([30, 80, 99, 0, 50, rng.randint(0, 99)]), rng.choice(["ISO", "Gregorian", "Julian", "ISO"]), rng.randint(0, 10**6)))
    specs = {"time": ["HH:mm ", " HH:mm", "HH:mm t ", "HH:mm:ss", " h:mm tt "], "date": [" dd/MM/uuuu", "uuuu-MM-dd ", "dd MMMM uuuu"],
             "datetime": ["uuuu-MM-dd HH:mm ", " uuuu-MM-dd'T'HH:mm:ss"], "offset": ["+HH:mm ", " +HH"], "duration": ["-D:hh:mm:ss ", " hh:mm"],
             "annual": ["MM-dd ", " MMMM dd"], "instant": ["uuuu-MM-dd'T'HH:mm:ss'Z' "]}
    std = {"time": "tTr", "date": "dD", "datetime": "oOrRsSfFgG", "offset": "fslmG", "duration": "oj", "annual": "G", "instant": "g"}
    for ty, ss in specs.items():
        for sp in ss:
            bcl.append((ty, sp))
        for ch in std[ty]:
            bcl += [(ty, ch), (ty, ch + " "), (ty, " " + ch)]
    simple = []
    for _ in range(ctx.scale(40, 1500)):
        kind = rng.choice(["time", "annual"])
        text = rng.choice(["HH:mm", "mm:ss", "hh:mm tt", "ss", "HH", "h tt"] if kind == "time" else ["MM-dd", "MMMM", "dd", "MMM dd", "MM"])
        simple.append((kind, text, rng.randint(0, 3), rng.randint(0, 10**6)))
    return mod, bcl, simple


def cases_c07_standard_calendars(ctx):
    P = _P()
    return [(k, ch, cid) for k, letters in STANDARD_DATE_LETTERS.items() for ch in letters for cid in P.CalendarSystem.ids]


def cases_c08(ctx):
    rng = ctx.rng
    ann = [(t, tm, td, ci) for t in ("MM", "MMMM", "MMM", "M", "dd", "MM-dd", "'x'MM") for tm in (1, 3, 12) for td in (28, 29, 30, 31) for ci in (0, 1)]
    amp = [(t, k, h) for k, ts in (("time", ["mm:ss tt", "tt mm", "t ss", "hh:mm tt", "HH:mm tt", "h t", "mm t"]),
                                    ("datetime", ["uuuu-MM-dd mm:ss tt", "uuuu-MM-dd tt", "uuuu-MM-dd hh tt"])) for t in ts for h in (0, 2, 11, 12, 13, 23)]
    rng.shuffle(ann)
    return ann[:ctx.scale(120, len(ann))], amp


def cases_c08_more(ctx):
    P = _P()
    specs = [("time", "HH:mm:ss"), ("time", "t"), ("date", "uuuu-MM-dd"), ("date", "D"), ("datetime", "uuuu-MM-dd'T'HH:mm:ss"), ("datetime", "G"),
             ("offset", "+HH:mm"), ("offset", "g"), ("duration", "-D:hh:mm:ss"), ("duration", "o"), ("annual", "MM-dd"), ("annual", "G"),
             ("instant", "uuuu-MM-dd'T'HH:mm:ss'Z'"), ("instant", "g")]
    meta = [(ty, sp, m) for ty, sp in specs for m in META_TAILS]
    h24 = [(i, how) for i in P.CalendarSystem.ids for how in ("template", "c")]
    return meta, h24


def cases_c08_embedded(ctx):
    return [(e, f, a) for e in EMBEDDED for f in FIELD_SPECS for a in (True, False)]
