"""C06 — zones behave exactly as the bundled tz database bytes say.

The independent interpretation is the Lean model: the Codec model decodes the whole database stream
(`file.load`), the decoded zones are handed to the Zone model inside the same driver (`drv_c06`), and the
model's answers are compared with the code's provider for the same file: id list, every zone's decoded data
(periods, tail rules), behaviour (`get_zone_interval` at period boundaries, tail transitions evaluated from the
yearly rules with the model's own calendar arithmetic), aliases, fixed-offset ids, `validate()`.
The rest of the file is inside the model too (`src.*` ops): the CLDR Windows mapping (field 4), the zone locations
(field 6) and zone-1970 locations (field 7), the version strings, the derived maps `tzdb_to_windows_ids` /
`windows_to_tzdb_ids` and `validate()` as the decidable check `sourceValid`; `mut.*` ops evaluate the same on
byte-level edits of the real files (damaged and benignly rearranged data), where the code's accept/reject (and the
group of the first failing test) is compared with the model's on the same bytes.
A disagreement here *is* the failing input (file, zone id, field or instant)."""
from __future__ import annotations

import contextlib
import io
import zlib

import zonelib as Z
import common
from common import REPO, InfraError, guard, hexs, model_eval
from zonelib import MAXI, MINI, NPD

FILES = [("A:", "pyoda_time/time_zones/Tzdb.nzd"), ("B:", "tests/test_data/Tzdb2013bFromNodaTime1.1.nzd")]

META = {
    "property": "C06",
    "proof_modules": ["PyodaProofs.C06", "PyodaProofs.C06Source", "PyodaProofs.C06Validate", "PyodaProofs.C06Maps",
                      "PyodaProofs.GenAgreeC14", "PyodaProofs.GenAgreeC14S", "PyodaProofs.GenAgreeC14V", "PyodaProofs.GenAgreeC14W"],
    "drivers": ["drv_c06"],
    "theorems": [
        "Pyoda.C06.ids_sorted", "Pyoda.C06.ids_perm", "Pyoda.C06.fixed_id_roundtrip", "Pyoda.C06.fixed_id_range",
        "Pyoda.C06.alias_yields_canonical_data", "Pyoda.C06.rule_offset_spec",
        "Pyoda.C06.fromStreamX_stream", "Pyoda.C06.versionId_eq",
        "Pyoda.C06.sourceValid_sound", "Pyoda.C06.sourceValid_iff", "Pyoda.C06.firstFailure_zero_iff",
        "Pyoda.C06.mem_primaryMapping", "Pyoda.C06.sourceValid_eq_strict", "Pyoda.C06.strict_imp_valid",
        "Pyoda.C06.exact_duplicate_accepted",
        "Pyoda.C06.windowsToTzdb_canonical", "Pyoda.C06.tzdbToWindows_entries", "Pyoda.C06.tzdbToWindows_direct",
        # agreement of the definitions generated from the Python source (tools/py2lean.py) with the model
        "Pyoda.GenAgree.C14.gen_Reader_ctor_eq", "Pyoda.GenAgree.C14.gen_Reader_readByte_eq",
        "Pyoda.GenAgree.C14.gen_Reader_hasMoreData_eq", "Pyoda.GenAgree.C14.gen_Reader_readInt16_eq",
        "Pyoda.GenAgree.C14.gen_Reader_readInt32_eq", "Pyoda.GenAgree.C14.gen_Reader_readInt64_eq",
        "Pyoda.GenAgree.C14.gen_Reader_readVarint_loop1_eq", "Pyoda.GenAgree.C14.gen_Reader_readVarint_eq",
        "Pyoda.GenAgree.C14.gen_Reader_readCount_eq", "Pyoda.GenAgree.C14.gen_Reader_readSignedCount_eq",
        "Pyoda.GenAgree.C14.gen_Reader_readMilliseconds_eq", "Pyoda.GenAgree.C14.gen_Reader_readOffset_eq",
        "Pyoda.GenAgree.C14.gen_Reader_readTransitionNone_eq", "Pyoda.GenAgree.C14.gen_Reader_readTransitionSome_eq",
        "Pyoda.GenAgree.C14.gen_Reader_readString_loop1_eq", "Pyoda.GenAgree.C14.gen_Reader_readString_eq",
        "Pyoda.GenAgree.C14.gen_Reader_readDictionary_loop1_eq", "Pyoda.GenAgree.C14.gen_Reader_readDictionary_eq",
        "Pyoda.GenAgree.C14.gen_YearOffset_read_eq", "Pyoda.GenAgree.C14.gen_Recurrence_read_eq",
        "Pyoda.GenAgree.C14.gen_MapZone_ctor_eq", "Pyoda.GenAgree.C14.gen_MapZone_read_loop1_eq",
        "Pyoda.GenAgree.C14.gen_MapZone_read_eq", "Pyoda.GenAgree.C14.gen_ZoneLocation_read_eq",
        "Pyoda.GenAgree.C14.gen_WindowsZones_read_loop1_eq", "Pyoda.GenAgree.C14.gen_WindowsZones_read_eq",
        "Pyoda.GenAgree.C14.gen_Zone1970Location_read_loop1_eq", "Pyoda.GenAgree.C14.gen_Zone1970Location_read_eq",
        "Pyoda.GenAgree.C14.gen_FixedZone_read_eq", "Pyoda.GenAgree.C14.gen_AltMap_read_eq",
        "Pyoda.GenAgree.C14.gen_PrecalcZone_read_loop1_eq", "Pyoda.GenAgree.C14.gen_PrecalcZone_read_eq",
        "Pyoda.GenAgree.C14S.gen_Field_ctor_eq", "Pyoda.GenAgree.C14S.gen_Field_getId_eq",
        "Pyoda.GenAgree.C14S.gen_readFields_step", "Pyoda.GenAgree.C14S.gen_Field_readFieldsNext_loop1_eq",
        "Pyoda.GenAgree.C14S.gen_Field_readFieldsNext_eq",
        "Pyoda.GenAgree.C14V.gen_Validate_canonAndPrimary_loop1_eq",
        "Pyoda.GenAgree.C14V.gen_Validate_canonAndPrimary_loop2_eq",
        "Pyoda.GenAgree.C14V.gen_Validate_canonAndPrimary_eq", "Pyoda.GenAgree.C14V.gen_Validate_locations_loop1_eq",
        "Pyoda.GenAgree.C14V.gen_Validate_locations_eq", "Pyoda.GenAgree.C14V.gen_Validate_locationsNone_eq",
        "Pyoda.GenAgree.C14V.gen_Validate_locations1970_loop1_eq",
        "Pyoda.GenAgree.C14V.gen_Validate_locations1970_eq", "Pyoda.GenAgree.C14V.gen_Validate_locations1970None_eq",
        "Pyoda.GenAgree.C14V.gen_Validate_tzdbIds_loop2_eq", "Pyoda.GenAgree.C14V.gen_Validate_tzdbIds_loop1_eq",
        "Pyoda.GenAgree.C14V.gen_Validate_tzdbIds_eq", "Pyoda.GenAgree.C14W.gen_Writer_ctor_eq",
        "Pyoda.GenAgree.C14W.gen_Writer_writeByte_eq", "Pyoda.GenAgree.C14W.gen_Writer_writeVarint_loop1_eq",
        "Pyoda.GenAgree.C14W.gen_Writer_writeVarint_eq", "Pyoda.GenAgree.C14W.gen_Writer_writeVarint_neg",
        "Pyoda.GenAgree.C14W.gen_Writer_writeCount_eq", "Pyoda.GenAgree.C14W.gen_Writer_writeSignedCount_eq",
        "Pyoda.GenAgree.C14W.gen_Writer_writeInt16_eq", "Pyoda.GenAgree.C14W.gen_Writer_writeInt32_eq",
        "Pyoda.GenAgree.C14W.gen_Writer_writeInt64_eq", "Pyoda.GenAgree.C14W.gen_Writer_writeMilliseconds_eq",
        "Pyoda.GenAgree.C14W.gen_Writer_writeOffset_eq", "Pyoda.GenAgree.C14W.gen_Writer_writeString_eq",
        "Pyoda.GenAgree.C14W.gen_checkNotNullDict_eq", "Pyoda.GenAgree.C14W.gen_Writer_writeDictionary_loop1_eq",
        "Pyoda.GenAgree.C14W.gen_Writer_writeDictionary_eq", "Pyoda.GenAgree.C14W.gen_Writer_writeTransitionNone_eq",
        "Pyoda.GenAgree.C14W.gen_Writer_writeTransitionSome_eq", "Pyoda.GenAgree.C14W.gen_YearOffset_mode_eq",
        "Pyoda.GenAgree.C14W.gen_YearOffset_advanceDayOfWeek_eq", "Pyoda.GenAgree.C14W.gen_YearOffset_timeOfDay_eq",
        "Pyoda.GenAgree.C14W.gen_Recurrence_name_eq", "Pyoda.GenAgree.C14W.gen_Recurrence_savings_eq",
        "Pyoda.GenAgree.C14W.gen_Recurrence_yearOffset_eq", "Pyoda.GenAgree.C14W.gen_Recurrence_fromYear_eq",
        "Pyoda.GenAgree.C14W.gen_Recurrence_toYear_eq", "Pyoda.GenAgree.C14W.gen_YearOffset_write_eq",
        "Pyoda.GenAgree.C14W.gen_Recurrence_write_eq", "Pyoda.GenAgree.C14W.gen_AltMap_write_eq",
    ],
    "trusted_base": [
        "translator tie shared with C14 (tools/py2lean.py; GenAgreeC14 / C14S / C14W): the reader and writer primitives, the field framing step, and the payload readers that read themselves from a reader object — _ZoneYearOffset.read, _ZoneRecurrence.read (= the Session machines readYearOffsetM / readRecurrenceM), MapZone._read (= readMapZoneX) and TzdbZoneLocation._read with its `except ValueError -> InvalidPyodaDataError` (= readZoneLocationX) — are re-translated from the source on every run and proved equal to the codec model this property's theorems are about. TzdbDateTimeZoneSource.validate() is tied in slices (GenAgreeC14V): the runs of its top-level statements that are the model's groups 1-2 (canonClosed, hasPrimary), 3 (idsOK, the nested loops with the mapped_tzdb_ids set), 5 and 6 (locsOK; for 6 under the constructor's invariant that a 1970 location has a country — otherwise the error message's countries[0] raises IndexError first) are translated as procedures of their own and proved to return normally iff the model's Boolean holds. WindowsZones._read and TzdbZone1970Location._read are tied too (gen_WindowsZones_read_eq, gen_Zone1970Location_read_eq). Outside the tie (correspondence only): group 4 of validate() (_to_lookup, set comprehension, next()/StopIteration, any(generator)), the two derived-map builders (dict comprehensions, sorted, walrus truthiness), _FixedDateTimeZone id making / parsing (the text engine: OffsetPattern.general_invariant). _FixedDateTimeZone.read, the precalculated-zone and alternating-map readers are tied (gen_FixedZone_read_eq, gen_PrecalcZone_read_eq, gen_AltMap_read_eq)",
        "the model reader (PyodaModel/Codec/*) is the independent interpretation of the file format; C14 proves it inverse to the documented writer on the primitives",
        "equality of decoded data and of behaviour is established by exhaustive comparison over both real files (every id, every period, every tail rule field; every MapZone, location and 1970 location record, the version strings, both derived Windows maps; behaviour at every period boundary and sampled tail years), not by a theorem",
        "sourceValid / firstFailure are evaluated on the decoded files by the compiled driver (Lean compiler and runtime trusted for that evaluation; sourceValid_iff is kernel-checked)",
        "the harness's own encoder of fields 3, 4, 6, 7 (used to build edited files) reproduces the bytes of both real files exactly; model and code are shown to read the same edited bytes by length and Adler-32",
    ],
    "partial": [
        "validate() is modelled as coded: MapZone entries equal in all three components collapse before the duplicate-territory test (exact_duplicate_accepted); Noda Time tests the entries as listed (sourceValidStrict, strict_imp_valid)",
        "damaged data are sampled (about 40 kinds of edit of fields 3, 4, 6, 7 per file and round), not enumerated; get_system_default_id / guess_zone_id_from_windows are not ported and not modelled",
    ],
    "rule": "both real database files, every id (canonical and alias): decoded data field by field (exhaustive); behaviour at every stored period boundary +-1 ns, tail years sampled; fixed-offset ids on a stride (all 129601 in thorough); every record of fields 4, 6, 7 (exhaustive); byte-level edits of fields 3, 4, 6, 7: one per kind and file (12 in thorough); distinct = distinct op",
}

_prov = {}


def provider(pfx):
    """the code's provider for the file behind prefix pfx"""
    if pfx not in _prov:
        Pm = Z.P()
        if pfx == "A:":
            from pyoda_time.time_zones._tzdb_date_time_zone_source import TzdbDateTimeZoneSource
            _prov[pfx] = (Pm.DateTimeZoneProviders.tzdb, TzdbDateTimeZoneSource.default)
        else:
            from pyoda_time.time_zones import DateTimeZoneCache
            from pyoda_time.time_zones._tzdb_date_time_zone_source import TzdbDateTimeZoneSource
            rel = dict(FILES)[pfx]
            with open(REPO / rel, "rb") as f:
                src = TzdbDateTimeZoneSource.from_stream(io.BytesIO(f.read()))
            _prov[pfx] = (DateTimeZoneCache(src), src)
    return _prov[pfx]


def zone_of(zid):
    pfx, rid = zid[:2], zid[2:]
    prov = provider(pfx)[0]
    for cand in (rid, rid.replace("_", " ")):
        try:
            return prov[cand]
        except Exception:  # noqa: BLE001
            continue
    raise KeyError(rid)


MODEL = {}


def impl(t):
    op = t[0]
    if op.startswith("src.") or op.startswith("mut."):
        return impl_src(t)
    if op == "file.load":
        pfx = t[1]
        prov, src = provider(pfx)
        ids = list(prov.ids)
        return f"ok {len(ids)} {hexs(src.tzdb_version)} 0 " + " ".join(hexs(i) for i in ids)
    if op == "zone.show":
        z = zone_of(t[1])
        return Z.zone_def_line("x", z)[len("zone.def x "):]
    if op == "zone.get":
        return Z.zi_str(zone_of(t[1]).get_zone_interval(Z.ns_inst(int(t[2]))))
    if op == "zone.walk":
        z = zone_of(t[1])
        fr, to, maxn = int(t[2]), int(t[3]), int(t[4])
        out, cur = [], fr
        while cur < to and len(out) < maxn:
            zi = z.get_zone_interval(Z.ns_inst(cur))
            out.append(zi)
            cur = Z.inst_ns(zi._raw_end)
        return str(len(out)) + "".join(" | " + Z.zi_str(x) for x in out)
    if op == "fixed.id":
        Pm = Z.P()
        return hexs(Pm.DateTimeZone.for_offset(Pm.Offset.from_seconds(int(t[1]))).id)
    if op == "fixed.parse":
        zid = bytes.fromhex(t[1]).decode()
        z = provider("A:")[0].get_zone_or_none(zid)
        if z is None:
            return "none"
        if not z._is_fixed:
            return "not-fixed"
        return str(z.get_utc_offset(Z.ns_inst(0)).seconds)
    raise ValueError(op)


def oracle(t):
    """a difference between the code and the model's reading of the bytes is itself the failing input"""
    line = " ".join(t)
    if t[0].startswith("src.") or t[0].startswith("mut."):
        return oracle_src(t)
    if t[0] == "file.load":
        m = MODEL.get(line[:20])
        r = guard(impl, t)
        if m is not None and m != r:
            ms, rs = m.split(" "), r.split(" ")
            diff = [i for i in range(min(len(ms), len(rs))) if ms[i] != rs[i]][:1]
            return {"key": "id-list-differs-from-file", "what": f"file {t[1]}: provider ids/version differ from the file's id map at token {diff} (model {len(ms) - 4} ids, code {len(rs) - 4})"}
        return None
    m = MODEL.get(line)
    if m is None:
        return None
    r = guard(impl, t)
    if r == m:
        return None
    if t[0] == "zone.show":
        ms, rs = m.split(" "), r.split(" ")
        i = next((k for k in range(min(len(ms), len(rs))) if ms[k] != rs[k]), min(len(ms), len(rs)))
        return {"key": "zone-data-differs-from-file", "what": f"zone {t[1]}: decoded data differ from the file bytes at token {i}: file says {' '.join(ms[max(0, i - 2):i + 3])}, code has {' '.join(rs[max(0, i - 2):i + 3])}"}
    if t[0] in ("zone.get", "zone.walk"):
        return {"key": "zone-behaviour-differs-from-file", "what": f"{line[:120]}: code {r[:160]} / file interpretation {m[:160]}"}
    if t[0] == "fixed.id":
        return {"key": "fixed-zone-id", "what": f"fixed zone for {t[1]} s: code id {bytes.fromhex(r).decode(errors='replace') if not r.startswith('!') else r}, documented {bytes.fromhex(m).decode()}"}
    if t[0] == "fixed.parse":
        return {"key": "fixed-id-resolution", "what": f"id {bytes.fromhex(t[1]).decode()!r}: code resolves to {r}, expected {m}"}
    return None


def alias_case(c):
    pfx, alias, canon = c
    prov = provider(pfx)[0]
    za, zc = prov[alias], prov[canon]
    if za.id != alias:
        return {"key": "alias-id", "what": f"{pfx}{alias}: zone id is {za.id!r}"}
    da = Z.zone_def_line("x", za)
    dc = Z.zone_def_line("x", zc)
    if da != dc and za._is_fixed and zc._is_fixed:
        # a fixed zone stored without a name takes the id it is requested under as its name
        ia, ic = za.get_zone_interval(Z.ns_inst(0)), zc.get_zone_interval(Z.ns_inst(0))
        if ia.wall_offset == ic.wall_offset and ia.savings == ic.savings and ia.name in (ic.name, alias):
            return None
    if da != dc:
        return {"key": "alias-data-differs-from-canonical", "what": f"{pfx}{alias} -> {canon}: data differ"}
    if prov[alias] is not za:
        return {"key": "provider-lookup-not-stable", "what": f"{pfx}{alias}"}
    return None


# --------------------------------------------------------------------------------------
# the rest of the file: Windows mapping, locations, version strings, derived maps, validate()
# --------------------------------------------------------------------------------------

def _optlen(x):
    return "-" if x is None else str(len(x))


def _pairs(d):
    items = sorted(d.items())
    return str(len(items)) + "".join(f" {hexs(k)} {hexs(v)}" for k, v in items)


VALIDATE_GROUPS = [
    ("Mapping for entry", 1),
    ("Windows mapping for standard ID", 2),
    ("Windows mapping uses TZDB ID", 3),
    ("Windows mapping has multiple entries for TZDB ID", 3),
    ("Windows mapping has duplicate territories", 4),
    ("Windows mapping has no primary territory entry", 4),
    ("Expected one tzdb id for primary zone", 4),
    ("Windows mapping primary territory entry", 4),
    ("Zone location", 5),
    ("Zone 1970 location", 6),
]


def validate_group(src) -> str:
    """0 when validate() returns normally, else the number of the group of tests that raised (by its message)"""
    from pyoda_time.utility import InvalidPyodaDataError
    try:
        src.validate()
        return "0"
    except InvalidPyodaDataError as e:
        msg = str(e)
        for pfx, g in VALIDATE_GROUPS:
            if msg.startswith(pfx):
                return str(g)
        return "unknown-message:" + hexs(msg[:60])


def src_answer(src, what, arg):
    """canonical rendering of one aspect of a TzdbDateTimeZoneSource (the model's `answer`)"""
    wm = src.windows_mapping
    if what == "info":
        return " ".join(["ok", hexs(src.version_id), hexs(src.tzdb_version), hexs(wm.version), hexs(wm.tzdb_version),
                         hexs(wm.windows_version), str(len(wm.map_zones)), str(len(wm.primary_mapping)),
                         _optlen(src.zone_locations), _optlen(src.zone_1970_locations)])
    if what == "mapzone":
        if arg >= len(wm.map_zones):
            return "none"
        z = wm.map_zones[arg]
        return " ".join([hexs(z.windows_id), hexs(z.territory), str(len(z.tzdb_ids))] + [hexs(i) for i in z.tzdb_ids])
    if what == "primary":
        return _pairs(wm.primary_mapping)
    if what == "loc":
        ls = src.zone_locations
        if ls is None:
            return "absent"
        if arg >= len(ls):
            return "none"
        x = ls[arg]
        return " ".join([str(x._TzdbZoneLocation__latitude_seconds), str(x._TzdbZoneLocation__longitude_seconds),
                         hexs(x.country_name), hexs(x.country_code), hexs(x.zone_id), hexs(x.comment)])
    if what == "loc70":
        ls = src.zone_1970_locations
        if ls is None:
            return "absent"
        if arg >= len(ls):
            return "none"
        x = ls[arg]
        out = [str(x._TzdbZone1970Location__latitude_seconds), str(x._TzdbZone1970Location__longitude_seconds), str(len(x.countries))]
        for c in x.countries:
            out += [hexs(c.name), hexs(c.code)]
        return " ".join(out + [hexs(x.zone_id), hexs(x.comment)])
    if what == "t2w":
        return _pairs(src.tzdb_to_windows_ids)
    if what == "w2t":
        return _pairs(src.windows_to_tzdb_ids)
    if what == "valid":
        return validate_group(src)
    raise ValueError(what)


# ---- byte-level tools, written from the format description (independent of the code's reader and writer) -------

def _rd_varint(b, p):
    n = sh = 0
    while True:
        x = b[p]
        p += 1
        n |= (x & 127) << sh
        sh += 7
        if x < 128:
            return n, p


def _wr_varint(n):
    out = bytearray()
    while n > 127:
        out.append((n & 127) | 128)
        n >>= 7
    out.append(n)
    return bytes(out)


def _zz(n):
    return _wr_varint(n * 2 if n >= 0 else -n * 2 - 1)


def _unzz(u):
    return u // 2 if u % 2 == 0 else -(u // 2) - 1


class Image:
    """the parts of a database file that the damaged-data suite rewrites, decoded into plain lists"""

    def __init__(self, data: bytes):
        self.data = data
        self.fields = []              # (id, header offset, payload offset, payload length)
        p = 4
        while p < len(data):
            fid, h = data[p], p
            n, q = _rd_varint(data, p + 1)
            self.fields.append((fid, h, q, n))
            p = q + n
        pl = self.payload(0)
        cnt, p = _rd_varint(pl, 0)
        self.pool = []
        for _ in range(cnt):
            n, p = _rd_varint(pl, p)
            self.pool.append(pl[p:p + n].decode())
            p += n
        self.pidx = {}
        for i, s_ in enumerate(self.pool):
            self.pidx.setdefault(s_, i)
        # field 3
        pl = self.payload(3)
        cnt, p = _rd_varint(pl, 0)
        self.idmap = []
        for _ in range(cnt):
            k, p = self._str(pl, p)
            v, p = self._str(pl, p)
            self.idmap.append([k, v])
        self.zone_ids = []
        for fid, h, q, n in self.fields:
            if fid == 1:
                self.zone_ids.append(self._str(data, q)[0])
        # field 4
        pl = self.payload(4)
        self.wver, p = self._str(pl, 0)
        self.wtz, p = self._str(pl, p)
        self.wwin, p = self._str(pl, p)
        cnt, p = _rd_varint(pl, p)
        self.mapzones = []
        for _ in range(cnt):
            w, p = self._str(pl, p)
            t, p = self._str(pl, p)
            n, p = _rd_varint(pl, p)
            ids = []
            for _ in range(n):
                i, p = self._str(pl, p)
                ids.append(i)
            self.mapzones.append([w, t, ids])
        # field 6
        self.locs = None
        if self.has(6):
            pl = self.payload(6)
            cnt, p = _rd_varint(pl, 0)
            self.locs = []
            for _ in range(cnt):
                la, p = _rd_varint(pl, p)
                lo, p = _rd_varint(pl, p)
                cn, p = self._str(pl, p)
                cc, p = self._str(pl, p)
                zi, p = self._str(pl, p)
                co, p = self._str(pl, p)
                self.locs.append([_unzz(la), _unzz(lo), cn, cc, zi, co])
        # field 7
        self.locs70 = None
        if self.has(7):
            pl = self.payload(7)
            cnt, p = _rd_varint(pl, 0)
            self.locs70 = []
            for _ in range(cnt):
                la, p = _rd_varint(pl, p)
                lo, p = _rd_varint(pl, p)
                n, p = _rd_varint(pl, p)
                cs = []
                for _ in range(n):
                    nm, p = self._str(pl, p)
                    cd, p = self._str(pl, p)
                    cs.append([nm, cd])
                zi, p = self._str(pl, p)
                co, p = self._str(pl, p)
                self.locs70.append([_unzz(la), _unzz(lo), cs, zi, co])

    def has(self, fid):
        return any(f[0] == fid for f in self.fields)

    def payload(self, fid):
        f = next(f for f in self.fields if f[0] == fid)
        return self.data[f[2]:f[2] + f[3]]

    def _str(self, b, p):
        i, p = _rd_varint(b, p)
        return self.pool[i], p

    def known_ids(self):
        return {k for k, _ in self.idmap} | set(self.zone_ids)

    # ---- encoders of the rewritten fields (pooled strings: the index of the first equal pool entry)
    def _ps(self, s_):
        return _wr_varint(self.pidx[s_])

    def enc3(self, idmap):
        return _wr_varint(len(idmap)) + b"".join(self._ps(k) + self._ps(v) for k, v in idmap)

    def enc4(self, mapzones):
        out = self._ps(self.wver) + self._ps(self.wtz) + self._ps(self.wwin) + _wr_varint(len(mapzones))
        for w, t, ids in mapzones:
            out += self._ps(w) + self._ps(t) + _wr_varint(len(ids)) + b"".join(self._ps(i) for i in ids)
        return out

    def enc6(self, locs):
        out = _wr_varint(len(locs))
        for la, lo, cn, cc, zi, co in locs:
            out += _zz(la) + _zz(lo) + self._ps(cn) + self._ps(cc) + self._ps(zi) + self._ps(co)
        return out

    def enc7(self, locs):
        out = _wr_varint(len(locs))
        for la, lo, cs, zi, co in locs:
            out += _zz(la) + _zz(lo) + _wr_varint(len(cs)) + b"".join(self._ps(n) + self._ps(c) for n, c in cs) + self._ps(zi) + self._ps(co)
        return out

    def edits_for(self, fid, new_payload: bytes):
        """splices (offset, deleted, inserted) that turn field `fid` into one with `new_payload`; highest offset first"""
        f = next(f for f in self.fields if f[0] == fid)
        _, h, q, n = f
        old = self.data[q:q + n]
        a = 0
        while a < min(len(old), len(new_payload)) and old[a] == new_payload[a]:
            a += 1
        b = 0
        while b < min(len(old), len(new_payload)) - a and old[len(old) - 1 - b] == new_payload[len(new_payload) - 1 - b]:
            b += 1
        ed = []
        if old != new_payload:
            ed.append((q + a, len(old) - a - b, new_payload[a:len(new_payload) - b]))
        if len(new_payload) != n:
            ed.append((h + 1, q - h - 1, _wr_varint(len(new_payload))))
        return ed


_images = {}


def image(pfx):
    if pfx not in _images:
        _images[pfx] = Image((REPO / dict(FILES)[pfx]).read_bytes())
    return _images[pfx]


def apply_edits(data: bytes, edit_toks):
    """the edits of a `mut.*` op applied one after the other (the model's `applyEdits`)"""
    b = bytearray(data)
    for k in range(0, len(edit_toks), 3):
        off, dl, ins = int(edit_toks[k]), int(edit_toks[k + 1]), (b"" if edit_toks[k + 2] == "-" else bytes.fromhex(edit_toks[k + 2]))
        b[off:off + dl] = ins
    return bytes(b)


_mut_cache = {}


def mutated_source(pfx, edit_toks):
    """(bytes, source or exception) for an edited file, loaded with from_stream"""
    key = (pfx, tuple(edit_toks))
    if key not in _mut_cache:
        if len(_mut_cache) > 64:
            _mut_cache.clear()
        from pyoda_time.time_zones._tzdb_date_time_zone_source import TzdbDateTimeZoneSource
        data = apply_edits(image(pfx).data, edit_toks)
        try:
            src = TzdbDateTimeZoneSource.from_stream(io.BytesIO(data))
        except Exception as e:  # noqa: BLE001
            src = e
        _mut_cache[key] = (data, src)
    return _mut_cache[key]


def impl_src(t):
    op = t[0]
    if op.startswith("src."):
        src = provider(t[1])[1]
        return src_answer(src, op[4:], int(t[2]) if len(t) > 2 else None)
    # mut.<what> <pfx> <arg or -> <n> (off del hex)*
    what, pfx, arg, n = op[4:], t[1], t[2], int(t[3])
    edits = t[4:]
    if len(edits) != 3 * n:
        raise InfraError("malformed mut op")
    data, src = mutated_source(pfx, edits)
    head = f"{len(data)} {zlib.adler32(data)} "
    if isinstance(src, BaseException):
        from common import exc_name
        return head + exc_name(src)
    return head + guard(src_answer, src, what, None if arg == "-" else int(arg))


def mut_op(what, pfx, edits, arg="-"):
    toks = [f"mut.{what}", pfx, str(arg), str(len(edits))]
    for off, dl, ins in edits:
        toks += [str(off), str(dl), ins.hex() if ins else "-"]
    return " ".join(toks)


def build_mutants(pfx, rng, rounds):
    """(kind, edits) for byte-level rewrites of fields 3, 4, 6, 7 of the file behind `pfx`: damage of every kind that
    validate() tests for, damage that the loader rejects, and benign rearrangements that must stay acceptable"""
    im = image(pfx)
    known = im.known_ids()
    P = "001"
    strangers = [s_ for s_ in im.pool if s_ and s_ not in known and len(s_) > 3]   # pool strings that are no zone id
    out = []
    terrs = sorted({s_ for s_ in im.pool if len(s_) == 2 and s_.isalpha() and s_.isupper()})

    def fresh_terr(w):
        """a territory code of the pool that windows id `w` does not use yet"""
        have = {x[1] for x in im.mapzones if x[0] == w}
        return rng.choice([t_ for t_ in terrs if t_ not in have])

    def mz_copy():
        return [[w, t, list(ids)] for w, t, ids in im.mapzones]

    def emit(kind, fid, payload):
        out.append((kind, im.edits_for(fid, payload)))

    def emit2(kind, parts):
        eds = []
        for fid, payload in parts:
            eds += im.edits_for(fid, payload)
        eds.sort(key=lambda e: -e[0])
        out.append((kind, eds))

    wids = sorted({w for w, _, _ in im.mapzones})
    nonprim = [i for i, z in enumerate(im.mapzones) if z[1] != P and z[2]]
    prim = [i for i, z in enumerate(im.mapzones) if z[1] == P]
    aliases = [i for i, (k, v) in enumerate(im.idmap) if k != v]
    used = {i for _, t, ids in im.mapzones if t != P for i in ids}
    unused = sorted(known - used)
    emit("identity", 4, im.enc4(im.mapzones))
    for _ in range(rounds):
        # ---- group 3: unknown id / id mapped twice
        z = mz_copy(); i = rng.choice(nonprim + prim); z[i][2][rng.randrange(len(z[i][2]))] = rng.choice(strangers)
        emit("mz-unknown-id", 4, im.enc4(z))
        z = mz_copy(); i, j = rng.sample(nonprim, 2); z[i][2].append(rng.choice(z[j][2]))
        emit("mz-id-mapped-twice", 4, im.enc4(z))
        z = mz_copy(); i = rng.choice(nonprim); z[i][2].append(z[i][2][0])
        emit("mz-id-twice-in-one-entry", 4, im.enc4(z))
        z = mz_copy(); i = rng.choice(nonprim); z.insert(rng.randrange(len(z) + 1), [z[i][0], z[i][1], list(z[i][2])])
        emit("mz-exact-duplicate-nonprimary", 4, im.enc4(z))
        # ---- group 2: no primary territory
        z = mz_copy(); i = rng.choice(prim); del z[i]
        emit("mz-drop-primary", 4, im.enc4(z))
        z = mz_copy(); i = rng.choice(prim); z[i][1] = fresh_terr(z[i][0])
        emit("mz-primary-territory-renamed", 4, im.enc4(z))
        # ---- group 4: territories / primary entry
        multi = [w for w in wids if sum(1 for x in im.mapzones if x[0] == w and x[1] != P) >= 2]
        if multi:
            w = rng.choice(multi)
            idx = [k for k, x in enumerate(im.mapzones) if x[0] == w and x[1] != P]
            a, b = rng.sample(idx, 2)
            z = mz_copy(); z[a][1] = z[b][1]
            emit("mz-duplicate-territory", 4, im.enc4(z))
        z = mz_copy(); i = rng.choice(prim); z.insert(rng.randrange(len(z) + 1), [z[i][0], P, list(z[i][2])])
        emit("mz-exact-duplicate-primary", 4, im.enc4(z))          # equal entries collapse in the code: accepted
        z = mz_copy(); i = rng.choice(prim); z.append([z[i][0], P, [rng.choice(sorted(known))]])
        emit("mz-second-primary-other-id", 4, im.enc4(z))
        z = mz_copy(); i = rng.choice(prim); t_ = fresh_terr(z[i][0]); z.append([z[i][0], t_, []]); z.insert(0, [z[i][0], t_, []])
        emit("mz-exact-duplicate-empty-entry", 4, im.enc4(z))
        z = mz_copy(); i = rng.choice(prim); z[i][2].append(rng.choice(sorted(known)))
        emit("mz-primary-two-ids", 4, im.enc4(z))
        z = mz_copy(); i = rng.choice(prim); z[i][2] = [rng.choice(unused)]
        emit("mz-primary-id-not-in-territories", 4, im.enc4(z))
        z = mz_copy(); i = rng.choice(prim); z[i][2] = []
        emit("mz-primary-no-ids(load)", 4, im.enc4(z))
        z = mz_copy(); i = rng.choice(nonprim); z[i][2] = []
        emit("mz-nonprimary-no-ids", 4, im.enc4(z))
        # ---- group 1: canonical map closure
        m = [list(e) for e in im.idmap]; i, j = rng.sample(aliases, 2); m[i][1] = m[j][0]
        emit("canon-alias-of-alias", 3, im.enc3(m))
        m = [list(e) for e in im.idmap]; i = rng.choice(aliases); m[i][1] = rng.choice(strangers)
        emit("canon-target-missing", 3, im.enc3(m))
        m = [list(e) for e in im.idmap]; i = rng.choice(aliases); m.append([m[i][1], m[i][0]])
        emit("canon-zone-id-redirected", 3, im.enc3(m))             # overwritten by the zone fields: stays valid
        m = [list(e) for e in im.idmap]; i = rng.choice(aliases); m.append([m[i][0], rng.choice(sorted(known))])
        emit("canon-alias-listed-twice", 3, im.enc3(m))
        # ---- groups 5, 6: locations
        if im.locs:
            l = [list(x) for x in im.locs]; l[rng.randrange(len(l))][4] = rng.choice(strangers)
            emit("loc-zone-missing", 6, im.enc6(l))
            l = [list(x) for x in im.locs]; i = rng.randrange(len(l)); l[i][4] = im.idmap[rng.choice(aliases)][0]
            emit("loc-zone-is-alias", 6, im.enc6(l))
            l = [list(x) for x in im.locs]; rng.shuffle(l)
            emit("loc-shuffled", 6, im.enc6(l[:rng.randrange(1, len(l))]))
            emit("loc-none-left", 6, im.enc6([]))
            l = [list(x) for x in im.locs]; i = rng.randrange(len(l)); l[i][0] = rng.choice([324001, -324001, 324000, -324000])
            emit("loc-latitude-edge(load)", 6, im.enc6(l))
            l = [list(x) for x in im.locs]; i = rng.randrange(len(l)); l[i][1] = rng.choice([648001, -648001, 648000])
            emit("loc-longitude-edge(load)", 6, im.enc6(l))
            l = [list(x) for x in im.locs]; i = rng.randrange(len(l)); l[i][3] = rng.choice(strangers)
            emit("loc-country-code-long(load)", 6, im.enc6(l))
            if "" in im.pidx:
                l = [list(x) for x in im.locs]; i = rng.randrange(len(l)); l[i][2] = ""
                emit("loc-country-name-empty(load)", 6, im.enc6(l))
        if im.locs70:
            l = [[a, b, [list(c) for c in cs], zi, co] for a, b, cs, zi, co in im.locs70]; l[rng.randrange(len(l))][3] = rng.choice(strangers)
            emit("loc70-zone-missing", 7, im.enc7(l))
            l = [[a, b, [list(c) for c in cs], zi, co] for a, b, cs, zi, co in im.locs70]; l[rng.randrange(len(l))][2] = []
            emit("loc70-no-countries(load)", 7, im.enc7(l))
            l = [[a, b, [list(c) for c in cs], zi, co] for a, b, cs, zi, co in im.locs70]; i = rng.randrange(len(l)); l[i][2][0][1] = rng.choice(strangers)
            emit("loc70-country-code-long(load)", 7, im.enc7(l))
            l = [[a, b, [list(c) for c in cs], zi, co] for a, b, cs, zi, co in im.locs70]; rng.shuffle(l)
            emit("loc70-shuffled", 7, im.enc7(l))
            if im.locs:
                l6 = [list(x) for x in im.locs]; l6[rng.randrange(len(l6))][4] = rng.choice(strangers)
                l7 = [[a, b, [list(c) for c in cs], zi, co] for a, b, cs, zi, co in im.locs70]; l7[rng.randrange(len(l7))][3] = rng.choice(strangers)
                emit2("loc+loc70-zone-missing", [(6, im.enc6(l6)), (7, im.enc7(l7))])
        # ---- benign rearrangements and alias back-filling material for the derived maps
        z = mz_copy(); rng.shuffle(z)
        emit("mz-shuffled", 4, im.enc4(z))
        z = mz_copy(); z.reverse()
        emit("mz-reversed", 4, im.enc4(z))
        z = mz_copy()
        pairs = [(i, k) for i in nonprim for k, v in im.idmap if k != v and v in z[i][2] and k not in used]
        if pairs:
            i, k = rng.choice(pairs); v = dict(map(tuple, im.idmap))[k]
            z[i][2][z[i][2].index(v)] = k                            # an alias is mapped, its canonical id is back-filled
            for x in z:
                if x[0] == z[i][0] and x[1] == P and x[2] == [v]:
                    x[2] = [k]
            emit("mz-alias-mapped-directly", 4, im.enc4(z))
        # two aliases of one canonical id mapped to different windows ids: the back-filling order (sorted) decides
        by_canon = {}
        for k, v in im.idmap:
            if k != v and k not in used:
                by_canon.setdefault(v, []).append(k)
        comp = [(v, ks) for v, ks in sorted(by_canon.items()) if len(ks) >= 2 and v in used]
        if comp:
            v, ks = rng.choice(comp); k1, k2 = rng.sample(ks, 2)
            z = mz_copy()
            for x in z:
                if v in x[2]:
                    x[2][x[2].index(v)] = k1
            others = [i for i in nonprim if k1 not in z[i][2]]
            home = next(x[0] for x in z if x[1] != P and k1 in x[2])
            others = [i for i in others if z[i][0] != home]
            z[rng.choice(others)][2].append(k2)
            emit("mz-two-aliases-compete", 4, im.enc4(z))
        if "" in im.pidx:
            z = mz_copy(); w = rng.choice(wids)
            for x in z:
                if x[0] == w:
                    x[0] = ""
            emit("mz-empty-windows-id", 4, im.enc4(z))              # `mutable.get(k)` is tested for truth
        z = mz_copy(); w = rng.choice(strangers); u = rng.choice(unused)
        z += [[w, P, [u]], [w, rng.choice(terrs), [u]]]
        emit("mz-new-windows-id", 4, im.enc4(z))
        m = [list(e) for e in im.idmap]; rng.shuffle(m)
        emit("canon-shuffled", 3, im.enc3(m))
        m = [list(e) for e in im.idmap]; m.append([rng.choice(strangers), rng.choice(im.zone_ids)])
        emit("canon-new-alias", 3, im.enc3(m))
        m = [list(e) for e in im.idmap]; i = rng.choice(aliases); del m[i]
        z = mz_copy()
        emit2("canon-alias-removed", [(3, im.enc3(m)), (4, im.enc4(z))])
        m = [list(e) for e in im.idmap]; z = mz_copy(); i = rng.choice(nonprim)
        m.append([rng.choice(strangers), z[i][2][0]]); rng.shuffle(z)
        emit2("canon-new-alias+mz-shuffled", [(3, im.enc3(m)), (4, im.enc4(z))])
    return out


def oracle_src(t):
    """the model's reading of the (edited) bytes is the reference; a difference is the failing input"""
    line = " ".join(t)
    m = MODEL.get(line)
    if m is None:
        return None
    r = guard(impl_src, t)
    if r == m:
        return None
    what = t[0][4:]
    if t[0].startswith("src."):
        ms, rs = m.split(" "), r.split(" ")
        i = next((k for k in range(min(len(ms), len(rs))) if ms[k] != rs[k]), min(len(ms), len(rs)))
        key = {"valid": "validate-outcome-differs-from-file", "t2w": "tzdb-to-windows-map-differs", "w2t": "windows-to-tzdb-map-differs",
               "info": "version-strings-differ-from-file"}.get(what, "source-payload-differs-from-file")
        return {"key": key, "what": f"{' '.join(t[:3])}: token {i}: the file says {' '.join(ms[max(0, i - 1):i + 2])[:200]}, the code has {' '.join(rs[max(0, i - 1):i + 2])[:200]}"}
    kind = MUT_KIND.get(line, "?")
    ms, rs = m.split(" ", 2), r.split(" ", 2)
    if ms[:2] != rs[:2]:
        raise InfraError(f"edited bytes differ between harness and model for {kind}: {ms[:2]} / {rs[:2]}")
    key = {"valid": "damaged-data-validate-outcome-differs", "t2w": "damaged-data-tzdb-to-windows-differs",
           "w2t": "damaged-data-windows-to-tzdb-differs"}.get(what, "damaged-data-payload-differs")
    return {"key": key, "what": f"file {t[1]} with edit '{kind}' ({t[0]}): " + _diff_text(what, rs[2], ms[2])}


def _diff_text(what, code, model):
    """where two replies differ; for the dict-valued ones the first key with different values"""
    if what in ("t2w", "w2t", "primary") and not code.startswith("!") and not model.startswith("!"):
        def parse(x):
            p = x.split(" ")[1:]
            return {p[i]: p[i + 1] for i in range(0, len(p) - 1, 2)}

        def txt(h):
            return "(absent)" if h is None else repr(bytes.fromhex(h).decode(errors="replace")) if h != "-" else "''"
        c, m = parse(code), parse(model)
        for k in sorted(set(c) | set(m)):
            if c.get(k) != m.get(k):
                return f"key {txt(k)}: the code has {txt(c.get(k))}, the reading of the same bytes gives {txt(m.get(k))}"
    return f"the code answers {code[:160]}, the reading of the same bytes gives {model[:160]}"


MUT_KIND = {}


@contextlib.contextmanager
def _recording_model_replies():
    """while active, every reply of the model driver is also stored in MODEL (the oracle's reference)"""
    import common
    orig = common.model_eval

    def recording(lines, driver="drv_elapsed", timeout=1800):
        res = orig(lines, driver, timeout)
        for o, r in zip(lines, res):
            if not o.startswith("file.load"):
                MODEL[o] = r
        return res
    common.model_eval = recording
    try:
        yield
    finally:
        common.model_eval = orig


def derived_maps_case(c):
    """the laws the theorems state, evaluated on the real code's own objects (a loaded or an edited source)"""
    label, src = c
    if validate_group(src) != "0":
        return None
    cm = src.canonical_id_map
    for w, t_ in src.windows_to_tzdb_ids.items():
        if cm.get(t_) != t_:
            return {"key": "windows-to-tzdb-value-not-canonical", "what": f"{label}: windows_to_tzdb_ids[{w!r}] = {t_!r} is not a canonical id"}
    t2w = src.tzdb_to_windows_ids
    for k in t2w:
        if k not in cm:
            return {"key": "tzdb-to-windows-key-unknown", "what": f"{label}: tzdb_to_windows_ids has key {k!r} which the source does not know"}
    for z in src.windows_mapping.map_zones:
        if z.territory != "001":
            for i in z.tzdb_ids:
                if t2w.get(i) != z.windows_id:
                    return {"key": "tzdb-to-windows-disagrees-with-mapzone", "what": f"{label}: {i!r} is mapped to {z.windows_id!r} by the file, tzdb_to_windows_ids says {t2w.get(i)!r}"}
    for l in (src.zone_locations or ()):
        if l.latitude != l._TzdbZoneLocation__latitude_seconds / 3600.0 or l.longitude != l._TzdbZoneLocation__longitude_seconds / 3600.0:
            return {"key": "location-degrees", "what": f"{label}: {l.zone_id}: latitude/longitude are not seconds/3600"}
    for l in (src.zone_1970_locations or ()):
        if l.latitude != l._TzdbZone1970Location__latitude_seconds / 3600.0 or l.longitude != l._TzdbZone1970Location__longitude_seconds / 3600.0:
            return {"key": "location-degrees", "what": f"{label}: {l.zone_id}: latitude/longitude are not seconds/3600"}
    return None


def source_ops(ctx):
    """ops of the payload suite and of the damaged-data suite"""
    pay, mut = [], []
    for pfx, _ in FILES:
        src = provider(pfx)[1]
        pay += [f"src.info {pfx}", f"src.primary {pfx}", f"src.t2w {pfx}", f"src.w2t {pfx}", f"src.valid {pfx}"]
        n = len(src.windows_mapping.map_zones)
        pay += [f"src.mapzone {pfx} {i}" for i in range(n + 1)]
        pay += [f"src.loc {pfx} {i}" for i in range(len(src.zone_locations or ()) + 1)]
        pay += [f"src.loc70 {pfx} {i}" for i in range(len(src.zone_1970_locations or ()) + 1)]
        for kind, edits in build_mutants(pfx, ctx.rng, ctx.scale(1, 12)):
            for what in (("valid",) if kind.startswith("loc") else ("valid", "t2w", "w2t")):
                o = mut_op(what, pfx, edits)
                MUT_KIND[o] = kind
                mut.append(o)
            im = image(pfx)
            extra = [("info", "-"), ("mapzone", ctx.rng.randrange(len(im.mapzones))), ("loc", ctx.rng.randrange(max(1, len(im.locs or ())))),
                     ("loc70", ctx.rng.randrange(max(1, len(im.locs70 or ()))))]
            w, a = ctx.rng.choice(extra)
            o = mut_op(w, pfx, edits, a)
            MUT_KIND[o] = kind
            mut.append(o)
    return pay, mut



def _fresh_child(args, optimize=False):
    import json
    import os
    import subprocess
    import sys
    here = os.path.dirname(os.path.abspath(__file__))
    cmd = [sys.executable] + (["-O"] if optimize else []) + [os.path.join(here, "fresh_child.py")] + list(args)
    p = subprocess.run(cmd, capture_output=True, text=True, timeout=300, env=dict(os.environ, PYODA_REPO=str(common.REPO)))
    if p.returncode != 0:
        return {"__error__": p.stderr[-400:]}
    return json.loads(p.stdout)


def provider_optimize_case(_):
    """the built-in provider must say the same under `python -O` (assert statements removed) as in the default mode"""
    a, b = _fresh_child(["provider"], optimize=True), _fresh_child(["provider"])
    if "__error__" in b:
        raise RuntimeError(b["__error__"])
    if "__error__" in a:
        return {"key": "provider-differs-under-python-O", "what": "under python -O the provider probe fails: " + a["__error__"][-200:]}
    for k in b:
        if a.get(k) != b[k]:
            return {"key": "provider-differs-under-python-O", "what": f"{k}: under python -O the built-in provider answers {str(a.get(k))[:200]}; in the default mode {str(b[k])[:200]}"}
    return None


def fixed_id_culture_cases(ctx):
    """(current culture name, offsets): cultures of every time-separator class; '' = invariant"""
    try:
        import c17
        names = [""] + [n for n in c17.culture_names(ctx)][:: (1 if ctx.thorough else 6)]
    except Exception:  # noqa: BLE001
        names = [""]
    offs = (19800, 20700, -3600, 45, -64800, 64799, 1800, -12600)
    return [(n, offs) for n in names]


def fixed_id_culture_case(case):
    """the id DateTimeZone.for_offset gives a fixed zone must have the form UTC+/-hh[:mm[:ss]] and resolve, through the
    built-in provider, to the matching fixed zone - whatever the CURRENT culture was when the zone was first made
    (fresh interpreter per case: the fixed-zone cache is process-wide)"""
    import json
    import os
    import re
    import subprocess
    import sys
    name, offs = case
    here = os.path.dirname(os.path.abspath(__file__))
    p = subprocess.run([sys.executable, os.path.join(here, "fixedid_child.py"), name] + [str(o) for o in offs],
                       capture_output=True, text=True, timeout=120, env=dict(os.environ, PYODA_REPO=str(REPO)))
    if p.returncode != 0:
        raise RuntimeError("child interpreter failed: " + p.stderr[-300:])
    for o, (first, later, ok) in json.loads(p.stdout).items():
        if not re.fullmatch(r"UTC|UTC[+-]\d\d(:\d\d(:\d\d)?)?", first) or ok is not True:
            return {"key": "fixed-zone-id-depends-on-current-culture",
                    "what": f"DateTimeZone.for_offset({o} s) first used under current culture {name!r} has id {first!r} (afterwards {later!r}); "
                            f"provider lookup of that id: {ok}"}
    return None


def run(ctx):
    rng = ctx.rng
    loads = []
    for pfx, rel in FILES:
        data = (REPO / rel).read_bytes()
        loads.append(f"file.load {pfx} {data.hex()}")
    ops = list(loads)
    show_ops = []
    allz = []
    for pfx, rel in FILES:
        prov, src = provider(pfx)
        for i in prov.ids:
            sid = pfx + Z.safe_id(i)
            show_ops.append(f"zone.show {sid}")
            allz.append((sid, pfx, i))
    ops += show_ops
    # behaviour from the bytes: period boundaries of a sample of zones (all in thorough), tail years
    beh = []
    sample = allz if ctx.thorough else rng.sample(allz, 90)
    import c04
    for sid, pfx, i in sample:
        z = provider(pfx)[0][i]
        periods, tail = Z.zone_data(z)
        pts = set()
        for p in periods:
            for b in (Z.inst_ns(p._raw_start), Z.inst_ns(p._raw_end)):
                if MINI <= b <= MAXI:
                    pts.update([b - 1, b])
        if tail is not None:
            for y in [2038, 2100, 5000, 9998, 9999] + [rng.randint(2038, 9999) for _ in range(2)]:
                for k in range(0, 12, 2):
                    pts.add(c04.year_ns(y) + k * 30 * NPD + rng.randint(0, NPD))
        pts.update([MINI, MAXI, 0])
        for t in sorted(pts):
            if MINI <= t <= MAXI:
                beh.append(f"zone.get {sid} {t}")
        if tail is not None and rng.random() < 0.3:
            beh.append(f"zone.walk {sid} {c04.year_ns(2037)} {c04.year_ns(2045)} 40")
    ops += beh
    # fixed-offset ids
    fx = []
    step = 1 if ctx.thorough else 61
    for s in list(range(-64800, 64801, step)) + [0, 1, -1, 59, 60, 3599, 3600, 64800, -64800, 64799]:
        fx.append(f"fixed.id {s}")
    ids = ["UTC", "UTC+05:30", "UTC-05:30", "UTC+18", "UTC-18", "UTC+18:00:01", "UTC+19", "UTC+5", "UTC+05:3", "UTC+05:60", "UTC+00:00:59",
           "UTC-00:00:01", "UTC+", "UTCX", "UTC+05:30:15", "UTC+05:30:15:00", "utc+05", "UTC +05", "UTC+17:59:59", "UTC-17:59:59", "UTC+18:00:00"]
    for _ in range(ctx.scale(300, 5000)):
        s = rng.randint(-64800, 64800)
        h, m, sec = abs(s) // 3600, abs(s) // 60 % 60, abs(s) % 60
        ids.append(f"UTC{'-' if s < 0 else '+'}{h:02d}:{m:02d}:{sec:02d}")
        ids.append(f"UTC{'-' if s < 0 else '+'}{h:02d}:{m:02d}")
    for i in ids:
        fx.append("fixed.parse " + hexs(i))
    ops += fx
    pay, mut = source_ops(ctx)
    ops += pay
    # the model's reading of the bytes, once; the oracle compares the code against it
    mres = model_eval(ops, "drv_c06")
    for o, r in zip(ops, mres):
        MODEL[o[:20] if o.startswith("file.load") else o] = r
    for o, r in zip(loads, mres):
        p = r.split(" ")
        if p[0] != "ok" or p[3] != "0":
            ctx.add_failure({"key": "file-not-decodable-by-model", "what": f"model could not decode {o[:12]}: {r[:200]}"}, op=o[:12], source="model-eval")
    ctx.note("ids_total", len(allz))
    ctx.note("zones_with_behaviour_probes", len(sample))
    # correspondence proper (the file.load lines are long: compare them by the oracle only)
    ctx.correspond("file.zones+behaviour", loads + show_ops + beh + fx, impl, oracle=oracle, driver="drv_c06",
                   nontrivial=lambda t, r: t[0] != "file.load", exhaustive=False)
    # every record of fields 4, 6, 7, the version strings, the derived maps, validate(): exhaustive on both files
    ctx.correspond("file.payloads", loads + pay, impl, oracle=oracle, driver="drv_c06",
                   nontrivial=lambda t, r: t[0] != "file.load", exhaustive=True)
    # the same on byte-level edits of the files (damaged and rearranged data)
    # (an edited file costs the model ~0.5 s: its replies are recorded from the suite's own model run instead of
    # being computed twice)
    with _recording_model_replies():
        ctx.correspond("file.damaged", loads + mut, impl, oracle=oracle, driver="drv_c06",
                       nontrivial=lambda t, r: t[0] != "file.load", exhaustive=False)
    outcomes = {}
    for o in mut:
        if o.startswith("mut.valid "):
            k = MUT_KIND[o]
            outcomes.setdefault(k, set()).add(MODEL[o].split(" ", 2)[2])
    ctx.note("damaged_outcomes", {k: sorted(v) for k, v in sorted(outcomes.items())})
    # aliases and validate()
    cases = []
    for pfx, rel in FILES:
        prov, src = provider(pfx)
        cm = src.canonical_id_map
        for a, c in cm.items():
            if a != c:
                cases.append((pfx, a, c))
    ctx.check_cases("alias.canonical", cases, alias_case, exhaustive=True)

    def validate_case(pfx):
        try:
            provider(pfx)[1].validate()
        except Exception as e:  # noqa: BLE001
            return {"key": "validate-fails", "what": f"{pfx}: source.validate() raised {type(e).__name__}: {e}"}
        return None
    ctx.check_cases("source.validate", [p for p, _ in FILES], validate_case, exhaustive=True)
    # the laws of the derived maps on the code's own objects: the loaded files and every edited file that validates
    law_cases = [(pfx, provider(pfx)[1]) for pfx, _ in FILES]
    seen = set()
    for o in mut:
        if o.startswith("mut.valid "):
            t = o.split(" ")
            key = (t[1], tuple(t[4:]))
            if key in seen:
                continue
            seen.add(key)
            _, src = mutated_source(t[1], t[4:])
            if not isinstance(src, BaseException):
                law_cases.append((f"{t[1]} edited ({MUT_KIND[o]})", src))
    ctx.check_cases("derived-maps.laws", law_cases, derived_maps_case, exhaustive=False)
    ctx.check_cases("fixed-ids.made-by-the-library-resolve", fixed_id_culture_cases(ctx), fixed_id_culture_case)
    ctx.check_cases("provider.python-O", ["-O"], provider_optimize_case)


def replay_op(op, failure):
    if failure.get("key") == "fixed-zone-id-depends-on-current-culture" and op.startswith("("):
        import ast
        return fixed_id_culture_case(ast.literal_eval(op))
    t = op.split(" ")
    if t[0] == "file.load":
        return None
    pre = []
    for pfx, rel in FILES:
        data = (REPO / rel).read_bytes()
        pre.append(f"file.load {pfx} {data.hex()}")
    res = model_eval(pre + [op], "drv_c06")
    MODEL[op] = res[-1]
    if t[0].startswith("mut."):
        MUT_KIND.setdefault(op, "replayed edit")
    return oracle(t)
