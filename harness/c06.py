"""C06 — zones behave exactly as the bundled tz database bytes say.

The independent interpretation is the Lean model: the Codec model decodes the whole database stream
(`file.load`), the decoded zones are handed to the Zone model inside the same driver (`drv_c06`), and the
model's answers are compared with the code's provider for the same file: id list, every zone's decoded data
(periods, tail rules), behaviour (`get_zone_interval` at period boundaries, tail transitions evaluated from the
yearly rules with the model's own calendar arithmetic), aliases, fixed-offset ids, `validate()`.
A disagreement here *is* the failing input (file, zone id, field or instant)."""
from __future__ import annotations

import io

import zonelib as Z
from common import REPO, InfraError, guard, hexs, model_eval
from zonelib import MAXI, MINI, NPD

FILES = [("A:", "pyoda_time/time_zones/Tzdb.nzd"), ("B:", "tests/test_data/Tzdb2013bFromNodaTime1.1.nzd")]

META = {
    "property": "C06",
    "proof_modules": ["PyodaProofs.C06"],
    "drivers": ["drv_c06"],
    "theorems": [
        "Pyoda.C06.ids_sorted", "Pyoda.C06.ids_perm", "Pyoda.C06.fixed_id_roundtrip", "Pyoda.C06.fixed_id_range",
        "Pyoda.C06.alias_yields_canonical_data", "Pyoda.C06.rule_offset_spec",
    ],
    "trusted_base": [
        "the model reader (PyodaModel/Codec/*) is the independent interpretation of the file format; C14 proves it inverse to the documented writer on the primitives",
        "equality of decoded data and of behaviour is established by exhaustive comparison over both real files (every id, every period, every tail rule field; behaviour at every period boundary and sampled tail years), not by a theorem",
    ],
    "partial": ["TzdbZoneLocation / Zone1970Location / Windows mapping payloads are outside the model (not compared)"],
    "rule": "both real database files, every id (canonical and alias): decoded data field by field (exhaustive); behaviour at every stored period boundary +-1 ns, tail years sampled; fixed-offset ids on a stride (all 129601 in thorough); distinct = distinct op",
}

_prov = {}


def provider(pfx):
    """the code's provider for the file behind prefix pfx"""
    if pfx not in _prov:
        Pm = Z.P()
        if pfx == "A:":
            from pyoda_time.time_zones._tzdb_date_time_zone_source import TzdbDateTimeZoneSource
            _prov[pfx] = (Pm.DateTimeZoneProviders.tzdb, TzdbDateTimeZoneSource.default)
        else:
            from pyoda_time.time_zones import DateTimeZoneCache
            from pyoda_time.time_zones._tzdb_date_time_zone_source import TzdbDateTimeZoneSource
            rel = dict(FILES)[pfx]
            with open(REPO / rel, "rb") as f:
                src = TzdbDateTimeZoneSource.from_stream(io.BytesIO(f.read()))
            _prov[pfx] = (DateTimeZoneCache(src), src)
    return _prov[pfx]


def zone_of(zid):
    pfx, rid = zid[:2], zid[2:]
    prov = provider(pfx)[0]
    for cand in (rid, rid.replace("_", " ")):
        try:
            return prov[cand]
        except Exception:  # noqa: BLE001
            continue
    raise KeyError(rid)


MODEL = {}


def impl(t):
    op = t[0]
    if op == "file.load":
        pfx = t[1]
        prov, src = provider(pfx)
        ids = list(prov.ids)
        return f"ok {len(ids)} {hexs(src.tzdb_version)} 0 " + " ".join(hexs(i) for i in ids)
    if op == "zone.show":
        z = zone_of(t[1])
        return Z.zone_def_line("x", z)[len("zone.def x "):]
    if op == "zone.get":
        return Z.zi_str(zone_of(t[1]).get_zone_interval(Z.ns_inst(int(t[2]))))
    if op == "zone.walk":
        z = zone_of(t[1])
        fr, to, maxn = int(t[2]), int(t[3]), int(t[4])
        out, cur = [], fr
        while cur < to and len(out) < maxn:
            zi = z.get_zone_interval(Z.ns_inst(cur))
            out.append(zi)
            cur = Z.inst_ns(zi._raw_end)
        return str(len(out)) + "".join(" | " + Z.zi_str(x) for x in out)
    if op == "fixed.id":
        Pm = Z.P()
        return hexs(Pm.DateTimeZone.for_offset(Pm.Offset.from_seconds(int(t[1]))).id)
    if op == "fixed.parse":
        zid = bytes.fromhex(t[1]).decode()
        z = provider("A:")[0].get_zone_or_none(zid)
        if z is None:
            return "none"
        if not z._is_fixed:
            return "not-fixed"
        return str(z.get_utc_offset(Z.ns_inst(0)).seconds)
    raise ValueError(op)


def oracle(t):
    """a difference between the code and the model's reading of the bytes is itself the failing input"""
    line = " ".join(t)
    if t[0] == "file.load":
        m = MODEL.get(line[:20])
        r = guard(impl, t)
        if m is not None and m != r:
            ms, rs = m.split(" "), r.split(" ")
            diff = [i for i in range(min(len(ms), len(rs))) if ms[i] != rs[i]][:1]
            return {"key": "id-list-differs-from-file", "what": f"file {t[1]}: provider ids/version differ from the file's id map at token {diff} (model {len(ms) - 4} ids, code {len(rs) - 4})"}
        return None
    m = MODEL.get(line)
    if m is None:
        return None
    r = guard(impl, t)
    if r == m:
        return None
    if t[0] == "zone.show":
        ms, rs = m.split(" "), r.split(" ")
        i = next((k for k in range(min(len(ms), len(rs))) if ms[k] != rs[k]), min(len(ms), len(rs)))
        return {"key": "zone-data-differs-from-file", "what": f"zone {t[1]}: decoded data differ from the file bytes at token {i}: file says {' '.join(ms[max(0, i - 2):i + 3])}, code has {' '.join(rs[max(0, i - 2):i + 3])}"}
    if t[0] in ("zone.get", "zone.walk"):
        return {"key": "zone-behaviour-differs-from-file", "what": f"{line[:120]}: code {r[:160]} / file interpretation {m[:160]}"}
    if t[0] == "fixed.id":
        return {"key": "fixed-zone-id", "what": f"fixed zone for {t[1]} s: code id {bytes.fromhex(r).decode(errors='replace') if not r.startswith('!') else r}, documented {bytes.fromhex(m).decode()}"}
    if t[0] == "fixed.parse":
        return {"key": "fixed-id-resolution", "what": f"id {bytes.fromhex(t[1]).decode()!r}: code resolves to {r}, expected {m}"}
    return None


def alias_case(c):
    pfx, alias, canon = c
    prov = provider(pfx)[0]
    za, zc = prov[alias], prov[canon]
    if za.id != alias:
        return {"key": "alias-id", "what": f"{pfx}{alias}: zone id is {za.id!r}"}
    da = Z.zone_def_line("x", za)
    dc = Z.zone_def_line("x", zc)
    if da != dc and za._is_fixed and zc._is_fixed:
        # a fixed zone stored without a name takes the id it is requested under as its name
        ia, ic = za.get_zone_interval(Z.ns_inst(0)), zc.get_zone_interval(Z.ns_inst(0))
        if ia.wall_offset == ic.wall_offset and ia.savings == ic.savings and ia.name in (ic.name, alias):
            return None
    if da != dc:
        return {"key": "alias-data-differs-from-canonical", "what": f"{pfx}{alias} -> {canon}: data differ"}
    if prov[alias] is not za:
        return {"key": "provider-lookup-not-stable", "what": f"{pfx}{alias}"}
    return None


def run(ctx):
    rng = ctx.rng
    loads = []
    for pfx, rel in FILES:
        data = (REPO / rel).read_bytes()
        loads.append(f"file.load {pfx} {data.hex()}")
    ops = list(loads)
    show_ops = []
    allz = []
    for pfx, rel in FILES:
        prov, src = provider(pfx)
        for i in prov.ids:
            sid = pfx + Z.safe_id(i)
            show_ops.append(f"zone.show {sid}")
            allz.append((sid, pfx, i))
    ops += show_ops
    # behaviour from the bytes: period boundaries of a sample of zones (all in thorough), tail years
    beh = []
    sample = allz if ctx.thorough else rng.sample(allz, 90)
    import c04
    for sid, pfx, i in sample:
        z = provider(pfx)[0][i]
        periods, tail = Z.zone_data(z)
        pts = set()
        for p in periods:
            for b in (Z.inst_ns(p._raw_start), Z.inst_ns(p._raw_end)):
                if MINI <= b <= MAXI:
                    pts.update([b - 1, b])
        if tail is not None:
            for y in [2038, 2100, 5000, 9998, 9999] + [rng.randint(2038, 9999) for _ in range(2)]:
                for k in range(0, 12, 2):
                    pts.add(c04.year_ns(y) + k * 30 * NPD + rng.randint(0, NPD))
        pts.update([MINI, MAXI, 0])
        for t in sorted(pts):
            if MINI <= t <= MAXI:
                beh.append(f"zone.get {sid} {t}")
        if tail is not None and rng.random() < 0.3:
            beh.append(f"zone.walk {sid} {c04.year_ns(2037)} {c04.year_ns(2045)} 40")
    ops += beh
    # fixed-offset ids
    fx = []
    step = 1 if ctx.thorough else 61
    for s in list(range(-64800, 64801, step)) + [0, 1, -1, 59, 60, 3599, 3600, 64800, -64800, 64799]:
        fx.append(f"fixed.id {s}")
    ids = ["UTC", "UTC+05:30", "UTC-05:30", "UTC+18", "UTC-18", "UTC+18:00:01", "UTC+19", "UTC+5", "UTC+05:3", "UTC+05:60", "UTC+00:00:59",
           "UTC-00:00:01", "UTC+", "UTCX", "UTC+05:30:15", "UTC+05:30:15:00", "utc+05", "UTC +05", "UTC+17:59:59", "UTC-17:59:59", "UTC+18:00:00"]
    for _ in range(ctx.scale(300, 5000)):
        s = rng.randint(-64800, 64800)
        h, m, sec = abs(s) // 3600, abs(s) // 60 % 60, abs(s) % 60
        ids.append(f"UTC{'-' if s < 0 else '+'}{h:02d}:{m:02d}:{sec:02d}")
        ids.append(f"UTC{'-' if s < 0 else '+'}{h:02d}:{m:02d}")
    for i in ids:
        fx.append("fixed.parse " + hexs(i))
    ops += fx
    # the model's reading of the bytes, once; the oracle compares the code against it
    mres = model_eval(ops, "drv_c06")
    for o, r in zip(ops, mres):
        MODEL[o[:20] if o.startswith("file.load") else o] = r
    for o, r in zip(loads, mres):
        p = r.split(" ")
        if p[0] != "ok" or p[3] != "0":
            ctx.add_failure({"key": "file-not-decodable-by-model", "what": f"model could not decode {o[:12]}: {r[:200]}"}, op=o[:12], source="model-eval")
    ctx.note("ids_total", len(allz))
    ctx.note("zones_with_behaviour_probes", len(sample))
    # correspondence proper (the file.load lines are long: compare them by the oracle only)
    ctx.correspond("file.zones+behaviour", loads + show_ops + beh + fx, impl, oracle=oracle, driver="drv_c06",
                   nontrivial=lambda t, r: t[0] != "file.load", exhaustive=False)
    # aliases and validate()
    cases = []
    for pfx, rel in FILES:
        prov, src = provider(pfx)
        cm = src.canonical_id_map
        for a, c in cm.items():
            if a != c:
                cases.append((pfx, a, c))
    ctx.check_cases("alias.canonical", cases, alias_case, exhaustive=True)

    def validate_case(pfx):
        try:
            provider(pfx)[1].validate()
        except Exception as e:  # noqa: BLE001
            return {"key": "validate-fails", "what": f"{pfx}: source.validate() raised {type(e).__name__}: {e}"}
        return None
    ctx.check_cases("source.validate", [p for p, _ in FILES], validate_case, exhaustive=True)


def replay_op(op, failure):
    t = op.split(" ")
    if t[0] == "file.load":
        return None
    pre = []
    for pfx, rel in FILES:
        data = (REPO / rel).read_bytes()
        pre.append(f"file.load {pfx} {data.hex()}")
    res = model_eval(pre + [op], "drv_c06")
    MODEL[op] = res[-1]
    return oracle(t)
