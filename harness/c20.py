"""C20 — damaged time-zone data is rejected with the documented error, promptly."""
from __future__ import annotations

import io
import os
import time
from concurrent.futures import ThreadPoolExecutor

import common
from common import guard, hexs

import c14
from c14 import FILES, decode_pool, f_interval, load_file, p_inst, p_map, p_yo, split_fields, unhex

CALL_TIMEOUT_S = 20.0
STRUCTURED_TIMEOUT_S = 6.0          # id-map rewiring: an unfaulted load+fetch takes < 1 s, a cycle never ends
RLIMIT_AS_HEADROOM = 3 << 29        # 1.5 GiB above what the worker already maps: a declared-count allocation
                                    # (2^28 pointers = 2 GiB, 2^31 = 16 GiB) cannot succeed, real decoding needs < 100 MiB
MODEL_JOBS = max(2, min(12, (os.cpu_count() or 4) - 2))
CODE_JOBS = max(2, min(12, (os.cpu_count() or 4) - 2))

META = {
    "property": "C20",
    "proof_modules": ["PyodaProofs.C20", "PyodaProofs.GenAgreeC14", "PyodaProofs.GenAgreeC14S", "PyodaProofs.GenAgreeC14V", "PyodaProofs.GenAgreeC14W"],
    "drivers": ["drv_codec"],
    "theorems": [
        "Pyoda.C20.loadAndUse_outcome", "Pyoda.C20.fromStream_outcome", "Pyoda.C20.forId_outcome",
        "Pyoda.C20.short_header_rejected", "Pyoda.C20.truncation_inside_field",
        "Pyoda.C20.readN_consumes", "Pyoda.C20.readNTicks_linear", "Pyoda.C20.readFields_fuel_irrelevant",
        "Pyoda.C20.element_readers_progress",
        "Pyoda.C20.truncation_anywhere", "Pyoda.C20.loadAndUse_work_bound", "Pyoda.C20.payloads_fit",
        "Pyoda.C20.fromStream_as_written", "Pyoda.C20.forId_as_written", "Pyoda.C20.loadAndUseRaw_outcome",
        # agreement of the definitions generated from the Python source (tools/py2lean.py) with the model
        "Pyoda.GenAgree.C14.gen_Reader_ctor_eq", "Pyoda.GenAgree.C14.gen_Reader_readByte_eq",
        "Pyoda.GenAgree.C14.gen_Reader_hasMoreData_eq", "Pyoda.GenAgree.C14.gen_Reader_readInt16_eq",
        "Pyoda.GenAgree.C14.gen_Reader_readInt32_eq", "Pyoda.GenAgree.C14.gen_Reader_readInt64_eq",
        "Pyoda.GenAgree.C14.gen_Reader_readVarint_loop1_eq", "Pyoda.GenAgree.C14.gen_Reader_readVarint_eq",
        "Pyoda.GenAgree.C14.gen_Reader_readCount_eq", "Pyoda.GenAgree.C14.gen_Reader_readSignedCount_eq",
        "Pyoda.GenAgree.C14.gen_Reader_readMilliseconds_eq", "Pyoda.GenAgree.C14.gen_Reader_readOffset_eq",
        "Pyoda.GenAgree.C14.gen_Reader_readTransitionNone_eq", "Pyoda.GenAgree.C14.gen_Reader_readTransitionSome_eq",
        "Pyoda.GenAgree.C14.gen_Reader_readString_loop1_eq", "Pyoda.GenAgree.C14.gen_Reader_readString_eq",
        "Pyoda.GenAgree.C14.gen_Reader_readDictionary_loop1_eq", "Pyoda.GenAgree.C14.gen_Reader_readDictionary_eq",
        "Pyoda.GenAgree.C14.gen_YearOffset_read_eq", "Pyoda.GenAgree.C14.gen_Recurrence_read_eq",
        "Pyoda.GenAgree.C14.gen_MapZone_ctor_eq", "Pyoda.GenAgree.C14.gen_MapZone_read_loop1_eq",
        "Pyoda.GenAgree.C14.gen_MapZone_read_eq", "Pyoda.GenAgree.C14.gen_ZoneLocation_read_eq",
        "Pyoda.GenAgree.C14.gen_WindowsZones_read_loop1_eq", "Pyoda.GenAgree.C14.gen_WindowsZones_read_eq",
        "Pyoda.GenAgree.C14.gen_Zone1970Location_read_loop1_eq", "Pyoda.GenAgree.C14.gen_Zone1970Location_read_eq",
        "Pyoda.GenAgree.C14.gen_FixedZone_read_eq", "Pyoda.GenAgree.C14.gen_AltMap_read_eq",
        "Pyoda.GenAgree.C14.gen_PrecalcZone_read_loop1_eq", "Pyoda.GenAgree.C14.gen_PrecalcZone_read_eq",
        "Pyoda.GenAgree.C14S.gen_Field_ctor_eq", "Pyoda.GenAgree.C14S.gen_Field_getId_eq",
        "Pyoda.GenAgree.C14S.gen_readFields_step", "Pyoda.GenAgree.C14S.gen_Field_readFieldsNext_loop1_eq",
        "Pyoda.GenAgree.C14S.gen_Field_readFieldsNext_eq",
        "Pyoda.GenAgree.C14V.gen_Validate_canonAndPrimary_loop1_eq",
        "Pyoda.GenAgree.C14V.gen_Validate_canonAndPrimary_loop2_eq",
        "Pyoda.GenAgree.C14V.gen_Validate_canonAndPrimary_eq", "Pyoda.GenAgree.C14V.gen_Validate_locations_loop1_eq",
        "Pyoda.GenAgree.C14V.gen_Validate_locations_eq", "Pyoda.GenAgree.C14V.gen_Validate_locationsNone_eq",
        "Pyoda.GenAgree.C14V.gen_Validate_locations1970_loop1_eq",
        "Pyoda.GenAgree.C14V.gen_Validate_locations1970_eq", "Pyoda.GenAgree.C14V.gen_Validate_locations1970None_eq",
        "Pyoda.GenAgree.C14V.gen_Validate_tzdbIds_loop2_eq", "Pyoda.GenAgree.C14V.gen_Validate_tzdbIds_loop1_eq",
        "Pyoda.GenAgree.C14V.gen_Validate_tzdbIds_eq", "Pyoda.GenAgree.C14W.gen_Writer_ctor_eq",
        "Pyoda.GenAgree.C14W.gen_Writer_writeByte_eq", "Pyoda.GenAgree.C14W.gen_Writer_writeVarint_loop1_eq",
        "Pyoda.GenAgree.C14W.gen_Writer_writeVarint_eq", "Pyoda.GenAgree.C14W.gen_Writer_writeVarint_neg",
        "Pyoda.GenAgree.C14W.gen_Writer_writeCount_eq", "Pyoda.GenAgree.C14W.gen_Writer_writeSignedCount_eq",
        "Pyoda.GenAgree.C14W.gen_Writer_writeInt16_eq", "Pyoda.GenAgree.C14W.gen_Writer_writeInt32_eq",
        "Pyoda.GenAgree.C14W.gen_Writer_writeInt64_eq", "Pyoda.GenAgree.C14W.gen_Writer_writeMilliseconds_eq",
        "Pyoda.GenAgree.C14W.gen_Writer_writeOffset_eq", "Pyoda.GenAgree.C14W.gen_Writer_writeString_eq",
        "Pyoda.GenAgree.C14W.gen_checkNotNullDict_eq", "Pyoda.GenAgree.C14W.gen_Writer_writeDictionary_loop1_eq",
        "Pyoda.GenAgree.C14W.gen_Writer_writeDictionary_eq", "Pyoda.GenAgree.C14W.gen_Writer_writeTransitionNone_eq",
        "Pyoda.GenAgree.C14W.gen_Writer_writeTransitionSome_eq", "Pyoda.GenAgree.C14W.gen_YearOffset_mode_eq",
        "Pyoda.GenAgree.C14W.gen_YearOffset_advanceDayOfWeek_eq", "Pyoda.GenAgree.C14W.gen_YearOffset_timeOfDay_eq",
        "Pyoda.GenAgree.C14W.gen_Recurrence_name_eq", "Pyoda.GenAgree.C14W.gen_Recurrence_savings_eq",
        "Pyoda.GenAgree.C14W.gen_Recurrence_yearOffset_eq", "Pyoda.GenAgree.C14W.gen_Recurrence_fromYear_eq",
        "Pyoda.GenAgree.C14W.gen_Recurrence_toYear_eq", "Pyoda.GenAgree.C14W.gen_YearOffset_write_eq",
        "Pyoda.GenAgree.C14W.gen_Recurrence_write_eq", "Pyoda.GenAgree.C14W.gen_AltMap_write_eq",
    ],
    "trusted_base": [
        "translator tie shared with C14 (tools/py2lean.py; GenAgreeC14 / C14S / C14W): the reader (every read_* method, incl. the short-read loop of read_string under any stream that keeps the read(n) contract), the writer, and one next() of the field-framing generator _TzdbStreamField._read_fields are re-translated from the source on every run and proved equal to the codec model the C20 theorems are about (readFields is proved to be the iteration of that step and the handlers: gen_readFields_step). The zone readers create_zone dispatches to — _FixedDateTimeZone.read, _PrecalculatedDateTimeZone._read with its period loop and _StandardDaylightAlternatingMap._read — are tied too (gen_FixedZone_read_eq, gen_PrecalcZone_read_eq, gen_AltMap_read_eq: the model's readFixed / readPrecalculated / readAlternatingMap on the bytes at hand). Outside the tie: the _Builder field handlers, _from_stream / create_zone themselves with their except clauses and the `with` over a field stream (correspondence only)",
        "io.BytesIO read semantics; struct.unpack('i') of four bytes is 0 iff all four are 0",
        "zone creation depends only on (string pool, id, zone field bytes): a (id, field) pair fetched successfully from the undamaged file is not fetched again when pool and field are unchanged (spot-checked on a seeded sample by full evaluation)",
        "wall-clock and memory limits are enforced by the harness (20 s alarm per call, 6 s for the id-map rewiring family; RLIMIT_AS = 1.5 GiB above the worker's mapped size), not proved",
    ],
    "partial": [
        "work bound: loadAndUse_work_bound bounds the bytes handed to decoders by |bytes|*(2 + #ids) (the alias factor is necessary: k aliases of one zone decode it k times) and the reader loops are bounded by the bytes they are given (readNTicks_linear, readFields_fuel_irrelevant); no bound in seconds; big-integer work of over-long varints is outside the count",
        "the fault space (every prefix x every <=4-byte corruption of two files) is sampled: all field boundaries and 3 cuts per field exhaustively, corruptions by seeded sampling stratified over the regions of the file",
    ],
    "rule": "distinct = distinct fault (file, edit script) / distinct op line; non-trivial = every fault (each damages the stream); "
            "outcome classes ok / InvalidPyodaDataError / other(type) / hang / memory",
}


# ---------------------------------------------------------------------------------------------
# faults
# ---------------------------------------------------------------------------------------------

def apply_fault(data: bytes, fault: str) -> bytes:
    """same edit-script semantics as `applyFault` in PyodaModel/Codec.lean"""
    if fault == "none":
        return data
    b = bytearray(data)
    for f in fault.split("+"):
        c = f[0]
        if c == "t":
            del b[int(f[1:]):]
            continue
        p, arg = f[1:].split(":")
        p = int(p)
        if c == "s":
            h = bytes.fromhex(arg)
            h = h[:max(0, len(b) - p)]
            b[p:p + len(h)] = h
        elif c == "i":
            b[p:p] = bytes.fromhex(arg)
        elif c == "d":
            del b[p:p + int(arg)]
        else:
            raise ValueError("bad fault " + f)
    return bytes(b)


def regions(data: bytes):
    """[(name, start, end)] of the stretches of the file by role."""
    fs = split_fields(data)
    out = [("header", 0, 4)]
    prev_end = 4
    for fid, a, b in fs:
        out.append(("framing", prev_end, a))
        name = {0: "pool", 1: "zone", 2: "version", 3: "idmap", 4: "windows", 5: "field5", 6: "locations", 7: "locations1970"}[fid]
        out.append((name, a, b))
        prev_end = b
    return out


def gen_faults(ctx, data: bytes, pool, n_random: int, stride: int = 1):
    rng = ctx.rng
    fs = split_fields(data)
    faults = []
    # every prefix that ends at a field boundary, and the header prefixes
    for p in range(0, 5):
        faults.append(f"t{p}")
    starts = [4]
    for fid, a, b in fs:
        starts.append(b)
    for i, ((fid, a, b), st) in enumerate(zip(fs, starts)):
        if i % stride:
            continue
        faults.append(f"t{st}")          # cut before the field
        faults.append(f"t{st + 1}")      # after its id byte
        faults.append(f"t{a}")           # after its length
        if b > a:
            faults.append(f"t{a + 1}")               # first payload byte only
            faults.append(f"t{(a + b) // 2}")        # middle
            faults.append(f"t{b - 1}")               # last payload byte missing
    faults.append(f"t{len(data) - 1}")
    # corruptions, stratified by region
    regs = regions(data)
    by_name = {}
    for name, a, b in regs:
        if b > a:
            by_name.setdefault(name, []).append((a, b))
    weights = {"header": 0.02, "framing": 0.12, "pool": 0.10, "zone": 0.46, "version": 0.02, "idmap": 0.10, "windows": 0.06,
               "field5": 0.02, "locations": 0.05, "locations1970": 0.05}
    names = [n for n in weights if n in by_name]

    def pick_pos():
        name = rng.choices(names, [weights[n] for n in names])[0]
        a, b = rng.choice(by_name[name])
        return rng.randrange(a, b)

    def new_byte(old):
        c = rng.random()
        if c < 0.45:
            return rng.choice([0x00, 0x7F, 0x80, 0xFF, 0x01, 0x02, 0x12])
        if c < 0.65:
            return (old + rng.choice([1, -1])) % 256
        return rng.randrange(256)

    for _ in range(n_random):
        k = rng.choices([1, 2, 3, 4], [0.6, 0.2, 0.1, 0.1])[0]
        kind = rng.choices(["s", "i", "d", "mix"], [0.7, 0.1, 0.1, 0.1])[0]
        parts = []
        cur = bytearray(data)
        base = pick_pos()
        for j in range(k):
            p = base if j == 0 else (min(len(cur) - 1, base + rng.randrange(1, 6)) if rng.random() < 0.6 else pick_pos())
            p = min(p, len(cur) - 1)
            kd = kind if kind != "mix" else rng.choice(["s", "i", "d"])
            if kd == "s":
                f = f"s{p}:{new_byte(cur[p]):02x}"
            elif kd == "i":
                f = f"i{p}:{new_byte(cur[p]):02x}"
            else:
                f = f"d{p}:1"
            parts.append(f)
            cur = bytearray(apply_fault(bytes(cur), f))
            base = p
        faults.append("+".join(parts))
    # header: every byte x a few values
    for p in range(0, 6):
        for v in (0x00, 0x01, 0x08, 0x7F, 0x80, 0xFF):
            if data[p] != v:
                faults.append(f"s{p}:{v:02x}")
    # targeted: alias whose canonical id becomes the empty string (if the pool has one)
    if "" in pool:
        empty_idx = pool.index("")
        for name, a, b in regs:
            if name == "idmap" and empty_idx < 128:
                for p in rng.sample(range(a + 2, b), min(12, b - a - 2)):
                    faults.append(f"s{p}:{empty_idx:02x}")
    seen, out = set(), []
    for f in faults:
        if f not in seen:
            seen.add(f)
            out.append(f)
    return out


def _varint(buf: bytes, pos: int):
    ret = shift = 0
    while True:
        b = buf[pos]
        pos += 1
        ret += (b & 0x7F) << shift
        shift += 7
        if b < 0x80:
            return ret, pos


def _enc(v: int) -> bytes:
    out = bytearray()
    while v >= 0x80:
        out.append(0x80 | (v & 0x7F))
        v >>= 7
    out.append(v)
    return bytes(out)


def _subst(data: bytes, edits):
    """edits: [(pos, new bytes)] -> (fault string, number of bytes that really change) ; None when nothing changes"""
    parts, changed = [], 0
    for pos, new in edits:
        for i, v in enumerate(new):
            if data[pos + i] != v:
                parts.append(f"s{pos + i}:{v:02x}")
                changed += 1
    return ("+".join(parts), changed) if parts else None


def gen_idmap_rewiring(ctx, data: bytes, pool, per_kind: int = 6):
    """Family A: <= 4 substituted bytes in the alias map (field 3: count, then (key index, value index) pool references)
    that cross-wire aliases: 2-cycles, 3-cycles, self reference, chains alias -> alias, a value that is a pool string but
    no zone id, pool index 0, an out-of-range index."""
    rng = ctx.rng
    fs = split_fields(data)
    zone_idx = set()
    for fid, a, b in fs:
        if fid == 1:
            zone_idx.add(_varint(data, a)[0])
    out = []
    for fid, a, b in fs:
        if fid != 3:
            continue
        count, p = _varint(data, a)
        entries = []
        for _ in range(count):
            if p >= b:
                break
            k, p = _varint(data, p)
            vpos = p
            v, p = _varint(data, p)
            entries.append((k, v, vpos, p - vpos))
        keys = {e[0] for e in entries}
        order = list(range(len(entries)))
        rng.shuffle(order)

        def put(kind, edits, budget=4):
            r = _subst(data, edits)
            if r and r[1] <= budget and sum(1 for o in out if o[1] == kind) < per_kind:
                out.append((r[0], kind))
                return True
            return False
        # 2-cycles a -> b, b -> a
        for i in order:
            ka, va, pa, sa = entries[i]
            for j in order:
                kb, vb, pb, sb = entries[j]
                if i < j and len(_enc(kb)) == sa and len(_enc(ka)) == sb:
                    if put("cycle2", [(pa, _enc(kb)), (pb, _enc(ka))]):
                        break
            if sum(1 for o in out if o[1] == "cycle2") >= per_kind:
                break
        # 3-cycles a -> b -> c -> a
        tries = 0
        while sum(1 for o in out if o[1] == "cycle3") < per_kind and tries < 4000 and len(entries) >= 3:
            tries += 1
            (ka, _, pa, sa), (kb, _, pb, sb), (kc, _, pc, sc) = (entries[x] for x in rng.sample(order, 3))
            if len(_enc(kb)) == sa and len(_enc(kc)) == sb and len(_enc(ka)) == sc:
                put("cycle3", [(pa, _enc(kb)), (pb, _enc(kc)), (pc, _enc(ka))])
        for i in order:
            k, v, pos, sz = entries[i]
            if len(_enc(k)) == sz:
                put("self", [(pos, _enc(k))])
            other = entries[order[(order.index(i) + 1) % len(order)]][0]
            if other != k and len(_enc(other)) == sz:
                put("chain", [(pos, _enc(other))])
            non_zone = [x for x in range(len(pool)) if x not in zone_idx and x not in keys and len(_enc(x)) == sz]
            if non_zone:
                put("nonzone", [(pos, _enc(rng.choice(non_zone)))])
            if sz == 1:
                put("index0", [(pos, b"\x00")])
            else:
                put("index0", [(pos, bytes([0x80] * (sz - 1) + [0x00]))])      # over-long zero
            for big in (len(pool), len(pool) + 1, (1 << (7 * sz)) - 1):
                if len(_enc(big)) == sz:
                    put("outofrange", [(pos, _enc(big))])
            # the key side as well: an alias key that shadows a zone id
            if zone_idx:
                zi = rng.choice(sorted(zone_idx))
                kpos = pos - len(_enc(k))
                if len(_enc(zi)) == len(_enc(k)):
                    put("key-is-zone", [(kpos, _enc(zi))])
    return out


def count_positions(data: bytes):
    """(name, position of the count varint, its end) for every element count the decoders trust: string pool, alias map,
    windows zones (after three pooled strings), zone locations, zone-1970 locations, every zone's period count."""
    out = []
    for fid, a, b in split_fields(data):
        try:
            if fid in (0, 3, 6, 7):
                out.append(({0: "pool", 3: "idmap", 6: "locations", 7: "locations1970"}[fid], a, _varint(data, a)[1]))
            elif fid == 4:
                p = a
                for _ in range(3):
                    p = _varint(data, p)[1]
                out.append(("windows", p, _varint(data, p)[1]))
            elif fid == 1:
                p = _varint(data, a)[1]            # pooled id
                if data[p] == 2:
                    out.append(("zone-periods", p + 1, _varint(data, p + 1)[1]))
        except IndexError:
            continue
    return out


def gen_hostile_text_faults(ctx, data: bytes, n: int):
    """Family C: TWO cooperating faults - one byte of a zone id in the string pool becomes a character that is special
    to a text-formatting mechanism ('{', '}', '%', a backslash, a NUL, a quote) and that zone's type byte (or another
    byte at the start of its field) becomes invalid, so that an error message MENTIONING the damaged id has to be built.
    Building the documented error must not itself raise something else."""
    rng = ctx.rng
    fs = split_fields(data)
    pool_pos = {}
    for fid, a, b in fs:
        if fid == 0:
            count, p = _varint(data, a)
            for idx in range(count):
                ln, p2 = _varint(data, p)
                pool_pos[idx] = (p2, ln)
                p = p2 + ln
    out = []
    zone_fields = [(a, b) for fid, a, b in fs if fid == 1]
    rng.shuffle(zone_fields)
    specials = [0x7B, 0x7D, 0x25, 0x5C, 0x00, 0x27, 0x22]
    for a, b in zone_fields[:n]:
        idx, p = _varint(data, a)
        if idx not in pool_pos or pool_pos[idx][1] < 3:
            continue
        spos, ln = pool_pos[idx]
        ch = rng.choice(specials)
        where = spos + rng.randrange(ln)
        for second in ((p, bytes([9])), (p, bytes([0xFF])), (p + 1, bytes([0xFF, 0xFF]))):
            r = _subst(data, [(where, bytes([ch])), second])
            if r and r[1] <= 4:
                out.append((r[0], "hostile-text+forced-error"))
    return out


def gen_shrink_faults(ctx, data: bytes, n: int):
    """Family D: a count made SMALLER while every length stays intact - the count varint is rewritten as a padded
    (non-minimal) encoding of count-1 (or of 0) that swallows the bytes of the elements it no longer announces, so the
    rest of the field still parses. Windows mapping: the ids of one MapZone (a MapZone with no ids at all); alias map:
    one pair; zone field: a precalculated zone with one period fewer. What comes out is structurally valid and
    semantically odd - the constructors behind the decoders see it."""
    rng = ctx.rng

    def padded(v: int, width: int) -> bytes:
        raw = bytearray(_enc(v))
        if len(raw) > width:
            return b""
        for i in range(len(raw)):
            raw[i] |= 0x80
        raw += bytes([0x80] * (width - len(raw)))
        raw[-1] &= 0x7F
        return bytes(raw)

    out = []
    for fid, a, b in split_fields(data):
        try:
            if fid == 4:
                p = a
                for _ in range(3):
                    p = _varint(data, p)[1]
                nz, p = _varint(data, p)
                zones = []
                for _ in range(nz):
                    p = _varint(data, p)[1]              # windows id
                    tpos = p
                    terr, p = _varint(data, p)           # territory
                    cpos = p
                    c, p = _varint(data, p)
                    ids = []
                    for _ in range(c):
                        q = p
                        p = _varint(data, p)[1]
                        ids.append((q, p))
                    zones.append((tpos, cpos, c, ids, p))
                # the primary-territory MapZones come first in CLDR order or not; take the first ones and a sample
                pick = zones[:8] + rng.sample(zones, min(len(zones), n))
                for tpos, cpos, c, ids, endp in pick:
                    if c >= 1:
                        w = ids[0][1] - cpos                 # count varint + first id
                        new = padded(c - 1, w)
                        r = new and _subst(data, [(cpos, new)])
                        if r and r[1] <= 4:
                            out.append((r[0], "shrink-windows-ids"))
                        w = endp - cpos
                        new = padded(0, w)
                        r = new and _subst(data, [(cpos, new)])
                        if r and r[1] <= 4:
                            out.append((r[0], "shrink-windows-ids-to-zero"))
                        # the same, the freed bytes swallowed by the territory varint instead
                        w = endp - tpos - 1
                        new = padded(_varint(data, tpos)[0], w)
                        r = new and _subst(data, [(tpos, new + b"\x00")])
                        if r and r[1] <= 4:
                            out.append((r[0], "shrink-windows-ids-to-zero"))
            elif fid == 3:
                c, p = _varint(data, a)
                k1 = _varint(data, p)[1]
                k2 = _varint(data, k1)[1]
                new = padded(c - 1, k2 - a)
                r = new and _subst(data, [(a, new)])
                if r and r[1] <= 4:
                    out.append((r[0], "shrink-idmap"))
        except IndexError:
            continue
    seen, res = set(), []
    for f in out:
        if f[0] not in seen:
            seen.add(f[0])
            res.append(f)
    return res


def gen_count_faults(ctx, data: bytes, zones: int):
    """Families B and C: the count varint replaced by huge and moderately large declared counts (<= 4 substituted bytes,
    borrowing the continuation bits the neighbouring bytes already carry), and the stream cut right after the count."""
    rng = ctx.rng
    cps = count_positions(data)
    fixed = [c for c in cps if c[0] != "zone-periods"]
    zs = [c for c in cps if c[0] == "zone-periods"]
    rng.shuffle(zs)
    out = []
    for name, pos, end in fixed + zs[:zones]:
        for width, last_bytes in ((5, (0x07, 0x04)), (4, (0x7F, 0x40)), (3, (0x7F,)), (2, (0x7F,))):
            if pos + width > len(data):
                continue
            for last in last_bytes:
                new = bytes([data[pos + i] | 0x80 for i in range(width - 1)] + [last])
                r = _subst(data, [(pos, new)])
                if r and r[1] <= 4:
                    out.append((r[0], f"count-{name}"))
        # all-ones within the original width
        w = end - pos
        r = _subst(data, [(pos, bytes([0xFF] * (w - 1) + [0x7F]))])
        if r and r[1] <= 4:
            out.append((r[0], f"count-{name}"))
        out.append((f"t{end}", f"cut-after-count-{name}"))
        out.append((f"t{pos}", f"cut-after-count-{name}"))
    seen, res = set(), []
    for f in out:
        if f[0] not in seen:
            seen.add(f[0])
            res.append(f)
    return res


# ---------------------------------------------------------------------------------------------
# the real code under a fault (runs in worker processes)
# ---------------------------------------------------------------------------------------------

class _Hang(BaseException):
    pass


_W = {}


def _worker_init():
    import resource
    import signal
    try:
        vm = 0
        with open("/proc/self/status") as fh:
            for line in fh:
                if line.startswith("VmSize:"):
                    vm = int(line.split()[1]) * 1024
        cap = vm + RLIMIT_AS_HEADROOM
        soft, hard = resource.getrlimit(resource.RLIMIT_AS)
        if hard != resource.RLIM_INFINITY:
            cap = min(cap, hard)
        resource.setrlimit(resource.RLIMIT_AS, (cap, hard))
        _W["cap"] = cap
    except Exception:  # noqa: BLE001
        pass

    def on_alarm(signum, frame):
        raise _Hang()
    signal.signal(signal.SIGALRM, on_alarm)


def _internals(src):
    sd = getattr(src, "_TzdbDateTimeZoneSource__source")
    pool = getattr(sd, "_TzdbStreamData__string_pool")
    zf = getattr(sd, "_TzdbStreamData__zone_fields")
    return sd, pool, zf


def _field_bytes(field) -> bytes:
    return bytes(getattr(field, "_TzdbStreamField__data"))


def _baseline(rel):
    """(pool, {(id, field bytes)}) of the undamaged file: every id fetched once, all must succeed."""
    if rel in _W:
        return _W[rel]
    from pyoda_time.time_zones._tzdb_date_time_zone_source import TzdbDateTimeZoneSource
    data = load_file(rel)
    src = TzdbDateTimeZoneSource.from_stream(io.BytesIO(data))
    try:
        sd, pool, zf = _internals(src)
        ok = set()
        for id_ in list(src.get_ids()):
            canonical = src.canonical_id_map[id_]
            src.for_id(id_)
            ok.add((id_, _field_bytes(zf[canonical])))
        _W[rel] = (data, tuple(pool), ok)
    except AttributeError:
        _W[rel] = (data, None, set())
    return _W[rel]


def load_and_use(data: bytes, base_pool=None, base_ok=frozenset(), full=False):
    """from_stream, get_ids, for_id for every id. Returns the number of ids."""
    from pyoda_time.time_zones._tzdb_date_time_zone_source import TzdbDateTimeZoneSource
    src = TzdbDateTimeZoneSource.from_stream(io.BytesIO(data))
    ids = list(src.get_ids())
    memo = False
    if base_pool is not None and not full:
        try:
            sd, pool, zf = _internals(src)
            memo = tuple(pool) == base_pool
        except AttributeError:
            memo = False
    from pyoda_time.utility import InvalidPyodaDataError
    first_err = None
    for id_ in ids:
        if memo:
            canonical = src.canonical_id_map.get(id_)
            field = zf.get(canonical) if canonical else None
            if field is not None and (id_, _field_bytes(field)) in base_ok:
                continue
        # EVERY fetch must work or raise the documented error - also the fetches after a rejected one, a second
        # fetch of a rejected id, and the aliases of a rejected zone (state kept between fetches must not change
        # the error type): so the loop goes on after InvalidPyodaDataError and asks a rejected id again
        try:
            src.for_id(id_)
        except InvalidPyodaDataError as e:
            if first_err is None:
                first_err = e
            try:
                src.for_id(id_)
            except InvalidPyodaDataError:
                pass
            else:
                raise _Inconsistent(f"for_id({id_!r}) raised InvalidPyodaDataError first and returned a zone when asked again")
    if first_err is not None:
        raise first_err
    return len(ids)


class _Inconsistent(Exception):
    """a fetch that was rejected succeeded when repeated"""


def eval_fault(arg):
    """(rel, fault, full, timeout) -> (outcome, detail, seconds)"""
    import signal
    rel, fault, full, limit = arg
    data, base_pool, base_ok = _baseline(rel)
    damaged = apply_fault(data, fault)
    from pyoda_time.utility import InvalidPyodaDataError
    t0 = time.time()
    signal.setitimer(signal.ITIMER_REAL, limit)
    try:
        try:
            n = load_and_use(damaged, base_pool, base_ok, full)
            out, detail = f"ok{n}", ""
        finally:
            signal.setitimer(signal.ITIMER_REAL, 0)
    except InvalidPyodaDataError as e:
        out, detail = "!invalidData", str(e)[:120]
    except _Hang:
        out, detail = "!hang", f"no result within {limit} s"
    except MemoryError:
        out, detail = "!memory", f"MemoryError under an address-space cap of {_W.get('cap', 0) >> 20} MiB"
    except RecursionError:
        out, detail = "!other:RecursionError", ""
    except Exception as e:  # noqa: BLE001
        import traceback
        tb = traceback.extract_tb(e.__traceback__)
        where = f"{os.path.basename(tb[-1].filename)}:{tb[-1].name}" if tb else ""
        tn = type(e).__name__ if type(e).__module__ == "builtins" else type(e).__module__.split(".")[-1] + "." + type(e).__name__
        out, detail = "!other:" + tn, f"{str(e)[:100]} @ {where}"
    return out, detail, time.time() - t0


def run_code(tasks, chunksize=8):
    import multiprocessing as mp
    ctxm = mp.get_context("fork")
    with ctxm.Pool(CODE_JOBS, initializer=_worker_init) as pool:
        return pool.map(eval_fault, tasks, chunksize=chunksize)


# ---------------------------------------------------------------------------------------------
# model evaluation in parallel driver processes
# ---------------------------------------------------------------------------------------------

def correspond_parallel(ctx, suite, ops, impl, jobs=MODEL_JOBS, **kw):
    """ctx.correspond with the model replies computed beforehand by several pinned driver processes."""
    uniq = list(dict.fromkeys(ops))
    chunks = [uniq[i::jobs] for i in range(jobs)]
    chunks = [c for c in chunks if c]
    with ThreadPoolExecutor(len(chunks) or 1) as ex:
        res = list(ex.map(lambda c: common.model_eval(c, ctx.driver), chunks))
    cache = {}
    for c, r in zip(chunks, res):
        cache.update(zip(c, r))
    orig = common.model_eval
    common.model_eval = lambda lines, driver="drv_codec", timeout=1800: [cache[ln] for ln in lines]
    try:
        return ctx.correspond(suite, uniq, impl, **kw)
    finally:
        common.model_eval = orig


# ---------------------------------------------------------------------------------------------
# oracle
# ---------------------------------------------------------------------------------------------

def judge(rel, fault, outcome, detail, secs):
    """the property on the real code for one fault: works, or InvalidPyodaDataError; promptly."""
    if outcome.startswith("ok") or outcome == "!invalidData":
        if secs > CALL_TIMEOUT_S:
            return {"key": "slow", "what": f"{rel} fault {fault}: {secs:.1f} s"}
        return None
    if outcome == "!hang":
        return {"key": "hang", "what": f"{rel} fault {fault}: load/list/fetch did not finish ({detail})"}
    if outcome == "!memory":
        return {"key": "memory-exhaustion", "what": f"{rel} fault {fault}: {detail} (memory requested in proportion to a declared count)"}
    typ = outcome.split(":", 1)[1]
    if detail.endswith(":for_id"):
        typ += "@for_id"      # raised by TzdbDateTimeZoneSource.for_id itself, for an id that get_ids() listed
    return {"key": "escape-" + typ, "what": f"{rel} fault {fault}: {typ} instead of InvalidPyodaDataError ({detail})"}


class _FaultCase(tuple):
    def __repr__(self):
        return f"fault {self[0]} {self[1]}"


# ---------------------------------------------------------------------------------------------
# zone-level and tail-level correspondence (model fidelity below the entry points)
# ---------------------------------------------------------------------------------------------

def impl_zone_create(t):
    """what create_zone does under its entry point: read id, type byte, zone (constructors included)."""
    from pyoda_time.time_zones._fixed_date_time_zone import _FixedDateTimeZone
    from pyoda_time.time_zones._precalculated_date_time_zone import _PrecalculatedDateTimeZone
    from pyoda_time.time_zones.io._date_time_zone_writer import _DateTimeZoneWriter
    pool = decode_pool(unhex(t[1]))
    out = []
    for h in t[2:]:
        def one(h=h):
            field = unhex(h)
            st, r = c14.new_reader(field, pool)
            zid = r.read_string()
            st, r = c14.new_reader(field, pool)
            r.read_string()
            ty = _DateTimeZoneWriter._DateTimeZoneType(r.read_byte())
            if ty == 1:
                return c14.f_zone(_FixedDateTimeZone.read(r, zid))
            return c14.f_zone(_PrecalculatedDateTimeZone._read(r, zid))
        out.append(guard(one))
    return " ".join(out)


def gen_zone_faults(ctx, zfs, n):
    """damaged copies of zone field payloads (1-4 byte edits), biased to the tail rules at the end"""
    rng = ctx.rng
    out = []
    for _ in range(n):
        f = bytearray(rng.choice(zfs))
        k = rng.choices([1, 2, 3, 4], [0.55, 0.25, 0.1, 0.1])[0]
        for _ in range(k):
            if not f:
                break
            p = rng.randrange(max(0, len(f) - 40), len(f)) if rng.random() < 0.5 else rng.randrange(len(f))
            c = rng.random()
            if c < 0.75:
                f[p] = rng.choice([0, 1, 2, 0x7F, 0x80, 0xFF, (f[p] + 1) % 256, (f[p] - 1) % 256, rng.randrange(256), rng.randrange(32)])
            elif c < 0.88:
                f[p:p] = bytes([rng.choice([0, 0x80, 0xFF, rng.randrange(256)])])
            else:
                del f[p]
        out.append(bytes(f))
    for f in zfs[:40]:
        for cut in (1, 2, len(f) // 2, len(f) - 1):
            out.append(f[:cut])
    return out


def guided_zone_faults(ctx, data: bytes, pool_payload: bytes, n: int, per_kind: int = 12):
    """Model-guided selection: whole-file faults made of 1-4 byte substitutions inside one zone field, kept when the
    MODEL predicts a rare failure kind below the entry point (RuntimeError, OverflowError, KeyError, IndexError).
    The verdict on them still comes from the real code."""
    rng = ctx.rng
    zfields = [(a, b) for fid, a, b in split_fields(data) if fid == 1 and b - a > 24]
    cands = []
    for _ in range(n):
        a, b = rng.choice(zfields)
        f = bytearray(data[a:b])
        k = rng.choices([1, 2, 3, 4], [0.6, 0.2, 0.1, 0.1])[0]
        edits = []
        for _ in range(k):
            p = rng.randrange(max(0, len(f) - 36), len(f)) if rng.random() < 0.7 else rng.randrange(len(f))
            v = rng.choice([0, 1, 2, 3, 10, 0x7F, 0x80, 0xFF, (f[p] + 1) % 256, (f[p] - 1) % 256, rng.randrange(256), rng.randrange(16)])
            if v == f[p]:
                continue
            f[p] = v
            edits.append(f"s{a + p}:{v:02x}")
        if edits:
            cands.append(("+".join(edits), bytes(f)))
    ph = hexs(pool_payload)
    ops = [f"zone.create {ph} " + " ".join(hexs(f) for _, f in cands[i:i + 250]) for i in range(0, len(cands), 250)]
    chunks = [ops[i::MODEL_JOBS] for i in range(MODEL_JOBS)]
    chunks = [c for c in chunks if c]
    with ThreadPoolExecutor(len(chunks) or 1) as ex:
        res = list(ex.map(lambda c: common.model_eval(c, ctx.driver), chunks))
    reply = {}
    for c, r in zip(chunks, res):
        reply.update(zip(c, r))
    picked, count = [], {}
    for i, op in enumerate(ops):
        for (fault, _), x in zip(cands[i * 250:(i + 1) * 250], reply[op].split(" ")):
            if x in ("!runtimeError", "!overflowError", "!keyError", "!indexError", "!structError", "!unicodeError"):
                count[x] = count.get(x, 0) + 1
                if count[x] <= per_kind:
                    picked.append(fault)
    return picked, count


def impl_tail(t):
    if t[0] == "tail.occ":
        r = p_yo(t[1])._get_occurrence_for_year(int(t[2]))
        return f"{r._days_since_epoch}:{r._nanosecond_of_day}"
    if t[0] == "tail.interval":
        return f_interval(p_map(t[1]).get_zone_interval(p_inst(t[2])))
    raise ValueError("unknown op")


def real_tails(zfs, pool):
    """(map text, tail start) of every rule-based zone"""
    from pyoda_time.time_zones._precalculated_date_time_zone import _PrecalculatedDateTimeZone
    out = []
    for f in zfs:
        st, r = c14.new_reader(f, pool)
        zid = r.read_string()
        if r.read_byte() != 2:
            continue
        z = _PrecalculatedDateTimeZone._read(r, zid)
        tail = getattr(z, "_PrecalculatedDateTimeZone__tail_zone")
        if tail is not None:
            out.append((c14.f_map(tail), c14.f_inst(getattr(z, "_PrecalculatedDateTimeZone__tail_zone_start"))))
    return out


def gen_tail_ops(ctx, tails, n):
    rng = ctx.rng
    ops = []
    NPD = c14.NPD
    uniq = list(dict.fromkeys(m for m, _ in tails))
    extremes = [f"{c14.IMIN}:0", f"{c14.IMIN + 1}:0", f"{c14.IMIN + 400}:0", f"{c14.IMAX}:0", f"{c14.IMAX}:{NPD - 100}", f"{c14.IMAX - 1}:0",
                f"{c14.IMAX - 366}:0", f"{c14.DUR_MIN_DAYS}:0", f"{c14.DUR_MAX_DAYS}:0", "0:0", "-62091:0", "1430000:0", "24855:11647000000000"]
    for m, s in tails:
        ops.append(f"tail.interval {m} {s}")
    for m in uniq:
        for i in extremes:
            ops.append(f"tail.interval {m} {i}")

    def mutate_yo(y):
        p = y.split(":")
        j = rng.randrange(7)
        if j == 0:
            p[0] = str(rng.randrange(3))
        elif j == 1:
            p[1] = str(rng.randrange(1, 13))
        elif j == 2:
            p[2] = str(rng.choice([1, -1]) * rng.randrange(1, 32))
        elif j == 3:
            p[3] = str(rng.randrange(0, 8))
        elif j == 4:
            p[4] = str(rng.randrange(2))
        elif j == 5:
            p[5] = str(rng.choice([0, 3600, 7200, 86399, 1800, 82800]) * 10**9)
        else:
            p[6] = str(rng.randrange(2))
        return ":".join(p)

    for _ in range(n):
        m, s = rng.choice(tails)
        o, a, b = m.split(";")
        an, asv, ay, af, at = a.split(",")
        bn, bsv, by, bf, bt = b.split(",")
        c = rng.random()
        if c < 0.35:
            ay = mutate_yo(ay)
        elif c < 0.7:
            by = mutate_yo(by)
        elif c < 0.8:
            by = ay                                     # identical rules
            if rng.random() < 0.5:
                bsv = "0"
        elif c < 0.9:
            bsv = str(rng.choice([0, 3600, -3600, 64800, -64800, 1800, 7200, 43200]))
        else:
            o = str(rng.choice([0, 64800, -64800, 61200, -61200, int(o)]))
        m2 = f"{o};{an},{asv},{ay},{af},{at};{bn},{bsv},{by},{bf},{bt}"
        inst = s if rng.random() < 0.5 else rng.choice(extremes + [f"{rng.randrange(c14.IMIN, c14.IMAX)}:{rng.randrange(0, 86400) * 10**9}"])
        ops.append(f"tail.interval {m2} {inst}")
    ys = list(dict.fromkeys([m.split(";")[1].split(",")[2] for m in uniq] + [m.split(";")[2].split(",")[2] for m in uniq]))
    for y in ys:
        for year in (-9998, -9997, -1, 0, 1, 1600, 1900, 2000, 2023, 2024, 2100, 9998, 9999):
            ops.append(f"tail.occ {y} {year}")
    for _ in range(n):
        y = mutate_yo(mutate_yo(rng.choice(ys)))
        ops.append(f"tail.occ {y} {rng.choice([-9998, -9997, 9999, 9998, rng.randrange(-9998, 10000), rng.randrange(1900, 2100)])}")
    return ops


# ---------------------------------------------------------------------------------------------
# run
# ---------------------------------------------------------------------------------------------

def run(ctx):
    n_random = ctx.scale(700, 60_000)
    per_line = 24
    _worker_init_parent()
    results = {}
    for fi, rel in enumerate(FILES):
        data = load_file(rel)
        pool_payload, zfs = c14.zone_fields(data)
        pool = decode_pool(pool_payload)
        short = rel.split("/")[-1]

        # ---- below the entry points: decoder + constructors, raw failure kinds must agree -----------
        tails = real_tails(zfs, pool)
        ctx.correspond("tail." + short, gen_tail_ops(ctx, tails, ctx.scale(400, 20_000)), impl_tail)
        zf = gen_zone_faults(ctx, zfs, ctx.scale(2500, 200_000))
        ph = hexs(pool_payload)
        zops = [f"zone.create {ph} " + " ".join(hexs(f) for f in zf[i:i + 60]) for i in range(0, len(zf), 60)]
        correspond_parallel(ctx, "zone.create." + short, zops, impl_zone_create)

        # ---- the property: whole-stream faults ------------------------------------------------------
        faults = ["none"] + gen_faults(ctx, data, list(pool), n_random)
        guided, gcount = guided_zone_faults(ctx, data, pool_payload, ctx.scale(30_000, 600_000))
        ctx.note(f"model_guided_candidates.{short}", gcount)
        rewiring = gen_idmap_rewiring(ctx, data, list(pool), ctx.scale(6, 40))
        counts = gen_count_faults(ctx, data, ctx.scale(20, 10_000))
        hostile = gen_hostile_text_faults(ctx, data, ctx.scale(12, 400))
        shrink = gen_shrink_faults(ctx, data, ctx.scale(12, 300))
        ctx.note(f"structured_faults.{short}", _family_histogram(rewiring + counts + hostile + shrink))
        short_limit = {f for f, _ in rewiring}
        structured = [f for f, _ in rewiring + counts + hostile + shrink]
        faults = list(dict.fromkeys(structured + faults + guided))
        spot = set(ctx.rng.sample(range(len(faults)), max(1, len(faults) // 60)))
        tasks = [(rel, f, (i in spot) and f not in short_limit, STRUCTURED_TIMEOUT_S if f in short_limit else CALL_TIMEOUT_S)
                 for i, f in enumerate(faults)]
        ns = len(structured)
        t0 = time.time()
        outs = run_code(tasks[:ns], chunksize=1) + run_code(tasks[ns:])
        ctx.note(f"code_wall_s.{short}", round(time.time() - t0, 1))
        for f, o in zip(faults, outs):
            results[(rel, f)] = o
        ctx.note(f"outcomes.{short}", _histogram(outs))
        ctx.note(f"slowest_call_s.{short}", round(max(o[2] for o in outs), 2))

        def case_fn(c):
            return judge(c[0], c[1], *results[(c[0], c[1])])
        ctx.check_cases("faults." + short, [_FaultCase((rel, f)) for f in faults], case_fn)

        hx = hexs(data)
        lines = [f"stream.faultsraw {hx} " + " ".join(faults[i:i + per_line]) for i in range(0, len(faults), per_line)]

        def impl(t, rel=rel):
            return " ".join(results[(rel, f)][0] for f in t[2:])

        def line_oracle(t, rel=rel):
            for f in t[2:]:
                j = judge(rel, f, *results[(rel, f)])
                if j:
                    return j
            return None
        t0 = time.time()
        dis = correspond_parallel(ctx, "stream.faults." + short, lines, impl, oracle=None)
        ctx.note(f"model_wall_s.{short}", round(time.time() - t0, 1))
        # the function the theorems speak about (`loadAndUse`, no evaluation shortcut) on a seeded sample of the same faults
        sample = ["none"] + ctx.rng.sample(faults, min(len(faults), ctx.scale(95, 2000)))
        plain = [f"stream.faultsfull {hx} " + " ".join(sample[i:i + 8]) for i in range(0, len(sample), 8)]
        dis += correspond_parallel(ctx, "stream.faults.plain." + short, plain, impl, oracle=None)
        # strict per-fault comparison of the disagreeing lines
        explained = unexplained = 0
        for d in dis:
            toks = d["op"].split(" ")
            fl = toks[2:]
            for f, m, r in zip(fl, d["model"].split(" "), d["impl"].split(" ")):
                if m == r:
                    continue
                j = judge(rel, f, *results[(rel, f)])
                if j:
                    explained += 1
                else:
                    unexplained += 1
                    ctx.unexplained.append({"kind": "correspondence", "suite": "stream.faults." + short, "op": f"fault {rel} {f}", "model": m, "impl": r})
        # ctx.correspond recorded the whole line as unexplained (no oracle given): keep only the per-fault entries
        ctx.unexplained[:] = [u for u in ctx.unexplained if not u.get("op", "").startswith("stream.faults")]
        ctx.note(f"disagreeing_faults.{short}", {"explained_by_oracle_failure": explained, "unexplained": unexplained})


def _worker_init_parent():
    """the parent also evaluates ops (zone.create, tail.*): nothing to arm here, but make sure baselines are not cached
    across PYODA_REPO changes."""
    _W.clear()


def _family_histogram(fs):
    h = {}
    for _, fam in fs:
        h[fam] = h.get(fam, 0) + 1
    return h


def _histogram(outs):
    h = {}
    for o in outs:
        h[o[0] if not o[0].startswith("ok") else "ok"] = h.get(o[0] if not o[0].startswith("ok") else "ok", 0) + 1
    return h


def replay_op(op, failure):
    if op.startswith("fault "):
        _, rel, fault = op.split(" ", 2)
        _worker_init()
        out, detail, secs = eval_fault((rel, fault, True, CALL_TIMEOUT_S))
        print(f"outcome: {out} {detail} ({secs:.2f} s)")
        return judge(rel, fault, out, detail, secs)
    return None
