"""C10 — time-of-day and local date-time arithmetic is exact and carries correctly."""
from __future__ import annotations

from common import guard, ints

NPD = 86_400_000_000_000
NPH = 3_600_000_000_000
NPM = 60_000_000_000
NPS = 1_000_000_000
UNIT_NANOS = {"hours": NPH, "minutes": NPM, "seconds": NPS, "milliseconds": 1_000_000, "microseconds": 1_000,
              "ticks": 100, "nanoseconds": 1}
LDT_UNITS = ["hours", "minutes", "seconds", "milliseconds", "ticks", "nanoseconds"]  # LocalDateTime has no plus_microseconds
SINCE = {"hours": 24, "minutes": 1440, "seconds": 86400, "milliseconds": 86_400_000, "ticks": 864_000_000_000,
         "nanoseconds": NPD}
DEC = 10**27  # operands below this magnitude: the code's Decimal helper is exact truncation
PFIELDS = ["hours", "minutes", "seconds", "milliseconds", "ticks", "nanoseconds"]

META = {
    "property": "C10",
    "proof_modules": ["PyodaProofs.C10", "PyodaProofs.GenAgreeC10"],
    "drivers": ["drv_timeofday"],
    "theorems": [
        "Pyoda.C10.localTime_inv_factories", "Pyoda.C10.localTime_inv", "Pyoda.C10.factories_raise_iff",
        "Pyoda.C10.accessors_decompose", "Pyoda.C10.hour_shift_eq", "Pyoda.C10.minute_shift_eq",
        "Pyoda.C10.addLocalTime_mod", "Pyoda.C10.plusPeriod_time_mod", "Pyoda.C10.addWithDays_exact",
        "Pyoda.C10.addLocalDateTime_exact",
        "Pyoda.C10.addLocalDateTime_raises_iff", "Pyoda.C10.plusPeriod_exact", "Pyoda.C10.plusPeriod_order",
        "Pyoda.C10.unitsBetween_trunc", "Pyoda.C10.compare_iff",
        # agreement of the definitions generated from the Python source (tools/py2lean.py) with the model
        "Pyoda.GenAgree.C10.gen_LocalTime_ctor_eq", "Pyoda.GenAgree.C10.gen_LocalTime_new_eq",
        "Pyoda.GenAgree.C10.gen_LocalTime_fromHMSMsT_eq", "Pyoda.GenAgree.C10.gen_LocalTime_fromHMST_eq",
        "Pyoda.GenAgree.C10.gen_LocalTime_fromHMSNTrusted_eq", "Pyoda.GenAgree.C10.gen_LocalTime_fromHMSN_eq",
        "Pyoda.GenAgree.C10.gen_LocalTime_fromNanosSinceMidnight_eq",
        "Pyoda.GenAgree.C10.gen_LocalTime_fromTicksSinceMidnight_eq",
        "Pyoda.GenAgree.C10.gen_LocalTime_fromMillisecondsSinceMidnight_eq",
        "Pyoda.GenAgree.C10.gen_LocalTime_fromSecondsSinceMidnight_eq",
        "Pyoda.GenAgree.C10.gen_LocalTime_fromMinutesSinceMidnight_eq",
        "Pyoda.GenAgree.C10.gen_LocalTime_fromHoursSinceMidnight_eq", "Pyoda.GenAgree.C10.gen_LocalTime_hour_eq",
        "Pyoda.GenAgree.C10.gen_LocalTime_clockHourOfHalfDay_eq", "Pyoda.GenAgree.C10.gen_LocalTime_minute_eq",
        "Pyoda.GenAgree.C10.gen_LocalTime_second_eq", "Pyoda.GenAgree.C10.gen_LocalTime_millisecond_eq",
        "Pyoda.GenAgree.C10.gen_LocalTime_microsecond_eq", "Pyoda.GenAgree.C10.gen_LocalTime_tickOfDay_eq",
        "Pyoda.GenAgree.C10.gen_LocalTime_tickOfSecond_eq", "Pyoda.GenAgree.C10.gen_LocalTime_nanosecondOfSecond_eq",
        "Pyoda.GenAgree.C10.gen_LocalTime_nanosecondOfDay_eq", "Pyoda.GenAgree.C10.gen_LocalTime_beq_eq",
        "Pyoda.GenAgree.C10.gen_LocalTime_bne_eq", "Pyoda.GenAgree.C10.gen_LocalTime_lt_eq",
        "Pyoda.GenAgree.C10.gen_LocalTime_le_eq", "Pyoda.GenAgree.C10.gen_LocalTime_gt_eq",
        "Pyoda.GenAgree.C10.gen_LocalTime_ge_eq", "Pyoda.GenAgree.C10.gen_LocalTime_compareTo_eq",
        "Pyoda.GenAgree.C10.gen_TimeUnit_addLocalTime_eq",
        "Pyoda.GenAgree.C10.gen_TimeUnit_addLocalTimeWithExtraDays_eq", "Pyoda.GenAgree.C10.gen_Duration_toNanos_eq",
        "Pyoda.GenAgree.C10.gen_TimeUnit_getUnitsInDuration_eq",
    ],
    "trusted_base": [
        "CPython int arithmetic; decimal division exact for operands below 10^27 (sampled by C03 suite prelude.tdiv) - used only by the "
        "accessors and Period.between, whose operands are below 2^47 resp. 2^77; the additions use integer division for every amount",
        "date carry: LocalDate.plus_days / plus_weeks abstracted to a range check of the day number against the calendar's "
        "[min_days, max_days] (tied to the code by suite ldt.* in 19 calendars; the calendars themselves are C01/C09)",
        "int(NANOSECONDS_PER_DAY / unit_nanoseconds) is exact for the seven units (float quotient of integers below 2^53)",
        "translator tools/py2lean.py (second tie, besides the correspondence suites): LocalTime's constructor, factories, accessors and "
        "comparisons and _TimePeriodField._add_local_time / _add_local_time_with_extra_days / _get_units_in_duration (listed under C10 in "
        "tools/py2lean_targets.py) are re-translated from the current Python source on each run into lean/PyodaGen/C10.lean and proved equal "
        "to the hand-written model for all inputs (PyodaProofs/GenAgreeC10.lean). Trusted there: Python int = Lean Int; // and % = "
        "Int.fdiv/Int.fmod (run-time divisors through a ZeroDivisionError check); >> by a constant = Int.shiftRight; raising calls bound "
        "left-to-right in Except PyExc; if-statements by tail duplication; __init__ / `self = super().__new__(cls)` + field assignment = "
        "structure literal; the two instance attributes of _TimePeriodField are parameters instantiated with (u.nanos, u.unitsPerDay) per unit; "
        "helpers _towards_zero_division, _csharp_modulo, _int32_overflow, _int64_overflow, _check_argument_range hand-mapped. Not translated: "
        "plus_hours ... plus_nanoseconds (go through metaclass properties and the float division in _TimePeriodField.__init__), "
        "_add_local_date_time, LocalDateTime.plus(Period) (correspondence only)",
    ],
    "partial": [
        "plus_years/plus_months inside plus(Period) are taken from the real code (day number after them is an op argument); their laws are C09",
    ],
    "rule": "times at 0, 1, 24h-1 and every hour/minute boundary +-1; amounts 0, +-1, +-(upd-1), +-upd, +-(upd+1), +-k*upd(+-1), 2^63+-1, 10^27, 10^30 per unit, "
            "amounts that land exactly on day boundaries and calendar range ends; 19 calendars; distinct = distinct op line; every op exercises arithmetic or a range check",
}


def _P():
    import pyoda_time as P
    return P


_CALS = {}


def cal_tok(cid: str) -> str:
    return "c" + cid.encode().hex()


def cal_of(tok: str):
    c = _CALS.get(tok)
    if c is None:
        c = _P().CalendarSystem.for_id(bytes.fromhex(tok[1:]).decode())
        _CALS[tok] = c
    return c


def lt_of(n: int):
    return _P().LocalTime.from_nanoseconds_since_midnight(n)


def date_of(cal, d: int):
    return _P().LocalDate._ctor(days_since_epoch=d, calendar=cal)


def ldt_of(cal, d: int, n: int):
    return date_of(cal, d) + lt_of(n)


def sd(x) -> str:
    """year-month-day of a date (repr of a date formats month names, which fails for some Badi dates)"""
    try:
        return f"{x.year}-{x.month}-{x.day}"
    except Exception as e:  # noqa: BLE001
        return f"<{type(e).__name__}>"


def sdt(x) -> str:
    try:
        return f"{sd(x.date)} nod {x.nanosecond_of_day}"
    except Exception as e:  # noqa: BLE001
        return f"<{type(e).__name__}>"


def sl(r) -> str:
    return ints(r.date._days_since_epoch, r.nanosecond_of_day)


def period(sign_free: dict):
    return _P().PeriodBuilder(**sign_free).build()


def isint(x: str) -> bool:
    return x.lstrip("-").isdigit()


ACCESSORS = ["hour", "clock_hour_of_half_day", "minute", "second", "millisecond", "microsecond", "tick_of_second",
             "tick_of_day", "nanosecond_of_second", "nanosecond_of_day"]


def impl(t):
    if t[0] in ("ldt.plus", "ldt.plusperiod"):
        import decimal
        try:
            return _impl(t)
        except decimal.DecimalException:
            raise
        except (ValueError, OverflowError):
            return "!range"  # the kind depends on the path inside the calendar; the property asks for an error
    return _impl(t)


def _impl(t):
    P = _P()
    LT = P.LocalTime
    op = t[0]
    if op == "tod.new":
        return str(LT(int(t[1]), int(t[2]), int(t[3]), int(t[4])).nanosecond_of_day)
    if op == "tod.hmsmt":
        return str(LT.from_hour_minute_second_millisecond_tick(*[int(x) for x in t[1:6]]).nanosecond_of_day)
    if op == "tod.hmst":
        return str(LT.from_hour_minute_second_tick(*[int(x) for x in t[1:5]]).nanosecond_of_day)
    if op == "tod.hmsn":
        return str(LT.from_hour_minute_second_nanosecond(*[int(x) for x in t[1:5]]).nanosecond_of_day)
    if op == "tod.since":
        return str(getattr(LT, f"from_{t[1]}_since_midnight")(int(t[2])).nanosecond_of_day)
    if op == "tod.acc":
        x = lt_of(int(t[1]))
        return " ".join(guard(lambda n=n: str(getattr(x, n))) for n in ACCESSORS)
    if op == "tod.cmp":
        x, y = lt_of(int(t[1])), lt_of(int(t[2]))
        c = x.compare_to(y)
        return ints(x == y, x < y, x <= y, x > y, x >= y, (c > 0) - (c < 0))
    if op == "tod.plus":
        return str(getattr(lt_of(int(t[2])), "plus_" + t[1])(int(t[3])).nanosecond_of_day)
    if op == "tod.plusperiod":
        sg, n = int(t[1]), int(t[2])
        p = period(dict(zip(PFIELDS, [int(x) for x in t[3:9]])))
        x = lt_of(n)
        return str((x + p if sg == 1 else x - p).nanosecond_of_day)
    if op == "tod.adddays":
        from pyoda_time.fields._time_period_field import _TimePeriodField
        f = getattr(_TimePeriodField, "_" + t[1])
        r, d = f._add_local_time_with_extra_days(lt_of(int(t[2])), int(t[3]))
        return ints(r.nanosecond_of_day, d)
    if op == "ldt.plus":
        cal = cal_of(t[1])
        x = ldt_of(cal, int(t[5]), int(t[6]))
        return sl(getattr(x, "plus_" + t[2])(int(t[7])))
    if op == "ldt.plusperiod":
        cal = cal_of(t[1])
        sg = int(t[2])
        x = ldt_of(cal, int(t[5]), int(t[6]))
        v = [int(a) for a in t[7:]]
        p = period(dict(years=v[0], months=v[1], weeks=v[3], days=v[4], hours=v[5], minutes=v[6], seconds=v[7],
                        milliseconds=v[8], ticks=v[9], nanoseconds=v[10]))
        return sl(x.plus(p) if sg == 1 else x.minus(p))
    if op == "ldt.between":
        cal = cal_of(t[1])
        s, e = ldt_of(cal, int(t[3]), int(t[4])), ldt_of(cal, int(t[5]), int(t[6]))
        return str(getattr(P.Period.between(s, e, getattr(P.PeriodUnits, t[2].upper())), t[2]))
    raise ValueError("unknown op " + op)


# ---------------------------------------------------------------------------------------------
# direct oracle: the property on the real objects with plain integers
# ---------------------------------------------------------------------------------------------

def tdiv(x, y):
    q = abs(x) // abs(y)
    return q if (x >= 0) == (y > 0) else -q


def _run(fn):
    import decimal
    try:
        return "ok", fn()
    except decimal.DecimalException as e:
        return "dec", e
    except (ValueError, OverflowError) as e:
        return "range", e
    except Exception as e:  # noqa: BLE001
        return "other", e


def _expect_time(fn, exp, what):
    """fn() must return the LocalTime whose nanosecond-of-day is exp (None: must raise ValueError)."""
    kind, r = _run(fn)
    if exp is None:
        if kind == "ok":
            return {"key": "tod-out-of-range-accepted", "what": f"{what}: returned nanosecond_of_day={r.nanosecond_of_day}, the arguments are out of range"}
        if kind != "range":
            return {"key": "tod-unexpected-exception", "what": f"{what}: raised {type(r).__name__}: {r}"}
        return None
    if kind != "ok":
        k = "decimal-error-on-large-amount" if kind == "dec" else "tod-raises-in-range"
        return {"key": k, "what": f"{what}: raised {type(r).__name__} ({r}); exact result is nanosecond_of_day={exp}"}
    n = r.nanosecond_of_day
    if not (0 <= n < NPD):
        return {"key": "tod-invariant", "what": f"{what}: nanosecond_of_day={n} outside [0, 24h)"}
    if n != exp:
        return {"key": "tod-inexact", "what": f"{what}: nanosecond_of_day={n}, exact result {exp}"}
    return None


def _cal_sane(cal, d):
    """the calendar maps day number d to a date and back (otherwise a failure is inherited from C01)"""
    try:
        return date_of(cal, d)._days_since_epoch == d
    except Exception:  # noqa: BLE001
        return False


def _expect_ldt(fn, cal, total_ns, what, huge, d_in=None):
    """fn() must return the LocalDateTime at total_ns on the local time line of `cal`, or raise iff its day is out of range."""
    P = _P()
    D, n = divmod(total_ns, NPD)
    lo, hi = cal._min_days, cal._max_days
    inr = lo <= D <= hi
    kind, r = _run(fn)
    f = _expect_ldt2(kind, r, cal, D, n, lo, hi, inr, what, huge)
    if f:
        f["_days"] = [D, d_in] + ([r.date._days_since_epoch] if kind == "ok" else [])
    return f


def _expect_ldt2(kind, r, cal, D, n, lo, hi, inr, what, huge):
    P = _P()
    sfx = ""
    if kind == "ok":
        gd, gn = r.date._days_since_epoch, r.nanosecond_of_day
        if not inr:
            k = "inexact-amount-beyond-decimal-precision" if huge else "ldt-out-of-range-returned"
            return {"key": k + sfx, "what": f"{what}: returned day {gd} nod {gn}; exact day {D} is outside [{lo},{hi}]"}
        if not (0 <= gn < NPD):
            return {"key": "ldt-time-invariant", "what": f"{what}: nanosecond_of_day={gn}"}
        if (gd, gn) != (D, n):
            k = "inexact-amount-beyond-decimal-precision" if huge else "ldt-inexact"
            return {"key": k + sfx, "what": f"{what}: returned (day {gd}, nod {gn}) = {sdt(r)}; exact result is (day {D}, nod {n}) = {sd(date_of(cal, D))}"}
        if r.calendar != cal:
            return {"key": "ldt-calendar-changed", "what": f"{what}: result calendar {r.calendar.id}"}
        if r.date != date_of(cal, D):
            return {"key": "ldt-date-fields" + sfx, "what": f"{what}: date {sd(r.date)} differs from the date of day {D}: {sd(date_of(cal, D))}"}
        return None
    if kind == "dec":
        if inr:
            return {"key": "decimal-error-on-large-amount" if huge else "ldt-raises-in-range",
                    "what": f"{what}: raised {type(r).__name__}; the exact result (day {D}, nod {n}) is in range"}
        return None
    if kind == "range":
        if inr:
            # with amounts beyond the decimal precision a day count that is off by one can also surface as a range error
            return {"key": ("inexact-amount-beyond-decimal-precision" if huge else "ldt-raises-in-range") + sfx, "what": f"{what}: raised {type(r).__name__} ({r}); the exact result (day {D}, nod {n}) is in range [{lo},{hi}]"}
        return None
    return {"key": "ldt-unexpected-exception", "what": f"{what}: raised {type(r).__name__}: {r}"}


def _acc_expect(n):
    return {
        "hour": n // NPH, "clock_hour_of_half_day": ((n // NPH) % 12) or 12, "minute": n // NPM % 60,
        "second": n // NPS % 60, "millisecond": n // 10**6 % 1000, "microsecond": n // 1000 % 10**6,
        "tick_of_second": n // 100 % 10**7, "tick_of_day": n // 100, "nanosecond_of_second": n % NPS,
        "nanosecond_of_day": n,
    }


_BAD = {}


def bad_regions(cal):
    """day intervals in which the calendar itself is inconsistent (C01 defect classes): years whose length differs
    from the distance of the year starts, years whose first/last day does not map back, range ends that
    are not year ends"""
    r = _BAD.get(cal.id)
    if r is not None:
        return r
    r = []
    calc = cal._year_month_day_calculator
    lo, hi = cal.min_year, cal.max_year
    prev = None
    for y in range(lo, hi + 1):
        try:
            s0 = calc._get_start_of_year_in_days(y)
            n = calc._get_days_in_year(y)
            bad = prev is not None and prev != s0
            for d in (s0, s0 + n - 1):
                x = date_of(cal, d)
                bad = bad or x.year != y or x._days_since_epoch != d
            prev = s0 + n
            if bad:
                r.append((s0 - 400, s0 + n))
        except Exception:  # noqa: BLE001
            prev = None
            r.append((s0 - 1, s0 + 400))
    try:
        first = calc._get_start_of_year_in_days(lo)
        last = calc._get_start_of_year_in_days(hi) + calc._get_days_in_year(hi) - 1
        if first != cal._min_days:
            r.append((min(first, cal._min_days), max(first, cal._min_days)))
        if last != cal._max_days:
            r.append((min(last, cal._max_days), max(last, cal._max_days)))
    except Exception:  # noqa: BLE001
        r.append((cal._min_days, cal._max_days))
    _BAD[cal.id] = r
    return r


def touches_bad(cal, days, pad=400):
    lo, hi = cal._min_days, cal._max_days
    ds = [max(lo, min(hi, d)) for d in days if d is not None]
    if not ds:
        return False
    a, b = min(ds) - pad, max(ds) + pad
    return any(x <= b and y >= a for x, y in bad_regions(cal))


def oracle(t):
    """failures of date-time ops whose days lie in or around a region where the calendar itself is inconsistent are
    keyed as inherited (they are consequences of C01 defects, not of the time arithmetic)"""
    if not t[0].startswith("ldt."):
        return _oracle(t)
    try:
        f = _oracle(t)
    except RecursionError:
        raise
    except Exception as e:  # noqa: BLE001
        import traceback
        f = {"key": "oracle-exception", "what": f"oracle raised {type(e).__name__}: {e}", "trace": traceback.format_exc()[-800:]}
    if f:
        cal = cal_of(t[1])
        days = list(f.pop("_days", []))
        days += [int(t[5])] if t[0] != "ldt.between" else [int(t[3]), int(t[5])]
        if t[0] == "ldt.plusperiod":
            days.append(int(t[9]))
        if touches_bad(cal, days):
            f["inherited_from"] = f["key"]
            f["key"] = "inherited-calendar-defect-" + cal.id.lower().replace(" ", "-")
    return f


def _oracle(t):
    P = _P()
    LT = P.LocalTime
    op = t[0]
    if op in ("tod.new", "tod.hmsmt", "tod.hmst", "tod.hmsn"):
        a = [int(x) for x in t[1:]]
        h, m, s = a[0], a[1], a[2]
        ok = 0 <= h <= 23 and 0 <= m <= 59 and 0 <= s <= 59
        base = h * NPH + m * NPM + s * NPS
        if op == "tod.new":
            ok = ok and 0 <= a[3] <= 999
            exp, fn, nm = base + a[3] * 10**6, (lambda: LT(*a)), "LocalTime"
        elif op == "tod.hmsmt":
            ok = ok and 0 <= a[3] <= 999 and 0 <= a[4] <= 9999
            exp, fn, nm = base + a[3] * 10**6 + a[4] * 100, (lambda: LT.from_hour_minute_second_millisecond_tick(*a)), "from_hour_minute_second_millisecond_tick"
        elif op == "tod.hmst":
            ok = ok and 0 <= a[3] <= 10**7 - 1
            exp, fn, nm = base + a[3] * 100, (lambda: LT.from_hour_minute_second_tick(*a)), "from_hour_minute_second_tick"
        else:
            ok = ok and 0 <= a[3] <= NPS - 1
            exp, fn, nm = base + a[3], (lambda: LT.from_hour_minute_second_nanosecond(*a)), "from_hour_minute_second_nanosecond"
        return _expect_time(fn, exp if ok else None, f"{nm}{tuple(a)}")
    if op == "tod.since":
        u, v = t[1], int(t[2])
        if u not in SINCE:
            return None
        ok = 0 <= v < SINCE[u]
        return _expect_time(lambda: getattr(LT, f"from_{u}_since_midnight")(v), v * UNIT_NANOS[u] if ok else None,
                            f"LocalTime.from_{u}_since_midnight({v})")
    if op == "tod.acc":
        n = int(t[1])
        if not (0 <= n < NPD):
            return None
        exp = _acc_expect(n)
        x = lt_of(n)
        for k, e in exp.items():
            g = getattr(x, k)
            if g != e:
                return {"key": "tod-accessor-" + k, "what": f"LocalTime(nod={n}).{k} = {g}, exact value {e}"}
        if tuple(x) != (exp["hour"], exp["minute"], exp["second"]):
            return {"key": "tod-accessor-iter", "what": f"tuple(LocalTime(nod={n})) = {tuple(x)}"}
        # the duplicated extraction code of OffsetTime and the delegation of LocalDateTime
        for off_s in (0, 64800, -64800, -1, 3600 * (n % 13) - 21600):
            ot = P.OffsetTime(x, P.Offset.from_seconds(off_s))
            for k, e in exp.items():
                if k == "microsecond":
                    continue
                g = getattr(ot, k)
                if g != e:
                    return {"key": "offsettime-accessor-" + k, "what": f"OffsetTime(nod={n}, offset {off_s}s).{k} = {g}, exact value {e}"}
            if ot.offset.seconds != off_s or ot.time_of_day != x:
                return {"key": "offsettime-components", "what": f"OffsetTime(nod={n}, offset {off_s}s) unpacks to {ot.time_of_day!r}, {ot.offset.seconds}"}
        ldt = P.LocalDate(2024, 2, 29) + x
        for k, e in exp.items():
            g = getattr(ldt, k)
            if g != e:
                return {"key": "ldt-accessor-" + k, "what": f"LocalDateTime(2024-02-29, nod={n}).{k} = {g}, exact value {e}"}
        TA = P.TimeAdjusters
        for adj, unit in ((TA.truncate_to_hour, NPH), (TA.truncate_to_minute, NPM), (TA.truncate_to_second, NPS)):
            g = x.with_time_adjuster(adj).nanosecond_of_day
            if g != n - n % unit:
                return {"key": "tod-truncate", "what": f"truncation of nod={n} to multiples of {unit} gave {g}"}
        return None
    if op == "tod.cmp":
        a, b = int(t[1]), int(t[2])
        if not (0 <= a < NPD and 0 <= b < NPD):
            return None
        x, y = lt_of(a), lt_of(b)
        c = x.compare_to(y)
        got = (x == y, x != y, x < y, x <= y, x > y, x >= y, (c > 0) - (c < 0), LT.max(x, y).nanosecond_of_day, LT.min(x, y).nanosecond_of_day)
        exp = (a == b, a != b, a < b, a <= b, a > b, a >= b, (a > b) - (a < b), max(a, b), min(a, b))
        if got != exp:
            return {"key": "tod-compare", "what": f"comparison of nod {a} with {b}: got {got}, expected {exp}"}
        if a == b and hash(x) != hash(y):
            return {"key": "tod-hash", "what": f"equal times hash differently (nod {a})"}
        return None
    if op == "tod.plus":
        u, n, k = t[1], int(t[2]), int(t[3])
        if u not in UNIT_NANOS or not (0 <= n < NPD):
            return None
        return _expect_time(lambda: getattr(lt_of(n), "plus_" + u)(k), (n + k * UNIT_NANOS[u]) % NPD,
                            f"LocalTime(nod={n}).plus_{u}({k})")
    if op == "tod.plusperiod":
        sg, n = int(t[1]), int(t[2])
        if sg not in (1, -1) or not (0 <= n < NPD):
            return None
        v = [int(x) for x in t[3:9]]
        tot = sum(a * UNIT_NANOS[f] for a, f in zip(v, PFIELDS))
        p = period(dict(zip(PFIELDS, v)))
        x = lt_of(n)
        f = _expect_time((lambda: x + p) if sg == 1 else (lambda: x - p), (n + sg * tot) % NPD,
                         f"LocalTime(nod={n}) {'+' if sg == 1 else '-'} Period{tuple(v)}")
        if f:
            return f
        # the named forms agree with the operators
        r0 = (x + p) if sg == 1 else (x - p)
        others = (x.plus(p), LT.add(x, p)) if sg == 1 else (x.minus(p), LT.subtract(x, p))
        if any(o != r0 for o in others):
            return {"key": "tod-plus-forms", "what": f"plus/add/minus/subtract disagree with the operator at nod={n}, Period{tuple(v)}"}
        return None
    if op == "tod.adddays":
        from pyoda_time.fields._time_period_field import _TimePeriodField
        u, n, k = t[1], int(t[2]), int(t[3])
        if u not in UNIT_NANOS or not (0 <= n < NPD):
            return None
        kind, r = _run(lambda: getattr(_TimePeriodField, "_" + u)._add_local_time_with_extra_days(lt_of(n), k))
        D, m = divmod(n + k * UNIT_NANOS[u], NPD)
        huge = abs(k) >= DEC
        if kind == "ok":
            if (r[1], r[0].nanosecond_of_day) != (D, m):
                return {"key": "inexact-amount-beyond-decimal-precision" if huge else "adddays-inexact",
                        "what": f"{u}._add_local_time_with_extra_days(nod={n}, {k}) = (nod {r[0].nanosecond_of_day}, days {r[1]}), exact (nod {m}, days {D})"}
            return None
        return {"key": "adddays-raises", "what": f"{u}._add_local_time_with_extra_days(nod={n}, {k}) raised {type(r).__name__}"}
    if op == "ldt.plus":
        cal = cal_of(t[1])
        u, d, n, k = t[2], int(t[5]), int(t[6]), int(t[7])
        if u not in LDT_UNITS or not (0 <= n < NPD) or not (cal._min_days <= d <= cal._max_days):
            return None
        x = ldt_of(cal, d, n)
        return _expect_ldt(lambda: getattr(x, "plus_" + u)(k), cal, d * NPD + n + k * UNIT_NANOS[u],
                           f"LocalDateTime({cal.id}, day {d} = {sd(x.date)}, nod {n}).plus_{u}({k})", abs(k) >= DEC, d)
    if op == "ldt.plusperiod":
        cal = cal_of(t[1])
        sg, d, n = int(t[2]), int(t[5]), int(t[6])
        if sg not in (1, -1) or not (0 <= n < NPD) or not (cal._min_days <= d <= cal._max_days):
            return None
        v = [int(a) for a in t[7:]]
        y, mo, w, dd = v[0], v[1], v[3], v[4]
        tv = v[5:11]
        x = ldt_of(cal, d, n)
        kind, base = _run(lambda: x.date.plus_years(sg * y).plus_months(sg * mo))
        if kind != "ok":
            return None  # year/month arithmetic is C09's subject
        p = period(dict(years=y, months=mo, weeks=w, days=dd, hours=tv[0], minutes=tv[1], seconds=tv[2],
                        milliseconds=tv[3], ticks=tv[4], nanoseconds=tv[5]))
        what = f"LocalDateTime({cal.id}, day {d} = {sd(x.date)}, nod {n}).{'plus' if sg == 1 else 'minus'}(Period(y={y}, m={mo}, w={w}, d={dd}, h={tv[0]}, min={tv[1]}, s={tv[2]}, ms={tv[3]}, t={tv[4]}, ns={tv[5]}))"
        if x.date._days_since_epoch != d:
            return {"key": "ldt-input-date-roundtrip", "what": f"{cal.id}: the date built from day {d} reports day {x.date._days_since_epoch}"}
        d1 = (base._days_since_epoch if (y or mo) else d) + 7 * sg * w
        fn = (lambda: x.plus(p)) if sg == 1 else (lambda: x.minus(p))
        huge = any(abs(a) >= DEC for a in tv)
        if not (cal._min_days <= d1 <= cal._max_days):
            kind, r = _run(fn)
            if kind == "ok":
                return {"key": "ldt-out-of-range-returned", "what": f"{what}: returned {sdt(r)} although adding the weeks leaves the calendar (day {d1})"}
            return None
        tot = sum(a * UNIT_NANOS[f] for a, f in zip(tv, PFIELDS))
        f = _expect_ldt(fn, cal, (d1 + sg * dd) * NPD + n + sg * tot, what, huge, d)
        if f:
            return f
        kind, r0 = _run(fn)
        if kind == "ok":
            others = (x + p, P.LocalDateTime.add(x, p)) if sg == 1 else (x - p, P.LocalDateTime.subtract(x, p))
            if any(o != r0 for o in others):
                return {"key": "ldt-plus-forms", "what": f"{what}: operator/static forms disagree"}
        return None
    if op == "ldt.between":
        cal = cal_of(t[1])
        u = t[2]
        d1, n1, d2, n2 = int(t[3]), int(t[4]), int(t[5]), int(t[6])
        lo, hi = cal._min_days, cal._max_days
        if u not in LDT_UNITS or not (0 <= n1 < NPD and 0 <= n2 < NPD and lo <= d1 <= hi and lo <= d2 <= hi):
            return None
        s, e = ldt_of(cal, d1, n1), ldt_of(cal, d2, n2)
        exp = tdiv((d2 - d1) * NPD + n2 - n1, UNIT_NANOS[u])
        kind, r = _run(lambda: getattr(P.Period.between(s, e, getattr(P.PeriodUnits, u.upper())), u))
        sfx = ""
        if kind != "ok":
            return {"key": "between-raises" + sfx, "what": f"Period.between(day {d1} nod {n1}, day {d2} nod {n2}, {u}) in {cal.id} raised {type(r).__name__}: {r}"}
        if r != exp:
            return {"key": "between-inexact" + sfx, "what": f"Period.between(day {d1} nod {n1}, day {d2} nod {n2}, {u}) in {cal.id} = {r}, exact truncated value {exp}"}
        return None
    return None


def neighbours(t):
    out = []
    for i, x in enumerate(t):
        if i and isint(x):
            for dlt in (-1, 1):
                u = list(t)
                u[i] = str(int(x) + dlt)
                out.append(" ".join(u))
    return out


# ---------------------------------------------------------------------------------------------
# generators
# ---------------------------------------------------------------------------------------------

def boundary_times():
    s = {0, 1, 2, NPD - 1, NPD - 2, NPD // 2, NPD // 2 - 1, NPS - 1, NPS, NPM - 1, NPM, 99, 100, 101, 999, 1000, 10**6 - 1, 10**6}
    for h in range(24):
        for dlt in (-1, 0, 1):
            v = h * NPH + dlt
            if 0 <= v < NPD:
                s.add(v)
    for h in (0, 11, 12, 23):
        for extra in (NPM - 1, NPM, 59 * NPM + 59 * NPS + NPS - 1, 30 * NPM + 30 * NPS + 123_456_789):
            s.add(h * NPH + extra)
    return sorted(s)


def gen_time(rng, bt):
    c = rng.random()
    if c < 0.45:
        return rng.choice(bt)
    if c < 0.6:
        return min(NPD - 1, max(0, rng.randrange(24 * 60) * NPM + rng.choice([-1, 0, 1, NPS - 1, NPS, 59 * NPS + 999_999_999])))
    if c < 0.7:
        sh = rng.choice([11, 13])
        return min(NPD - 1, max(0, (rng.randrange(NPD >> sh) << sh) + rng.choice([-1, 0, 1])))
    return rng.randrange(NPD)


_SA = {}


def special_amounts(u, rng=None):
    if rng is None and u in _SA:
        return _SA[u]
    r = _special_amounts(u, rng)
    if rng is None:
        _SA[u] = r
    return r


def _special_amounts(u, rng=None):
    upd = NPD // UNIT_NANOS[u]
    ks = [2, 3, 7, 365, 10**6, 2**31, 10**12]
    if rng is not None:
        ks += [rng.randrange(2, 10**5), rng.randrange(10**5, 10**15)]
    a = [0, 1, upd - 1, upd, upd + 1, 2**63 - 1, 2**63, 2**63 + 1, 2**64, 10**27 - 1, 10**27, 10**27 + 1, 10**30, 10**30 + 1,
         10**28, 10**29 - 1, 3 * 10**28 + 7, 2**31 - 1, 2**31, 2**32]
    for k in ks:
        a += [k * upd - 1, k * upd, k * upd + 1]
    a += [10**33, 10**40, 10**40 + 1, 2**128 - 1]
    for k in (10**13, 10**14, 10**15, 10**16, 10**20, 123456789 * 10**12, 10**27, 10**28, 10**33, 10**40 + 7):  # quotients of 28 and more digits
        a += [k * upd - 1, k * upd, k * upd + 1]
    return sorted(set(a) | {-x for x in a})


def gen_amount(rng, u, n=None):
    """amount for unit u; with n (nanosecond-of-day) given, sometimes chosen to land exactly on a day boundary"""
    un = UNIT_NANOS[u]
    upd = NPD // un
    c = rng.random()
    if c < 0.45:
        return rng.choice(special_amounts(u))
    if n is not None and c < 0.65:
        # smallest amounts whose sum with n reaches / just misses a multiple of a day
        days = rng.choice([0, 1, -1, 2, -2, rng.randint(-10**4, 10**4), rng.randint(-10**12, 10**12)])
        k = (days * NPD - n) // un
        return k + rng.choice([-1, 0, 1])
    if c < 0.8:
        return rng.randint(-3 * upd, 3 * upd)
    if c < 0.9:
        return rng.randint(-10**20, 10**20)
    return rng.randint(-10**6, 10**6) * upd + rng.choice([-1, 0, 1])


def gen_tod_ops(ctx, n):
    rng = ctx.rng
    bt = boundary_times()
    ops = []
    # factories: every field at and one beyond its limits
    fld = {"h": [-1, 0, 1, 11, 12, 23, 24, 2**31, -2**63], "m": [-1, 0, 1, 59, 60], "s": [-1, 0, 30, 59, 60],
           "ms": [-1, 0, 999, 1000], "t4": [-1, 0, 9999, 10000], "t7": [-1, 0, 1, 10**7 - 1, 10**7], "ns": [-1, 0, 1, NPS - 1, NPS, 2**63]}
    for h in fld["h"]:
        for m in fld["m"]:
            for s in fld["s"]:
                ops.append(f"tod.new {h} {m} {s} {rng.choice(fld['ms'])}")
                ops.append(f"tod.hmsmt {h} {m} {s} {rng.choice(fld['ms'])} {rng.choice(fld['t4'])}")
                ops.append(f"tod.hmst {h} {m} {s} {rng.choice(fld['t7'])}")
                ops.append(f"tod.hmsn {h} {m} {s} {rng.choice(fld['ns'])}")
    for ms in fld["ms"]:
        ops.append(f"tod.new 23 59 59 {ms}")
        for tk in fld["t4"]:
            ops.append(f"tod.hmsmt 23 59 59 {ms} {tk}")
    for tk in fld["t7"]:
        ops.append(f"tod.hmst 23 59 59 {tk}")
    for ns in fld["ns"]:
        ops.append(f"tod.hmsn 23 59 59 {ns}")
    for _ in range(n // 20):
        h, m, s = rng.randint(-1, 24), rng.randint(-1, 60), rng.randint(-1, 60)
        if rng.random() < 0.8:
            h, m, s = h % 24, m % 60, s % 60
        ops.append(f"tod.new {h} {m} {s} {rng.randint(-1, 1000)}")
        ops.append(f"tod.hmsmt {h} {m} {s} {rng.randint(0, 999)} {rng.randint(-1, 10000)}")
        ops.append(f"tod.hmst {h} {m} {s} {rng.randint(-1, 10**7)}")
        ops.append(f"tod.hmsn {h} {m} {s} {rng.randint(-1, NPS)}")
    for u, lim in SINCE.items():
        for v in [-1, 0, 1, lim - 1, lim, lim + 1, lim // 2, 2**63, -2**63, 2**64 // UNIT_NANOS[u], 2**63 // UNIT_NANOS[u] + 1]:
            ops.append(f"tod.since {u} {v}")
        for _ in range(n // 100):
            ops.append(f"tod.since {u} {rng.randint(-2, lim + 1)}")
    # accessors: every minute boundary of the day and its two neighbours, the shift granules, random
    for m in range(1441):
        for dlt in (-1, 0, 1):
            v = m * NPM + dlt
            if 0 <= v < NPD:
                ops.append(f"tod.acc {v}")
    for v in bt:
        ops.append(f"tod.acc {v}")
    for _ in range(n // 10):
        ops.append(f"tod.acc {gen_time(rng, bt)}")
    for _ in range(n // 20):
        a = gen_time(rng, bt)
        b = rng.choice([a, a, min(NPD - 1, a + 1), max(0, a - 1), gen_time(rng, bt)])
        ops.append(f"tod.cmp {a} {b}")
    # additions: boundary times x every special amount, per unit
    core_times = [0, 1, NPD - 1, NPH, NPH - 1, 12 * NPH, 23 * NPH + 59 * NPM + 59 * NPS, NPM, NPS - 1, 43_200_123_456_789]
    for u in UNIT_NANOS:
        sa = special_amounts(u, rng)
        for tm in core_times:
            for k in sa:
                ops.append(f"tod.plus {u} {tm} {k}")
        for k in sa:
            ops.append(f"tod.adddays {u} {rng.choice(core_times)} {k}")
            ops.append(f"tod.adddays {u} {gen_time(rng, bt)} {k}")
    for _ in range(n // 3):
        u = rng.choice(list(UNIT_NANOS))
        tm = gen_time(rng, bt)
        k = gen_amount(rng, u, tm)
        ops.append(f"tod.plus {u} {tm} {k}")
        if rng.random() < 0.3:
            ops.append(f"tod.adddays {u} {tm} {k}")
    for _ in range(n // 12):
        tm = gen_time(rng, bt)
        v = [gen_amount(rng, f) if rng.random() < 0.6 else 0 for f in PFIELDS]
        if rng.random() < 0.3:  # the units cancel up to +-1 ns
            tot = sum(a * UNIT_NANOS[f] for a, f in zip(v[:5], PFIELDS))
            v[5] = -tot + rng.choice([-1, 0, 1, -tm, -tm - 1, NPD - tm, NPD - tm - 1])
        ops.append(f"tod.plusperiod {rng.choice([1, -1])} {tm} " + " ".join(map(str, v)))
    return ops


def cal_table():
    P = _P()
    out = []
    for cid in P.CalendarSystem.ids:
        c = P.CalendarSystem.for_id(cid)
        out.append((cal_tok(cid), c, c._min_days, c._max_days))
    return out


def gen_day(rng, lo, hi):
    c = rng.random()
    if c < 0.3:
        return rng.choice([lo, lo + 1, lo + 2, hi, hi - 1, hi - 2])
    if c < 0.45:
        return rng.choice([lo + rng.randint(0, 310), hi - rng.randint(0, 310)])
    if c < 0.6:
        return max(lo, min(hi, rng.choice([0, -1, 1, 365, -365, 19782, -719162])))
    return rng.randint(lo, hi)


def gen_ldt_amount(rng, u, lo, hi, d, n):
    """amount of unit u for a date-time at (d, n): lands near range ends / day boundaries, or a special amount"""
    un = UNIT_NANOS[u]
    upd = NPD // un
    c = rng.random()
    if c < 0.3:
        # target day near the ends of the calendar or near the start day (small/large path of plus_days)
        tgt = rng.choice([lo, hi, lo - 1, hi + 1, lo + 1, hi - 1, d, d + 1, d - 1, d + 299, d + 300, d - 299, d - 300, d + 301, d - 301,
                          rng.randint(lo, hi)])
        edge = rng.choice([0, NPD - 1, rng.randrange(NPD)])  # nanosecond of the target day
        k = ((tgt - d) * NPD + edge - n) // un
        return k + rng.choice([-1, 0, 0, 1])
    if c < 0.55:
        return rng.choice(special_amounts(u))
    if c < 0.75:
        return rng.randint(-400, 400) * upd + rng.choice([-1, 0, 1, rng.randint(-upd, upd)])
    if c < 0.9:
        return gen_amount(rng, u, n)
    return rng.randint(-(hi - lo) * upd, (hi - lo) * upd)


def gen_ldt_ops(ctx, n):
    rng = ctx.rng
    bt = boundary_times()
    cals = cal_table()
    major = [c for c in cals if bytes.fromhex(c[0][1:]).decode() in
             ("ISO", "Gregorian", "Julian", "Hebrew Civil", "Hijri Civil-Base15", "Persian Simple", "Coptic", "Um Al Qura", "Badi")]
    ops = []
    # systematic: both range ends of every calendar, every unit, one unit / one day across the end
    for tok, c, lo, hi in cals:
        for u in LDT_UNITS:
            un = UNIT_NANOS[u]
            upd = NPD // un
            for d, tm, ks in [(hi, NPD - un, [0, 1, -1, upd, -upd, upd + 1]), (hi, 0, [upd - 1, upd, -upd, 299 * upd, -299 * upd, -300 * upd, 300 * upd]),
                              (lo, 0, [0, -1, 1, -upd, upd, -upd - 1]), (lo, NPD - 1, [-upd + 1, -upd, upd]),
                              (hi - 299, 5, [299 * upd, 300 * upd - 1, 300 * upd]), (lo + 300, NPD - 1, [-300 * upd, -300 * upd - 1, -301 * upd]),
                              (lo, 0, [(hi - lo) * upd, (hi - lo + 1) * upd - 1, (hi - lo + 1) * upd]),
                              (hi, NPD - 1, [-(hi - lo) * upd, -(hi - lo + 1) * upd + 1, -(hi - lo + 1) * upd])]:
                for k in ks:
                    ops.append(f"ldt.plus {tok} {u} {lo} {hi} {d} {tm} {k}")
    for i in range(n):
        tok, c, lo, hi = rng.choice(major) if rng.random() < 0.6 else rng.choice(cals)
        u = rng.choice(LDT_UNITS)
        d = gen_day(rng, lo, hi)
        tm = gen_time(rng, bt)
        k = gen_ldt_amount(rng, u, lo, hi, d, tm)
        ops.append(f"ldt.plus {tok} {u} {lo} {hi} {d} {tm} {k}")
    return ops


def gen_period_ops(ctx, n):
    rng = ctx.rng
    bt = boundary_times()
    cals = cal_table()
    ops = []
    for i in range(n):
        tok, c, lo, hi = rng.choice(cals)
        sg = rng.choice([1, 1, -1])
        d = gen_day(rng, lo, hi)
        tm = gen_time(rng, bt)
        y = mo = 0
        d1 = d
        if rng.random() < 0.4:
            y, mo = rng.choice([0, 1, -1, 4, rng.randint(-50, 50)]), rng.choice([0, 1, -1, 12, 13, rng.randint(-40, 40)])
            try:
                d1 = date_of(c, d).plus_years(sg * y).plus_months(sg * mo)._days_since_epoch
            except Exception:  # noqa: BLE001
                y = mo = 0
                d1 = d
        w = rng.choice([0, 0, 1, -1, 42, 43, -43, rng.randint(-100, 100)])
        dd = rng.choice([0, 0, 1, -1, 299, 300, -300, rng.randint(-400, 400)])
        tv = [0] * 6
        mode = rng.random()
        for j, f in enumerate(PFIELDS):
            if rng.random() < 0.55:
                tv[j] = gen_ldt_amount(rng, f, lo, hi, d1, tm) if rng.random() < 0.3 else gen_amount(rng, f, tm)
        if mode < 0.35:
            # make the time units and the days cancel so that the exact result stays near the start (in range),
            # including amounts far beyond 64 bits
            tot = sum(a * UNIT_NANOS[f] for a, f in zip(tv, PFIELDS))
            dd = -(tot // NPD) + rng.choice([0, 0, 1, -1, rng.randint(-5, 5)])
        elif mode < 0.5:
            j = rng.randrange(6)
            tot = sum(a * UNIT_NANOS[f] for a, f in zip(tv, PFIELDS)) - tv[j] * UNIT_NANOS[PFIELDS[j]]
            tv[j] = -tot // UNIT_NANOS[PFIELDS[j]] + rng.choice([0, 1, -1, rng.randint(-10**6, 10**6)])
        ops.append(f"ldt.plusperiod {tok} {sg} {lo} {hi} {d} {tm} {y} {mo} {d1} {w} {dd} " + " ".join(map(str, tv)))
    # between: single time units
    for i in range(n // 2):
        tok, c, lo, hi = rng.choice(cals)
        u = rng.choice(LDT_UNITS)
        d1 = gen_day(rng, lo, hi)
        d2 = max(lo, min(hi, rng.choice([d1, d1, d1 + 1, d1 - 1, d1 + rng.randint(-400, 400), gen_day(rng, lo, hi)])))
        n1 = gen_time(rng, bt)
        n2 = rng.choice([n1, max(0, n1 - 1), min(NPD - 1, n1 + 1), gen_time(rng, bt)])
        ops.append(f"ldt.between {tok} {u} {d1} {n1} {d2} {n2}")
    return ops


def gen_huge_ops(ctx):
    """amounts k*upd+delta far beyond 64 bits, compensated by -k days so that the exact result stays next to the start:
    the 28-digit Decimal quotient inside _add_local_time_with_extra_days is where value-dependent errors would sit"""
    cals = {tok: (lo, hi) for tok, c, lo, hi in cal_table()}
    ops = []
    for cid, d in (("ISO", 18262), ("Julian", 0), ("Hebrew Civil", -5), ("Hijri Civil-Base15", 12345), ("Persian Simple", 2932610), ("Coptic", -615558)):
        tok = cal_tok(cid)
        lo, hi = cals[tok]
        for j, f in reversed(list(enumerate(PFIELDS))):
            upd = NPD // UNIT_NANOS[f]
            for e in list(range(12, 31)) + [33, 36, 40]:
                k = 10**e
                for delta in (-1, 0, 1):
                    for sg in (1, -1):
                        for kk in (k, -k):
                            tv = [0] * 6
                            tv[j] = kk * upd + delta
                            ops.append(f"ldt.plusperiod {tok} {sg} {lo} {hi} {d} 0 0 0 {d} 0 {-kk} " + " ".join(map(str, tv)))
                if cid == "ISO":
                    ops.append(f"ldt.plus {tok} {f} {lo} {hi} {d} 0 {k * upd - 1}")
                    ops.append(f"tod.plus {f} 0 {k * upd - 1}")
    return ops


def run(ctx):
    n = ctx.scale(24_000, 600_000)
    ctx.correspond("ldt.huge", gen_huge_ops(ctx), impl, oracle=oracle, neighbours=neighbours)
    ctx.correspond("tod.ops", gen_tod_ops(ctx, n), impl, oracle=oracle, neighbours=neighbours)
    ctx.correspond("ldt.plus", gen_ldt_ops(ctx, n), impl, oracle=oracle, neighbours=neighbours)
    ctx.correspond("ldt.period", gen_period_ops(ctx, n // 2), impl, oracle=oracle, neighbours=neighbours)


def replay_op(op, failure):
    return oracle(op.split(" "))
