"""C10 — time-of-day and local date-time arithmetic is exact and carries correctly."""
from __future__ import annotations

from common import guard, ints

NPD = 86_400_000_000_000
NPH = 3_600_000_000_000
NPM = 60_000_000_000
NPS = 1_000_000_000
UNIT_NANOS = {"hours": NPH, "minutes": NPM, "seconds": NPS, "milliseconds": 1_000_000, "microseconds": 1_000,
              "ticks": 100, "nanoseconds": 1}
LDT_UNITS = ["hours", "minutes", "seconds", "milliseconds", "ticks", "nanoseconds"]  # LocalDateTime has no plus_microseconds
SINCE = {"hours": 24, "minutes": 1440, "seconds": 86400, "milliseconds": 86_400_000, "ticks": 864_000_000_000,
         "nanoseconds": NPD}
DEC = 10**27  # operands below this magnitude: the code's Decimal helper is exact truncation
PFIELDS = ["hours", "minutes", "seconds", "milliseconds", "ticks", "nanoseconds"]

META = {
    "property": "C10",
    "proof_modules": ["PyodaProofs.C10", "PyodaProofs.C10DateSteps", "PyodaProofs.C10Full", "PyodaProofs.GenAgreeC10"],
    "drivers": ["drv_timeofday"],
    "theorems": [
        "Pyoda.C10.localTime_inv_factories", "Pyoda.C10.localTime_inv", "Pyoda.C10.factories_raise_iff",
        "Pyoda.C10.accessors_decompose", "Pyoda.C10.hour_shift_eq", "Pyoda.C10.minute_shift_eq",
        "Pyoda.C10.addLocalTime_mod", "Pyoda.C10.plusPeriod_time_mod", "Pyoda.C10.addWithDays_exact",
        "Pyoda.C10.addLocalDateTime_exact",
        "Pyoda.C10.addLocalDateTime_raises_iff", "Pyoda.C10.plusPeriod_exact", "Pyoda.C10.plusPeriod_order",
        "Pyoda.C10.unitsBetween_trunc", "Pyoda.C10.compare_iff",
        # Period arithmetic with the date part inside the model (PyodaProofs/C10Full.lean), all 19 calendars
        "Pyoda.C10.dateSteps_spec", "Pyoda.C10.dateSteps_raises_iff", "Pyoda.C10.plusPeriodFull_spec", "Pyoda.C10.plusPeriodFull_valid",
        "Pyoda.C10.plusPeriodFull_raises_iff", "Pyoda.C10.addYears_raises_iff", "Pyoda.C10.addMonths_raises_overflow",
        "Pyoda.C10.plusPeriodFull_error_kind_partial", "Pyoda.C10.minus_eq_plus_neg",
        "Pyoda.C10.minusPeriodFull_spec", "Pyoda.C10.date_plus_rejects_time_units", "Pyoda.C10.date_plus_eq_ldt_plus",
        "Pyoda.C10.time_plus_rejects_date_units", "Pyoda.C10.time_plus_mod", "Pyoda.C10.time_only_period_commutes",
        "Pyoda.C10.timeOnly_pos", "Pyoda.C10.time_only_ldt_commutes", "Pyoda.C10.time_only_ldt_sum", "Pyoda.C10.period_add_spec",
        "Pyoda.C10.period_sub_spec", "Pyoda.C10.period_neg_spec", "Pyoda.C10.period_algebra",
        # agreement of the definitions generated from the Python source (tools/py2lean.py) with the model
        "Pyoda.GenAgree.C10.gen_LocalTime_ctor_eq", "Pyoda.GenAgree.C10.gen_LocalTime_new_eq",
        "Pyoda.GenAgree.C10.gen_LocalTime_fromHMSMsT_eq", "Pyoda.GenAgree.C10.gen_LocalTime_fromHMST_eq",
        "Pyoda.GenAgree.C10.gen_LocalTime_fromHMSNTrusted_eq", "Pyoda.GenAgree.C10.gen_LocalTime_fromHMSN_eq",
        "Pyoda.GenAgree.C10.gen_LocalTime_fromNanosSinceMidnight_eq",
        "Pyoda.GenAgree.C10.gen_LocalTime_fromTicksSinceMidnight_eq",
        "Pyoda.GenAgree.C10.gen_LocalTime_fromMillisecondsSinceMidnight_eq",
        "Pyoda.GenAgree.C10.gen_LocalTime_fromSecondsSinceMidnight_eq",
        "Pyoda.GenAgree.C10.gen_LocalTime_fromMinutesSinceMidnight_eq",
        "Pyoda.GenAgree.C10.gen_LocalTime_fromHoursSinceMidnight_eq", "Pyoda.GenAgree.C10.gen_LocalTime_hour_eq",
        "Pyoda.GenAgree.C10.gen_LocalTime_clockHourOfHalfDay_eq", "Pyoda.GenAgree.C10.gen_LocalTime_minute_eq",
        "Pyoda.GenAgree.C10.gen_LocalTime_second_eq", "Pyoda.GenAgree.C10.gen_LocalTime_millisecond_eq",
        "Pyoda.GenAgree.C10.gen_LocalTime_microsecond_eq", "Pyoda.GenAgree.C10.gen_LocalTime_tickOfDay_eq",
        "Pyoda.GenAgree.C10.gen_LocalTime_tickOfSecond_eq", "Pyoda.GenAgree.C10.gen_LocalTime_nanosecondOfSecond_eq",
        "Pyoda.GenAgree.C10.gen_LocalTime_nanosecondOfDay_eq", "Pyoda.GenAgree.C10.gen_LocalTime_beq_eq",
        "Pyoda.GenAgree.C10.gen_LocalTime_bne_eq", "Pyoda.GenAgree.C10.gen_LocalTime_lt_eq",
        "Pyoda.GenAgree.C10.gen_LocalTime_le_eq", "Pyoda.GenAgree.C10.gen_LocalTime_gt_eq",
        "Pyoda.GenAgree.C10.gen_LocalTime_ge_eq", "Pyoda.GenAgree.C10.gen_LocalTime_compareTo_eq",
        "Pyoda.GenAgree.C10.gen_TimeUnit_addLocalTime_eq",
        "Pyoda.GenAgree.C10.gen_TimeUnit_addLocalTimeWithExtraDays_eq", "Pyoda.GenAgree.C10.gen_Duration_toNanos_eq",
        "Pyoda.GenAgree.C10.gen_TimeUnit_getUnitsInDuration_eq",
    ],
    "trusted_base": [
        "CPython int arithmetic; decimal division exact for operands below 10^27 (sampled by C03 suite prelude.tdiv) - used only by the "
        "accessors and Period.between, whose operands are below 2^47 resp. 2^77; the additions use integer division for every amount",
        "date carry of plus_<time unit> (ops ldt.plus, ldt.plusperiod): LocalDate.plus_days / plus_weeks abstracted to a range check of the day "
        "number against the calendar's [min_days, max_days] (tied to the code by suite ldt.* in 19 calendars); the full-period ops "
        "(ldtf.period, datef.period: suite full.period) use C09's date-arithmetic model over the calendar descriptions of C01 instead, "
        "with no value computed by the real code",
        "full-period theorems (C10Full.lean) hold for the 19 calendar descriptions under the hypothesis structure Pyoda.C09.Evaluated "
        "(wfCheck = true for Hebrew civil/scriptural, Persian astronomical, Um Al Qura, Badi via C01's wfCheck_sound; yearLenCheck = true "
        "for the two Hebrew calendars), discharged by EVALUATION on the compiled driver drv_timeofday on every run (ops cal.wf 4|5|8|17|18, "
        "date.wf 4|5; oracle 'evaluated-hypotheses') - the Lean compiler is trusted for that step; the other 14 calendars have symbolic "
        "well-formedness proofs (C01/C09)",
        "month amounts of 10^27 and more are outside the model (!dom: the code's Decimal-based division in _add_months is no longer exact "
        "there); every other component is modelled for all integers",
        "int(NANOSECONDS_PER_DAY / unit_nanoseconds) is exact for the seven units (float quotient of integers below 2^53)",
        "translator tools/py2lean.py (second tie, besides the correspondence suites): LocalTime's constructor, factories, accessors and "
        "comparisons and _TimePeriodField._add_local_time / _add_local_time_with_extra_days / _get_units_in_duration (listed under C10 in "
        "tools/py2lean_targets.py) are re-translated from the current Python source on each run into lean/PyodaGen/C10.lean and proved equal "
        "to the hand-written model for all inputs (PyodaProofs/GenAgreeC10.lean). Trusted there: Python int = Lean Int; // and % = "
        "Int.fdiv/Int.fmod (run-time divisors through a ZeroDivisionError check); >> by a constant = Int.shiftRight; raising calls bound "
        "left-to-right in Except PyExc; if-statements by tail duplication; __init__ / `self = super().__new__(cls)` + field assignment = "
        "structure literal; the two instance attributes of _TimePeriodField are parameters instantiated with (u.nanos, u.unitsPerDay) per unit; "
        "helpers _towards_zero_division, _csharp_modulo, _int32_overflow, _int64_overflow, _check_argument_range hand-mapped. Not translated: "
        "plus_hours ... plus_nanoseconds (go through metaclass properties and the float division in _TimePeriodField.__init__), "
        "_add_local_date_time, LocalDateTime.plus(Period) (hand-written model + correspondence)",
    ],
    "partial": [
        "plusPeriodFull_raises_iff names the years condition (target year outside the calendar) and the two day-range conditions explicitly; "
        "for the months step it says 'the months step raises on the result of the years step', whose calendar-specific meaning (target "
        "year of the month index outside the calendar) is C09's addMonths_regular_spec / addMonths_hebrew_spec / addMonths_badi_spec",
        "kind of the exception: proved for the years step (ValueError) and the months step (OverflowError) - "
        "plusPeriodFull_error_kind_partial, full statement kept as plusPeriodFull_error_kindStatement; the kinds raised by the weeks and "
        "days steps are tied to the code by correspondence only (suite full.period compares exact kinds)",
        "Period has no __neg__ and no _add_to in this port: minus(Period) negates each component inline (modelled so; minus_eq_plus_neg)",
    ],
    "rule": "times at 0, 1, 24h-1 and every hour/minute boundary +-1; amounts 0, +-1, +-(upd-1), +-upd, +-(upd+1), +-k*upd(+-1), 2^63+-1, 10^27, 10^30 per unit, "
            "amounts that land exactly on day boundaries and calendar range ends; 19 calendars; full periods: month ends, leap days, Adar/Adar II, Ayyam-i-Ha, "
            "first/last years x years/months that clamp x time units that carry across midnight, on all six routes (plus, +, add, minus, -, subtract); "
            "distinct = distinct op line; every op exercises arithmetic or a range check",
}


def _P():
    import pyoda_time as P
    return P


_CALS = {}


def cal_tok(cid: str) -> str:
    return "c" + cid.encode().hex()


def cal_of(tok: str):
    c = _CALS.get(tok)
    if c is None:
        c = _P().CalendarSystem.for_id(bytes.fromhex(tok[1:]).decode())
        _CALS[tok] = c
    return c


def lt_of(n: int):
    return _P().LocalTime.from_nanoseconds_since_midnight(n)


def date_of(cal, d: int):
    import routes
    return routes.routed_date(cal, d)


def ldt_of(cal, d: int, n: int):
    return date_of(cal, d) + lt_of(n)


def sd(x) -> str:
    """year-month-day of a date (repr of a date formats month names, which fails for some Badi dates)"""
    try:
        return f"{x.year}-{x.month}-{x.day}"
    except Exception as e:  # noqa: BLE001
        return f"<{type(e).__name__}>"


def sdt(x) -> str:
    try:
        return f"{sd(x.date)} nod {x.nanosecond_of_day}"
    except Exception as e:  # noqa: BLE001
        return f"<{type(e).__name__}>"


def _step(d):
    import routes
    bad = routes.date_out_of_step(d)
    if bad:
        raise AssertionError("OUT-OF-STEP " + bad)


def sl(r) -> str:
    _step(r.date)
    return ints(r.date._days_since_epoch, r.nanosecond_of_day)


def period(sign_free: dict):
    return _P().PeriodBuilder(**sign_free).build()


def isint(x: str) -> bool:
    return x.lstrip("-").isdigit()


ACCESSORS = ["hour", "clock_hour_of_half_day", "minute", "second", "millisecond", "microsecond", "tick_of_second",
             "tick_of_day", "nanosecond_of_second", "nanosecond_of_day"]


def impl(t):
    if t[0] in ("ldt.plus", "ldt.plusperiod"):
        import decimal
        try:
            return _impl(t)
        except decimal.DecimalException:
            raise
        except (ValueError, OverflowError):
            return "!range"  # the kind depends on the path inside the calendar; the property asks for an error
    return _impl(t)


def _impl(t):
    P = _P()
    LT = P.LocalTime
    op = t[0]
    if op == "tod.new":
        return str(LT(int(t[1]), int(t[2]), int(t[3]), int(t[4])).nanosecond_of_day)
    if op == "tod.hmsmt":
        return str(LT.from_hour_minute_second_millisecond_tick(*[int(x) for x in t[1:6]]).nanosecond_of_day)
    if op == "tod.hmst":
        return str(LT.from_hour_minute_second_tick(*[int(x) for x in t[1:5]]).nanosecond_of_day)
    if op == "tod.hmsn":
        return str(LT.from_hour_minute_second_nanosecond(*[int(x) for x in t[1:5]]).nanosecond_of_day)
    if op == "tod.since":
        return str(getattr(LT, f"from_{t[1]}_since_midnight")(int(t[2])).nanosecond_of_day)
    if op == "tod.acc":
        x = lt_of(int(t[1]))
        return " ".join(guard(lambda n=n: str(getattr(x, n))) for n in ACCESSORS)
    if op == "tod.cmp":
        x, y = lt_of(int(t[1])), lt_of(int(t[2]))
        c = x.compare_to(y)
        return ints(x == y, x < y, x <= y, x > y, x >= y, (c > 0) - (c < 0))
    if op == "tod.plus":
        return str(getattr(lt_of(int(t[2])), "plus_" + t[1])(int(t[3])).nanosecond_of_day)
    if op == "tod.plusperiod":
        sg, n = int(t[1]), int(t[2])
        p = period(dict(zip(PFIELDS, [int(x) for x in t[3:9]])))
        x = lt_of(n)
        return str((x + p if sg == 1 else x - p).nanosecond_of_day)
    if op == "tod.adddays":
        from pyoda_time.fields._time_period_field import _TimePeriodField
        f = getattr(_TimePeriodField, "_" + t[1])
        r, d = f._add_local_time_with_extra_days(lt_of(int(t[2])), int(t[3]))
        return ints(r.nanosecond_of_day, d)
    if op == "ldt.plus":
        cal = cal_of(t[1])
        x = ldt_of(cal, int(t[5]), int(t[6]))
        return sl(getattr(x, "plus_" + t[2])(int(t[7])))
    if op == "ldt.plusperiod":
        cal = cal_of(t[1])
        sg = int(t[2])
        x = ldt_of(cal, int(t[5]), int(t[6]))
        v = [int(a) for a in t[7:]]
        p = period(dict(years=v[0], months=v[1], weeks=v[3], days=v[4], hours=v[5], minutes=v[6], seconds=v[7],
                        milliseconds=v[8], ticks=v[9], nanoseconds=v[10]))
        return sl(x.plus(p) if sg == 1 else x.minus(p))
    if op == "ldt.between":
        cal = cal_of(t[1])
        s, e = ldt_of(cal, int(t[3]), int(t[4])), ldt_of(cal, int(t[5]), int(t[6]))
        return str(getattr(P.Period.between(s, e, getattr(P.PeriodUnits, t[2].upper())), t[2]))
    if op in FULL_OPS:
        return impl_full(t)
    raise ValueError("unknown op " + op)


# ---------------------------------------------------------------------------------------------
# direct oracle: the property on the real objects with plain integers
# ---------------------------------------------------------------------------------------------

def tdiv(x, y):
    q = abs(x) // abs(y)
    return q if (x >= 0) == (y > 0) else -q


def _run(fn):
    import decimal
    try:
        return "ok", fn()
    except decimal.DecimalException as e:
        return "dec", e
    except (ValueError, OverflowError) as e:
        return "range", e
    except Exception as e:  # noqa: BLE001
        return "other", e


def _expect_time(fn, exp, what):
    """fn() must return the LocalTime whose nanosecond-of-day is exp (None: must raise ValueError)."""
    kind, r = _run(fn)
    if exp is None:
        if kind == "ok":
            return {"key": "tod-out-of-range-accepted", "what": f"{what}: returned nanosecond_of_day={r.nanosecond_of_day}, the arguments are out of range"}
        if kind != "range":
            return {"key": "tod-unexpected-exception", "what": f"{what}: raised {type(r).__name__}: {r}"}
        return None
    if kind != "ok":
        k = "decimal-error-on-large-amount" if kind == "dec" else "tod-raises-in-range"
        return {"key": k, "what": f"{what}: raised {type(r).__name__} ({r}); exact result is nanosecond_of_day={exp}"}
    n = r.nanosecond_of_day
    if not (0 <= n < NPD):
        return {"key": "tod-invariant", "what": f"{what}: nanosecond_of_day={n} outside [0, 24h)"}
    if n != exp:
        return {"key": "tod-inexact", "what": f"{what}: nanosecond_of_day={n}, exact result {exp}"}
    return None


def _cal_sane(cal, d):
    """the calendar maps day number d to a date and back (otherwise a failure is inherited from C01)"""
    try:
        return date_of(cal, d)._days_since_epoch == d
    except Exception:  # noqa: BLE001
        return False


def _expect_ldt(fn, cal, total_ns, what, huge, d_in=None):
    """fn() must return the LocalDateTime at total_ns on the local time line of `cal`, or raise iff its day is out of range."""
    P = _P()
    D, n = divmod(total_ns, NPD)
    lo, hi = cal._min_days, cal._max_days
    inr = lo <= D <= hi
    kind, r = _run(fn)
    f = _expect_ldt2(kind, r, cal, D, n, lo, hi, inr, what, huge)
    if f:
        f["_days"] = [D, d_in] + ([r.date._days_since_epoch] if kind == "ok" else [])
    return f


def _expect_ldt2(kind, r, cal, D, n, lo, hi, inr, what, huge):
    P = _P()
    sfx = ""
    if kind == "ok":
        gd, gn = r.date._days_since_epoch, r.nanosecond_of_day
        if not inr:
            k = "inexact-amount-beyond-decimal-precision" if huge else "ldt-out-of-range-returned"
            return {"key": k + sfx, "what": f"{what}: returned day {gd} nod {gn}; exact day {D} is outside [{lo},{hi}]"}
        if not (0 <= gn < NPD):
            return {"key": "ldt-time-invariant", "what": f"{what}: nanosecond_of_day={gn}"}
        if (gd, gn) != (D, n):
            k = "inexact-amount-beyond-decimal-precision" if huge else "ldt-inexact"
            return {"key": k + sfx, "what": f"{what}: returned (day {gd}, nod {gn}) = {sdt(r)}; exact result is (day {D}, nod {n}) = {sd(date_of(cal, D))}"}
        if r.calendar != cal:
            return {"key": "ldt-calendar-changed", "what": f"{what}: result calendar {r.calendar.id}"}
        if r.date != date_of(cal, D):
            return {"key": "ldt-date-fields" + sfx, "what": f"{what}: date {sd(r.date)} differs from the date of day {D}: {sd(date_of(cal, D))}"}
        return None
    if kind == "dec":
        if inr:
            return {"key": "decimal-error-on-large-amount" if huge else "ldt-raises-in-range",
                    "what": f"{what}: raised {type(r).__name__}; the exact result (day {D}, nod {n}) is in range"}
        return None
    if kind == "range":
        if inr:
            # with amounts beyond the decimal precision a day count that is off by one can also surface as a range error
            return {"key": ("inexact-amount-beyond-decimal-precision" if huge else "ldt-raises-in-range") + sfx, "what": f"{what}: raised {type(r).__name__} ({r}); the exact result (day {D}, nod {n}) is in range [{lo},{hi}]"}
        return None
    return {"key": "ldt-unexpected-exception", "what": f"{what}: raised {type(r).__name__}: {r}"}


def _acc_expect(n):
    return {
        "hour": n // NPH, "clock_hour_of_half_day": ((n // NPH) % 12) or 12, "minute": n // NPM % 60,
        "second": n // NPS % 60, "millisecond": n // 10**6 % 1000, "microsecond": n // 1000 % 10**6,
        "tick_of_second": n // 100 % 10**7, "tick_of_day": n // 100, "nanosecond_of_second": n % NPS,
        "nanosecond_of_day": n,
    }


_BAD = {}


def bad_regions(cal):
    """day intervals in which the calendar itself is inconsistent (C01 defect classes): years whose length differs
    from the distance of the year starts, years whose first/last day does not map back, range ends that
    are not year ends"""
    r = _BAD.get(cal.id)
    if r is not None:
        return r
    r = []
    calc = cal._year_month_day_calculator
    lo, hi = cal.min_year, cal.max_year
    prev = None
    for y in range(lo, hi + 1):
        try:
            s0 = calc._get_start_of_year_in_days(y)
            n = calc._get_days_in_year(y)
            bad = prev is not None and prev != s0
            for d in (s0, s0 + n - 1):
                x = date_of(cal, d)
                bad = bad or x.year != y or x._days_since_epoch != d
            prev = s0 + n
            if bad:
                r.append((s0 - 400, s0 + n))
        except Exception:  # noqa: BLE001
            prev = None
            r.append((s0 - 1, s0 + 400))
    try:
        first = calc._get_start_of_year_in_days(lo)
        last = calc._get_start_of_year_in_days(hi) + calc._get_days_in_year(hi) - 1
        if first != cal._min_days:
            r.append((min(first, cal._min_days), max(first, cal._min_days)))
        if last != cal._max_days:
            r.append((min(last, cal._max_days), max(last, cal._max_days)))
    except Exception:  # noqa: BLE001
        r.append((cal._min_days, cal._max_days))
    _BAD[cal.id] = r
    return r


def touches_bad(cal, days, pad=400):
    lo, hi = cal._min_days, cal._max_days
    ds = [max(lo, min(hi, d)) for d in days if d is not None]
    if not ds:
        return False
    a, b = min(ds) - pad, max(ds) + pad
    return any(x <= b and y >= a for x, y in bad_regions(cal))


def oracle(t):
    """failures of date-time ops whose days lie in or around a region where the calendar itself is inconsistent are
    keyed as inherited (they are consequences of C01 defects, not of the time arithmetic)"""
    if t[0] in FULL_OPS:
        return oracle_full(t)
    if not t[0].startswith("ldt."):
        return _oracle(t)
    try:
        f = _oracle(t)
    except RecursionError:
        raise
    except Exception as e:  # noqa: BLE001
        import traceback
        f = {"key": "oracle-exception", "what": f"oracle raised {type(e).__name__}: {e}", "trace": traceback.format_exc()[-800:]}
    if f:
        cal = cal_of(t[1])
        days = list(f.pop("_days", []))
        days += [int(t[5])] if t[0] != "ldt.between" else [int(t[3]), int(t[5])]
        if t[0] == "ldt.plusperiod":
            days.append(int(t[9]))
        if touches_bad(cal, days):
            f["inherited_from"] = f["key"]
            f["key"] = "inherited-calendar-defect-" + cal.id.lower().replace(" ", "-")
    return f


def _oracle(t):
    P = _P()
    LT = P.LocalTime
    op = t[0]
    if op in ("tod.new", "tod.hmsmt", "tod.hmst", "tod.hmsn"):
        a = [int(x) for x in t[1:]]
        h, m, s = a[0], a[1], a[2]
        ok = 0 <= h <= 23 and 0 <= m <= 59 and 0 <= s <= 59
        base = h * NPH + m * NPM + s * NPS
        if op == "tod.new":
            ok = ok and 0 <= a[3] <= 999
            exp, fn, nm = base + a[3] * 10**6, (lambda: LT(*a)), "LocalTime"
        elif op == "tod.hmsmt":
            ok = ok and 0 <= a[3] <= 999 and 0 <= a[4] <= 9999
            exp, fn, nm = base + a[3] * 10**6 + a[4] * 100, (lambda: LT.from_hour_minute_second_millisecond_tick(*a)), "from_hour_minute_second_millisecond_tick"
        elif op == "tod.hmst":
            ok = ok and 0 <= a[3] <= 10**7 - 1
            exp, fn, nm = base + a[3] * 100, (lambda: LT.from_hour_minute_second_tick(*a)), "from_hour_minute_second_tick"
        else:
            ok = ok and 0 <= a[3] <= NPS - 1
            exp, fn, nm = base + a[3], (lambda: LT.from_hour_minute_second_nanosecond(*a)), "from_hour_minute_second_nanosecond"
        return _expect_time(fn, exp if ok else None, f"{nm}{tuple(a)}")
    if op == "tod.since":
        u, v = t[1], int(t[2])
        if u not in SINCE:
            return None
        ok = 0 <= v < SINCE[u]
        return _expect_time(lambda: getattr(LT, f"from_{u}_since_midnight")(v), v * UNIT_NANOS[u] if ok else None,
                            f"LocalTime.from_{u}_since_midnight({v})")
    if op == "tod.acc":
        n = int(t[1])
        if not (0 <= n < NPD):
            return None
        exp = _acc_expect(n)
        x = lt_of(n)
        for k, e in exp.items():
            g = getattr(x, k)
            if g != e:
                return {"key": "tod-accessor-" + k, "what": f"LocalTime(nod={n}).{k} = {g}, exact value {e}"}
        if tuple(x) != (exp["hour"], exp["minute"], exp["second"]):
            return {"key": "tod-accessor-iter", "what": f"tuple(LocalTime(nod={n})) = {tuple(x)}"}
        # the duplicated extraction code of OffsetTime and the delegation of LocalDateTime
        for off_s in (0, 64800, -64800, -1, 3600 * (n % 13) - 21600):
            ot = P.OffsetTime(x, P.Offset.from_seconds(off_s))
            for k, e in exp.items():
                if k == "microsecond":
                    continue
                g = getattr(ot, k)
                if g != e:
                    return {"key": "offsettime-accessor-" + k, "what": f"OffsetTime(nod={n}, offset {off_s}s).{k} = {g}, exact value {e}"}
            if ot.offset.seconds != off_s or ot.time_of_day != x:
                return {"key": "offsettime-components", "what": f"OffsetTime(nod={n}, offset {off_s}s) unpacks to {ot.time_of_day!r}, {ot.offset.seconds}"}
        ldt = P.LocalDate(2024, 2, 29) + x
        for k, e in exp.items():
            g = getattr(ldt, k)
            if g != e:
                return {"key": "ldt-accessor-" + k, "what": f"LocalDateTime(2024-02-29, nod={n}).{k} = {g}, exact value {e}"}
        TA = P.TimeAdjusters
        for adj, unit in ((TA.truncate_to_hour, NPH), (TA.truncate_to_minute, NPM), (TA.truncate_to_second, NPS)):
            g = x.with_time_adjuster(adj).nanosecond_of_day
            if g != n - n % unit:
                return {"key": "tod-truncate", "what": f"truncation of nod={n} to multiples of {unit} gave {g}"}
        return None
    if op == "tod.cmp":
        a, b = int(t[1]), int(t[2])
        if not (0 <= a < NPD and 0 <= b < NPD):
            return None
        x, y = lt_of(a), lt_of(b)
        c = x.compare_to(y)
        got = (x == y, x != y, x < y, x <= y, x > y, x >= y, (c > 0) - (c < 0), LT.max(x, y).nanosecond_of_day, LT.min(x, y).nanosecond_of_day)
        exp = (a == b, a != b, a < b, a <= b, a > b, a >= b, (a > b) - (a < b), max(a, b), min(a, b))
        if got != exp:
            return {"key": "tod-compare", "what": f"comparison of nod {a} with {b}: got {got}, expected {exp}"}
        if a == b and hash(x) != hash(y):
            return {"key": "tod-hash", "what": f"equal times hash differently (nod {a})"}
        return None
    if op == "tod.plus":
        u, n, k = t[1], int(t[2]), int(t[3])
        if u not in UNIT_NANOS or not (0 <= n < NPD):
            return None
        return _expect_time(lambda: getattr(lt_of(n), "plus_" + u)(k), (n + k * UNIT_NANOS[u]) % NPD,
                            f"LocalTime(nod={n}).plus_{u}({k})")
    if op == "tod.plusperiod":
        sg, n = int(t[1]), int(t[2])
        if sg not in (1, -1) or not (0 <= n < NPD):
            return None
        v = [int(x) for x in t[3:9]]
        tot = sum(a * UNIT_NANOS[f] for a, f in zip(v, PFIELDS))
        p = period(dict(zip(PFIELDS, v)))
        x = lt_of(n)
        f = _expect_time((lambda: x + p) if sg == 1 else (lambda: x - p), (n + sg * tot) % NPD,
                         f"LocalTime(nod={n}) {'+' if sg == 1 else '-'} Period{tuple(v)}")
        if f:
            return f
        # the named forms agree with the operators
        r0 = (x + p) if sg == 1 else (x - p)
        others = (x.plus(p), LT.add(x, p)) if sg == 1 else (x.minus(p), LT.subtract(x, p))
        if any(o != r0 for o in others):
            return {"key": "tod-plus-forms", "what": f"plus/add/minus/subtract disagree with the operator at nod={n}, Period{tuple(v)}"}
        return None
    if op == "tod.adddays":
        from pyoda_time.fields._time_period_field import _TimePeriodField
        u, n, k = t[1], int(t[2]), int(t[3])
        if u not in UNIT_NANOS or not (0 <= n < NPD):
            return None
        kind, r = _run(lambda: getattr(_TimePeriodField, "_" + u)._add_local_time_with_extra_days(lt_of(n), k))
        D, m = divmod(n + k * UNIT_NANOS[u], NPD)
        huge = abs(k) >= DEC
        if kind == "ok":
            if (r[1], r[0].nanosecond_of_day) != (D, m):
                return {"key": "inexact-amount-beyond-decimal-precision" if huge else "adddays-inexact",
                        "what": f"{u}._add_local_time_with_extra_days(nod={n}, {k}) = (nod {r[0].nanosecond_of_day}, days {r[1]}), exact (nod {m}, days {D})"}
            return None
        return {"key": "adddays-raises", "what": f"{u}._add_local_time_with_extra_days(nod={n}, {k}) raised {type(r).__name__}"}
    if op == "ldt.plus":
        cal = cal_of(t[1])
        u, d, n, k = t[2], int(t[5]), int(t[6]), int(t[7])
        if u not in LDT_UNITS or not (0 <= n < NPD) or not (cal._min_days <= d <= cal._max_days):
            return None
        x = ldt_of(cal, d, n)
        return _expect_ldt(lambda: getattr(x, "plus_" + u)(k), cal, d * NPD + n + k * UNIT_NANOS[u],
                           f"LocalDateTime({cal.id}, day {d} = {sd(x.date)}, nod {n}).plus_{u}({k})", abs(k) >= DEC, d)
    if op == "ldt.plusperiod":
        cal = cal_of(t[1])
        sg, d, n = int(t[2]), int(t[5]), int(t[6])
        if sg not in (1, -1) or not (0 <= n < NPD) or not (cal._min_days <= d <= cal._max_days):
            return None
        v = [int(a) for a in t[7:]]
        y, mo, w, dd = v[0], v[1], v[3], v[4]
        tv = v[5:11]
        x = ldt_of(cal, d, n)
        kind, base = _run(lambda: x.date.plus_years(sg * y).plus_months(sg * mo))
        if kind != "ok":
            return None  # year/month arithmetic is C09's subject
        p = period(dict(years=y, months=mo, weeks=w, days=dd, hours=tv[0], minutes=tv[1], seconds=tv[2],
                        milliseconds=tv[3], ticks=tv[4], nanoseconds=tv[5]))
        what = f"LocalDateTime({cal.id}, day {d} = {sd(x.date)}, nod {n}).{'plus' if sg == 1 else 'minus'}(Period(y={y}, m={mo}, w={w}, d={dd}, h={tv[0]}, min={tv[1]}, s={tv[2]}, ms={tv[3]}, t={tv[4]}, ns={tv[5]}))"
        if x.date._days_since_epoch != d:
            return {"key": "ldt-input-date-roundtrip", "what": f"{cal.id}: the date built from day {d} reports day {x.date._days_since_epoch}"}
        d1 = (base._days_since_epoch if (y or mo) else d) + 7 * sg * w
        fn = (lambda: x.plus(p)) if sg == 1 else (lambda: x.minus(p))
        huge = any(abs(a) >= DEC for a in tv)
        if not (cal._min_days <= d1 <= cal._max_days):
            kind, r = _run(fn)
            if kind == "ok":
                return {"key": "ldt-out-of-range-returned", "what": f"{what}: returned {sdt(r)} although adding the weeks leaves the calendar (day {d1})"}
            return None
        tot = sum(a * UNIT_NANOS[f] for a, f in zip(tv, PFIELDS))
        f = _expect_ldt(fn, cal, (d1 + sg * dd) * NPD + n + sg * tot, what, huge, d)
        if f:
            return f
        kind, r0 = _run(fn)
        if kind == "ok":
            others = (x + p, P.LocalDateTime.add(x, p)) if sg == 1 else (x - p, P.LocalDateTime.subtract(x, p))
            if any(o != r0 for o in others):
                return {"key": "ldt-plus-forms", "what": f"{what}: operator/static forms disagree"}
        return None
    if op == "ldt.between":
        cal = cal_of(t[1])
        u = t[2]
        d1, n1, d2, n2 = int(t[3]), int(t[4]), int(t[5]), int(t[6])
        lo, hi = cal._min_days, cal._max_days
        if u not in LDT_UNITS or not (0 <= n1 < NPD and 0 <= n2 < NPD and lo <= d1 <= hi and lo <= d2 <= hi):
            return None
        s, e = ldt_of(cal, d1, n1), ldt_of(cal, d2, n2)
        exp = tdiv((d2 - d1) * NPD + n2 - n1, UNIT_NANOS[u])
        kind, r = _run(lambda: getattr(P.Period.between(s, e, getattr(P.PeriodUnits, u.upper())), u))
        sfx = ""
        if kind != "ok":
            return {"key": "between-raises" + sfx, "what": f"Period.between(day {d1} nod {n1}, day {d2} nod {n2}, {u}) in {cal.id} raised {type(r).__name__}: {r}"}
        if r != exp:
            return {"key": "between-inexact" + sfx, "what": f"Period.between(day {d1} nod {n1}, day {d2} nod {n2}, {u}) in {cal.id} = {r}, exact truncated value {exp}"}
        return None
    return None



# ---------------------------------------------------------------------------------------------
# Period arithmetic with the date part inside the model: ops ldtf.period / datef.period / timef.period /
# period.alg / period.has (lean/PyodaModel/TimeOfDay/Full.lean).  The ops carry the calendar ordinal and the
# (year, month, day, nanosecond-of-day) fields only; nothing computed by the real code is passed to the model.
# ---------------------------------------------------------------------------------------------

FULL_OPS = ("ldtf.period", "ldtf.unit", "datef.period", "timef.period", "period.alg", "period.has", "ldtf.sumseq")
DATE_UNITS = ["years", "months", "weeks", "days"]
ROUTES_PLUS = ("plus", "opadd", "add")
ROUTES_MINUS = ("minus", "opsub", "subtract")
PNAMES = ["years", "months", "weeks", "days", "hours", "minutes", "seconds", "milliseconds", "ticks", "nanoseconds"]
PNANOS = [NPH, NPM, NPS, 1_000_000, 100, 1]

_info = {}


def info(o):
    """ordinal -> (calendar, min_year, max_year, min_days, max_days)"""
    if not _info:
        P = _P()
        for cid in P.CalendarSystem.ids:
            c = P.CalendarSystem.for_id(cid)
            _info[int(c._ordinal)] = (c, c.min_year, c.max_year, c._min_days, c._max_days)
    return _info[o]


def ordinals():
    info(0)
    return sorted(_info)


def _period_plain(c):
    return _P().Period._ctor(years=c[0], months=c[1], weeks=c[2], days=c[3], hours=c[4], minutes=c[5], seconds=c[6],
                             milliseconds=c[7], ticks=c[8], nanoseconds=c[9])


PERIOD_ROUTES = {}


def mkperiod(c):
    """The Period with components c - by the constructor, or as the RESULT of Period arithmetic on periods that have
    ALREADY BEEN USED (applied to a time / date-time), or built by a PeriodBuilder, chosen deterministically from the
    components. Equal periods must behave equally however they were made (a period that memoises something when it
    is first applied must not hand a wrong memo on to its sums and differences)."""
    P = _P()
    c = list(c)
    k = (sum(abs(v) for v in c) + c[4] * 3 + c[9]) % 5
    r = None
    try:
        if k in (1, 2):
            a = [v // 2 for v in c]
            b = [v - w for v, w in zip(c, a)]
            if k == 2:
                a, b = [v + 3 for v in c], [3] * 10           # c = a - b
            pa, pb = _period_plain(a), _period_plain(b)
            for q in (pa, pb):                                 # use both operands first (outcome irrelevant)
                try:
                    if q.has_time_component and not q.has_date_component:
                        lt_of(12 * 3600 * 10**9) + q
                    elif not q.has_time_component:
                        P.LocalDate(2001, 5, 15) + q
                    else:
                        P.LocalDateTime(2001, 5, 15, 12, 0, 0) + q
                except Exception:  # noqa: BLE001
                    pass
            r = pa + pb if k == 1 else pa - pb
        elif k == 3:
            r = _period_plain(c)
            try:
                if not r.has_date_component:
                    lt_of(0) + r                               # an already-applied period object
                else:
                    P.LocalDateTime(1999, 12, 31, 23, 59, 59) + r
            except Exception:  # noqa: BLE001
                pass
        if r is not None and pcomps(r) != tuple(c):
            r = None
    except Exception:  # noqa: BLE001
        r = None
    if r is None:
        k = 0
        r = _period_plain(c)
    PERIOD_ROUTES[k] = PERIOD_ROUTES.get(k, 0) + 1
    return r


def pcomps(p):
    return (p.years, p.months, p.weeks, p.days, p.hours, p.minutes, p.seconds, p.milliseconds, p.ticks, p.nanoseconds)


def apply_route(x, p, route):
    cls = type(x)
    if route == "plus":
        return x.plus(p)
    if route == "opadd":
        return x + p
    if route == "add":
        return cls.add(x, p)
    if route == "minus":
        return x.minus(p)
    if route == "opsub":
        return x - p
    if route == "subtract":
        return cls.subtract(x, p)
    raise ValueError("route " + route)


def _routed_fields_date(o, y, m, d):
    import routes
    b = _P().LocalDate(y, m, d, info(o)[0])          # raises for invalid fields, as before
    return routes.routed_date(info(o)[0], b._days_since_epoch, salt=y + m)


def impl_full(t):
    P = _P()
    op = t[0]
    if op == "ldtf.period":
        route, o = t[1], int(t[2])
        y, m, d, nod = (int(x) for x in t[3:7])
        x = _routed_fields_date(o, y, m, d) + lt_of(nod)
        r = apply_route(x, mkperiod([int(a) for a in t[7:17]]), route)
        _step(r.date)
        return ints(r.year, r.month, r.day, r.nanosecond_of_day)
    if op == "ldtf.unit":
        o = int(t[2])
        y, m, d, nod, n = (int(x) for x in t[3:8])
        x = _routed_fields_date(o, y, m, d) + lt_of(nod)
        r = getattr(x, "plus_" + t[1])(n)
        _step(r.date)
        return ints(r.year, r.month, r.day, r.nanosecond_of_day)
    if op == "datef.period":
        route, o = t[1], int(t[2])
        y, m, d = (int(x) for x in t[3:6])
        r = apply_route(_routed_fields_date(o, y, m, d), mkperiod([int(a) for a in t[6:16]]), route)
        _step(r)
        return ints(r.year, r.month, r.day)
    if op == "timef.period":
        r = apply_route(lt_of(int(t[2])), mkperiod([int(a) for a in t[3:13]]), t[1])
        return str(r.nanosecond_of_day)
    if op == "period.alg":
        p, q = mkperiod([int(a) for a in t[2:12]]), mkperiod([int(a) for a in t[12:22]])
        r = {"opadd": lambda: p + q, "add": lambda: p.add(q), "opsub": lambda: p - q, "subtract": lambda: p.subtract(q)}[t[1]]()
        return ints(*pcomps(r))
    if op == "period.has":
        p = mkperiod([int(a) for a in t[1:11]])
        return ints(p.has_time_component, p.has_date_component)
    raise ValueError("unknown op " + op)


# ---- reference for plus_years / plus_months read through the public calendar API (month counts, month lengths,
# ---- chronological month order, calendar conversion), independent of the arithmetic under test

_cum = {}
_order = {}


def cum_months(o):
    if o not in _cum:
        c, mny, mxy, _, _ = info(o)
        acc, out = 0, []
        for y in range(mny, mxy + 1):
            out.append(acc)
            acc += c.get_months_in_year(y)
        out.append(acc)
        _cum[o] = out
    return _cum[o]


def month_order(o, y):
    """month numbers of year y in chronological order (Hebrew scriptural: from Tishri)"""
    k = (o, y)
    if k not in _order:
        c = info(o)[0]
        n = c.get_months_in_year(y)
        if o != 5:
            _order[k] = list(range(1, n + 1))
        else:
            _order[k] = sorted(range(1, n + 1), key=lambda mm: _P().LocalDate(y, mm, 1, c)._days_since_epoch)
    return _order[k]


def ref_plus_months(o, y, m, d, n):
    """-> (Y, M, D) or None when the target month lies outside the calendar"""
    import bisect
    c, mny, mxy, _, _ = info(o)
    if n == 0:
        return (y, m, d)
    pos = month_order(o, y).index(m)
    dd = d
    if o == 18 and m == 18 and d > 19:
        # Ayyam-i-Ha: the day keeps its number within the intercalary days; forward the count starts from month 18,
        # backward from month 19 (rule stated in _BadiYearMonthDayCalculator._add_months)
        dd = d - 19
        if n < 0:
            pos = 18
    if o in (4, 5):
        cm = cum_months(o)
        tgt = cm[y - mny] + pos + n
        if tgt < 0 or tgt >= cm[-1]:
            return None
        i = bisect.bisect_right(cm, tgt) - 1
        yy, pp = mny + i, tgt - cm[i]
    else:
        nm = c.get_months_in_year(y)
        yy, pp = divmod(y * nm + pos + n, nm)
        if yy < mny or yy > mxy:
            return None
    mm = month_order(o, yy)[pp]
    return (yy, mm, min(dd, c.get_days_in_month(yy, mm)))


def ref_plus_years(o, y, m, d, n):
    c, mny, mxy, _, _ = info(o)
    if n == 0:
        return (y, m, d)
    yy = y + n
    if yy < mny or yy > mxy:
        return None
    if o not in (4, 5):
        return (yy, m, min(d, c.get_days_in_month(yy, m)))
    # Hebrew: Adar <-> Adar I/II and the day-30 roll-over documented in _set_year, evaluated in the scriptural numbering
    hs = info(5)[0]
    s = _P().LocalDate(y, m, d, c).with_calendar(hs)
    sm, sday = s.month, s.day
    if sm == 13 and not hs.is_leap_year(yy):
        sm = 12
    elif sm == 12 and hs.is_leap_year(yy) and not hs.is_leap_year(y):
        sm = 13
    if sday > hs.get_days_in_month(yy, sm):
        sday = 1
        sm = 1 if sm == 12 else sm + 1
    r = _P().LocalDate(yy, sm, sday, hs).with_calendar(c)
    return (r.year, r.month, r.day)


def ref_date_steps(o, ymd, c4, carry_ns=None, nod=0):
    """years, months, weeks, days folded first-to-last over the date; with carry_ns the total of the time units is added
    on the local time line of the date reached (day number x 24 h + nanosecond-of-day).
    -> ("ok", (Y, M, D), nod', days_touched) | ("raise", step, days_touched) | ("skip",)"""
    cal, mny, mxy, mnd, mxd = info(o)
    P = _P()
    if abs(c4[1]) >= DEC:
        return ("skip",)
    a = ref_plus_years(o, *ymd, c4[0])
    if a is None:
        return ("raise", "years", [])
    b = ref_plus_months(o, *a, c4[1])
    if b is None:
        return ("raise", "months", [])
    d2 = P.LocalDate(b[0], b[1], b[2], cal)._days_since_epoch
    d3 = d2 + 7 * c4[2]
    if not mnd <= d3 <= mxd:
        return ("raise", "weeks", [d2])
    total = (d3 + c4[3]) * NPD + nod + (carry_ns or 0)
    D, n = divmod(total, NPD)
    if not mnd <= D <= mxd:
        return ("raise", "days", [d2, d3])
    x = P.LocalDate._ctor(days_since_epoch=D, calendar=cal)
    return ("ok", (x.year, x.month, x.day), n, [d2, d3, D])


def _full_failure(f, o, days):
    """failures next to a region where the calendar itself is inconsistent are inherited from C01"""
    cal = info(o)[0]
    if f and touches_bad(cal, days):
        f["inherited_from"] = f["key"]
        f["key"] = "inherited-calendar-defect-" + cal.id.lower().replace(" ", "-")
    return f


def _check_against_ref(pfx, what, fn, ref, o, day0, get):
    """fn() on the real code against the reference outcome `ref`; get(result) -> comparable tuple"""
    kind, r = _run(fn)
    if ref[0] == "skip":
        return None
    if kind in ("other", "dec"):
        return _full_failure({"key": pfx + "-unexpected-exception", "what": f"{what}: raised {type(r).__name__}: {r}"}, o, [day0])
    if ref[0] == "raise":
        if kind == "ok":
            return _full_failure({"key": pfx + "-leaves-range-accepted",
                                  "what": f"{what}: returned {get(r)} although the {ref[1]} step leaves the calendar"}, o, [day0] + ref[2])
        return None
    exp = ref[1] + ((ref[2],) if ref[2] is not None else ())
    if kind != "ok":
        return _full_failure({"key": pfx + "-raises-in-range",
                              "what": f"{what}: raised {type(r).__name__} ({r}); expected {exp}"}, o, [day0] + ref[3])
    got = get(r)
    if got != exp:
        return _full_failure({"key": pfx + "-wrong-result", "what": f"{what}: returned {got}; years, months, weeks, days applied in "
                              f"turn and the time units added with carry give {exp}"}, o, [day0] + ref[3])
    if r.calendar != info(o)[0]:
        return {"key": pfx + "-calendar-changed", "what": f"{what}: result calendar {r.calendar.id}"}
    return None


def _signed(route, comps):
    if route in ROUTES_PLUS:
        return list(comps)
    if route in ROUTES_MINUS:
        return [-x for x in comps]
    return None


def oracle_full(t):
    P = _P()
    op = t[0]
    if op == "ldtf.period":
        route, o = t[1], int(t[2])
        y, m, d, nod = (int(x) for x in t[3:7])
        comps = [int(a) for a in t[7:17]]
        c = _signed(route, comps)
        cal = info(o)[0]
        if c is None or not 0 <= nod < NPD:
            return None
        try:
            date = P.LocalDate(y, m, d, cal)
        except ValueError:
            return None
        x = date + lt_of(nod)
        p = mkperiod(comps)
        tot = sum(a * u for a, u in zip(c[4:], PNANOS))
        ref = ref_date_steps(o, (y, m, d), c[:4], tot, nod)
        what = f"LocalDateTime({cal.id} {y}-{m}-{d} nod {nod}) {route} Period{tuple(comps)}"
        return _check_against_ref("ldt-period", what, lambda: apply_route(x, p, route), ref, o, date._days_since_epoch,
                                  lambda r: (r.year, r.month, r.day, r.nanosecond_of_day))
    if op == "ldtf.unit":
        o = int(t[2])
        y, m, d, nod, n = (int(x) for x in t[3:8])
        cal = info(o)[0]
        if t[1] not in DATE_UNITS or not 0 <= nod < NPD:
            return None
        try:
            date = P.LocalDate(y, m, d, cal)
        except ValueError:
            return None
        x = date + lt_of(nod)
        c4 = [0, 0, 0, 0]
        c4[DATE_UNITS.index(t[1])] = n
        ref = ref_date_steps(o, (y, m, d), c4, 0, nod)
        what = f"LocalDateTime({cal.id} {y}-{m}-{d} nod {nod}).plus_{t[1]}({n})"
        return _check_against_ref("ldt-plus-" + t[1], what, lambda: getattr(x, "plus_" + t[1])(n), ref, o, date._days_since_epoch,
                                  lambda r: (r.year, r.month, r.day, r.nanosecond_of_day))
    if op == "datef.period":
        route, o = t[1], int(t[2])
        y, m, d = (int(x) for x in t[3:6])
        comps = [int(a) for a in t[6:16]]
        c = _signed(route, comps)
        cal = info(o)[0]
        if c is None:
            return None
        try:
            date = P.LocalDate(y, m, d, cal)
        except ValueError:
            return None
        p = mkperiod(comps)
        what = f"LocalDate({cal.id} {y}-{m}-{d}) {route} Period{tuple(comps)}"
        if any(comps[4:]):
            kind, r = _run(lambda: apply_route(date, p, route))
            if kind == "ok":
                return {"key": "date-period-time-units-accepted", "what": f"{what}: returned {sd(r)}; a period with time units must be rejected"}
            if not isinstance(r, ValueError):
                return {"key": "date-period-unexpected-exception", "what": f"{what}: raised {type(r).__name__}: {r}, expected ValueError"}
            return None
        ref = ref_date_steps(o, (y, m, d), c[:4])
        if ref[0] == "ok":
            ref = ("ok", ref[1], None, ref[3])
        return _check_against_ref("date-period", what, lambda: apply_route(date, p, route), ref, o, date._days_since_epoch,
                                  lambda r: (r.year, r.month, r.day))
    if op == "timef.period":
        route, nod = t[1], int(t[2])
        comps = [int(a) for a in t[3:13]]
        c = _signed(route, comps)
        if c is None or not 0 <= nod < NPD:
            return None
        p = mkperiod(comps)
        x = lt_of(nod)
        what = f"LocalTime(nod={nod}) {route} Period{tuple(comps)}"
        if any(comps[:4]):
            kind, r = _run(lambda: apply_route(x, p, route))
            if kind == "ok":
                return {"key": "time-period-date-units-accepted", "what": f"{what}: returned nod {r.nanosecond_of_day}; a period with date units must be rejected"}
            if not isinstance(r, ValueError):
                return {"key": "time-period-unexpected-exception", "what": f"{what}: raised {type(r).__name__}: {r}, expected ValueError"}
            return None
        tot = sum(a * u for a, u in zip(c[4:], PNANOS))
        return _expect_time(lambda: apply_route(x, p, route), (nod + tot) % NPD, what)
    if op == "period.alg":
        a, b = [int(x) for x in t[2:12]], [int(x) for x in t[12:22]]
        p, q = mkperiod(a), mkperiod(b)
        add = t[1] in ("opadd", "add")
        r = {"opadd": lambda: p + q, "add": lambda: p.add(q), "opsub": lambda: p - q, "subtract": lambda: p.subtract(q)}[t[1]]()
        exp = tuple(x + y if add else x - y for x, y in zip(a, b))
        if pcomps(r) != exp:
            return {"key": "period-algebra", "what": f"Period{tuple(a)} {t[1]} Period{tuple(b)} = {pcomps(r)}, component-wise result {exp}"}
        back = (r - q) if add else (r + q)
        if back != p or pcomps(back) != tuple(a):
            return {"key": "period-algebra", "what": f"Period{tuple(a)} {t[1]} Period{tuple(b)} is not undone by the inverse operation: {pcomps(back)}"}
        if pcomps(p) != tuple(a) or pcomps(q) != tuple(b):
            return {"key": "period-algebra-mutates", "what": f"Period{tuple(a)} {t[1]} Period{tuple(b)} changed an operand"}
        return None
    if op == "period.has":
        a = [int(x) for x in t[1:11]]
        p = mkperiod(a)
        got = (p.has_time_component, p.has_date_component)
        exp = (any(a[4:]), any(a[:4]))
        if got != exp:
            return {"key": "period-has-component", "what": f"Period{tuple(a)}: (has_time_component, has_date_component) = {got}, expected {exp}"}
        return None
    if op == "ldtf.sumseq":
        return o_sumseq(t)
    return None


def _ref_ldt(o, ymd, nod, c):
    tot = sum(a * u for a, u in zip(c[4:], PNANOS))
    return ref_date_steps(o, ymd, c[:4], tot, nod)


def o_sumseq(t):
    """ldtf.sumseq o y m d nod <p> <q>: (x + p) + q, x + (p + q) and (x + q) + p are each checked against the reference of
    their own sequence of steps; they are NOT required to agree with each other, except that two periods of time units
    only commute and add up whenever the intermediate values exist.  Returns the failure, or None."""
    P = _P()
    o = int(t[1])
    y, m, d, nod = (int(x) for x in t[2:6])
    a, b = [int(x) for x in t[6:16]], [int(x) for x in t[16:26]]
    cal = info(o)[0]
    x = P.LocalDate(y, m, d, cal) + lt_of(nod)
    p, q = mkperiod(a), mkperiod(b)
    get = lambda r: (r.year, r.month, r.day, r.nanosecond_of_day)  # noqa: E731

    def seq(first, second, ca, cb):
        r1 = _ref_ldt(o, (y, m, d), nod, ca)
        k1, v1 = _run(lambda: x + first)
        f = _check_against_ref("ldt-period", f"LocalDateTime({cal.id} {y}-{m}-{d} nod {nod}) + Period{tuple(ca)}", lambda: x + first, r1, o,
                               x.date._days_since_epoch, get)
        if f or k1 != "ok" or r1[0] != "ok":
            return f, None
        r2 = _ref_ldt(o, r1[1], r1[2], cb)
        f = _check_against_ref("ldt-period", f"LocalDateTime({cal.id} {sdt(v1)}) + Period{tuple(cb)}", lambda: v1 + second, r2, o,
                               v1.date._days_since_epoch, get)
        k2, v2 = _run(lambda: v1 + second)
        return f, (get(v2) if k2 == "ok" else None)
    f, pq = seq(p, q, a, b)
    if f:
        return f
    f, qp = seq(q, p, b, a)
    if f:
        return f
    s = [u + v for u, v in zip(a, b)]
    rs = _ref_ldt(o, (y, m, d), nod, s)
    f = _check_against_ref("ldt-period", f"LocalDateTime({cal.id} {y}-{m}-{d} nod {nod}) + (Period{tuple(a)} + Period{tuple(b)})",
                           lambda: x + (p + q), rs, o, x.date._days_since_epoch, get)
    if f:
        return f
    ks, vs = _run(lambda: x + (p + q))
    if not any(a[:4]) and not any(b[:4]):
        if pq is not None and qp is not None and pq != qp:
            return {"key": "time-periods-do-not-commute", "what": f"{cal.id} {y}-{m}-{d} nod {nod}: + Period{tuple(a)} + Period{tuple(b)} = {pq}, in the other order {qp}"}
        if pq is not None and (ks != "ok" or get(vs) != pq):
            return {"key": "time-periods-do-not-add-up", "what": f"{cal.id} {y}-{m}-{d} nod {nod}: + Period{tuple(a)} + Period{tuple(b)} = {pq}, + the sum of the periods = {get(vs) if ks == 'ok' else 'error'}"}
    SUMSEQ_STATS["cases"] += 1
    if pq is not None and ks == "ok" and get(vs) != pq:
        SUMSEQ_STATS["sum_differs"] += 1
    if pq is not None and qp is not None and pq != qp:
        SUMSEQ_STATS["order_differs"] += 1
    return None


SUMSEQ_STATS = {"cases": 0, "sum_differs": 0, "order_differs": 0}

# concrete witnesses (ISO): adding periods one after the other is not adding their sum, and a date period does not
# commute with a time period, because of the month-end clamping.  (op, value of the sequence, value of the other form)
WITNESSES = [
    # 2023-01-31 + 1 month + 1 month = 03-28, + 2 months = 03-31
    ("ldtf.sumseq 0 2023 1 31 0 0 1 0 0 0 0 0 0 0 0 0 1 0 0 0 0 0 0 0 0", "sum", (2023, 3, 28, 0), (2023, 3, 31, 0)),
    # 2023-01-30T23:00 + 1 month + 2 hours = 03-01T01:00, + 2 hours + 1 month = 02-28T01:00
    ("ldtf.sumseq 0 2023 1 30 82800000000000 0 1 0 0 0 0 0 0 0 0 0 0 0 0 2 0 0 0 0 0", "order", (2023, 3, 1, 3600000000000), (2023, 2, 28, 3600000000000)),
]


def witness_case(w):
    op, kind, first, other = w
    t = op.split(" ")
    f = o_sumseq(t)
    if f:
        return f
    P = _P()
    o = int(t[1])
    y, m, d, nod = (int(v) for v in t[2:6])
    a, b = [int(v) for v in t[6:16]], [int(v) for v in t[16:26]]
    x = P.LocalDate(y, m, d, info(o)[0]) + lt_of(nod)
    p, q = mkperiod(a), mkperiod(b)
    get = lambda r: (r.year, r.month, r.day, r.nanosecond_of_day)  # noqa: E731
    v1 = get((x + p) + q)
    v2 = get(x + (p + q)) if kind == "sum" else get((x + q) + p)
    if (v1, v2) != (first, other):
        return {"key": "period-sequence-witness", "what": f"{op}: the sequence gives {v1} (documented {first}), the other form {v2} (documented {other})"}
    return None


def neighbours(t):
    if t[0] in FULL_OPS:
        return neighbours_full(t)
    out = []
    for i, x in enumerate(t):
        if i and isint(x):
            for dlt in (-1, 1):
                u = list(t)
                u[i] = str(int(x) + dlt)
                out.append(" ".join(u))
    return out


# ---------------------------------------------------------------------------------------------
# generators
# ---------------------------------------------------------------------------------------------

def boundary_times():
    s = {0, 1, 2, NPD - 1, NPD - 2, NPD // 2, NPD // 2 - 1, NPS - 1, NPS, NPM - 1, NPM, 99, 100, 101, 999, 1000, 10**6 - 1, 10**6}
    for h in range(24):
        for dlt in (-1, 0, 1):
            v = h * NPH + dlt
            if 0 <= v < NPD:
                s.add(v)
    for h in (0, 11, 12, 23):
        for extra in (NPM - 1, NPM, 59 * NPM + 59 * NPS + NPS - 1, 30 * NPM + 30 * NPS + 123_456_789):
            s.add(h * NPH + extra)
    return sorted(s)


def gen_time(rng, bt):
    c = rng.random()
    if c < 0.45:
        return rng.choice(bt)
    if c < 0.6:
        return min(NPD - 1, max(0, rng.randrange(24 * 60) * NPM + rng.choice([-1, 0, 1, NPS - 1, NPS, 59 * NPS + 999_999_999])))
    if c < 0.7:
        sh = rng.choice([11, 13])
        return min(NPD - 1, max(0, (rng.randrange(NPD >> sh) << sh) + rng.choice([-1, 0, 1])))
    return rng.randrange(NPD)


_SA = {}


def special_amounts(u, rng=None):
    if rng is None and u in _SA:
        return _SA[u]
    r = _special_amounts(u, rng)
    if rng is None:
        _SA[u] = r
    return r


def _special_amounts(u, rng=None):
    upd = NPD // UNIT_NANOS[u]
    ks = [2, 3, 7, 365, 10**6, 2**31, 10**12]
    if rng is not None:
        ks += [rng.randrange(2, 10**5), rng.randrange(10**5, 10**15)]
    a = [0, 1, upd - 1, upd, upd + 1, 2**63 - 1, 2**63, 2**63 + 1, 2**64, 10**27 - 1, 10**27, 10**27 + 1, 10**30, 10**30 + 1,
         10**28, 10**29 - 1, 3 * 10**28 + 7, 2**31 - 1, 2**31, 2**32]
    for k in ks:
        a += [k * upd - 1, k * upd, k * upd + 1]
    a += [10**33, 10**40, 10**40 + 1, 2**128 - 1]
    for k in (10**13, 10**14, 10**15, 10**16, 10**20, 123456789 * 10**12, 10**27, 10**28, 10**33, 10**40 + 7):  # quotients of 28 and more digits
        a += [k * upd - 1, k * upd, k * upd + 1]
    return sorted(set(a) | {-x for x in a})


def gen_amount(rng, u, n=None):
    """amount for unit u; with n (nanosecond-of-day) given, sometimes chosen to land exactly on a day boundary"""
    un = UNIT_NANOS[u]
    upd = NPD // un
    c = rng.random()
    if c < 0.45:
        return rng.choice(special_amounts(u))
    if n is not None and c < 0.65:
        # smallest amounts whose sum with n reaches / just misses a multiple of a day
        days = rng.choice([0, 1, -1, 2, -2, rng.randint(-10**4, 10**4), rng.randint(-10**12, 10**12)])
        k = (days * NPD - n) // un
        return k + rng.choice([-1, 0, 1])
    if c < 0.8:
        return rng.randint(-3 * upd, 3 * upd)
    if c < 0.9:
        return rng.randint(-10**20, 10**20)
    return rng.randint(-10**6, 10**6) * upd + rng.choice([-1, 0, 1])


def gen_tod_ops(ctx, n):
    rng = ctx.rng
    bt = boundary_times()
    ops = []
    # factories: every field at and one beyond its limits
    fld = {"h": [-1, 0, 1, 11, 12, 23, 24, 2**31, -2**63], "m": [-1, 0, 1, 59, 60], "s": [-1, 0, 30, 59, 60],
           "ms": [-1, 0, 999, 1000], "t4": [-1, 0, 9999, 10000], "t7": [-1, 0, 1, 10**7 - 1, 10**7], "ns": [-1, 0, 1, NPS - 1, NPS, 2**63]}
    for h in fld["h"]:
        for m in fld["m"]:
            for s in fld["s"]:
                ops.append(f"tod.new {h} {m} {s} {rng.choice(fld['ms'])}")
                ops.append(f"tod.hmsmt {h} {m} {s} {rng.choice(fld['ms'])} {rng.choice(fld['t4'])}")
                ops.append(f"tod.hmst {h} {m} {s} {rng.choice(fld['t7'])}")
                ops.append(f"tod.hmsn {h} {m} {s} {rng.choice(fld['ns'])}")
    for ms in fld["ms"]:
        ops.append(f"tod.new 23 59 59 {ms}")
        for tk in fld["t4"]:
            ops.append(f"tod.hmsmt 23 59 59 {ms} {tk}")
    for tk in fld["t7"]:
        ops.append(f"tod.hmst 23 59 59 {tk}")
    for ns in fld["ns"]:
        ops.append(f"tod.hmsn 23 59 59 {ns}")
    for _ in range(n // 20):
        h, m, s = rng.randint(-1, 24), rng.randint(-1, 60), rng.randint(-1, 60)
        if rng.random() < 0.8:
            h, m, s = h % 24, m % 60, s % 60
        ops.append(f"tod.new {h} {m} {s} {rng.randint(-1, 1000)}")
        ops.append(f"tod.hmsmt {h} {m} {s} {rng.randint(0, 999)} {rng.randint(-1, 10000)}")
        ops.append(f"tod.hmst {h} {m} {s} {rng.randint(-1, 10**7)}")
        ops.append(f"tod.hmsn {h} {m} {s} {rng.randint(-1, NPS)}")
    for u, lim in SINCE.items():
        for v in [-1, 0, 1, lim - 1, lim, lim + 1, lim // 2, 2**63, -2**63, 2**64 // UNIT_NANOS[u], 2**63 // UNIT_NANOS[u] + 1]:
            ops.append(f"tod.since {u} {v}")
        for _ in range(n // 100):
            ops.append(f"tod.since {u} {rng.randint(-2, lim + 1)}")
    # accessors: every minute boundary of the day and its two neighbours, the shift granules, random
    for m in range(1441):
        for dlt in (-1, 0, 1):
            v = m * NPM + dlt
            if 0 <= v < NPD:
                ops.append(f"tod.acc {v}")
    for v in bt:
        ops.append(f"tod.acc {v}")
    for _ in range(n // 10):
        ops.append(f"tod.acc {gen_time(rng, bt)}")
    for _ in range(n // 20):
        a = gen_time(rng, bt)
        b = rng.choice([a, a, min(NPD - 1, a + 1), max(0, a - 1), gen_time(rng, bt)])
        ops.append(f"tod.cmp {a} {b}")
    # additions: boundary times x every special amount, per unit
    core_times = [0, 1, NPD - 1, NPH, NPH - 1, 12 * NPH, 23 * NPH + 59 * NPM + 59 * NPS, NPM, NPS - 1, 43_200_123_456_789]
    for u in UNIT_NANOS:
        sa = special_amounts(u, rng)
        for tm in core_times:
            for k in sa:
                ops.append(f"tod.plus {u} {tm} {k}")
        for k in sa:
            ops.append(f"tod.adddays {u} {rng.choice(core_times)} {k}")
            ops.append(f"tod.adddays {u} {gen_time(rng, bt)} {k}")
    for _ in range(n // 3):
        u = rng.choice(list(UNIT_NANOS))
        tm = gen_time(rng, bt)
        k = gen_amount(rng, u, tm)
        ops.append(f"tod.plus {u} {tm} {k}")
        if rng.random() < 0.3:
            ops.append(f"tod.adddays {u} {tm} {k}")
    for _ in range(n // 12):
        tm = gen_time(rng, bt)
        v = [gen_amount(rng, f) if rng.random() < 0.6 else 0 for f in PFIELDS]
        if rng.random() < 0.3:  # the units cancel up to +-1 ns
            tot = sum(a * UNIT_NANOS[f] for a, f in zip(v[:5], PFIELDS))
            v[5] = -tot + rng.choice([-1, 0, 1, -tm, -tm - 1, NPD - tm, NPD - tm - 1])
        ops.append(f"tod.plusperiod {rng.choice([1, -1])} {tm} " + " ".join(map(str, v)))
    return ops


def cal_table():
    P = _P()
    out = []
    for cid in P.CalendarSystem.ids:
        c = P.CalendarSystem.for_id(cid)
        out.append((cal_tok(cid), c, c._min_days, c._max_days))
    return out


def gen_day(rng, lo, hi):
    c = rng.random()
    if c < 0.3:
        return rng.choice([lo, lo + 1, lo + 2, hi, hi - 1, hi - 2])
    if c < 0.45:
        return rng.choice([lo + rng.randint(0, 310), hi - rng.randint(0, 310)])
    if c < 0.6:
        return max(lo, min(hi, rng.choice([0, -1, 1, 365, -365, 19782, -719162])))
    return rng.randint(lo, hi)


def gen_ldt_amount(rng, u, lo, hi, d, n):
    """amount of unit u for a date-time at (d, n): lands near range ends / day boundaries, or a special amount"""
    un = UNIT_NANOS[u]
    upd = NPD // un
    c = rng.random()
    if c < 0.3:
        # target day near the ends of the calendar or near the start day (small/large path of plus_days)
        tgt = rng.choice([lo, hi, lo - 1, hi + 1, lo + 1, hi - 1, d, d + 1, d - 1, d + 299, d + 300, d - 299, d - 300, d + 301, d - 301,
                          rng.randint(lo, hi)])
        edge = rng.choice([0, NPD - 1, rng.randrange(NPD)])  # nanosecond of the target day
        k = ((tgt - d) * NPD + edge - n) // un
        return k + rng.choice([-1, 0, 0, 1])
    if c < 0.55:
        return rng.choice(special_amounts(u))
    if c < 0.75:
        return rng.randint(-400, 400) * upd + rng.choice([-1, 0, 1, rng.randint(-upd, upd)])
    if c < 0.9:
        return gen_amount(rng, u, n)
    return rng.randint(-(hi - lo) * upd, (hi - lo) * upd)


def gen_ldt_ops(ctx, n):
    rng = ctx.rng
    bt = boundary_times()
    cals = cal_table()
    major = [c for c in cals if bytes.fromhex(c[0][1:]).decode() in
             ("ISO", "Gregorian", "Julian", "Hebrew Civil", "Hijri Civil-Base15", "Persian Simple", "Coptic", "Um Al Qura", "Badi")]
    ops = []
    # systematic: both range ends of every calendar, every unit, one unit / one day across the end
    for tok, c, lo, hi in cals:
        for u in LDT_UNITS:
            un = UNIT_NANOS[u]
            upd = NPD // un
            for d, tm, ks in [(hi, NPD - un, [0, 1, -1, upd, -upd, upd + 1]), (hi, 0, [upd - 1, upd, -upd, 299 * upd, -299 * upd, -300 * upd, 300 * upd]),
                              (lo, 0, [0, -1, 1, -upd, upd, -upd - 1]), (lo, NPD - 1, [-upd + 1, -upd, upd]),
                              (hi - 299, 5, [299 * upd, 300 * upd - 1, 300 * upd]), (lo + 300, NPD - 1, [-300 * upd, -300 * upd - 1, -301 * upd]),
                              (lo, 0, [(hi - lo) * upd, (hi - lo + 1) * upd - 1, (hi - lo + 1) * upd]),
                              (hi, NPD - 1, [-(hi - lo) * upd, -(hi - lo + 1) * upd + 1, -(hi - lo + 1) * upd])]:
                for k in ks:
                    ops.append(f"ldt.plus {tok} {u} {lo} {hi} {d} {tm} {k}")
    for i in range(n):
        tok, c, lo, hi = rng.choice(major) if rng.random() < 0.6 else rng.choice(cals)
        u = rng.choice(LDT_UNITS)
        d = gen_day(rng, lo, hi)
        tm = gen_time(rng, bt)
        k = gen_ldt_amount(rng, u, lo, hi, d, tm)
        ops.append(f"ldt.plus {tok} {u} {lo} {hi} {d} {tm} {k}")
    return ops


def gen_period_ops(ctx, n):
    rng = ctx.rng
    bt = boundary_times()
    cals = cal_table()
    ops = []
    for i in range(n):
        tok, c, lo, hi = rng.choice(cals)
        sg = rng.choice([1, 1, -1])
        d = gen_day(rng, lo, hi)
        tm = gen_time(rng, bt)
        y = mo = 0
        d1 = d
        if rng.random() < 0.4:
            y, mo = rng.choice([0, 1, -1, 4, rng.randint(-50, 50)]), rng.choice([0, 1, -1, 12, 13, rng.randint(-40, 40)])
            try:
                d1 = date_of(c, d).plus_years(sg * y).plus_months(sg * mo)._days_since_epoch
            except Exception:  # noqa: BLE001
                y = mo = 0
                d1 = d
        w = rng.choice([0, 0, 1, -1, 42, 43, -43, rng.randint(-100, 100)])
        dd = rng.choice([0, 0, 1, -1, 299, 300, -300, rng.randint(-400, 400)])
        tv = [0] * 6
        mode = rng.random()
        for j, f in enumerate(PFIELDS):
            if rng.random() < 0.55:
                tv[j] = gen_ldt_amount(rng, f, lo, hi, d1, tm) if rng.random() < 0.3 else gen_amount(rng, f, tm)
        if mode < 0.35:
            # make the time units and the days cancel so that the exact result stays near the start (in range),
            # including amounts far beyond 64 bits
            tot = sum(a * UNIT_NANOS[f] for a, f in zip(tv, PFIELDS))
            dd = -(tot // NPD) + rng.choice([0, 0, 1, -1, rng.randint(-5, 5)])
        elif mode < 0.5:
            j = rng.randrange(6)
            tot = sum(a * UNIT_NANOS[f] for a, f in zip(tv, PFIELDS)) - tv[j] * UNIT_NANOS[PFIELDS[j]]
            tv[j] = -tot // UNIT_NANOS[PFIELDS[j]] + rng.choice([0, 1, -1, rng.randint(-10**6, 10**6)])
        if y or mo:
            # years / months: the full-period op (calendar ordinal and date fields only; nothing computed by the real code)
            x = date_of(c, d)
            ops.append(f"ldtf.period {'plus' if sg == 1 else 'minus'} {int(c._ordinal)} {x.year} {x.month} {x.day} {tm} {y} {mo} {w} {dd} "
                       + " ".join(map(str, tv)))
        else:
            ops.append(f"ldt.plusperiod {tok} {sg} {lo} {hi} {d} {tm} 0 0 {d} {w} {dd} " + " ".join(map(str, tv)))
    # between: single time units
    for i in range(n // 2):
        tok, c, lo, hi = rng.choice(cals)
        u = rng.choice(LDT_UNITS)
        d1 = gen_day(rng, lo, hi)
        d2 = max(lo, min(hi, rng.choice([d1, d1, d1 + 1, d1 - 1, d1 + rng.randint(-400, 400), gen_day(rng, lo, hi)])))
        n1 = gen_time(rng, bt)
        n2 = rng.choice([n1, max(0, n1 - 1), min(NPD - 1, n1 + 1), gen_time(rng, bt)])
        ops.append(f"ldt.between {tok} {u} {d1} {n1} {d2} {n2}")
    return ops


def gen_huge_ops(ctx):
    """amounts k*upd+delta far beyond 64 bits, compensated by -k days so that the exact result stays next to the start:
    the 28-digit Decimal quotient inside _add_local_time_with_extra_days is where value-dependent errors would sit"""
    cals = {tok: (lo, hi) for tok, c, lo, hi in cal_table()}
    ops = []
    for cid, d in (("ISO", 18262), ("Julian", 0), ("Hebrew Civil", -5), ("Hijri Civil-Base15", 12345), ("Persian Simple", 2932610), ("Coptic", -615558)):
        tok = cal_tok(cid)
        lo, hi = cals[tok]
        for j, f in reversed(list(enumerate(PFIELDS))):
            upd = NPD // UNIT_NANOS[f]
            for e in list(range(12, 31)) + [33, 36, 40]:
                k = 10**e
                for delta in (-1, 0, 1):
                    for sg in (1, -1):
                        for kk in (k, -k):
                            tv = [0] * 6
                            tv[j] = kk * upd + delta
                            ops.append(f"ldt.plusperiod {tok} {sg} {lo} {hi} {d} 0 0 0 {d} 0 {-kk} " + " ".join(map(str, tv)))
                if cid == "ISO":
                    ops.append(f"ldt.plus {tok} {f} {lo} {hi} {d} 0 {k * upd - 1}")
                    ops.append(f"tod.plus {f} 0 {k * upd - 1}")
    return ops



# ---- generators for the full-period ops

SPECIAL_MONTHS = {0: [1, 2, 3, 12], 1: [1, 2, 3, 12], 2: [1, 2, 3, 12], 3: [1, 12, 13], 4: [1, 2, 3, 5, 6, 7, 8, 12, 13],
                  5: [1, 6, 7, 8, 9, 11, 12, 13], 6: [1, 6, 7, 11, 12], 7: [1, 6, 7, 11, 12], 8: [1, 6, 7, 11, 12], 17: list(range(1, 13)),
                  18: [1, 17, 18, 18, 18, 19]}
CYCLE = {0: 400, 1: 400, 2: 4, 3: 4, 4: 19, 5: 19, 6: 33, 7: 33, 8: 33, 17: 1, 18: 4}


def gen_year(rng, o):
    c, mny, mxy, _, _ = info(o)
    r = rng.random()
    if r < 0.12:
        return mny + rng.randint(0, 2)
    if r < 0.24:
        return mxy - rng.randint(0, 2)
    if r < 0.45:
        cyc = CYCLE.get(o, 30)
        y = rng.randint(mny // cyc, mxy // cyc) * cyc + rng.choice([-1, 0, 1, 2])
        return min(max(y, mny), mxy)
    if r < 0.55 and o <= 1:
        return rng.choice([1899, 1900, 1901, 2000, 2023, 2024, 2099, 2100, 2101, -1, 0, 1, 4])
    if r < 0.55 and o == 18:
        return rng.choice([171, 172, 173, 249, 250, 253, 645, 649, 653, 998, 999, 1, 2])
    if r < 0.55 and o in (4, 5):
        return rng.choice([5784, 5785, 5783, 5782, 5790, 5776])
    return rng.randint(mny, mxy)


def gen_date(rng, o):
    """month ends, leap days, Adar / Adar II, Ayyam-i-Ha, first and last years"""
    c = info(o)[0]
    y = gen_year(rng, o)
    nm = c.get_months_in_year(y)
    sp = [m for m in SPECIAL_MONTHS.get(o, [1, 11, 12]) if m <= nm]
    m = rng.choice(sp) if rng.random() < 0.6 else rng.randint(1, nm)
    dim = c.get_days_in_month(y, m)
    d = rng.choice([1, dim, dim, dim, dim - 1, dim - 1, min(29, dim), min(30, dim), min(19, dim), min(20, dim), rng.randint(1, dim)])
    if o == 18 and m == 18 and rng.random() < 0.6:
        d = rng.randint(20, dim)
    return (y, m, max(d, 1))


def gen_nod_edge(rng, bt):
    c = rng.random()
    if c < 0.5:
        return rng.choice([0, 1, NPD - 1, NPD - 2, 23 * NPH, 23 * NPH + 59 * NPM, NPH, NPD - NPH, 12 * NPH, NPD - 100, 99])
    return gen_time(rng, bt)


def gen_time_comps(rng, nod, want_carry):
    """six time components; with want_carry the total crosses midnight by a small number of days"""
    tv = [0] * 6
    c = rng.random()
    if not want_carry and c < 0.35:
        return tv
    if c < 0.55:
        # one unit, just across (or just short of) midnight in the chosen direction
        j = rng.randrange(6)
        days = rng.choice([1, -1, 0, 1, -1, 2, -2, 3])
        edge = rng.choice([0, 0, NPD - 1, rng.randrange(NPD)])
        tv[j] = (days * NPD + edge - nod) // PNANOS[j] + rng.choice([0, 0, 1, -1])
        return tv
    if c < 0.8:
        for j in range(6):
            if rng.random() < 0.5:
                tv[j] = rng.choice([1, -1, 2, -2, 23, 24, 25, -24, 59, 60, -60, 999, 1000, rng.randint(-100, 100)])
        return tv
    # large amounts that cancel up to a few days (far beyond 64 bits now and then)
    for j in range(6):
        if rng.random() < 0.5:
            tv[j] = rng.choice([1, -1]) * rng.choice([10 ** 6, 10 ** 12, 2 ** 63, 10 ** 20, 10 ** 30, rng.randint(1, 10 ** 15)])
    j = rng.randrange(6)
    tot = sum(a * u for a, u in zip(tv, PNANOS)) - tv[j] * PNANOS[j]
    tv[j] = (-tot + rng.choice([0, 1, -1, 2, -3]) * NPD + rng.randrange(-NPD, NPD)) // PNANOS[j]
    return tv


def gen_date_comps(rng, o, a):
    c, mny, mxy, mnd, mxd = info(o)
    nm = c.get_months_in_year(a[0])
    r = rng.random()
    yy = rng.choice([0, 0, 0, 1, -1, 4, -4, 19, rng.randint(-30, 30)])
    mm = rng.choice([0, 1, -1, 1, -1, 2, -2, nm, -nm, nm + 1, 6, -6, 7, rng.randint(-40, 40)])
    ww = rng.choice([0, 0, 0, 1, -1, 4, -5, 42, 43, -43, rng.randint(-100, 100)])
    dd = rng.choice([0, 0, 0, 1, -1, 2, 28, 29, 30, 31, -30, 299, 300, -300, rng.randint(-400, 400)])
    if r < 0.12:
        # towards the ends of the calendar, by years or by months
        if rng.random() < 0.5:
            yy = rng.choice([mxy - a[0], mxy - a[0] + 1, mny - a[0], mny - a[0] - 1, mxy - a[0] - 1, mny - a[0] + 1])
            mm = rng.choice([0, 0, 1, -1, nm, -nm])
        else:
            yy = rng.choice([0, 0, 1, -1])
            mm = rng.choice([(mxy - a[0]) * nm, (mxy - a[0] + 1) * nm, (mny - a[0]) * nm, (mny - a[0] - 1) * nm,
                             (mxy - a[0] + 1) * nm - a[1], (mny - a[0]) * nm - a[1] + 1, (mny - a[0]) * nm - a[1]])
    elif r < 0.2:
        d0 = _P().LocalDate(a[0], a[1], a[2], c)._days_since_epoch
        yy = mm = 0
        if rng.random() < 0.5:
            ww = rng.choice([(mxd - d0) // 7, (mxd - d0) // 7 + 1, -((d0 - mnd) // 7), -((d0 - mnd) // 7) - 1])
            dd = rng.choice([0, 1, -1, 6, -6, 7])
        else:
            ww = rng.choice([0, 0, 1, -1])
            dd = rng.choice([mxd - d0, mxd - d0 + 1, mnd - d0, mnd - d0 - 1, mxd - d0 - 1, mnd - d0 + 1]) - 7 * ww
    elif r < 0.25:
        mm = rng.choice([235, -235, 234, 236, 470, 4800, -4800, 360, 396, rng.randint(-3000, 3000), rng.randint(-200000, 200000)])
    elif r < 0.27:
        mm = rng.choice([10 ** 27, -10 ** 27, 10 ** 30, 10 ** 27 - 1, 10 ** 12])
    elif r < 0.29:
        yy = rng.choice([10 ** 6, -10 ** 6, 10 ** 30])
    elif r < 0.31:
        dd = rng.choice([10 ** 9, -10 ** 9, 10 ** 30, -10 ** 30, 10 ** 6])
    return [yy, mm, ww, dd]


def gen_full_ops(ctx, n):
    rng = ctx.rng
    bt = boundary_times()
    ords = ordinals()
    major = [0, 0, 1, 2, 3, 4, 4, 5, 5, 6, 13, 17, 18, 18]
    ops = []
    # the ordering examples of the property text and of the seeded change C10-2, on every route
    fixed = [("0 2023 1 30 82800000000000", "0 1 0 0 2 0 0 0 0 0"), ("0 2023 1 31 82800000000000", "0 1 0 0 2 0 0 0 0 0"),
             ("0 2024 1 30 82800000000000", "0 1 0 0 2 0 0 0 0 0"), ("0 2023 3 31 0", "0 -1 0 0 0 0 0 0 0 -1"),
             ("0 2024 2 29 86399999999999", "1 0 0 0 0 0 0 0 0 1"), ("0 2024 2 29 0", "-1 0 0 0 0 0 0 0 0 -1"),
             ("4 5784 6 30 82800000000000", "1 0 0 0 1 0 0 0 0 0"), ("5 5784 12 30 82800000000000", "1 0 0 0 1 0 0 0 0 0"),
             ("18 180 18 24 86399999999999", "0 1 0 0 0 0 0 0 0 1"), ("18 180 18 24 0", "0 -1 0 0 0 0 0 0 0 -1"),
             ("18 180 18 23 86399999999999", "1 0 0 0 0 0 0 0 0 1"), ("0 9999 12 31 86399999999999", "0 0 0 0 0 0 0 0 0 1"),
             ("0 -9998 1 1 0", "0 0 0 0 0 0 0 0 0 -1"), ("0 9999 11 30 86399999999999", "0 1 0 0 0 0 0 0 0 1"),
             ("0 9999 12 1 0", "0 1 0 -1 0 0 0 0 0 0"), ("0 9998 12 31 43200000000000", "1 0 0 0 12 0 0 0 0 0"),
             ("17 1500 12 29 86399999999999", "0 0 0 0 0 0 0 0 1 0"), ("3 1739 13 6 82800000000000", "1 0 0 0 1 0 0 0 0 0")]
    for pre, per in fixed:
        for route in ROUTES_PLUS + ROUTES_MINUS:
            ops.append(f"ldtf.period {route} {pre} {per}")
    for i in range(n):
        o = rng.choice(major) if rng.random() < 0.6 else rng.choice(ords)
        a = gen_date(rng, o)
        nod = gen_nod_edge(rng, bt)
        c4 = gen_date_comps(rng, o, a)
        mode = rng.random()
        if mode < 0.45:
            # month / year clamping together with a carry across midnight: where an ordering mistake shows
            c = info(o)[0]
            dim = c.get_days_in_month(a[0], a[1])
            a = (a[0], a[1], rng.choice([dim, dim, max(dim - 1, 1), max(dim - 2, 1), a[2]]))
            if rng.random() < 0.7:
                c4[0], c4[1] = rng.choice([(0, 1), (0, -1), (0, 1), (0, -1), (1, 0), (-1, 0), (4, 0), (0, 2), (0, -2), (1, 1), (-1, -1),
                                           (0, c.get_months_in_year(a[0])), (0, 6), (0, 7), (0, -6)])
            if rng.random() < 0.7:
                c4[2] = c4[3] = 0
            tv = gen_time_comps(rng, nod, True)
        else:
            tv = gen_time_comps(rng, nod, False)
        route = rng.choice(ROUTES_PLUS + ROUTES_MINUS)
        if route in ROUTES_MINUS and rng.random() < 0.8:
            c4, tv = [-x for x in c4], [-x for x in tv]   # generated for the plus direction
        ops.append(f"ldtf.period {route} {o} {a[0]} {a[1]} {a[2]} {nod} " + " ".join(map(str, c4 + tv)))
    # LocalDateTime.plus_years / plus_months / plus_weeks / plus_days: one step, time of day kept
    for i in range(n // 4):
        o = rng.choice(major) if rng.random() < 0.6 else rng.choice(ords)
        a = gen_date(rng, o)
        nod = gen_nod_edge(rng, bt)
        c4 = gen_date_comps(rng, o, a)
        j = rng.randrange(4)
        if c4[j] == 0:
            c4[j] = rng.choice([1, -1, 0, 12, -13])
        ops.append(f"ldtf.unit {DATE_UNITS[j]} {o} {a[0]} {a[1]} {a[2]} {nod} {c4[j]}")
    # invalid receivers (the constructor's ValueError), a few
    ops += ["ldtf.period plus 0 2023 2 30 0 0 0 0 0 0 0 0 0 0 1", "ldtf.period plus 4 5783 13 1 0 0 0 0 1 0 0 0 0 0 0",
            "ldtf.period plus 0 2023 1 1 86400000000000 0 0 0 0 0 0 0 0 0 1", "ldtf.period minus 18 180 18 25 0 0 0 0 1 0 0 0 0 0 0"]
    for i in range(n // 4):
        o = rng.choice(major) if rng.random() < 0.6 else rng.choice(ords)
        a = gen_date(rng, o)
        c4 = gen_date_comps(rng, o, a)
        tv = [0] * 6
        if rng.random() < 0.2:
            tv[rng.randrange(6)] = rng.choice([1, -1, 24, 10 ** 30, rng.randint(-1000, 1000)])
        route = rng.choice(ROUTES_PLUS + ROUTES_MINUS)
        ops.append(f"datef.period {route} {o} {a[0]} {a[1]} {a[2]} " + " ".join(map(str, c4 + tv)))
    for i in range(n // 4):
        nod = gen_nod_edge(rng, bt)
        tv = gen_time_comps(rng, nod, rng.random() < 0.5)
        c4 = [0] * 4
        if rng.random() < 0.2:
            c4[rng.randrange(4)] = rng.choice([1, -1, 7, 10 ** 30, rng.randint(-1000, 1000)])
        route = rng.choice(ROUTES_PLUS + ROUTES_MINUS)
        ops.append(f"timef.period {route} {nod} " + " ".join(map(str, c4 + tv)))

    def comp():
        r = rng.random()
        if r < 0.3:
            return 0
        if r < 0.7:
            return rng.randint(-100, 100)
        if r < 0.9:
            return rng.randint(-10 ** 9, 10 ** 9)
        return rng.choice([1, -1]) * rng.choice([2 ** 31, 2 ** 63, 2 ** 64, 10 ** 30])
    for i in range(n // 8):
        a, b = [comp() for _ in range(10)], [comp() for _ in range(10)]
        if rng.random() < 0.2:
            b = [-x for x in a]
        ops.append(f"period.alg {rng.choice(['opadd', 'add', 'opsub', 'subtract'])} " + " ".join(map(str, a + b)))
        z = [0] * 10
        if rng.random() < 0.8:
            z[rng.randrange(10)] = rng.choice([1, -1, comp()])
        ops.append("period.has " + " ".join(map(str, z)))
        ops.append("period.has " + " ".join(map(str, a)))
    return ops


def gen_sumseq_cases(ctx, n):
    """pairs of periods applied one after the other, in both orders, and as their sum (oracle only)"""
    rng = ctx.rng
    bt = boundary_times()
    ords = ordinals()
    out = []
    for i in range(n):
        o = rng.choice([0, 0, 1, 2, 3, 4, 5, 6, 13, 17, 18]) if rng.random() < 0.7 else rng.choice(ords)
        a = gen_date(rng, o)
        nod = gen_nod_edge(rng, bt)
        if rng.random() < 0.4:
            p = [0] * 4 + gen_time_comps(rng, nod, True)
            q = [0] * 4 + gen_time_comps(rng, nod, rng.random() < 0.5)
        else:
            p = [rng.choice([0, 0, 1, -1]), rng.choice([0, 1, -1, 1, 2, -2, 12]), rng.choice([0, 0, 1]), rng.choice([0, 0, 1, -1, 30])] + \
                (gen_time_comps(rng, nod, True) if rng.random() < 0.4 else [0] * 6)
            q = [rng.choice([0, 0, 1, -1]), rng.choice([0, 1, -1, 1, 2, -2]), 0, rng.choice([0, 0, 1, -1])] + \
                (gen_time_comps(rng, nod, True) if rng.random() < 0.6 else [0] * 6)
        out.append(f"ldtf.sumseq {o} {a[0]} {a[1]} {a[2]} {nod} " + " ".join(map(str, p + q)))
    return out


def run(ctx):
    n = ctx.scale(24_000, 600_000)
    ctx.correspond("ldt.huge", gen_huge_ops(ctx), impl, oracle=oracle, neighbours=neighbours)
    ctx.correspond("tod.ops", gen_tod_ops(ctx, n), impl, oracle=oracle, neighbours=neighbours)
    ctx.correspond("ldt.plus", gen_ldt_ops(ctx, n), impl, oracle=oracle, neighbours=neighbours)
    ctx.correspond("ldt.period", gen_period_ops(ctx, n // 2), impl, oracle=oracle, neighbours=neighbours)
    # hypotheses of Pyoda.C09.Evaluated (used by the full-period theorems), evaluated on the compiled driver while the
    # correspondence runs (cal.wf 4|5 walk every day of 9999 Hebrew years: about 10 s each, on their own processes)
    from concurrent.futures import ThreadPoolExecutor
    import common
    pool = ThreadPoolExecutor(max_workers=3)
    futures = {op: pool.submit(common.model_eval, [op], META["drivers"][0]) for op in EVALUATED[:2]}
    futures["rest"] = pool.submit(common.model_eval, EVALUATED[2:], META["drivers"][0])
    nf = ctx.scale(14_000, 400_000)
    ctx.correspond("full.period", gen_full_ops(ctx, nf), impl, oracle=oracle, neighbours=neighbours_full)
    ctx.check_cases("period.sequence-vs-sum (no associativity assumed)", gen_sumseq_cases(ctx, ctx.scale(2_500, 60_000)),
                    lambda c: oracle(c.split(" ")))
    ctx.check_cases("period.sequence-witnesses", WITNESSES, witness_case, exhaustive=True)
    ctx.note("sequence_vs_sum", dict(SUMSEQ_STATS))
    replies = dict(zip(EVALUATED[2:], futures["rest"].result()))
    for op in EVALUATED[:2]:
        replies[op] = futures[op].result()[0]
    pool.shutdown()

    def evaluated_case(op):
        if replies.get(op) != "1":
            return {"key": "evaluated-hypothesis-false", "what": f"driver op {op} replied {replies.get(op)!r}: a hypothesis of the "
                    "full-period theorems (calendar well-formedness / minimum year length, Pyoda.C09.Evaluated) does not hold for the model's calendar description"}
        return None
    ctx.check_cases("evaluated-hypotheses", sorted(replies), evaluated_case, exhaustive=True)


EVALUATED = ["cal.wf 4", "cal.wf 5", "cal.wf 8", "cal.wf 17", "cal.wf 18", "date.wf 4", "date.wf 5"]


def neighbours_full(t):
    """vary the period components by one"""
    out = []
    first = {"ldtf.period": 7, "ldtf.unit": 7, "datef.period": 6, "timef.period": 3}.get(t[0])
    if first is None:
        return out
    for i in range(first, len(t)):
        for dlt in (-1, 1):
            u = list(t)
            u[i] = str(int(t[i]) + dlt)
            out.append(" ".join(u))
    return out


def replay_op(op, failure):
    if op.startswith("cal.wf") or op.startswith("date.wf"):
        import common
        r = common.model_eval([op], META["drivers"][0])[0]
        return None if r == "1" else {"key": "evaluated-hypothesis-false", "what": f"driver op {op} replied {r!r}"}
    if op.startswith("("):
        import ast
        return witness_case(ast.literal_eval(op))
    return oracle(op.split(" "))
