"""C17 - the standard library's ISO *readers* as a model (lean/PyodaModel/Text/PyIsoParse.lean): correspondence.

The model transcribes the pure-Python reference implementation `Lib/_pydatetime.py`; what `fromisoformat` really runs is
the C implementation (`_datetime`).  Two suites over the same ops (`pyiso.parse.date|time|datetime <hex>`):

  text.pyparse.c    model vs the REAL `datetime.date/time/datetime.fromisoformat` (C) on
                      (a) every text the pyoda ISO patterns write for boundary-biased values,
                      (b) every text the stdlib writes,
                      (c) those mutated / hostile texts on which `_datetime` and `_pydatetime` give the same answer
  text.pyparse.ref  model vs `_pydatetime` itself on ALL generated texts, including the hostile ones on which the two
                    stdlib implementations differ (their number is reported as a note)

Texts of classes (a) and (b) are never filtered: there the C reader, the Python reader and the model must all agree.
"""
from __future__ import annotations

import datetime as cdt

NPS = 1_000_000_000
NPD = 86_400 * NPS


def hexs(s: str) -> str:
    return s.encode("utf-8").hex() if s else "-"


def unhex(h: str) -> str:
    return "" if h == "-" else bytes.fromhex(h).decode("utf-8")


def _pymod():
    import _pydatetime
    return _pydatetime


def canon_tz(t) -> str:
    off = t.utcoffset()
    if off is None:
        return "none"
    return str((off.days * 86400 + off.seconds) * 1_000_000 + off.microseconds)


def evaluate(mod, kind: str, text: str) -> str:
    """canonical reply of `mod`'s reader (exceptions propagate: `common.guard` names them)"""
    if kind == "date":
        d = mod.date.fromisoformat(text)
        return f"{d.year}:{d.month}:{d.day}"
    if kind == "time":
        t = mod.time.fromisoformat(text)
        return f"{t.hour}:{t.minute}:{t.second}:{t.microsecond}:{canon_tz(t)}"
    if kind == "datetime":
        d = mod.datetime.fromisoformat(text)
        return f"{d.year}:{d.month}:{d.day}:{d.hour}:{d.minute}:{d.second}:{d.microsecond}:{canon_tz(d)}"
    raise KeyError(kind)


def _kind(op: str) -> str:
    return op.rsplit(".", 1)[1]


def impl_c(t):
    return evaluate(cdt, _kind(t[0]), unhex(t[1]))


def impl_ref(t):
    return evaluate(_pymod(), _kind(t[0]), unhex(t[1]))


def _safe(mod, kind, text):
    try:
        return evaluate(mod, kind, text)
    except Exception as e:  # noqa: BLE001
        return "!" + type(e).__name__


# ---------------------------------------------------------------------------------------------------
# (a) texts the pyoda ISO patterns write
# ---------------------------------------------------------------------------------------------------

def pyoda_texts(ctx, n):
    import pyoda_time as P
    import pyoda_time.text as T
    import c17
    rng = ctx.rng
    out = []
    dates = c17.gen_dates(ctx, n)
    rng.shuffle(dates)
    dates = dates[: n]
    nods = c17.gen_nods(ctx, n)
    LD, LT, LDT, IP, OP = T.LocalDatePattern, T.LocalTimePattern, T.LocalDateTimePattern, T.InstantPattern, T.OffsetPattern
    tpats = [LT.extended_iso, LT.long_extended_iso, LT.general_iso]
    dtpats = [LDT.extended_iso, LDT.general_iso, LDT.bcl_round_trip]
    offs = [60 * k for k in range(-1080, 1081)]                       # every whole minute within +-18 h
    offs_s = [1, -1, 59, -59, 61, -61, 3599, -3599, 3601, -3601, 64799, -64799] + [rng.randint(-64800, 64800) for _ in range(40)]
    off_texts = []
    for s in offs + offs_s:
        v = P.Offset.from_seconds(s)
        off_texts.append(OP.general_invariant.format(v))
        off_texts.append(OP.general_invariant_with_z.format(v))
    off_texts = sorted(set(off_texts))
    for (y, m, d) in dates:
        out.append(("date", LD.iso.format(P.LocalDate(y, m, d))))
    for nod in nods:
        v = P.LocalTime.from_nanoseconds_since_midnight(nod)
        for p in tpats:
            out.append(("time", p.format(v)))
    # every offset text behind a time and behind a date-time
    for i, ot in enumerate(off_texts):
        nod = nods[i % len(nods)]
        y, m, d = dates[i % len(dates)]
        tv = P.LocalTime.from_nanoseconds_since_midnight(nod)
        tt = tpats[i % 3].format(tv)
        out.append(("time", tt + ot))
        out.append(("datetime", LD.iso.format(P.LocalDate(y, m, d)) + "T" + tt + ot))
    k = 0
    for (y, m, d), nod in zip(dates, nods):
        v = P.LocalDate(y, m, d).at(P.LocalTime.from_nanoseconds_since_midnight(nod))
        for p in dtpats:
            out.append(("datetime", p.format(v)))
        k += 1
        if k % 2 == 0:
            pd = cdt.date(y, m, d)
            iv = P.Instant._ctor(days=pd.toordinal() - 719163, nano_of_day=nod)
            out.append(("datetime", IP.extended_iso.format(iv)))
            out.append(("datetime", IP.general.format(iv)))
        if k % 5 == 0:
            ot = rng.choice(off_texts)
            out.append(("datetime", LDT.extended_iso.format(v) + ot))
    return out


# ---------------------------------------------------------------------------------------------------
# (b) texts the stdlib writes
# ---------------------------------------------------------------------------------------------------

def stdlib_texts(ctx, n):
    import c17
    rng = ctx.rng
    out = []
    dates = c17.gen_dates(ctx, n)
    rng.shuffle(dates)
    dates = dates[: n]
    nods = c17.gen_nods(ctx, n)
    specs = ["auto", "hours", "minutes", "seconds", "milliseconds", "microseconds"]
    tzs = [None, cdt.timezone.utc] + [cdt.timezone(cdt.timedelta(seconds=s)) for s in
                                      (60, -60, 3600, -3600, 64800, -64800, 19800, -12600, 1, -1, 3661, -86399, 86399)]
    tzs.append(cdt.timezone(cdt.timedelta(seconds=5, microseconds=1)))
    tzs.append(cdt.timezone(-cdt.timedelta(hours=3, microseconds=250000)))
    for (y, m, d) in dates:
        out.append(("date", cdt.date(y, m, d).isoformat()))
    for i, nod in enumerate(nods):
        h, mi, s, ns = c17.split_nod(nod)
        tz = tzs[i % len(tzs)] if i % 3 == 0 else None
        t = cdt.time(h, mi, s, ns // 1000, tzinfo=tz)
        out.append(("time", t.isoformat()))
        out.append(("time", t.isoformat(timespec=specs[i % len(specs)])))
        y, m, d = dates[i % len(dates)]
        dt = cdt.datetime(y, m, d, h, mi, s, ns // 1000, tzinfo=tz)
        out.append(("datetime", dt.isoformat()))
        out.append(("datetime", dt.isoformat(sep=rng.choice([" ", "T", "t", "_", "x", "é"]), timespec=specs[(i // 2) % len(specs)])))
    for (y, m, d) in dates[: 200]:
        out.append(("datetime", cdt.date(y, m, d).isoformat()))          # a date alone is a valid date-time text
    for k in range(-1439, 1440, 7):
        tz = cdt.timezone(cdt.timedelta(minutes=k))
        out.append(("datetime", cdt.datetime(2000, 1, 1, 12, 30, tzinfo=tz).isoformat()))
        out.append(("time", cdt.time(23, 59, 59, 999999, tzinfo=tz).isoformat()))
    return out


# ---------------------------------------------------------------------------------------------------
# (c) hostile texts
# ---------------------------------------------------------------------------------------------------

ALPHABET = list("0123456789") * 3 + list("--::..,,TTZZ++W tx_/") + ["٣", "１", "−", " ", "é", "\t", "\x00", "\x1f", "z", "w"]

FIXED_HOSTILE = {
    "date": ["", "2020", "2020-02", "2020-2-29", "2020-02-9", "20-02-29", "02020-02-29", "2020-02-290", "2020/02/29", "2020-0229",
             "202002-29", "20200229", "2020029", "2020-02-30", "2019-02-29", "1900-02-29", "2000-02-29", "0000-01-01",
             "10000-01-01", "2020-00-10", "2020-13-10", "2020-01-00", "2020-01-32", "2020-04-31", "-020-01-01", "+020-01-01",
             " 020-01-01", "2020-01-01 ", "2020-01-01Z", "2020-01-01T", "2020-٠١-01", "２０２０-01-01",
             "2020-W01-1", "2020W011", "2020-W01", "2020W01", "2020-W53-7", "2021-W53-1", "2020-1-01", "2020-01-1x", "2020_01_01",
             "1_00-01-01", "2020-01-0_", "0001-01-01", "9999-12-31", "2020−01−01"],
    "time": ["", "1", "12", "T12", "T", "TT12", "1234", "12:34", "12:3", "123", "12345", "123456", "1234567", "12:34:5", "12:34:56", "12:34:567",
             "24:00:00", "23:60:00", "23:59:60", "12:34:56.", "12:34:56,", "12:34:56.1", "12:34:56,1", "12:34:56.123456789012",
             "12:34:56.12345x", "12:34:56.1234567x", "12:34:56.123456x", "12:34:56;1", "12.5", "12:34.5", "1234.5", "123456.5",
             "12:3456", "1234:56", "12:34:56Z", "12:34:56z", "12:34:56ZZ", "12:34:56 Z", "12:34Z", "12Z", "Z", "12:34:56+", "12:34:56-",
             "12:34:56+1", "12:34:56+01", "12:34:56+010", "12:34:56+0100", "12:34:56+01:0", "12:34:56+01:00", "12:34:56+01:00:0",
             "12:34:56+01:00:00", "12:34:56+01:00:00.5", "12:34:56+01:00:00.000001", "12:34:56+01:00:00.0000001", "12:34:56+24:00",
             "12:34:56-24:00", "12:34:56+23:59:59.999999", "12:34:56-23:59:59.999999", "12:34:56+23:60", "12:34:56+00:99", "12:34:56+99:00",
             "12:34:56+00:00", "12:34:56-00:00", "12:34:56+00:00:00.000000", "12:34:56-00:00:00.000001", "12:34:56+01:00Z", "12:34:56Z+01:00",
             "12:34:56Z01:00", "12:34:56+01:00-02:00", "12:34:56-01:00+02:00", "12-34-56", "12:34:56.5+01:00", "12:34:56.5Z", "12:34:56.Z",
             "12:٣٤:56", "12:34:56.١", "1_:34:56", " 2:34:56", "+2:34:56", "12:34:56.+1", "12:34:56. 1", "12:34:56.1_2",
             "12:34:56+1_:00", "12:34:56−0100", "12:34:56.123456١", "00", "0000", "000000", "00:00:00.000000", "23:59:59.999999"],
}
FIXED_HOSTILE["datetime"] = (
    [d + sep + t for d in ["2020-02-29", "20200229", "2020-W09-6", "2020W096", "2020-W09", "2020W09", "2020-02-30", "0000-01-01", "2020-02-2", "2020-2-29", "2020029"]
     for sep in ["T", " ", "", "x", "é"] for t in ["12:34:56", "1234", "12", "", "12:34:56.5+01:00", "24:00", "12:34:56Z", "1", "12:34:60"]]
    + ["", "2020", "202002", "2020-02", "2020-02-29T", "2020-02-29TT12", "2020-02-29T12:34:56.123456789Z", "2020-02-29T12:34:56,5",
       "9999-12-31T23:59:59.999999999", "0001-01-01T00:00:00", "2020-02-29T12:34:56+18:00", "2020-02-29T12:34:56-18:00",
       "2020-02-29T12:34:56+05", "2020-02-29T12:34:56-05:30:15", "2020-02-2912:34", "2020-02-29 12:34:56 +01:00"])


def mutate(rng, s):
    s = list(s)
    for _ in range(rng.choice([1, 1, 1, 2, 2, 3])):
        c = rng.random()
        i = rng.randrange(len(s) + 1)
        if c < 0.35 and s:
            s[min(i, len(s) - 1)] = rng.choice(ALPHABET)
        elif c < 0.6:
            s.insert(i, rng.choice(ALPHABET))
        elif c < 0.8 and s:
            del s[min(i, len(s) - 1)]
        elif c < 0.9 and len(s) > 1:
            j = min(i, len(s) - 2)
            s[j], s[j + 1] = s[j + 1], s[j]
        elif s:
            # a field pushed out of range / to its edge
            j = min(i, len(s) - 1)
            if s[j].isdigit():
                s[j] = rng.choice("0969")
    return "".join(s)


def hostile_texts(ctx, good, n):
    rng = ctx.rng
    out = []
    for kind, lst in FIXED_HOSTILE.items():
        for t in lst:
            out.append((kind, t))
    # a text of one kind given to the reader of another
    for kind, t in good[:: max(1, len(good) // 300)]:
        for other in ("date", "time", "datetime"):
            if other != kind:
                out.append((other, t))
    for _ in range(n):
        kind, t = good[rng.randrange(len(good))]
        out.append((kind, mutate(rng, t)))
    # truncations and extensions of good texts
    for _ in range(n // 4):
        kind, t = good[rng.randrange(len(good))]
        c = rng.random()
        if c < 0.5 and t:
            out.append((kind, t[: rng.randrange(len(t))]))
        else:
            out.append((kind, t + rng.choice(ALPHABET)))
    return out


def to_op(kind, text):
    return f"pyiso.parse.{kind} {hexs(text)}"


def run(ctx):
    import c07
    if not c07.model_available():
        return
    a = pyoda_texts(ctx, ctx.scale(1500, 60_000))
    b = stdlib_texts(ctx, ctx.scale(1500, 60_000))
    good = a + b
    h = hostile_texts(ctx, good, ctx.scale(12_000, 400_000))
    pm = _pymod()
    same, differ = [], 0
    seen = set()
    for kind, t in h:
        if (kind, t) in seen:
            continue
        seen.add((kind, t))
        try:
            t.encode("utf-8")
        except UnicodeError:
            continue
        if _safe(cdt, kind, t) == _safe(pm, kind, t):
            same.append((kind, t))
        else:
            differ += 1
    ctx.note("pyparse_hostile_texts", len(seen))
    ctx.note("pyparse_hostile_texts_where_C_and_pydatetime_differ", differ)
    ops_good = [to_op(k, t) for k, t in good]
    ctx.correspond("text.pyparse.c", ops_good + [to_op(k, t) for k, t in same], impl_c, driver="drv_text")
    ctx.correspond("text.pyparse.ref", ops_good + [to_op(k, t) for k, t in sorted(seen) if _encodable(t)], impl_ref, driver="drv_text")
    ctx.assumptions.append("the stdlib reader model (PyIsoParse) transcribes Lib/_pydatetime.py; the C implementation is compared on every "
                           "well-formed text and on the hostile texts where both stdlib implementations agree")


def _encodable(t):
    try:
        t.encode("utf-8")
        return True
    except UnicodeError:
        return False
