"""C02 — calendar dates denote the physical day their published definitions prescribe.

Three independent parties are compared for the 17 arithmetic calendar ids:
  * the real code (through CalendarSystem / LocalDate),
  * the Lean reference model `PyodaModel/Calendar/Reference.lean` (ops `ref.*`, written from the literature),
  * a Python transcription of the same published algorithms in this file (`Ref*` below) and `datetime.date` for ISO.
Suites `reference.*` diff Lean-reference vs code (K); the oracle diffs Python-reference / stdlib vs code (S);
`model-vs-reference` evaluates the Lean *code model* (`cal.year`) against the Lean reference (`ref.year`) for every
year and month of every arithmetic calendar on the compiled driver (evaluation, not proof; it backs the theorems
named in META['partial']).
"""
from __future__ import annotations

import datetime
import time

import common
from common import guard, ints

import c01
from c01 import IDS, cal, date, fm, from_days, pcorrespond, chunks, tag

DRIVER = "drv_calendar"
ARITH = [0, 1, 2, 3, 4, 5, 6, 7, 9, 10, 11, 12, 13, 14, 15, 16]   # ordinals of the arithmetic calendars (8, 17, 18 are tabular)
EPOCH_RD = 719163

META = {
    "property": "C02",
    "proof_modules": ["PyodaProofs.C02", "PyodaProofs.GenAgreeC01",
                      "PyodaProofs.GenAgreeC01Heb", "PyodaProofs.GenAgreeC01Cache", "PyodaProofs.GenAgreeC01Tab"],
    "drivers": ["drv_calendar"],
    "theorems": [
        "Pyoda.C02.gregorian_leap_matches", "Pyoda.C02.gregorian_leap_matches_python", "Pyoda.C02.gregorian_matches_reference",
        "Pyoda.C02.gregorian_monthLength_matches", "Pyoda.C02.iso_matches_pydatetime", "Pyoda.C02.dayOfWeek_matches",
        "Pyoda.C02.julian_leap_matches", "Pyoda.C02.julian_matches_reference", "Pyoda.C02.julian_monthLength_matches",
        "Pyoda.C02.coptic_leap_matches", "Pyoda.C02.coptic_matches_reference", "Pyoda.C02.coptic_monthLength_matches",
        "Pyoda.C02.islPattern_base15", "Pyoda.C02.islPattern_base16", "Pyoda.C02.islPattern_indian", "Pyoda.C02.islPattern_habash",
        "Pyoda.C02.islamic_yearStart_matches", "Pyoda.C02.islamic_leap_matches", "Pyoda.C02.islamic_matches_reference",
        "Pyoda.C02.islamic_epochs", "Pyoda.C02.islamic_monthLength_matches",
        "Pyoda.C02.refAgreeWith_sound", "Pyoda.C02.refAgree_sound", "Pyoda.C02.refLinear_hebrew",
        "Pyoda.C02.refLinear_persianSimple", "Pyoda.C02.refLinear_persianArithmetic",
        "Pyoda.C02.persianSimple_matches_reference", "Pyoda.C02.persianArithmetic_matches_reference",
        "Pyoda.C02.hebrewScriptural_matches_reference", "Pyoda.C02.hebrewCivil_matches_reference",
        # agreement of the definitions generated from the Python source (tools/py2lean.py) with the model
        "Pyoda.GenAgree.C01.gen_Greg_isGregorianLeapYear_eq", "Pyoda.GenAgree.C01.gen_Greg_isLeap_eq",
        "Pyoda.GenAgree.C01.gen_Greg_len_eq", "Pyoda.GenAgree.C01.gen_Greg_start_eq",
        "Pyoda.GenAgree.C01.gen_Greg_validate_eq", "Pyoda.GenAgree.C01.gen_Greg_validateYmd_eq",
        "Pyoda.GenAgree.C01.gen_GJ_len_eq", "Pyoda.GenAgree.C01.gen_GJ_dim_eq",
        "Pyoda.GenAgree.C01.gen_GJ_toMonth_eq", "Pyoda.GenAgree.C01.gen_GJ_split_eq",
        "Pyoda.GenAgree.C01.gen_Greg_dim_eq", "Pyoda.GenAgree.C01.gen_Greg_toMonth_eq",
        "Pyoda.GenAgree.C01.gen_Greg_split_eq", "Pyoda.GenAgree.C01.gen_Jul_isLeap_eq",
        "Pyoda.GenAgree.C01.gen_Jul_start_eq", "Pyoda.GenAgree.C01.gen_Jul_len_eq",
        "Pyoda.GenAgree.C01.gen_Jul_dim_eq", "Pyoda.GenAgree.C01.gen_Jul_toMonth_eq",
        "Pyoda.GenAgree.C01.gen_Jul_split_eq", "Pyoda.GenAgree.C01.gen_Copt_isLeap_eq",
        "Pyoda.GenAgree.C01.gen_Copt_len_eq", "Pyoda.GenAgree.C01.gen_Copt_dim_eq",
        "Pyoda.GenAgree.C01.gen_Copt_toMonth_eq", "Pyoda.GenAgree.C01.gen_Copt_split_eq",
        "Pyoda.GenAgree.C01.gen_Copt_start_eq", "Pyoda.GenAgree.C01.gen_Isl_len_eq",
        "Pyoda.GenAgree.C01.gen_Isl_len_model", "Pyoda.GenAgree.C01.gen_Isl_dim_eq",
        "Pyoda.GenAgree.C01.gen_Isl_toMonth_eq", "Pyoda.GenAgree.C01.gen_Isl_split_eq",
        "Pyoda.GenAgree.C01.gen_Pers_len_eq", "Pyoda.GenAgree.C01.gen_Pers_dim_eq",
        "Pyoda.GenAgree.C01.gen_Pers_toMonth_eq", "Pyoda.GenAgree.C01.gen_Pers_split_eq",
        "Pyoda.GenAgree.C01.gen_Pers_leapArithmetic_eq", "Pyoda.GenAgree.C01.gen_Isl_isLeap_eq",
        "Pyoda.GenAgree.C01.gen_Pers_leapSimple_eq", "Pyoda.GenAgree.C01.gen_Isl_start_loop1_eq",
        "Pyoda.GenAgree.C01.gen_Isl_start_loop2_eq", "Pyoda.GenAgree.C01.gen_Isl_start_eq",
        "Pyoda.GenAgree.C01.gen_dayOfWeek_eq", "Pyoda.GenAgree.C01.gen_Calc_minYear_eq",
        "Pyoda.GenAgree.C01.gen_Calc_maxYear_eq", "Pyoda.GenAgree.C01.gen_Calc_daysAtStartOfYear1_eq",
        "Pyoda.GenAgree.C01.gen_Calc_getYear_loop1_eq", "Pyoda.GenAgree.C01.gen_Calc_getYear_loop2_agree",
        "Pyoda.GenAgree.C01.gen_Calc_getYear_agree", "Pyoda.GenAgree.C01.gen_Calc_getYearMonthDay_eq",
        "Pyoda.GenAgree.C01.gen_Calc_ymdOfDays_agree", "Pyoda.GenAgree.C01.gen_Calc_daysOfYmdRaw_eq",
        "Pyoda.GenAgree.C01.gen_Calc_validate_eq", "Pyoda.GenAgree.C01.gen_Calc_dayOfYear_eq",
        "Pyoda.GenAgree.C01Cache.gen_Entry_getValidator_eq", "Pyoda.GenAgree.C01Cache.gen_Entry_getCacheIndex_eq",
        "Pyoda.GenAgree.C01Cache.gen_Entry_new_eq", "Pyoda.GenAgree.C01Cache.gen_Entry_invalid_eq",
        "Pyoda.GenAgree.C01Cache.gen_Entry_isValidForYear_eq",
        "Pyoda.GenAgree.C01Cache.gen_Entry_startOfYearDays_eq",
        "Pyoda.GenAgree.C01Cache.gen_Calc_getStartOfYearInDays_eq",
        "Pyoda.GenAgree.C01Cache.gen_Heb_computeCacheEntry_eq",
        "Pyoda.GenAgree.C01Cache.gen_Heb_getOrPopulateCache_eq", "Pyoda.GenAgree.C01Cache.gen_yearCache_transparent",
        "Pyoda.GenAgree.C01Cache.gen_hebrewCache_transparent", "Pyoda.GenAgree.C01Heb.gen_Heb_isLeap_eq",
        "Pyoda.GenAgree.C01Heb.gen_Heb_elapsedNoCache_eq", "Pyoda.GenAgree.C01Heb.gen_Heb_elapsedDays_eq",
        "Pyoda.GenAgree.C01Heb.gen_Heb_isHeshvanLong_eq", "Pyoda.GenAgree.C01Heb.gen_Heb_isKislevShort_eq",
        "Pyoda.GenAgree.C01Heb.gen_Heb_daysInMonth_eq", "Pyoda.GenAgree.C01Heb.gen_Heb_daysInYear_eq",
        "Pyoda.GenAgree.C01Heb.gen_Heb_toMonth_eq", "Pyoda.GenAgree.C01Heb.gen_Heb_toMonth_rejects",
        "Pyoda.GenAgree.C01Heb.gen_Heb_split_eq", "Pyoda.GenAgree.C01Heb.gen_Heb_civilToScriptural_eq",
        "Pyoda.GenAgree.C01Heb.gen_Heb_scripturalToCivil_eq",
        "Pyoda.GenAgree.C01Heb.gen_HebCalc_calendarToCivilMonth_eq",
        "Pyoda.GenAgree.C01Heb.gen_HebCalc_calendarToScripturalMonth_eq",
        "Pyoda.GenAgree.C01Heb.gen_HebCalc_civilToCalendarMonth_eq",
        "Pyoda.GenAgree.C01Heb.gen_HebCalc_scripturalToCalendarMonth_eq",
        "Pyoda.GenAgree.C01Heb.gen_HebCalc_isLeap_eq", "Pyoda.GenAgree.C01Heb.gen_HebCalc_monthsInYear_eq",
        "Pyoda.GenAgree.C01Heb.gen_HebCalc_daysInYear_eq", "Pyoda.GenAgree.C01Heb.gen_HebCalc_startOfYear_eq",
        "Pyoda.GenAgree.C01Heb.gen_HebCalc_daysInMonth_eq", "Pyoda.GenAgree.C01Heb.gen_HebCalc_toMonth_eq",
        "Pyoda.GenAgree.C01Heb.gen_HebCalc_split_eq", "Pyoda.GenAgree.C01Tab.gen_Calc_minYear_eq",
        "Pyoda.GenAgree.C01Tab.gen_Calc_maxYear_eq", "Pyoda.GenAgree.C01Tab.gen_Badi_daysInAyyamiHa_eq",
        "Pyoda.GenAgree.C01Tab.gen_Badi_nawRuzDayInMarch_eq", "Pyoda.GenAgree.C01Tab.gen_Badi_start_eq",
        "Pyoda.GenAgree.C01Tab.gen_Badi_len_eq", "Pyoda.GenAgree.C01Tab.gen_Badi_months_eq",
        "Pyoda.GenAgree.C01Tab.gen_Badi_isLeap_eq", "Pyoda.GenAgree.C01Tab.gen_Badi_toMonth_eq",
        "Pyoda.GenAgree.C01Tab.gen_Badi_dim_eq", "Pyoda.GenAgree.C01Tab.gen_Badi_dim_rejects",
        "Pyoda.GenAgree.C01Tab.gen_Badi_isInAyyamiHa_eq", "Pyoda.GenAgree.C01Tab.gen_Badi_daysSinceEpoch_eq",
        "Pyoda.GenAgree.C01Tab.gen_Badi_validate_eq", "Pyoda.GenAgree.C01Tab.gen_UAQ_len_eq",
        "Pyoda.GenAgree.C01Tab.gen_UAQ_isLeap_eq", "Pyoda.GenAgree.C01Tab.gen_UAQ_start_eq",
        "Pyoda.GenAgree.C01Tab.gen_UAQ_dim_eq", "Pyoda.GenAgree.C01Tab.gen_UAQ_toMonth_loop1_eq",
        "Pyoda.GenAgree.C01Tab.gen_UAQ_toMonth_eq", "Pyoda.GenAgree.C01Tab.gen_UAQ_split_loop1_eq",
        "Pyoda.GenAgree.C01Tab.gen_UAQ_split_eq", "Pyoda.GenAgree.C01Tab.gen_Pers_leapAstronomical_eq",
    ],
    "trusted_base": [
        "the reference formulas are faithful transcriptions of the published algorithms (Reingold & Dershowitz 3rd ed.; "
        "CPython Lib/_pydatetime.py); two transcriptions (Lean, Python) are compared with each other through the code",
        "datetime.date (C implementation) agrees with Lib/_pydatetime.py",
        "for Hebrew civil, Hebrew scriptural, Persian simple and Persian arithmetic (from 475) the theorems "
        "*_matches_reference take the hypothesis refAgree n = true (model = reference for every year: start, leap flag, months, "
        "every month length and month start), which is discharged by EVALUATION of the executable checker on the compiled driver "
        "(op ref.agree, every run; Lean compiler trusted) together with the proved refAgree_sound; the two Hebrew theorems "
        "additionally take wfCheck (cal.wf 4 / 5, evaluated likewise). ISO/Gregorian, Julian, Coptic and the 8 Islamic calendars "
        "are proved symbolically and evaluated as well",
        "translator tie, further groups (tools/py2lean_targets.py C01Heb, C01Cache, C01Tab; PyodaProofs/GenAgreeC01Heb|C01Cache|C01Tab.lean): "
        "Hebrew (_hebrew_scriptural_calculator.py incl. __elapsed_days_no_cache, month lengths, month starts, day-of-year split through match statements; "
        "_hebrew_month_converter.py; the non-arithmetic members of _hebrew_year_month_day_calculator.py for both month numberings), with __get_or_populate_cache "
        "as an abstract callee instantiated by the cache-free packed value; the year-start caches themselves (_YearStartCacheEntry, "
        "_YearMonthDayCalculator._get_start_of_year_in_days, Hebrew __compute_cache_entry / __get_or_populate_cache) as explicit state-passing functions "
        "over a dict parameter, proved to be single steps of the C13 cache model so that yearCache_transparent / hebrewCache_transparent apply to the generated code "
        "(gen_yearCache_transparent, gen_hebrewCache_transparent); Badi, Um Al Qura and the Persian astronomical leap rule with their tables evaluated from the source "
        "(base64 literals; the three Um Al Qura dicts by running the statements of the class body) and compared entry by entry with the model's tables and recomputed "
        "year lengths / year starts by kernel evaluation. Trusted in addition: a dict attribute as the function key -> optional value (PyDict; KeyError for a missing key), "
        "the translator's interpreter for class bodies, match statements over integer literals as if-chains, `x is Enum.MEMBER` for declared enum-valued attributes as equality, "
        "Badi's ISO LocalDate(year, 3, day)._days_since_epoch and CalendarSystem.iso leap rule as abstract callees (instantiated with the Gregorian model), "
        "bounds |year| < 10^23 for __elapsed_days_no_cache. Outside: Badi._get_year_month_day_from_year_and_day_of_year (float division), Persian year-start list filled in __init__, "
        "Hebrew/Badi _add_months/_months_between/_set_year (C09)",
        "translator tools/py2lean.py (second tie, besides the correspondence suites): the leap rules, year starts, year and month "
        "lengths, month starts and day-of-year splits of the Gregorian, Julian, Coptic/fixed-month, tabular Islamic and Persian "
        "calculators listed under C01 in tools/py2lean_targets.py are re-translated from the current Python source on each run into "
        "lean/PyodaGen/C01.lean and proved equal to the hand-written calendar model (PyodaProofs/GenAgreeC01.lean; shared by C01 and C02). "
        "Trusted there: Python int = Lean Int; // and % = Int.fdiv/Int.fmod for non-zero constant divisors; >> by a constant = "
        "Int.shiftRight; x & (2^k-1) = x mod 2^k, other & | ^ and run-time shifts through PyodaGen/Support.lean; raising calls bound left-to-right in Except PyExc; if-statements by tail duplication; "
        "virtual calls self._is_leap_year of shared base classes are function parameters instantiated with the generated leap rule of "
        "each calculator; class-level tables built by a static function at class creation are evaluated from the source by the "
        "translator's small interpreter (for/range/append/yield) and read with pyIndex (IndexError outside, negative index wraps); "
        "helpers _towards_zero_division -> pyTdiv, _csharp_modulo -> csharpMod, _check_argument_range -> checkRange, "
        "_YearMonthDay._ctor and its _year/_month/_day accessors -> a plain triple (packing: pack_unpack). The calendar-independent layer "
        "_YearMonthDayCalculator (_get_year with its two while loops as fuel-recursive functions, fuel 64 = yearFuel, out of fuel = !dom; "
        "_get_year_month_day_from_days_since_epoch, _get_days_since_epoch, _validate_year_month_day, _get_day_of_year) is translated with "
        "its virtual members as abstract callees instantiated by the model record c : Calc; gen_Calc_getYear_agree / ymdOfDays_agree are "
        "equalities up to the kind of error when the fuel runs out. The bit-test leap rules of the tabular Islamic and the Persian simple "
        "calendars (`pattern & (1 << year_of_cycle) > 0`: run-time shift pyShl, two's-complement pyAnd of PyodaGen/Support.lean, proved "
        "equal to Nat.testBit) and the Islamic year start (its `for i in range(...)` loop as a fuel-recursive function, proved equal to "
        "the model's sumFrom) are translated too. Not translated (correspondence only): the year-start cache, the 1900-2100 table paths "
        "of the Gregorian calculator (tables filled in __init__), the Persian astronomical leap rule (bytes table) and the Persian "
        "year-start list (built in __init__), Hebrew, Um Al Qura, Badi",
    ],
    "partial": [
        "Persian arithmetic before year 475 is excluded by the property",
    ],
    "rule": "every year (start, length, leap flag, all month lengths and month starts) of the 16 arithmetic ordinals; ISO vs "
            "datetime.date at every month boundary plus stride and seeded random days (all 3 652 059 ordinals in thorough); "
            "distinct = distinct op line; non-trivial = every op",
}


# ---------------------------------------------------------------------------------------------
# Python reference (R.D. = fixed day numbers, R.D. 1 = 0001-01-01 Gregorian)
# ---------------------------------------------------------------------------------------------

def greg_leap(y):
    return y % 4 == 0 and y % 400 not in (100, 200, 300)


def fixed_from_gregorian(y, m, d):
    return (365 * (y - 1) + (y - 1) // 4 - (y - 1) // 100 + (y - 1) // 400 + (367 * m - 362) // 12
            + (0 if m <= 2 else (-1 if greg_leap(y) else -2)) + d)


def jul_leap(y):
    return y % 4 == 0


def fixed_from_julian(y, m, d):
    return (-1 - 1 + 365 * (y - 1) + (y - 1) // 4 + (367 * m - 362) // 12
            + (0 if m <= 2 else (-1 if jul_leap(y) else -2)) + d)


def gj_month_len(leap, m):
    return (29 if leap else 28) if m == 2 else (30 if m in (4, 6, 9, 11) else 31)


class RefGJ:
    def __init__(self, leap, fixed, first_year):
        self.leap, self.fixed, self.first_year = leap, fixed, first_year
        self.first_month = 1

    def months(self, y):
        return 12

    def month_len(self, y, m):
        return gj_month_len(self.leap(y), m)


class RefCoptic:
    first_year, first_month = 1, 1

    def leap(self, y):
        return y % 4 == 3

    def fixed(self, y, m, d):
        return 103605 - 1 + 365 * (y - 1) + y // 4 + 30 * (m - 1) + d

    def months(self, y):
        return 13

    def month_len(self, y, m):
        return 30 if m <= 12 else (6 if self.leap(y) else 5)


ISLAMIC_RESIDUES = {
    1: (2, 5, 7, 10, 13, 15, 18, 21, 24, 26, 29),      # base 15
    2: (2, 5, 7, 10, 13, 16, 18, 21, 24, 26, 29),      # base 16
    3: (2, 5, 8, 10, 13, 16, 19, 21, 24, 27, 29),      # Indian
    4: (2, 5, 8, 11, 13, 16, 19, 21, 24, 27, 30),      # Habash al-Hasib
}


class RefIslamic:
    first_year, first_month = 1, 1

    def __init__(self, pattern, civil):
        self.res = ISLAMIC_RESIDUES[pattern]
        self.epoch = 227015 if civil else 227014

    def leap(self, y):
        return ((y - 1) % 30 + 1) in self.res

    def leaps_before(self, y):
        return 11 * ((y - 1) // 30) + sum(1 for r in self.res if r <= (y - 1) % 30)

    def fixed(self, y, m, d):
        return self.epoch - 1 + 354 * (y - 1) + self.leaps_before(y) + 29 * (m - 1) + m // 2 + d

    def months(self, y):
        return 12

    def month_len(self, y, m):
        return 30 if m % 2 == 1 or (m == 12 and self.leap(y)) else 29


def heb_leap(y):
    return (7 * y + 1) % 19 < 7


def heb_elapsed(y):
    months = (235 * y - 234) // 19
    parts = 12084 + 13753 * months
    days = 29 * months + parts // 25920
    return days + 1 if (3 * (days + 1)) % 7 < 3 else days


def heb_correction(y):
    ny0, ny1, ny2 = heb_elapsed(y - 1), heb_elapsed(y), heb_elapsed(y + 1)
    return 2 if ny2 - ny1 == 356 else (1 if ny1 - ny0 == 382 else 0)


def heb_new_year(y):
    return -1373427 + heb_elapsed(y) + heb_correction(y)


class RefHebrew:
    first_year = 1

    def __init__(self, scriptural):
        self.scriptural = scriptural
        self.first_month = 7 if scriptural else 1

    leap = staticmethod(heb_leap)

    def months(self, y):
        return 13 if heb_leap(y) else 12

    def year_len(self, y):
        return heb_new_year(y + 1) - heb_new_year(y)

    def s_month_len(self, y, m):
        if m in (2, 4, 6, 10, 13):
            return 29
        if m == 12 and not heb_leap(y):
            return 29
        if m == 8 and self.year_len(y) % 10 != 5:
            return 29
        if m == 9 and self.year_len(y) % 10 == 3:
            return 29
        return 30

    def to_scriptural(self, y, m):
        if self.scriptural:
            return m
        after = self.months(y) - 6
        return m + 6 if m <= after else m - after

    def order(self, y):
        return list(range(7, self.months(y) + 1)) + list(range(1, 7))

    def month_len(self, y, m):
        return self.s_month_len(y, self.to_scriptural(y, m))

    def fixed(self, y, m, d):
        s = self.to_scriptural(y, m)
        before = 0
        for k in self.order(y):
            if k == s:
                break
            before += self.s_month_len(y, k)
        return heb_new_year(y) + before + d - 1


class RefPersian:
    first_month = 1

    def __init__(self, arithmetic):
        self.arithmetic = arithmetic
        self.first_year = 475 if arithmetic else 1

    def leap(self, y):
        if self.arithmetic:
            y1 = y - 474 if y > 0 else y - 473
            year = y1 % 2820 + 474
            return ((year + 38) * 31) % 128 < 31
        return y % 33 in (1, 5, 9, 13, 17, 22, 26, 30)

    def fixed(self, y, m, d):
        before = 31 * (m - 1) if m <= 7 else 30 * (m - 1) + 6
        if self.arithmetic:
            y1 = y - 474 if y > 0 else y - 473
            year = y1 % 2820 + 474
            return 226896 - 1 + 1029983 * (y1 // 2820) + 365 * (year - 1) + (31 * year - 5) // 128 + before + d
        leaps = 8 * ((y - 1) // 33) + sum(1 for r in (1, 5, 9, 13, 17, 22, 26, 30) if r <= (y - 1) % 33)
        return fixed_from_gregorian(622, 3, 21) - 1 + 365 * (y - 1) + leaps + before + d

    def months(self, y):
        return 12

    def month_len(self, y, m):
        return 31 if m <= 6 else (30 if m <= 11 or self.leap(y) else 29)


REFS = {
    0: RefGJ(greg_leap, fixed_from_gregorian, -9998), 1: RefGJ(greg_leap, fixed_from_gregorian, -9998),
    2: RefGJ(jul_leap, fixed_from_julian, -9997), 3: RefCoptic(), 4: RefHebrew(False), 5: RefHebrew(True),
    6: RefPersian(False), 7: RefPersian(True),
    9: RefIslamic(1, False), 10: RefIslamic(2, False), 11: RefIslamic(3, False), 12: RefIslamic(4, False),
    13: RefIslamic(1, True), 14: RefIslamic(2, True), 15: RefIslamic(3, True), 16: RefIslamic(4, True),
}


def ref_days(k, y, m, d):
    return REFS[k].fixed(y, m, d) - EPOCH_RD


# ---------------------------------------------------------------------------------------------
# impl / oracle
# ---------------------------------------------------------------------------------------------

def impl(t):
    op = t[0]
    P = c01._P()
    if op == "ref.year":
        c, y = int(t[1]), int(t[2])
        k = cal(c)
        ln, n, lp = k.get_days_in_year(y), k.get_months_in_year(y), k.is_leap_year(y)
        s = date(c, y, fm(c), 1)._days_since_epoch
        dims = [k.get_days_in_month(y, m) for m in range(1, n + 1)]
        before = [date(c, y, m, 1)._days_since_epoch - s for m in range(1, n + 1)]
        return ints(s, ln, n, int(lp), *dims, *before)
    if op == "ref.days":
        # the date is built from its fields (the direction under test), then re-made by one of the public routes
        # (strict: a route that lands elsewhere is reported) and must itself be in step (fields <-> day number)
        import routes
        c = int(t[1])
        b = date(c, int(t[2]), int(t[3]), int(t[4]))
        r = routes.routed_date(cal(c), b._days_since_epoch, salt=int(t[2]), strict=True)
        bad = routes.date_out_of_step(r)
        if bad or (r.year, r.month, r.day) != (b.year, b.month, b.day):
            return f"OUT-OF-STEP {bad or (r.year, r.month, r.day)}"
        return str(r._days_since_epoch)
    if op == "cal.ymd":
        return c01.impl(t)
    if op == "ref.pyord":
        return str(P.LocalDate(int(t[1]), int(t[2]), int(t[3]))._days_since_epoch + EPOCH_RD)
    if op == "ref.pyymd":
        x = P.LocalDate.from_date(datetime.date.fromordinal(int(t[1])))
        return ints(x.year, x.month, x.day, int(x.day_of_week))
    raise common.InfraError(f"unknown op {t!r}")


def F(key, c, what):
    return {"key": f"c02-{key}:{tag(c)}", "what": f"{IDS[c]}: {what}"}


def o_year(c, y):
    r = REFS[c]
    k = cal(c)
    if y < r.first_year or y > k.max_year:
        return None
    s = date(c, y, fm(c), 1)._days_since_epoch
    want = ref_days(c, y, r.first_month, 1)
    if s != want:
        return F("year-start", c, f"year {y} starts on day {s}; the published algorithm gives {want} (difference {s - want})")
    nxt = ref_days(c, y + 1, r.first_month, 1)
    if k.get_days_in_year(y) != nxt - want:
        return F("year-length", c, f"year {y}: get_days_in_year {k.get_days_in_year(y)}, published {nxt - want}")
    if bool(k.is_leap_year(y)) != bool(r.leap(y)):
        return F("leap-year", c, f"year {y}: is_leap_year {k.is_leap_year(y)}, published rule {r.leap(y)}")
    n = k.get_months_in_year(y)
    if n != r.months(y):
        return F("months-in-year", c, f"year {y}: {n} months, published {r.months(y)}")
    for m in range(1, n + 1):
        if k.get_days_in_month(y, m) != r.month_len(y, m):
            return F("month-length", c, f"{y}-{m}: {k.get_days_in_month(y, m)} days, published {r.month_len(y, m)}")
        ms = date(c, y, m, 1)._days_since_epoch
        if ms != ref_days(c, y, m, 1):
            return F("month-start", c, f"{y}-{m}-1 is day {ms}, published {ref_days(c, y, m, 1)}")
    return None


def o_days(c, y, m, d):
    r = REFS[c]
    if y < r.first_year:
        return None
    try:
        x = date(c, y, m, d)
    except ValueError:
        return None
    got, want = x._days_since_epoch, ref_days(c, y, m, d)
    if got != want:
        return F("day-number", c, f"{(y, m, d)} is day {got}, published {want}")
    dow = (got + 3) % 7 + 1          # 1970-01-01 (day 0) was a Thursday (4)
    if int(x.day_of_week) != dow:
        return F("day-of-week", c, f"{(y, m, d)} (day {got}): day_of_week {int(x.day_of_week)}, expected {dow}")
    return None


def o_pyord(y, m, d):
    P = c01._P()
    try:
        pd = datetime.date(y, m, d)
    except ValueError:
        if not c01.raises_value_error(lambda: P.LocalDate(y, m, d)) and 1 <= y <= 9999:
            return {"key": "c02-iso-accepts-invalid", "what": f"LocalDate({y},{m},{d}) accepted, datetime.date rejects"}
        return None
    x = P.LocalDate(y, m, d)
    if x._days_since_epoch + EPOCH_RD != pd.toordinal():
        return {"key": "c02-iso-vs-stdlib-ordinal", "what": f"ISO {y}-{m}-{d}: day {x._days_since_epoch} (+719163 = {x._days_since_epoch + EPOCH_RD}), datetime ordinal {pd.toordinal()}"}
    if x.to_date() != pd or P.LocalDate.from_date(pd) != x:
        return {"key": "c02-iso-vs-stdlib-conversion", "what": f"ISO {y}-{m}-{d}: to_date {x.to_date()}, from_date {P.LocalDate.from_date(pd)}"}
    if int(x.day_of_week) != pd.isoweekday():
        return {"key": "c02-iso-vs-stdlib-weekday", "what": f"ISO {y}-{m}-{d}: day_of_week {int(x.day_of_week)}, isoweekday {pd.isoweekday()}"}
    return None


def o_pyymd(n):
    P = c01._P()
    pd = datetime.date.fromordinal(n)
    a = P.LocalDate.from_date(pd)
    b = from_days(0, n - EPOCH_RD)
    if (a.year, a.month, a.day) != (pd.year, pd.month, pd.day) or a != b:
        return {"key": "c02-iso-vs-stdlib-date", "what": f"ordinal {n}: from_date {(a.year, a.month, a.day)}, general path {(b.year, b.month, b.day)}, datetime {pd}"}
    if int(a.day_of_week) != pd.isoweekday() or a.to_date() != pd:
        return {"key": "c02-iso-vs-stdlib-weekday", "what": f"ordinal {n}: day_of_week {int(a.day_of_week)}, isoweekday {pd.isoweekday()}"}
    return None


def o_inverse(c, d):
    """day number -> date: the date the code reports for day d must denote day d under the published algorithm"""
    r = REFS.get(c) if isinstance(REFS, dict) else REFS[c]
    k = cal(c)
    if r is None or not k._min_days <= d <= k._max_days:
        return None
    x = c01.from_days(c, d)
    if x.year < r.first_year:
        return None
    want = ref_days(c, x.year, x.month, x.day)
    if want != d:
        return F("day-to-date", c, f"day {d} is reported as {x.year}-{x.month}-{x.day}, which the published algorithm puts on day {want}")
    return None


def gen_inverse_ops(ctx, n):
    """the SAME physical days converted into every arithmetic calendar, sibling calendars (the 8 Hijri variants, the
    Hebrew numberings, the Persian variants, ISO/Gregorian/Julian) next to each other: one op list, interleaved by day"""
    rng = ctx.rng
    ops = []
    los = [cal(c)._min_days for c in ARITH]
    his = [cal(c)._max_days for c in ARITH]
    for _ in range(n):
        d = rng.choice([rng.randint(max(los), min(his)), rng.randint(-200000, 200000), rng.randint(min(los), max(his))])
        for c in sorted(ARITH, key=lambda c: (cal(c).name, c)):
            if cal(c)._min_days <= d <= cal(c)._max_days:
                ops.append(f"cal.ymd {c} {d}")
    return ops



def _fresh_child(args, optimize=False):
    import json
    import os
    import subprocess
    import sys
    here = os.path.dirname(os.path.abspath(__file__))
    cmd = [sys.executable] + (["-O"] if optimize else []) + [os.path.join(here, "fresh_child.py")] + list(args)
    p = subprocess.run(cmd, capture_output=True, text=True, timeout=300, env=dict(os.environ, PYODA_REPO=str(common.REPO)))
    if p.returncode != 0:
        return {"__error__": p.stderr[-400:]}
    return json.loads(p.stdout)


def factories_case(_):
    """the calendars a FRESH interpreter gets when the factories are first called with plain ints (get_hebrew_calendar(2):
    the C# enum port accepts them) must be the calendars a fresh interpreter gets through the normal accessors"""
    a, b = _fresh_child(["factories", "plain-ints-first"]), _fresh_child(["factories"])
    if "__error__" in b:
        raise RuntimeError(b["__error__"])
    if "__error__" in a:
        return {"key": "calendar-factory-plain-int", "what": "a fresh interpreter calling CalendarSystem.get_hebrew_calendar(2) first fails: " + a["__error__"][-200:]}
    for name in b:
        if a.get(name) != b[name]:
            return {"key": "calendar-factory-plain-int", "what": f"{name}: after CalendarSystem.get_hebrew_calendar(2) / (1) were the first calls of the process the "
                    f"calendar reports {str(a.get(name))[:260]}; through the normal accessors a fresh process gets {str(b[name])[:260]}"}
    return None


def oracle(t):
    op = t[0]
    a = [int(x) for x in t[1:]]
    if op == "ref.year":
        return o_year(*a)
    if op == "ref.days":
        return o_days(*a)
    if op == "ref.pyord":
        return o_pyord(*a)
    if op == "ref.pyymd":
        return o_pyymd(*a)
    if op == "cal.ymd":
        return o_inverse(*a)
    return None


def neighbours(t):
    if t[0] in ("ref.year", "ref.days"):
        c, y = int(t[1]), int(t[2])
        return [f"ref.year {c} {y + k}" for k in (0, -1, 1)]
    if t[0] == "ref.pyymd":
        n = int(t[1])
        return [f"ref.pyymd {n + k}" for k in (-1, 1) if 1 <= n + k <= 3652059]
    return []


# ---------------------------------------------------------------------------------------------
# generators
# ---------------------------------------------------------------------------------------------

def year_range(c):
    return max(REFS[c].first_year, cal(c).min_year), cal(c).max_year


def gen_year_ops():
    ops = []
    for c in ARITH:
        lo, hi = year_range(c)
        ops += [f"ref.year {c} {y}" for y in range(lo, hi + 1)]
    return ops


def gen_day_ops(ctx, n):
    rng = ctx.rng
    ops = []
    for c in ARITH:
        lo, hi = year_range(c)
        k = cal(c)
        for _ in range(n):
            y = rng.choice([lo, hi, rng.randint(lo, hi)])
            m = rng.randint(1, k.get_months_in_year(y))
            dim = k.get_days_in_month(y, m)
            ops.append(f"ref.days {c} {y} {m} {rng.choice([1, dim, rng.randint(1, dim)])}")
    return ops


def gen_iso_ops(ctx):
    rng = ctx.rng
    ops = []
    if ctx.thorough:
        return None
    for y in range(1, 10000):
        for m in range(1, 13):
            dim = gj_month_len(greg_leap(y), m)
            ops.append(f"ref.pyord {y} {m} 1")
            ops.append(f"ref.pyord {y} {m} {dim}")
        if y % 4 == 0 or y % 100 < 2:
            ops.append(f"ref.pyord {y} 2 29")
            ops.append(f"ref.pyord {y} 2 30")
    ords = set(range(1, 3652060, 97))
    ords.update(rng.randint(1, 3652059) for _ in range(20000))
    ords.update(range(1, 400))
    ords.update(range(3652059 - 400, 3652060))
    for s in (-25567, 47846):
        ords.update(range(s + EPOCH_RD - 400, s + EPOCH_RD + 400))
    ops += [f"ref.pyymd {n}" for n in sorted(ords)]
    return ops


def model_vs_reference(ctx):
    """Lean code model vs Lean reference on the compiled driver: every year row (start, length, months, leap, every
    month length and month start) of every arithmetic calendar. Evaluation, not proof."""
    cases, pairs = [], []
    for c in ARITH:
        lo, hi = year_range(c)
        for y in range(lo, hi + 1):
            pairs.append((c, y))
    a = common.model_eval([f"cal.year {c} {y}" for c, y in pairs], DRIVER)
    b = common.model_eval([f"ref.year {c} {y}" for c, y in pairs], DRIVER)
    res = {}
    for (c, y), u, v in zip(pairs, a, b):
        res[(c, y)] = None if u == v else {"key": f"c02-model-vs-reference:{tag(c)}",
                                            "what": f"{IDS[c]} year {y}: code model row {u!r} differs from reference row {v!r}"}
        cases.append((c, y))
    ctx.check_cases("model-vs-reference (driver evaluation)", cases, lambda k: res[k], exhaustive=True)


SYMBOLIC_AGREE = {0, 1, 2, 3, 9, 10, 11, 12, 13, 14, 15, 16}


def _driver_eval(op):
    try:
        return op, common.model_eval([op], DRIVER)[0]
    except common.InfraError as e:
        return op, "infra:" + str(e)


def finish_agree(ctx, async_res):
    """`ref.agree k` for the 16 arithmetic ordinals and `cal.wf 4/5` (hypotheses of the evaluated theorems)."""
    res = dict(async_res.get(timeout=600))
    for op, r in res.items():
        if r.startswith("infra:"):
            raise common.InfraError(r[6:])
    st = ctx.oracles.setdefault("ref-agree (driver evaluation of refAgree / wfCheck, all years)", {"cases": 0, "failures": 0, "exhaustive": True})
    not_discharged = []
    for op, r in sorted(res.items()):
        st["cases"] += 1
        ctx.evaluations += 1
        if r == "1":
            continue
        c = int(op.split(" ")[1])
        not_discharged.append(f"{op} ({IDS[c]})")
        code_side = [f for f in ctx.failures if f.get("key", "").endswith(":" + tag(c))]
        if code_side:
            st["failures"] += 1
            ctx.add_failure({"key": f"c02-ref-agree-fails:{tag(c)}",
                             "what": f"{IDS[c]}: {op} evaluates to {r!r} and the code-side oracle reports {code_side[0]['key']}: {code_side[0]['what'][:200]}"},
                            op=op, source="ref-agree")
    ctx.note("ref_agree", {f"{op} [{IDS[int(op.split(' ')[1])]}]": r for op, r in sorted(res.items())})
    ctx.note("agreement not discharged", not_discharged)
    ctx.note("agreement discharged by", {IDS[c]: ("symbolic theorem + evaluation" if c in SYMBOLIC_AGREE else "evaluation of refAgree + refAgree_sound") for c in ARITH})


def run(ctx):
    t0 = time.time()
    agree_async = c01.get_pool(ctx).map_async(_driver_eval, [f"ref.agree {k}" for k in ARITH] + ["cal.wf 4", "cal.wf 5"], chunksize=1)
    model_vs_reference(ctx)
    ctx.note("t_model_vs_reference_s", round(time.time() - t0, 1))
    pcorrespond(ctx, "reference.years", chunks(gen_year_ops(), 1500), impl, oracle, neighbours, exhaustive=True)
    ctx.note("t_years_s", round(time.time() - t0, 1))
    pcorrespond(ctx, "reference.days", chunks(gen_day_ops(ctx, ctx.scale(1500, 100000)), 4000), impl, oracle, neighbours)
    ctx.check_cases("calendar-factories.fresh-process", ["plain-ints-first"], factories_case)
    pcorrespond(ctx, "reference.day-to-date (same day into sibling calendars, interleaved)",
                chunks(gen_inverse_ops(ctx, ctx.scale(1200, 60000)), 3400), impl, oracle, neighbours)
    if ctx.thorough:
        specs = [("ops", [f"ref.pyymd {n}" for n in range(a, min(a + 50000, 3652060))]) for a in range(1, 3652060, 50000)]
        pcorrespond(ctx, "reference.iso-vs-stdlib", specs, impl, oracle, neighbours, exhaustive=True)
        ops = []
        for y in range(1, 10000):
            for m in range(1, 13):
                ops += [f"ref.pyord {y} {m} {d}" for d in range(1, gj_month_len(greg_leap(y), m) + 2)]
        pcorrespond(ctx, "reference.iso-ymd-vs-stdlib", chunks(ops, 50000), impl, oracle, neighbours, exhaustive=True)
    else:
        pcorrespond(ctx, "reference.iso-vs-stdlib", chunks(gen_iso_ops(ctx), 5000), impl, oracle, neighbours)
    finish_agree(ctx, agree_async)
    ctx.note("t_total_s", round(time.time() - t0, 1))
    ctx.note("processes", c01.nprocs(ctx))


def replay_op(op, failure):
    t = op.split(" ")
    if t[0] in ("ref.agree", "cal.wf"):
        r = common.model_eval([op], DRIVER)[0]
        return None if r == "1" else {"key": f"c02-ref-agree-fails:{tag(int(t[1]))}", "what": f"{IDS[int(t[1])]}: {op} evaluates to {r!r}"}
    return oracle(t)
