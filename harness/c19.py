"""C19 — clocks follow their simple model under any sequence of operations."""
from __future__ import annotations

import threading
import time

from common import exc_name, ints

NPD = 86_400_000_000_000
UNIT_NANOS = {"nanoseconds": 1, "ticks": 100, "milliseconds": 1_000_000, "seconds": 1_000_000_000,
              "minutes": 60_000_000_000, "hours": 3_600_000_000_000, "days": NPD}
DMAX = (1 << 30) - 1
DMIN = -(1 << 30)
DUR_MIN_NS = DMIN * NPD
DUR_MAX_NS = (DMAX + 1) * NPD - 1
IMIN, IMAX = -4371222, 2932896
INST_MIN_NS = IMIN * NPD
INST_MAX_NS = (IMAX + 1) * NPD - 1
WATCHDOG_S = 2.0

META = {
    "property": "C19",
    "proof_modules": ["PyodaProofs.C19", "PyodaProofs.GenAgreeC19"],
    "drivers": ["drv_clock"],
    "theorems": [
        "Pyoda.C19.fakeClock_refines_spec", "Pyoda.C19.step_preserves_wf",
        "Pyoda.C19.all_ops_complete", "Pyoda.C19.schedule_length_bounded", "Pyoda.C19.linearizable",
        "Pyoda.C19.concurrent_reads_distinct", "Pyoda.C19.sequential_reads_distinct",
        "Pyoda.C19.advanceUnit_blocks_counterexample", "Pyoda.C19.zonedClock_spec",
        # agreement of the definitions generated from the Python source (tools/py2lean.py) with the model
        "Pyoda.GenAgree.C19.gen_FakeClock_new_eq", "Pyoda.GenAgree.C19.gen_FakeClock_advance_eq",
        "Pyoda.GenAgree.C19.gen_FakeClock_advanceNanoseconds_eq", "Pyoda.GenAgree.C19.gen_FakeClock_advanceTicks_eq",
        "Pyoda.GenAgree.C19.gen_FakeClock_advanceMilliseconds_eq",
        "Pyoda.GenAgree.C19.gen_FakeClock_advanceSeconds_eq", "Pyoda.GenAgree.C19.gen_FakeClock_advanceMinutes_eq",
        "Pyoda.GenAgree.C19.gen_FakeClock_advanceHours_eq", "Pyoda.GenAgree.C19.gen_FakeClock_advanceDays_eq",
        "Pyoda.GenAgree.C19.gen_FakeClock_reset_eq", "Pyoda.GenAgree.C19.gen_FakeClock_getCurrentInstant_eq",
        "Pyoda.GenAgree.C19.gen_FakeClock_getAutoAdvance_eq", "Pyoda.GenAgree.C19.gen_FakeClock_setAutoAdvance_eq",
        "Pyoda.GenAgree.C19.gen_ZonedClock_zone_eq", "Pyoda.GenAgree.C19.gen_ZonedClock_calendar_eq",
        "Pyoda.GenAgree.C19.gen_ZonedClock_getCurrentInstant_eq",
        "Pyoda.GenAgree.C19.gen_ZonedClock_getCurrentZonedDateTime_eq",
        "Pyoda.GenAgree.C19.gen_ZonedClock_getCurrentLocalDateTime_eq",
        "Pyoda.GenAgree.C19.gen_ZonedClock_getCurrentOffsetDateTime_eq",
        "Pyoda.GenAgree.C19.gen_ZonedClock_getCurrentDate_eq",
        "Pyoda.GenAgree.C19.gen_ZonedClock_getCurrentTimeOfDay_eq",
        "Pyoda.GenAgree.C19.gen_FakeClock_advance_atomic",
        "Pyoda.GenAgree.C19.gen_FakeClock_advanceNanoseconds_atomic",
        "Pyoda.GenAgree.C19.gen_FakeClock_advanceTicks_atomic",
        "Pyoda.GenAgree.C19.gen_FakeClock_advanceMilliseconds_atomic",
        "Pyoda.GenAgree.C19.gen_FakeClock_advanceSeconds_atomic",
        "Pyoda.GenAgree.C19.gen_FakeClock_advanceMinutes_atomic",
        "Pyoda.GenAgree.C19.gen_FakeClock_advanceHours_atomic",
        "Pyoda.GenAgree.C19.gen_FakeClock_advanceDays_atomic", "Pyoda.GenAgree.C19.gen_FakeClock_reset_atomic",
        "Pyoda.GenAgree.C19.gen_FakeClock_getCurrentInstant_atomic",
        "Pyoda.GenAgree.C19.gen_FakeClock_getAutoAdvance_atomic",
        "Pyoda.GenAgree.C19.gen_FakeClock_setAutoAdvance_atomic", "Pyoda.GenAgree.C19.gen_ZonedClock_zone_atomic",
        "Pyoda.GenAgree.C19.gen_ZonedClock_calendar_atomic",
        "Pyoda.GenAgree.C19.gen_ZonedClock_getCurrentInstant_atomic",
        "Pyoda.GenAgree.C19.gen_ZonedClock_getCurrentZonedDateTime_atomic",
        "Pyoda.GenAgree.C19.gen_ZonedClock_getCurrentLocalDateTime_atomic",
        "Pyoda.GenAgree.C19.gen_ZonedClock_getCurrentOffsetDateTime_atomic",
        "Pyoda.GenAgree.C19.gen_ZonedClock_getCurrentDate_atomic",
        "Pyoda.GenAgree.C19.gen_ZonedClock_getCurrentTimeOfDay_atomic",
        "Pyoda.GenAgree.C19.all_ops_atomic_in_source", "Pyoda.GenAgree.C19.gen_FakeClock_shared",
    ],
    "trusted_base": [
        "CPython executes one lock acquire/release and one attribute read or write of FakeClock as indivisible steps (GIL); "
        "threading.Lock is not re-entrant and `with lock:` releases it on every exit path",
        "Duration/Instant arithmetic as modelled for C03 (PyodaModel.Elapsed)",
        "translator tie (tools/py2lean.py; GenAgreeC19): every public operation of FakeClock (constructor, advance, the seven advance_<unit>, reset, get_current_instant, the auto_advance getter and setter) and the ZonedClock getters are re-translated from the source on every run as state-passing functions over (now, auto_advance) and proved equal to one `step` / `zonedRead` of the model. `with self.__lock:` is translated as its body (the equations speak about ONE thread using the clock; the interleavings are the Sys model), and the Sys model's assumption that every operation is ONE critical section is tied too: the translator emits the lock discipline of each method as data (`<op>.lockInfo`: attributes read/written, every access to mutable state inside `with self.__lock:`, number of critical sections, same-class calls while holding the lock, steps outside it) and `gen_<op>_atomic` / `all_ops_atomic_in_source` check `LockInfo.Atomic` on it on every run (trusted: the syntactic classification of reads, writes and in-place mutators in tools/py2lean.py `lock_discipline`, exercised by the translator self-test); Instant + Duration and Duration.from_<unit> are the model's (tied by GenAgreeC03); ZonedClock is specialised to a wrapped FakeClock, Instant.in_zone and the projections of the ZonedDateTime are abstract functions; FakeClock.from_utc (calendar arithmetic) and the default auto_advance=Duration.zero are outside the tie",
    ],
    "partial": [
        "SystemClock (operating-system time) and real pre-emption are runtime behaviours: sanity-checked by the harness only "
        "(|SystemClock − time.time_ns()| < 50 ms; 2–16 real threads), not modelled",
        "ZonedClock: the model says each getter is one read of the wrapped clock passed through a view function; that the view is "
        "Instant.in_zone(zone, calendar) and its projections is checked by the harness on the real objects (C11 owns in_zone itself)",
        "advance_ticks amounts are kept inside ±2^62 ticks: Duration.from_ticks beyond that is C03's subject",
    ],
    "rule": "a history = one op line (initial state + 1..40 operations); distinct = distinct op line; non-trivial = every history "
            "(all contain a state-changing or state-reading call)",
}


def _P():
    import pyoda_time as P
    return P


def dur(d, n):
    return _P().Duration._ctor(days=d, nano_of_day=n)


def inst(d, n):
    return _P().Instant._ctor(days=d, nano_of_day=n)


def si(x):
    return ints(x._days_since_epoch, x._nanosecond_of_day)


def sd(x):
    return ints(x._floor_days, x._nanosecond_of_floor_day)


# ---------------------------------------------------------------------------------------------
# watchdog: every call on a clock runs in a daemon thread; a call that does not return within
# WATCHDOG_S is a *blocked* call (the thread is left behind, the history is over)
# ---------------------------------------------------------------------------------------------

class Blocked(Exception):
    pass


_known_blockers: dict[str, int] = {}


def call_with_watchdog(name, fn):
    """-> ('ok', value) | ('exc', exception); raises Blocked if fn() does not return in time"""
    box = []

    def body():
        try:
            box.append(("ok", fn()))
        except BaseException as e:  # noqa: BLE001
            box.append(("exc", e))

    th = threading.Thread(target=body, daemon=True, name="c19-" + name)
    th.start()
    th.join(_timeout_for(name))
    if th.is_alive():
        _known_blockers[name] = _known_blockers.get(name, 0) + 1
        raise Blocked(name)
    return box[0]


def parse_history(t):
    """tokens after 'clk.run' -> (initial (nd, nn, ad, an), [op tuples])"""
    a = t[1:]
    init = tuple(int(x) for x in a[0:4])
    ops, i = [], 4
    while i < len(a):
        k = a[i]
        if k in ("r", "g"):
            ops.append((k,))
            i += 1
        elif k in ("a", "s", "A"):
            ops.append((k, int(a[i + 1]), int(a[i + 2])))
            i += 3
        elif k == "u":
            ops.append((k, a[i + 1], int(a[i + 2])))
            i += 3
        else:
            raise ValueError("bad history token " + k)
    return init, ops


def op_name(op):
    return {"r": "get_current_instant", "g": "auto_advance", "a": "advance", "s": "reset", "A": "auto_advance.setter"}.get(op[0]) \
        or "advance_" + op[1]


def apply_op(clock, op):
    """the real call for one op; returns the canonical item"""
    k = op[0]
    if k == "r":
        return "i " + si(clock.get_current_instant())
    if k == "g":
        return "d " + sd(clock.auto_advance)
    if k == "a":
        clock.advance(dur(op[1], op[2]))
        return "ok"
    if k == "s":
        clock.reset(inst(op[1], op[2]))
        return "ok"
    if k == "A":
        clock.auto_advance = dur(op[1], op[2])
        return "ok"
    if k == "u":
        getattr(clock, "advance_" + op[1])(op[2])
        return "ok"
    raise ValueError(k)


_last_run = [None, None]


def run_history(init, ops):
    """-> (items, final_state_str | None, blocked_op | None); the most recent history's result is kept so that impl and the
    oracle of one op line share one execution of the real code (histories are deterministic)"""
    key = (init, tuple(ops))
    if _last_run[0] == key:
        return _last_run[1]
    _last_run[0], _last_run[1] = key, _run_history(init, ops)
    return _last_run[1]


def _timeout_for(name):
    # a method already seen blocking for the full watchdog period is given a shorter period afterwards
    # (a deadlocked call never returns; this only bounds the cost of re-observing the same defect)
    return WATCHDOG_S if _known_blockers.get(name, 0) < 1 else 0.02


def _run_history(init, ops):
    """One daemon worker thread performs the calls in order and reports each result; the caller waits for every single
    call with the watchdog period. A call that does not report in time is blocked: the worker is left behind."""
    import queue
    from pyoda_time.testing import FakeClock
    clock = FakeClock(inst(init[0], init[1]), dur(init[2], init[3]))
    q: queue.SimpleQueue = queue.SimpleQueue()

    def worker():
        for op in ops:
            try:
                q.put(apply_op(clock, op))
            except BaseException as e:  # noqa: BLE001
                q.put(exc_name(e))

    th = threading.Thread(target=worker, daemon=True, name="c19-history")
    th.start()
    items = []
    for op in ops:
        name = op_name(op)
        try:
            items.append(q.get(timeout=_timeout_for(name)))
        except queue.Empty:
            _known_blockers[name] = _known_blockers.get(name, 0) + 1
            items.append("!blocked")
            return items, None, op
    th.join(WATCHDOG_S)
    # final state through the name-mangled fields (no further calls that could block or auto-advance)
    fin = si(clock._FakeClock__now) + " " + sd(clock._FakeClock__auto_advance)
    return items, fin, None


def impl(t):
    init, ops = parse_history(t)
    items, fin, blocked = run_history(init, ops)
    return " ; ".join(items) + " = " + (fin if fin is not None else "?")


# ---------------------------------------------------------------------------------------------
# direct oracle: the trivial model in plain Python integers
# ---------------------------------------------------------------------------------------------

def add_instant(now, d):
    v = now + d
    if not (DUR_MIN_NS <= v <= DUR_MAX_NS):
        return "!valueError"
    if not (INST_MIN_NS <= v <= INST_MAX_NS):
        return "!overflowError"
    return v


def spec_history(init, ops):
    now, auto = init[0] * NPD + init[1], init[2] * NPD + init[3]
    out = []
    for op in ops:
        k = op[0]
        if k == "r":
            r = add_instant(now, auto)
            if isinstance(r, str):
                out.append(r)
            else:
                out.append(("i", now))
                now = r
        elif k == "g":
            out.append(("d", auto))
        elif k in ("a", "u"):
            if k == "a":
                d = op[1] * NPD + op[2]
            else:
                d = op[2] * UNIT_NANOS[op[1]]
                if not (DUR_MIN_NS <= d <= DUR_MAX_NS):
                    out.append("!valueError")
                    continue
            r = add_instant(now, d)
            if isinstance(r, str):
                out.append(r)
            else:
                out.append("ok")
                now = r
        elif k == "s":
            now = op[1] * NPD + op[2]
            out.append("ok")
        elif k == "A":
            auto = op[1] * NPD + op[2]
            out.append("ok")
    return out, now, auto


def _item_value(item):
    """canonical item of the real run -> comparable with the spec's"""
    if item.startswith("i ") or item.startswith("d "):
        d, n = item[2:].split(" ")
        if not (0 <= int(n) < NPD):
            return ("denormalised", item)
        return (item[0], int(d) * NPD + int(n))
    return item


def oracle(t):
    init, ops = parse_history(t)
    items, fin, blocked = run_history(init, ops)
    hist = " ".join(t[1:])
    if blocked is not None:
        idx = len(items) - 1
        key = "fakeclock-advance-unit-blocks" if blocked[0] == "u" else "fakeclock-call-blocks"
        return {"key": key,
                "what": f"FakeClock.{op_name(blocked)}({blocked[-1]}) (operation #{idx + 1} of the history `{hist}`) did not return "
                        f"within {WATCHDOG_S} s: the call blocks forever (every operation must complete)"}
    exp, now, auto = spec_history(init, ops)
    got = [_item_value(x) for x in items]
    for i, (g, e) in enumerate(zip(got, exp)):
        if g != e:
            return {"key": "fakeclock-output", "what": f"history `{hist}`: operation #{i + 1} {ops[i]} returned {items[i]!r}, "
                    f"the trivial model says {e!r}"}
    fd = [int(x) for x in fin.split(" ")]
    if (fd[0] * NPD + fd[1], fd[2] * NPD + fd[3]) != (now, auto) or not (0 <= fd[1] < NPD and 0 <= fd[3] < NPD):
        return {"key": "fakeclock-final-state", "what": f"history `{hist}`: final state {fin}, the trivial model says now={now} auto={auto}"}
    return None


def neighbours(t):
    """shorter histories: every prefix (a failing prefix is the smaller counterexample)"""
    init, ops = parse_history(t)
    out = []
    for n in range(1, len(ops)):
        out.append(fmt_history(init, ops[:n]))
    return out


def fmt_history(init, ops):
    return "clk.run " + " ".join(map(str, init)) + " " + " ".join(" ".join(map(str, op)) for op in ops)


# ---------------------------------------------------------------------------------------------
# generators
# ---------------------------------------------------------------------------------------------

def split(ns):
    return divmod(ns, NPD)


def gen_amount_ns(rng):
    k = rng.random()
    if k < 0.25:
        return rng.choice([0, 1, -1, 100, -100, NPD, -NPD, NPD - 1, 10**9, -10**9])
    if k < 0.7:
        return rng.randint(-10**6, 10**6) * rng.choice(list(UNIT_NANOS.values()))
    if k < 0.9:
        return rng.randint(-40 * 366 * NPD, 40 * 366 * NPD)
    return rng.choice([DUR_MIN_NS, DUR_MAX_NS, INST_MAX_NS - INST_MIN_NS, -(INST_MAX_NS - INST_MIN_NS),
                       rng.randint(DUR_MIN_NS, DUR_MAX_NS)])


def gen_instant_ns(rng):
    k = rng.random()
    if k < 0.15:
        return rng.choice([INST_MIN_NS, INST_MAX_NS, 0, -1, 1, INST_MIN_NS + 5, INST_MAX_NS - 5])
    if k < 0.75:
        return rng.randint(-60 * 366 * NPD, 80 * 366 * NPD)
    return rng.randint(INST_MIN_NS, INST_MAX_NS)


def gen_unit_op(rng, now_hint):
    u = rng.choice(list(UNIT_NANOS))
    un = UNIT_NANOS[u]
    k = rng.random()
    if k < 0.6:
        n = rng.choice([0, 1, -1, 2, 7, -7, 59, 60, 61, 1000, -1000, rng.randint(-10**4, 10**4)])
    elif k < 0.8:
        n = gen_amount_ns(rng) // un
    elif k < 0.9:   # land near the ends of the Instant range
        tgt = rng.choice([INST_MIN_NS, INST_MAX_NS]) + rng.randint(-3, 3) * un
        n = (tgt - now_hint) // un + rng.choice([-1, 0, 1])
    else:           # out of the Duration range (ValueError expected)
        n = rng.choice([DUR_MAX_NS // un + 1, DUR_MIN_NS // un - 1, DUR_MAX_NS // un, DUR_MIN_NS // un,
                        rng.choice([-1, 1]) * rng.randint(DUR_MAX_NS // un, 4 * (DUR_MAX_NS // un))])
    if u == "ticks":
        n = max(-(2**62), min(2**62, n))
    return ("u", u, n)


def gen_history(rng, with_units=True, length=None):
    now = gen_instant_ns(rng)
    auto = 0 if rng.random() < 0.3 else gen_amount_ns(rng) if rng.random() < 0.8 else rng.choice([1, -1, 100])
    auto = max(DUR_MIN_NS, min(DUR_MAX_NS, auto))
    init = split(now) + split(auto)
    n = length or rng.choice([1, 2, 3, 5, 8, 13, 25, 40])
    ops = []
    for _ in range(n):
        k = rng.random()
        if k < 0.35:
            ops.append(("r",))
        elif k < 0.45:
            ops.append(("g",))
        elif k < 0.6:
            d = gen_amount_ns(rng)
            if rng.random() < 0.1:
                d = rng.choice([INST_MIN_NS, INST_MAX_NS]) - now + rng.randint(-2, 2)
            ops.append(("a",) + split(max(DUR_MIN_NS, min(DUR_MAX_NS, d))))
        elif k < 0.8:
            ops.append(gen_unit_op(rng, now) if with_units else ("a",) + split(max(DUR_MIN_NS, min(DUR_MAX_NS, gen_amount_ns(rng)))))
        elif k < 0.9:
            now = gen_instant_ns(rng)
            ops.append(("s",) + split(now))
        else:
            ops.append(("A",) + split(max(DUR_MIN_NS, min(DUR_MAX_NS, gen_amount_ns(rng) if rng.random() < 0.8 else 0))))
    return fmt_history(init, ops)


def gen_ops(ctx):
    rng = ctx.rng
    ops = []
    # every advance_<unit> once, alone, from the epoch (smallest histories first)
    for u in UNIT_NANOS:
        ops.append(fmt_history((0, 0, 0, 0), [("u", u, 1)]))
        ops.append(fmt_history((0, 0, 0, 0), [("u", u, -1), ("r",)]))
        un = UNIT_NANOS[u]
        ops.append(fmt_history((0, 0, 0, 0), [("u", u, DUR_MAX_NS // un + 1), ("r",)]))     # ValueError, state unchanged
        ops.append(fmt_history((IMAX, 0, 0, 0), [("u", u, NPD // un), ("r",)]))              # OverflowError, state unchanged
    ops.append(fmt_history((0, 0, 0, 1), [("r",), ("r",), ("r",)]))
    ops.append(fmt_history((IMAX, NPD - 1, 0, 1), [("r",), ("r",)]))                           # auto-advance overflows on read
    ops.append(fmt_history((IMIN, 0, -1, NPD - 1), [("r",), ("g",), ("A", 0, 0), ("r",)]))
    for _ in range(ctx.scale(2500, 60000)):
        ops.append(gen_history(rng, with_units=False))
    for _ in range(ctx.scale(500, 30000)):
        ops.append(gen_history(rng, with_units=True))
    return ops


# ---------------------------------------------------------------------------------------------
# real threads
# ---------------------------------------------------------------------------------------------

def threaded_case(case):
    """(n_threads, reads_per_thread, now_ns, auto_ns, advancers, use_unit) -> failure | None
    n_threads readers hammer get_current_instant(); `advancers` extra threads call advance()/advance_<unit>()."""
    import sys
    from pyoda_time.testing import FakeClock
    if case[0] == "mixed":
        return mixed_threads_case(case)
    if case[0] == "reset-race":
        return reset_race_case(case)
    nthr, k, now, auto, advancers, use_unit = case
    clock = FakeClock(inst(*split(now)), dur(*split(auto)))
    start = threading.Barrier(nthr + advancers)
    results = [[] for _ in range(nthr)]
    errors = []
    adv_each, adv_n = 1_000, 20     # every advancer: 20 calls of 1000 ns (advance(Duration)) or 1 µs via advance_ticks(10)

    def reader(i):
        try:
            start.wait(WATCHDOG_S)
            mine = results[i]
            for _ in range(k):
                mine.append(clock.get_current_instant())
        except BaseException as e:  # noqa: BLE001
            errors.append(e)

    def advancer(i):
        try:
            start.wait(WATCHDOG_S)
            for _ in range(adv_n):
                if use_unit:
                    clock.advance_ticks(adv_each // 100)
                else:
                    clock.advance(dur(0, adv_each))
        except BaseException as e:  # noqa: BLE001
            errors.append(e)

    ths = [threading.Thread(target=reader, args=(i,), daemon=True) for i in range(nthr)]
    ths += [threading.Thread(target=advancer, args=(i,), daemon=True) for i in range(advancers)]
    old = sys.getswitchinterval()
    sys.setswitchinterval(1e-6)
    try:
        for th in ths:
            th.start()
        deadline = time.time() + WATCHDOG_S + 0.002 * nthr * k
        for th in ths:
            th.join(max(0.0, deadline - time.time()))
    finally:
        sys.setswitchinterval(old)
    alive = sum(th.is_alive() for th in ths)
    if alive:
        return {"key": "fakeclock-advance-unit-blocks" if use_unit and advancers else "fakeclock-threads-block",
                "what": f"{alive} of {len(ths)} threads using one FakeClock ({nthr} readers x {k} reads, {advancers} advancers via "
                        f"{'advance_ticks' if use_unit else 'advance'}) never finished: a call blocks forever"}
    if errors:
        return {"key": "fakeclock-threads-exception", "what": f"thread raised {type(errors[0]).__name__}: {errors[0]}"}
    vals = [x._days_since_epoch * NPD + x._nanosecond_of_day for r in results for x in r]
    total_adv = advancers * adv_n * adv_each
    fin = clock._FakeClock__now
    fin = fin._days_since_epoch * NPD + fin._nanosecond_of_day
    if fin != now + nthr * k * auto + total_adv:
        return {"key": "fakeclock-lost-update", "what": f"{nthr} readers x {k} reads (auto {auto} ns) + {advancers} advancers: final time "
                f"{fin}, expected {now + nthr * k * auto + total_adv} (an update was lost)"}
    if auto != 0 and len(set(vals)) != len(vals):
        if advancers == 0 or (auto > 0):   # advances are positive: with auto > 0 time is strictly increasing
            return {"key": "fakeclock-duplicate-read", "what": f"{nthr} threads x {k} reads with auto-advance {auto} ns returned "
                    f"{len(vals) - len(set(vals))} duplicate instants"}
    if advancers == 0 and sorted(vals) != sorted(now + i * auto for i in range(nthr * k)):
        return {"key": "fakeclock-concurrent-reads", "what": f"{nthr} threads x {k} reads: the returned instants are not {{now + i*auto}}"}
    for r in results:   # per thread, in program order, time moves in the direction of auto
        v = [x._days_since_epoch * NPD + x._nanosecond_of_day for x in r]
        if auto > 0 and any(b <= a for a, b in zip(v, v[1:])) or auto < 0 and advancers == 0 and any(b >= a for a, b in zip(v, v[1:])):
            return {"key": "fakeclock-concurrent-reads", "what": "a thread saw time not moving in the direction of auto-advance"}
    return None


def mixed_threads_case(case):
    """("mixed", n_threads, ops_per_thread, seed): EVERY public FakeClock operation from several threads at once -
    reads, advance, advance_<unit>, reset, auto_advance assignment and reading. The property asks that every
    operation completes; two locks taken in opposite orders by two operations only show when both run concurrently."""
    import random
    import sys
    from pyoda_time.testing import FakeClock
    _, nthr, k, seed = case
    clock = FakeClock(inst(0, 0), dur(0, 1))
    start = threading.Barrier(nthr)
    errors = []
    done = [0] * nthr

    def worker(i):
        rng = random.Random(seed * 131 + i)
        role = i % 4
        try:
            start.wait(WATCHDOG_S)
            for _ in range(k):
                r = rng.random()
                if role == 0 or r < 0.25:
                    clock.get_current_instant()
                elif role == 1 or r < 0.5:
                    clock.auto_advance = dur(0, rng.choice([0, 1, 7, 1000]))
                    _ = clock.auto_advance
                elif role == 2 or r < 0.75:
                    rng.choice([lambda: clock.advance(dur(0, 5)), lambda: clock.advance_ticks(1), lambda: clock.advance_seconds(1),
                                lambda: clock.advance_nanoseconds(3), lambda: clock.advance_milliseconds(1)])()
                else:
                    clock.reset(inst(0, rng.randrange(10**9)))
                done[i] += 1
        except BaseException as e:  # noqa: BLE001
            errors.append(e)

    ths = [threading.Thread(target=worker, args=(i,), daemon=True) for i in range(nthr)]
    old = sys.getswitchinterval()
    sys.setswitchinterval(1e-6)
    try:
        for th in ths:
            th.start()
        deadline = time.time() + WATCHDOG_S + 0.002 * nthr * k
        for th in ths:
            th.join(max(0.0, deadline - time.time()))
    finally:
        sys.setswitchinterval(old)
    alive = sum(th.is_alive() for th in ths)
    if alive:
        return {"key": "fakeclock-threads-block", "what": f"{alive} of {nthr} threads mixing reads, advances, resets and auto_advance "
                f"assignments on one FakeClock never finished (completed operations per thread: {done}, expected {k} each): a call blocks forever"}
    if errors:
        return {"key": "fakeclock-threads-exception", "what": f"thread raised {type(errors[0]).__name__}: {errors[0]}"}
    return None


def reset_race_case(case):
    """("reset-race", n_readers, seconds, what): one thread resets (or advances) the clock and reads it back while other
    threads keep reading with a 1 ns auto-advance. In the model every operation is one atomic step, so the read that
    follows reset(X) on the same thread is X plus one nanosecond per read the other threads got in between - never a
    value from before the reset (a lost update of a read-modify-write that the reset fell into)."""
    import sys
    from pyoda_time.testing import FakeClock
    _, nread, seconds, what = case
    HOUR = 3600 * 10**9
    clock = FakeClock(inst(0, 0), dur(0, 1))
    stop = threading.Event()
    reads = [0] * nread

    def reader(i):
        while not stop.is_set():
            clock.get_current_instant()
            reads[i] += 1

    ths = [threading.Thread(target=reader, args=(i,), daemon=True) for i in range(nread)]
    old = sys.getswitchinterval()
    sys.setswitchinterval(1e-6)
    bad = None
    n = 0
    try:
        for th in ths:
            th.start()
        t0 = time.time()
        cur = 0
        while time.time() - t0 < seconds and bad is None:
            n += 1
            if what == "reset":
                cur = (n * HOUR) % (10**6 * HOUR)
                clock.reset(add_instant_ns(cur))
                lo = cur
            else:
                before = ns_of(clock.get_current_instant())
                clock.advance(dur(0, HOUR))
                lo = before + HOUR
            r = ns_of(clock.get_current_instant())
            if not (lo <= r < lo + HOUR // 2):
                bad = (n, lo, r)
    finally:
        stop.set()
        for th in ths:
            th.join(5)
        sys.setswitchinterval(old)
    if bad:
        n, lo, r = bad
        return {"key": "fakeclock-update-lost-under-concurrent-reads", "what": f"{what} #{n} returned, and the next read on the same thread gave "
                f"{r} ns since the epoch; every linearisation of the history gives at least {lo} (and less than half an hour more): "
                f"the {what} was overwritten by a concurrent read's write-back ({sum(reads)} reads by {nread} other threads so far)"}
    return None


def add_instant_ns(ns):
    return inst(ns // NPD_, ns % NPD_)


def ns_of(i):
    return i._days_since_epoch * NPD_ + i._nanosecond_of_day


NPD_ = 86_400 * 10**9


def threaded_cases(ctx):
    rng = ctx.rng
    out = []
    for nread, what in ((2, "reset"), (4, "reset"), (2, "advance")):
        out.append(("reset-race", nread, ctx.scale(1.5, 12.0), what))
    for nthr in ([2, 3, 4, 8, 16] if not ctx.thorough else list(range(2, 17))):
        for rep in range(ctx.scale(2, 12)):
            auto = rng.choice([1, -1, 100, 10**9, -10**9, rng.randint(1, 10**12), -rng.randint(1, 10**12)])
            out.append((nthr, ctx.scale(300, 3000), rng.randint(-10**18, 10**18), auto, 0, False))
        out.append((nthr, ctx.scale(200, 2000), rng.randint(-10**18, 10**18), rng.randint(1, 10**6), 2, False))
    out.append((4, 200, 0, 1, 2, True))      # advance_<unit> from other threads while reading
    out.append((16, 100, 0, 7, 4, True))
    for nthr in (2, 4, 8):
        for rep in range(ctx.scale(2, 10)):
            out.append(("mixed", nthr, ctx.scale(4000, 20000), rng.randint(0, 10**6)))
    return out


def other_clock_cases(ctx):
    return ([("system", i) for i in range(5)] + [("zoned", i) for i in range(ctx.scale(60, 2000))]
            + [("zoned_hist", i) for i in range(ctx.scale(60, 2000))] + [("from_utc", i) for i in range(20)])


def check_zoned_history(i):
    """ONE ZonedClock used for a whole history: the wrapped FakeClock is moved forwards and BACKWARDS across real
    zone transitions (advance, reset, auto-advance of either sign, auto-advance changed between reads) and every
    getter must render the instant the trivial clock model predicts, in the zone and calendar, reading once."""
    import random
    from pyoda_time import CalendarSystem, DateTimeZoneProviders, ZonedClock
    from pyoda_time.testing import FakeClock
    rng = random.Random(104729 * i + 7)
    zid = rng.choice(["Europe/London", "America/New_York", "Australia/Lord_Howe", "Pacific/Apia", "Africa/Casablanca",
                      "America/St_Johns", "Asia/Tehran", "Europe/Dublin", "Antarctica/Troll", "Asia/Kathmandu"])
    zone = DateTimeZoneProviders.tzdb[zid]
    cal = CalendarSystem.for_id(rng.choice(["ISO", "ISO", "Julian", "Coptic", "Persian Simple", "Hebrew Civil"]))
    # several ZonedClocks share the wrapped clock: other calendars in the same zone, the same calendar elsewhere
    # (state shared between ZonedClock instances must not leak from one view into another)
    others = []
    for _ in range(rng.randint(1, 3)):
        oz = zone if rng.random() < 0.6 else DateTimeZoneProviders.tzdb[rng.choice(["Europe/Paris", "Asia/Tokyo", "America/New_York"])]
        oc = CalendarSystem.for_id(rng.choice(["ISO", "Julian", "Coptic", "Persian Simple", "Hebrew Civil", "Gregorian"]))
        others.append((oz, oc))
    # transitions of the zone near a seeded instant
    t0 = rng.randint(-20 * 366 * NPD, 60 * 366 * NPD)
    trans = []
    cur = zone.get_zone_interval(inst(*split(t0)))
    for _ in range(4):
        if not cur.has_end:
            break
        e = cur.end
        trans.append(e._days_since_epoch * NPD + e._nanosecond_of_day)
        cur = zone.get_zone_interval(e)
    if not trans:
        trans = [t0]
    now = rng.choice(trans) + rng.choice([-1, 0, 1, -3600 * 10**9, 3600 * 10**9, rng.randint(-NPD, NPD)])
    auto = rng.choice([0, 0, 1, -1, 60 * 10**9, -20 * 60 * 10**9, rng.randint(-2 * NPD, 2 * NPD)])
    base = FakeClock(inst(*split(now)), dur(*split(auto)))
    views = [(ZonedClock(base, z_, c_), z_, c_) for z_, c_ in [(zone, cal)] + others]
    getter_names = ["get_current_instant", "get_current_zoned_date_time", "get_current_local_date_time",
                    "get_current_offset_date_time", "get_current_date", "get_current_date", "get_curent_time_of_day"]

    def view_of(name, z_, c_):
        return {"get_current_instant": lambda i_: i_, "get_current_zoned_date_time": lambda i_: i_.in_zone(z_, c_),
                "get_current_local_date_time": lambda i_: i_.in_zone(z_, c_).local_date_time,
                "get_current_offset_date_time": lambda i_: i_.in_zone(z_, c_).to_offset_date_time(),
                "get_current_date": lambda i_: i_.in_zone(z_, c_).date,
                "get_curent_time_of_day": lambda i_: i_.in_zone(z_, c_).time_of_day}[name]
    hist = []
    for step in range(rng.randint(8, 24)):
        k = rng.random()
        if k < 0.3:
            tgt = rng.choice(trans) + rng.choice([-1, 0, 1, -60 * 10**9, 60 * 10**9, -7200 * 10**9, 7200 * 10**9, rng.randint(-NPD, NPD)])
            base.reset(inst(*split(tgt)))
            now = tgt
            hist.append(f"reset({tgt})")
        elif k < 0.5:
            d = rng.choice([-1, 1, -3600 * 10**9, 3600 * 10**9, -NPD, NPD, rng.choice(trans) - now - 1, rng.choice(trans) - now])
            base.advance(dur(*split(d)))
            now += d
            hist.append(f"advance({d})")
        elif k < 0.6:
            auto = rng.choice([0, 1, -1, 60 * 10**9, -20 * 60 * 10**9, rng.randint(-NPD, NPD)])
            base.auto_advance = dur(*split(auto))
            hist.append(f"auto_advance={auto}")
        name = rng.choice(getter_names)
        zc, vz, vc = rng.choice(views) if rng.random() < 0.7 else views[0]
        view = view_of(name, vz, vc)
        expected_instant = inst(*split(now))
        kind_, got = call_with_watchdog("zoned." + name, getattr(zc, name))
        hist.append(f"{name}@{vz.id}/{vc.id}")
        if kind_ != "ok":
            return {"key": "zonedclock-history", "what": f"ZonedClock({zid}, {cal.id}) after {hist}: {name}() raised {type(got).__name__}: {got}"}
        exp = view(expected_instant)
        if got != exp or getattr(got, "calendar", vc) != vc:
            return {"key": "zonedclock-history", "what": f"ZonedClock({vz.id}, {vc.id}) after {hist[-12:]}: {name}() = {got!r}; the model clock reads "
                    f"{expected_instant!r}, which renders as {exp!r}"}
        now += auto
        fin = base._FakeClock__now
        if fin._days_since_epoch * NPD + fin._nanosecond_of_day != now:
            return {"key": "zonedclock-reads-once", "what": f"ZonedClock({zid}) after {hist[-12:]}: the wrapped clock was not read exactly once by {name}()"}
    return None


def check_other(case):
    P = _P()
    import random
    kind, i = case
    if kind == "zoned_hist":
        return check_zoned_history(i)
    rng = random.Random(7919 * i + 13)
    if kind == "system":
        from pyoda_time import SystemClock
        c = SystemClock.instance
        if c is not SystemClock.instance:
            return {"key": "systemclock-singleton", "what": "SystemClock.instance is not a singleton"}
        t0 = time.time_ns()
        x = c.get_current_instant()
        t1 = time.time_ns()
        v = x._days_since_epoch * NPD + x._nanosecond_of_day
        if not (t0 - 50_000_000 <= v <= t1 + 50_000_000):
            return {"key": "systemclock-os-time", "what": f"SystemClock reports {v} ns, time.time_ns() was in [{t0}, {t1}]"}
        y = c.get_current_instant()
        if (y - x).to_nanoseconds() < -50_000_000:
            return {"key": "systemclock-os-time", "what": "SystemClock went back by more than 50 ms between two reads"}
        # scripted operating-system time (time.time_ns replaced for the duration of the case): forward steps, small and
        # large backward steps, repeated values - every read must be exactly the OS value, from exactly one OS read
        base = 1_800_000_000 * 10**9 + i * 977
        script = [base, base + 5_000_000, base + 2_000_000, base + 3_000_000, base + 3_000_000, base + 3_000_000 - 999_999_999,
                  base + 10**9, base + 10**9 - 1, base - 7200 * 10**9, base + 86400 * 10**9, base + 86400 * 10**9 - 10**9]
        calls = []
        real = time.time_ns
        it = iter(script)

        def fake():
            v = next(it)
            calls.append(v)
            return v
        time.time_ns = fake
        try:
            got = []
            for _ in script:
                r = c.get_current_instant()
                got.append(r._days_since_epoch * NPD + r._nanosecond_of_day)
        finally:
            time.time_ns = real
        if calls != script[:len(calls)] or len(calls) != len(script):
            return {"key": "systemclock-os-time", "what": f"SystemClock made {len(calls)} operating-system time reads for {len(script)} calls"}
        for n, (g, w) in enumerate(zip(got, script)):
            if g != w:
                return {"key": "systemclock-os-time", "what": f"scripted OS time: read {n} returned epoch + {g} ns, the operating system said epoch + {w} ns "
                        f"({g - w:+d} ns off; previous OS values {script[max(0, n - 2):n]})"}
        return None
    if kind == "from_utc":
        from pyoda_time.testing import FakeClock
        y, mo, d = rng.randint(-9000, 9000), rng.randint(1, 12), rng.randint(1, 28)
        h, mi, s = rng.randint(0, 23), rng.randint(0, 59), rng.randint(0, 59)
        c = FakeClock.from_utc(y, mo, d, h, mi, s)
        kind_, v = call_with_watchdog("get_current_instant", c.get_current_instant)
        if kind_ != "ok" or v != P.Instant.from_utc(y, mo, d, h, mi, s) or c.auto_advance != P.Duration.zero:
            return {"key": "fakeclock-from-utc", "what": f"FakeClock.from_utc({y},{mo},{d},{h},{mi},{s}) reads {v}"}
        return None
    # zoned
    from pyoda_time import CalendarSystem, DateTimeZone, DateTimeZoneProviders, Offset, ZonedClock
    from pyoda_time.testing import FakeClock
    zone = rng.choice([
        DateTimeZone.utc,
        DateTimeZone.for_offset(Offset.from_seconds(rng.randint(-64800, 64800))),
        DateTimeZoneProviders.tzdb[rng.choice(["Europe/London", "America/New_York", "Asia/Tokyo", "Australia/Lord_Howe", "Pacific/Apia"])],
    ])
    cal = CalendarSystem.for_id(rng.choice(["ISO", "Gregorian", "Julian", "Coptic", "Persian Simple"]))
    now = rng.randint(-30 * 366 * NPD, 60 * 366 * NPD)
    auto = rng.choice([0, 1, NPD, rng.randint(-10**15, 10**15)])
    base = FakeClock(inst(*split(now)), dur(*split(auto)))
    zc = ZonedClock(base, zone, cal)
    if zc.clock is not base or zc.zone is not zone or zc.calendar is not cal:
        return {"key": "zonedclock-properties", "what": "ZonedClock does not report the objects it was built with"}
    getters = [("get_current_instant", lambda z: z), ("get_current_zoned_date_time", lambda z: z.in_zone(zone, cal)),
               ("get_current_local_date_time", lambda z: z.in_zone(zone, cal).local_date_time),
               ("get_current_offset_date_time", lambda z: z.in_zone(zone, cal).to_offset_date_time()),
               ("get_current_date", lambda z: z.in_zone(zone, cal).date),
               ("get_curent_time_of_day", lambda z: z.in_zone(zone, cal).time_of_day)]
    rng.shuffle(getters)
    for n, (name, view) in enumerate(getters):
        expected_instant = inst(*split(now + n * auto))
        kind_, got = call_with_watchdog("zoned." + name, getattr(zc, name))
        if kind_ != "ok":
            return {"key": "zonedclock-view", "what": f"ZonedClock.{name}() raised {type(got).__name__}: {got}"}
        exp = view(expected_instant)
        if got != exp:
            return {"key": "zonedclock-view", "what": f"ZonedClock({zone.id}, {cal.id}).{name}() = {got!r}; the wrapped clock's instant "
                    f"{expected_instant!r} rendered in the zone/calendar is {exp!r}"}
        if name == "get_current_zoned_date_time" and (got.zone is not zone or got.calendar != cal or got.to_instant() != expected_instant):
            return {"key": "zonedclock-view", "what": f"ZonedClock.{name}(): zone/calendar/instant of the result are wrong"}
    fin = base._FakeClock__now
    if fin._days_since_epoch * NPD + fin._nanosecond_of_day != now + len(getters) * auto:
        return {"key": "zonedclock-reads-once", "what": "a ZonedClock getter did not read the wrapped clock exactly once"}
    return None


def run(ctx):
    ctx.correspond("clock.histories", gen_ops(ctx), impl, oracle=oracle, neighbours=neighbours)
    ctx.check_cases("clock.threads", threaded_cases(ctx), threaded_case)
    ctx.check_cases("clock.zoned_system", other_clock_cases(ctx), check_other)
    if _known_blockers:
        ctx.note("blocked_calls_observed", dict(_known_blockers))


def replay_op(op, failure):
    if op.startswith("clk.run"):
        return oracle(op.split(" "))
    import ast
    case = ast.literal_eval(op)
    if isinstance(case, tuple) and (len(case) == 6 or case[0] in ("mixed", "reset-race")):
        return threaded_case(case)
    return check_other(case)
