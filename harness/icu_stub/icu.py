"""Minimal stand-in for PyICU, used only when no ICU shared library can be found.
With it `import pyoda_time` works and the invariant culture is available; nothing else."""


class ICUError(Exception):
    pass


class Locale:
    @staticmethod
    def getDefault():
        return None

    @staticmethod
    def getAvailableLocales():
        return {}
