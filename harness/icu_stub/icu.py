"""Minimal stand-in for PyICU, used only when no ICU shared library can be found.
With it `import pyoda_time` works and the invariant culture is available; every ICU-backed feature raises."""


class ICUError(Exception):
    pass


class _Unavailable:
    def __init__(self, *a, **k):
        raise ICUError("ICU is not available in this environment (harness icu stub)")

    def __getattr__(self, name):  # pragma: no cover
        raise ICUError("ICU is not available in this environment (harness icu stub)")


class Locale:
    def __init__(self, *a, **k):
        raise ICUError("ICU is not available in this environment (harness icu stub)")

    @staticmethod
    def getDefault():
        return None

    @staticmethod
    def getAvailableLocales():
        return {}

    @staticmethod
    def getRoot():
        raise ICUError("ICU is not available in this environment (harness icu stub)")


class DateFormatSymbols(_Unavailable):
    pass


class DateTimePatternGenerator(_Unavailable):
    @staticmethod
    def createInstance(*a, **k):
        raise ICUError("ICU is not available in this environment (harness icu stub)")


class DateFormat(_Unavailable):
    kFull = 0
    kLong = 1
    kMedium = 2
    kShort = 3
    FULL = 0
    LONG = 1
    MEDIUM = 2
    SHORT = 3

    @staticmethod
    def createDateInstance(*a, **k):
        raise ICUError("ICU is not available in this environment (harness icu stub)")

    @staticmethod
    def createTimeInstance(*a, **k):
        raise ICUError("ICU is not available in this environment (harness icu stub)")


class SimpleDateFormat(_Unavailable):
    pass


class Calendar(_Unavailable):
    @staticmethod
    def createInstance(*a, **k):
        raise ICUError("ICU is not available in this environment (harness icu stub)")


class DecimalFormatSymbols(_Unavailable):
    pass


ICU_VERSION = "stub"
