"""C18 support: DateIntervals that are the RESULT of intersection / union are used again as operands, and one
interval object is iterated by several iterators at once. The reference is the Python set of day numbers.
(The Lean theorems of C18 are about interval values; that a computed interval behaves like the constructed one
with the same bounds - length, membership, containment, further unions/intersections, iteration - is what this
oracle ties to the code.)"""
from __future__ import annotations


def _mk(c18, o, a, b):
    from pyoda_time import DateInterval
    return DateInterval(c18.ld(o, a), c18.ld(o, b))


def _days(iv):
    return set(range(iv.start._days_since_epoch, iv.end._days_since_epoch + 1))


def check(case):
    import c18
    o, a1, a2, b1, b2, c1, c2 = case
    A, B, C = _mk(c18, o, a1, a2), _mk(c18, o, b1, b2), _mk(c18, o, c1, c2)
    sets = {"A": set(range(a1, a2 + 1)), "B": set(range(b1, b2 + 1)), "C": set(range(c1, c2 + 1))}
    vals = {"A": A, "B": B, "C": C}

    def describe(name):
        return f"calendar {o}: A=[{a1},{a2}] B=[{b1},{b2}] C=[{c1},{c2}]: {name}"

    def behaves(name, iv, s):
        """iv (possibly None) must behave as the set s (empty set <-> None for intersections)"""
        if iv is None:
            if s:
                return {"key": "interval-chain-none", "what": describe(name) + f" is None but denotes {len(s)} days"}
            return None
        if not s:
            return {"key": "interval-chain-none", "what": describe(name) + f" = [{iv.start._days_since_epoch},{iv.end._days_since_epoch}] but the sets share no day"}
        lo, hi = min(s), max(s)
        if (iv.start._days_since_epoch, iv.end._days_since_epoch) != (lo, hi):
            return {"key": "interval-chain-bounds", "what": describe(name) + f" = [{iv.start._days_since_epoch},{iv.end._days_since_epoch}], expected [{lo},{hi}]"}
        if len(iv) != len(s):
            return {"key": "interval-chain-len", "what": describe(name) + f": len = {len(iv)}, but it denotes {len(s)} days"}
        for d in (lo - 1, lo, lo + 1, (lo + hi) // 2, hi - 1, hi, hi + 1, a1, a2, b1, b2):
            try:
                got = c18.ld(o, d) in iv
            except Exception:  # noqa: BLE001  (day outside the calendar)
                continue
            if got != (d in s):
                return {"key": "interval-chain-member", "what": describe(name) + f": (day {d} in it) = {got}, set membership says {d in s}"}
        for on, ov in vals.items():
            if (ov in iv) != (sets[on] <= s):
                return {"key": "interval-chain-contains", "what": describe(name) + f": ({on} in it) = {ov in iv}, subset of days = {sets[on] <= s}"}
            if (iv in ov) != (s <= sets[on]):
                return {"key": "interval-chain-contains", "what": describe(name) + f": (it in {on}) = {iv in ov}, subset of days = {s <= sets[on]}"}
        got = [x._days_since_epoch for x in iv]
        if got != sorted(s):
            return {"key": "interval-chain-iter", "what": describe(name) + f": iteration gives {len(got)} days {got[:4]}.., expected {len(s)} from {lo}"}
        return None

    # first-level results, then results of results
    level1 = {}
    for x in "ABC":
        for y in "ABC":
            if x == y:
                continue
            level1[f"{x}&{y}"] = (vals[x] & vals[y], sets[x] & sets[y])
            u = sets[x] | sets[y]
            contiguous = len(u) == max(u) - min(u) + 1
            r = vals[x] | vals[y]
            if contiguous != (r is not None):
                return {"key": "interval-chain-union-defined", "what": describe(f"{x}|{y}") + f": union is {'None' if r is None else 'defined'}, the sets are {'overlapping/adjacent' if contiguous else 'separated'}"}
            if r is not None:
                level1[f"{x}|{y}"] = (r, u)
    for name, (iv, s) in level1.items():
        f = behaves(name, iv, s)
        if f:
            return f
    names = sorted(level1)
    for n1 in names:
        iv1, s1 = level1[n1]
        if iv1 is None:
            continue
        for on in "ABC":
            f = behaves(f"({n1})&{on}", iv1 & vals[on], s1 & sets[on]) or behaves(f"{on}&({n1})", vals[on] & iv1, s1 & sets[on])
            if f:
                return f
            u = s1 | sets[on]
            if len(u) == max(u) - min(u) + 1:
                f = behaves(f"({n1})|{on}", iv1 | vals[on], u)
                if f:
                    return f
            elif (iv1 | vals[on]) is not None:
                return {"key": "interval-chain-union-defined", "what": describe(f"({n1})|{on}") + ": union defined although the sets are separated"}
    # several live iterations of ONE interval object
    for name in ("A", "A&B", "B&A"):
        iv = vals.get(name) or level1.get(name, (None, None))[0]
        if iv is None or len(iv) > 400:
            continue
        want = [x for x in range(iv.start._days_since_epoch, iv.end._days_since_epoch + 1)]
        pairs = [(p._days_since_epoch, q._days_since_epoch) for p in iv for q in iv]
        if pairs != [(p, q) for p in want for q in want]:
            return {"key": "interval-iteration-shared-state", "what": describe(name) + f": nested loops over it give {len(pairs)} ordered pairs, expected {len(want) ** 2}"}
        z = [(p._days_since_epoch, q._days_since_epoch) for p, q in zip(iv, iv)]
        if z != [(p, p) for p in want]:
            return {"key": "interval-iteration-shared-state", "what": describe(name) + f": zip(it, it) gives {z[:3]}.., expected pairs of equal days"}
        i1, i2 = iter(iv), iter(iv)
        f1 = next(i1)._days_since_epoch
        f2 = next(i2)._days_since_epoch
        if (f1, f2) != (want[0], want[0]):
            return {"key": "interval-iteration-shared-state", "what": describe(name) + f": two fresh iterators start at {f1} and {f2}"}
        other = vals["B"]
        zz = [(p._days_since_epoch, q._days_since_epoch) for p, q in zip(iv, other)]
        exp = list(zip(want, range(b1, b2 + 1)))
        if zz != exp:
            return {"key": "interval-iteration-shared-state", "what": describe(name) + ": zip(it, B) does not enumerate both in step"}
    return None


def gen_cases(ctx, n):
    import c18
    rng = ctx.rng
    out = []
    ords = sorted(c18.cals())
    for _ in range(n):
        o = rng.choice(ords + [0, 0, 5])
        lo, hi = c18.usable_range(o)
        base = rng.choice([rng.randint(lo + 200, hi - 200), rng.randint(-30000, 30000), lo + 100, hi - 100])
        base = max(lo + 100, min(hi - 100, base))
        k = rng.random()
        la, lb, lc = rng.randint(0, 40), rng.randint(0, 40), rng.randint(0, 30)
        a1 = base
        if k < 0.35:      # A starts before B and ends inside B (and the mirror image)
            b1 = a1 + rng.randint(1, la + 1)
        elif k < 0.5:     # nested / identical
            b1 = a1 + rng.randint(0, 3)
            lb = max(0, la - rng.randint(0, 6))
        elif k < 0.7:     # adjacent or one day apart
            b1 = a1 + la + rng.choice([1, 2])
        else:
            b1 = a1 + rng.randint(-45, 45)
        c1 = rng.choice([a1, b1, a1 + la, b1 + lb]) + rng.randint(-5, 5)
        if rng.random() < 0.5:
            a1, la, b1, lb = b1, lb, a1, la
        case = (o, a1, a1 + la, b1, b1 + lb, c1, c1 + lc)
        if all(lo <= v <= hi for v in case[1:]):
            out.append(case)
    return out
