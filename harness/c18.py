"""C18 — Interval and DateInterval behave as the sets of instants or days they denote."""
from __future__ import annotations

from common import guard, ints

NPD = 86_400_000_000_000
IMIN, IMAX = -4371222, 2932896
SENT_LO, SENT_HI = -(1 << 30), (1 << 30) - 1

META = {
    "property": "C18",
    "proof_modules": ["PyodaProofs.C18", "PyodaProofs.C18YearMonth", "PyodaProofs.GenAgreeC18"],
    "drivers": ["drv_intervals"],
    "theorems": [
        "Pyoda.C18.new_ok_iff", "Pyoda.C18.new_rejects_iff", "Pyoda.C18.new_total",
        "Pyoda.C18.mem_iff", "Pyoda.C18.mem_other_calendar",
        "Pyoda.C18.iter_eq_range", "Pyoda.C18.len_eq_card",
        "Pyoda.C18.subset_iff", "Pyoda.C18.subset_other_calendar", "Pyoda.C18.eq_iff_same_set",
        "Pyoda.C18.inter_spec", "Pyoda.C18.inter_some_iff", "Pyoda.C18.inter_none_iff", "Pyoda.C18.inter_other_calendar",
        "Pyoda.C18.union_spec", "Pyoda.C18.union_some_iff", "Pyoda.C18.union_none_iff", "Pyoda.C18.union_other_calendar",
        "Pyoda.C18.overlap_or_adjacent_iff",
        "Pyoda.C18.interval_new_ok_iff", "Pyoda.C18.interval_new_rejects", "Pyoda.C18.mem_iff_halfopen",
        "Pyoda.C18.has_bounds_iff", "Pyoda.C18.bound_raises_iff_unbounded", "Pyoda.C18.duration_eq",
        "Pyoda.C18.empty_iff_start_eq_end", "Pyoda.C18.interval_eq_iff",
        "Pyoda.C18.ym_interval_ok", "Pyoda.C18.ym_interval_raises_iff", "Pyoda.C18.ym_interval_total", "Pyoda.C18.ym_len",
        "Pyoda.C18.ym_day_fields", "Pyoda.C18.ym_subset_range", "Pyoda.C18.ym_mem_iff", "Pyoda.C18.ym_disjoint",
        "Pyoda.C18.ym_next_exists", "Pyoda.C18.ym_adjacent_union", "Pyoda.C18.ym_partition_year", "Pyoda.C18.ym_partition_unique",
        "Pyoda.C18.toMonth_succ_key", "Pyoda.C18.ym_succ_key_adjacent", "Pyoda.C18.ym_succ_month_adjacent",
        "Pyoda.C18.first_month_starts_year", "Pyoda.C18.last_month_ends_year", "Pyoda.C18.ym_year_wrap_adjacent",
        "Pyoda.C18.all19", "Pyoda.C18.ym_interval_all",
        # agreement of the definitions generated from the Python source (tools/py2lean.py) with the model
        "Pyoda.GenAgree.C18.gen_checkNotNullDI_eq", "Pyoda.GenAgree.C18.gen_DateInterval_new_eq",
        "Pyoda.GenAgree.C18.gen_DateInterval_start_eq", "Pyoda.GenAgree.C18.gen_DateInterval_end_eq",
        "Pyoda.GenAgree.C18.gen_DateInterval_calendar_eq", "Pyoda.GenAgree.C18.gen_DateInterval_validateInterval_eq",
        "Pyoda.GenAgree.C18.gen_DateInterval_containsDate_eq",
        "Pyoda.GenAgree.C18.gen_DateInterval_containsInterval_eq",
        "Pyoda.GenAgree.C18.gen_DateInterval_containsDateMethod_eq",
        "Pyoda.GenAgree.C18.gen_DateInterval_containsIntervalMethod_eq",
        "Pyoda.GenAgree.C18.gen_DateInterval_len_eq", "Pyoda.GenAgree.C18.gen_DateInterval_inter_eq",
        "Pyoda.GenAgree.C18.gen_DateInterval_intersection_eq", "Pyoda.GenAgree.C18.gen_DateInterval_union_eq",
        "Pyoda.GenAgree.C18.gen_DateInterval_unionMethod_eq", "Pyoda.GenAgree.C18.gen_Interval_new_eq",
        "Pyoda.GenAgree.C18.gen_Interval_newNoStart_eq", "Pyoda.GenAgree.C18.gen_Interval_newNoEnd_eq",
        "Pyoda.GenAgree.C18.gen_Interval_newUnbounded_eq", "Pyoda.GenAgree.C18.gen_Interval_start_eq",
        "Pyoda.GenAgree.C18.gen_Interval_hasStart_eq", "Pyoda.GenAgree.C18.gen_Interval_end_eq",
        "Pyoda.GenAgree.C18.gen_Interval_rawEnd_eq", "Pyoda.GenAgree.C18.gen_Interval_hasEnd_eq",
        "Pyoda.GenAgree.C18.gen_Interval_duration_eq", "Pyoda.GenAgree.C18.gen_Interval_containsOp_eq",
        "Pyoda.GenAgree.C18.gen_Interval_contains_eq", "Pyoda.GenAgree.C18.gen_Interval_beq_eq",
        "Pyoda.GenAgree.C18.gen_Interval_bne_eq", "Pyoda.GenAgree.C18.gen_Interval_equals_eq",
    ],
    "trusted_base": [
        "translator tie (tools/py2lean.py): every member of _date_interval.py and _interval.py except __iter__, __hash__, __repr__ and DateInterval.__eq__ "
        "(constructors' validation incl. the four None / not-None combinations of Interval, both __contains__ overloads, contains, __len__, __and__, __or__, "
        "intersection, union, start/end guards, has_start/has_end, duration, Interval equality) is re-translated from the current source into "
        "lean/PyodaGen/C18.lean on every run and proved equal to the model (PyodaProofs/GenAgreeC18.lean). Trusted there: the translator's semantics "
        "(validated against CPython by the self-test of C03); LocalDate and Instant are the model's types and their own operations are hand-mapped helpers "
        "(lean/PyodaGen/GlueC18.lean: LocalDate comparisons / min / max / Period.days_between = the model functions on (calendar ordinal, day number), "
        "calendar identity = equality of ordinals (one object per ordinal, C13); Instant comparisons, _is_valid, subtraction and sentinels = the model "
        "functions that GenAgreeC03 proves equal to the generated _instant.py)",
        "order of LocalDate values of one calendar = order of their day numbers (LocalDate._days_since_epoch; the direct oracle "
        "compares the real objects' answers with integer comparisons on those day numbers, C01 covers the calendars themselves)",
        "DateInterval.__iter__'s plus_days range check is not modelled (all dates it builds lie inside [start, end])",
        "YearMonth.to_date_interval: calendars enter the theorems through C01's well-formedness predicate WF (symbolic instances for "
        "ISO/Gregorian, Julian, Coptic, the 8 Islamic calendars, Persian simple and arithmetic; for Hebrew civil/scriptural, Persian "
        "astronomical, Um Al Qura and Badi the hypothesis Pyoda.C09.Evaluated of all19 / ym_interval_all is discharged by EVALUATING "
        "wfCheck on the compiled driver on every run: ops cal.wf 4|5|8|17|18, oracle 'evaluated-hypotheses' - the Lean compiler is "
        "trusted for that step; C09.Evaluated also lists yearLenCheck for the Hebrew calendars, which these theorems do not use)",
    ],
    "partial": [
        "Interval.__repr__/DateInterval.__repr__ (text) are outside the theorems",
    ],
    "rule": "pairs of intervals are enumerated exhaustively over a small universe of end points around a base interval "
            "(all 13 Allen relations, adjacency by exactly one day, a one-day gap, single-day intervals, end before start), "
            "placed at day 0, at both ends of every calendar's range and at seeded random offsets; YearMonth.to_date_interval: every "
            "month of the first, second, middle, last-but-one and last year of each of the 19 calendars and of seeded years, "
            "months 0 / n+1 / -1 / 33 and years beyond both range ends (must raise); distinct = distinct op line; "
            "non-trivial = every op",
}

_cal_cache = {}


def cals():
    """ordinal -> CalendarSystem for every calendar id"""
    if not _cal_cache:
        from pyoda_time import CalendarSystem
        for i in CalendarSystem.ids:
            c = CalendarSystem.for_id(i)
            o = int(c._ordinal)
            if o in _cal_cache:
                raise AssertionError(f"two calendar systems share ordinal {o}")
            _cal_cache[o] = c
    return _cal_cache


def ld(c, d):
    import routes
    return routes.routed_date(cals()[c], d)


def dn(x):
    return x._days_since_epoch


_rt_cache = {}


def roundtrips(o, d):
    """LocalDate(day number d).day number == d  (false only where a calendar itself is broken: C01's subject)"""
    k = (o, d)
    if k not in _rt_cache:
        try:
            _rt_cache[k] = dn(ld(o, d)) == d
        except Exception:  # noqa: BLE001
            _rt_cache[k] = False
    return _rt_cache[k]


def usable_range(o):
    """[lo, hi] of the calendar clipped inward until 70 consecutive day numbers round-trip at each end"""
    c = cals()[o]
    lo, hi = c._min_days, c._max_days
    def scan(start, step):
        d, run = start, 0
        first = start
        for _ in range(3000):
            if roundtrips(o, d):
                if run == 0:
                    first = d
                run += 1
                if run >= 70:
                    return first
            else:
                run = 0
            d += step
        raise AssertionError(f"calendar ordinal {o}: no round-tripping day numbers near {start}")
    return scan(lo, 1), scan(hi, -1)


def co(x):
    return int(x.calendar._ordinal)


def mk_di(a):
    from pyoda_time import DateInterval
    return DateInterval(ld(a[0], a[1]), ld(a[2], a[3]))


def show_di(r):
    if r is None:
        return "none"
    return ints(co(r.start), dn(r.start), co(r.end), dn(r.end))


def inst(d, n):
    from pyoda_time import Instant
    return Instant._ctor(days=d, nano_of_day=n)


def bound(a):
    return inst(a[1], a[2]) if a[0] == 1 else None


def mk_iv(a):
    from pyoda_time import Interval
    return Interval(bound(a[0:3]), bound(a[3:6]))


def si(x):
    return ints(x._days_since_epoch, x._nanosecond_of_day)


def sdur(x):
    return ints(x._floor_days, x._nanosecond_of_floor_day)


def impl(t):
    op = t[0]
    a = [int(x) for x in t[1:]]
    if op == "di.new":
        return show_di(mk_di(a))
    if op == "di.cont":
        return ints(ld(a[4], a[5]) in mk_di(a))
    if op == "di.sub":
        I, J = mk_di(a[0:4]), mk_di(a[4:8])
        return ints(J in I)
    if op == "di.len":
        return str(len(mk_di(a)))
    if op == "di.iter":
        return ints(*[dn(x) for x in mk_di(a)])
    if op == "di.and":
        I, J = mk_di(a[0:4]), mk_di(a[4:8])
        return show_di(I & J)
    if op == "di.or":
        I, J = mk_di(a[0:4]), mk_di(a[4:8])
        return show_di(I | J)
    if op == "di.eq":
        I, J = mk_di(a[0:4]), mk_di(a[4:8])
        return ints(I == J)
    if op == "ym.interval":
        return show_di(routed_year_month(a[0], a[1], a[2]).to_date_interval())
    if op == "iv.new":
        I = mk_iv(a)
        return si(I._Interval__start) + " " + si(I._Interval__end)
    if op == "iv.props":
        I = mk_iv(a)
        it = list(I)
        return " ".join([ints(I.has_start), ints(I.has_end), guard(lambda: si(I.start)), guard(lambda: si(I.end)),
                         guard(lambda: sdur(I.duration)), "none" if it[0] is None else si(it[0]),
                         "none" if it[1] is None else si(it[1])])
    if op == "iv.cont":
        return ints(inst(a[6], a[7]) in mk_iv(a))
    if op == "iv.eq":
        return ints(mk_iv(a[0:6]) == mk_iv(a[6:12]))
    raise ValueError("unknown op " + op)


# ---------------------------------------------------------------------------------------------
# direct oracle: Python sets / integer comparisons on the real objects
# ---------------------------------------------------------------------------------------------

def _raises_value_error(fn):
    try:
        fn()
    except ValueError:
        return True
    return False


def dayset(a):
    """the set an interval spec denotes, as a Python range (day numbers)"""
    return range(a[1], a[3] + 1)


def _valid(a):
    return a[0] == a[2] and a[1] <= a[3]


def _as_range(r):
    return None if r is None else range(dn(r.start), dn(r.end) + 1)


def oracle(t):
    from pyoda_time import DateInterval
    op = t[0]
    a = [int(x) for x in t[1:]]
    if op == "ym.interval":
        return oracle_year_month(a[0], a[1], a[2])
    if op.startswith("di."):
        specs = [a[0:4]] if op in ("di.new", "di.cont", "di.len", "di.iter") else [a[0:4], a[4:8]]
        if op == "di.new" or not all(_valid(s) for s in specs):
            for s in specs:
                raised = _raises_value_error(lambda: mk_di(s))
                if raised != (not _valid(s)):
                    return {"key": "di-ctor-check", "what": f"DateInterval(cal {s[0]} day {s[1]}, cal {s[2]} day {s[3]}): "
                            f"{'raised ValueError' if raised else 'was accepted'}; expected {'acceptance' if _valid(s) else 'ValueError'}"}
                if not _valid(s):
                    return None
            I = mk_di(specs[0])
            if (co(I.start), dn(I.start), co(I.end), dn(I.end)) != tuple(specs[0]) or int(I.calendar._ordinal) != specs[0][0]:
                return {"key": "di-ctor-bounds", "what": f"DateInterval{tuple(specs[0])} reports {show_di(I)}"}
            return None
        A = specs[0]
        I = mk_di(A)
        SA = dayset(A)
        if op == "di.cont":
            c, d = a[4], a[5]
            x = ld(c, d)
            if c != A[0]:
                if not (_raises_value_error(lambda: x in I) and _raises_value_error(lambda: I.contains(x))):
                    return {"key": "di-contains-mixed-calendar", "what": f"date of calendar {c} tested against interval {A}: no ValueError"}
                return None
            got, got2 = x in I, I.contains(x)
            if got != (d in SA) or got2 != got:
                return {"key": "di-contains-date", "what": f"day {d} in {A}: `in`={got} contains()={got2}, set membership {d in SA}"}
            return None
        if op == "di.len":
            if len(I) != len(SA):
                return {"key": "di-len", "what": f"len({A}) = {len(I)}, the set has {len(SA)} days"}
            return None
        if op == "di.iter":
            got = [(co(x), dn(x)) for x in I]
            exp = [(A[0], d) for d in SA]
            if got != exp:
                return {"key": "di-iter", "what": f"iteration of {A} yields {got[:5]}…({len(got)}), expected the {len(exp)} days in order"}
            if len(I) != len(got):
                return {"key": "di-len", "what": f"len({A}) = {len(I)} but iteration yields {len(got)} dates"}
            return None
        B = specs[1]
        J = mk_di(B)
        SB = dayset(B)
        small = len(SA) + len(SB) <= 4000
        if A[0] != B[0]:
            if op == "di.eq":
                if (I == J) or not (I != J) or I.equals(J):
                    return {"key": "di-eq", "what": f"intervals of different calendars compare equal: {A} {B}"}
                return None
            fn = {"di.sub": lambda: J in I, "di.and": lambda: I & J, "di.or": lambda: I | J}[op]
            if not _raises_value_error(fn):
                return {"key": "di-mixed-calendar", "what": f"{op} on {A} and {B} (different calendars) did not raise ValueError"}
            return None
        if op == "di.sub":
            exp = set(SB) <= set(SA) if small else (SA.start <= SB.start and SB.stop <= SA.stop)
            got, got2 = J in I, I.contains(J)
            if got != exp or got2 != exp:
                return {"key": "di-contains-interval", "what": f"{B} in {A}: `in`={got} contains()={got2}, subset test says {exp}"}
            return None
        if op == "di.eq":
            exp = SA == SB
            got = (I == J, not (I != J), I.equals(J))
            if got != (exp, exp, exp):
                return {"key": "di-eq", "what": f"{A} == {B}: (==, not !=, equals) = {got}, the sets are {'equal' if exp else 'different'}"}
            if exp and hash(I) != hash(J):
                return {"key": "di-hash", "what": f"equal intervals {A} hash differently"}
            return None
        if op == "di.and":
            if small:
                s = set(SA) & set(SB)
                exp = range(min(s), max(s) + 1) if s else None
                if s and len(exp) != len(s):
                    return {"key": "oracle-exception", "what": "intersection of two ranges is not a range"}
            else:
                lo, hi = max(SA.start, SB.start), min(SA.stop, SB.stop)
                exp = range(lo, hi) if lo < hi else None
            r1, r2, r3 = I & J, J & I, I.intersection(J)
            got = [_as_range(r) for r in (r1, r2, r3)]
            if got != [exp, exp, exp]:
                return {"key": "di-intersection", "what": f"{A} & {B}: got {got}, the set intersection is {exp}"}
            if r1 is not None and co(r1.start) != A[0]:
                return {"key": "di-intersection", "what": f"{A} & {B}: result in calendar {co(r1.start)}"}
            return None
        if op == "di.or":
            if small:
                u = set(SA) | set(SB)
                contiguous = len(u) == max(u) - min(u) + 1
                exp = range(min(u), max(u) + 1) if contiguous else None
            else:
                contiguous = max(SA.start, SB.start) <= min(SA.stop, SB.stop)   # overlapping or adjacent
                exp = range(min(SA.start, SB.start), max(SA.stop, SB.stop)) if contiguous else None
            r1, r2, r3 = I | J, J | I, I.union(J)
            got = [_as_range(r) for r in (r1, r2, r3)]
            if got != [exp, exp, exp]:
                return {"key": "di-union", "what": f"{A} | {B}: got {got}; the union of the sets is "
                        f"{'the contiguous ' + str(exp) if exp is not None else 'not contiguous (None expected)'}"}
            if r1 is not None and co(r1.start) != A[0]:
                return {"key": "di-union", "what": f"{A} | {B}: result in calendar {co(r1.start)}"}
            return None
        return None
    # ---- Interval ----
    def ns(b):
        return None if b[0] == 0 else b[1] * NPD + b[2]

    s, e = ns(a[0:3]), ns(a[3:6])
    ok = s is None or e is None or s <= e
    raised = _raises_value_error(lambda: mk_iv(a[0:6]))
    if raised != (not ok):
        return {"key": "iv-ctor-check", "what": f"Interval({s}, {e}) [ns]: {'raised' if raised else 'accepted'}, expected {'acceptance' if ok else 'ValueError'}"}
    if not ok:
        return None
    I = mk_iv(a[0:6])
    if op in ("iv.new", "iv.props"):
        if I.has_start != (s is not None) or I.has_end != (e is not None):
            return {"key": "iv-has-bounds", "what": f"Interval({s}, {e}): has_start={I.has_start} has_end={I.has_end}"}
        for name, v in (("start", s), ("end", e)):
            try:
                g = getattr(I, name)
                g = g._days_since_epoch * NPD + g._nanosecond_of_day
                if v is None or g != v:
                    return {"key": "iv-bound", "what": f"Interval({s}, {e}).{name} returned {g}"}
            except RuntimeError:
                if v is not None:
                    return {"key": "iv-bound", "what": f"Interval({s}, {e}).{name} raised although the bound exists"}
        try:
            d = I.duration
            g = d._floor_days * NPD + d._nanosecond_of_floor_day
            if s is None or e is None or g != e - s or not (0 <= d._nanosecond_of_floor_day < NPD):
                return {"key": "iv-duration", "what": f"Interval({s}, {e}).duration = {g} ns"}
        except RuntimeError:
            if s is not None and e is not None:
                return {"key": "iv-duration", "what": f"Interval({s}, {e}).duration raised for a bounded interval"}
        it = [None if x is None else x._days_since_epoch * NPD + x._nanosecond_of_day for x in I]
        if it != [s, e]:
            return {"key": "iv-iter", "what": f"iteration of Interval({s}, {e}) yields {it}"}
        return None
    if op == "iv.cont":
        tns = a[6] * NPD + a[7]
        x = inst(a[6], a[7])
        exp = (s is None or s <= tns) and (e is None or tns < e)
        got = (x in I, I.contains(x))
        if got != (exp, exp):
            return {"key": "iv-contains", "what": f"instant {tns} in Interval({s}, {e}): {got}, half-open membership is {exp}"}
        return None
    if op == "iv.eq":
        s2, e2 = ns(a[6:9]), ns(a[9:12])
        if not (s2 is None or e2 is None or s2 <= e2):
            return None
        J = mk_iv(a[6:12])
        exp = (s, e) == (s2, e2)
        got = (I == J, not (I != J), I.equals(J))
        if got != (exp, exp, exp):
            return {"key": "iv-eq", "what": f"Interval({s},{e}) == Interval({s2},{e2}): {got}, expected {exp}"}
        if exp and hash(I) != hash(J):
            return {"key": "iv-hash", "what": f"equal intervals ({s},{e}) hash differently"}
        return None
    return None


def neighbours(t):
    out = []
    for i, x in enumerate(t):
        if i > 0 and x.lstrip("-").isdigit() and abs(int(x)) > 1:
            for dlt in (-1, 1):
                u = list(t)
                u[i] = str(int(x) + dlt)
                out.append(" ".join(u))
    return out


# ---------------------------------------------------------------------------------------------
# generators
# ---------------------------------------------------------------------------------------------

def allen(sa, ea, sb, eb):
    """Allen relation of [sa,ea+1) and [sb,eb+1) on the day line (intervals as half-open day spans), with
    'adjacent' split off from 'before/after' in the discrete sense the property uses."""
    if ea + 1 < sb:
        return "before" if ea + 2 < sb else "before-gap1"
    if eb + 1 < sa:
        return "after" if eb + 2 < sa else "after-gap1"
    if ea + 1 == sb:
        return "meets(adjacent)"
    if eb + 1 == sa:
        return "met-by(adjacent)"
    if (sa, ea) == (sb, eb):
        return "equals"
    if sa == sb:
        return "starts" if ea < eb else "started-by"
    if ea == eb:
        return "finishes" if sa > sb else "finished-by"
    if sb < sa and ea < eb:
        return "during"
    if sa < sb and eb < ea:
        return "contains"
    return "overlaps" if sa < sb else "overlapped-by"


def small_universe(rng, full):
    """(sa, ea, sb, eb) relative to base 0: every position of B's ends in [-3, ea+3] for several lengths of A"""
    out = []
    for ea in ([0, 1, 2, 5] if full else [0, 2]):
        pts = list(range(-3, ea + 4))
        for sb in pts:
            for eb in pts:
                if sb <= eb or (sb - eb <= 1 and rng.random() < 0.3):
                    out.append((0, ea, sb, eb))
    return out


def gen_ops(ctx):
    rng = ctx.rng
    C = cals()
    ops = []
    relcount = {}
    clipped = {}
    ords = sorted(C)
    uni_full = small_universe(rng, True)
    uni_lite = small_universe(rng, False)
    for o in ords:
        c = C[o]
        lo, hi = usable_range(o)
        if (lo, hi) != (c._min_days, c._max_days):
            clipped[c.id] = [c._min_days, lo, hi, c._max_days]
        bases = [("zero", 0 if lo + 10 <= 0 <= hi - 20 else (lo + hi) // 2), ("min", lo + 3), ("max", hi - 9),
                 ("rnd", rng.randint(lo + 10, hi - 20))]
        if ctx.thorough:
            bases += [("rnd", rng.randint(lo + 10, hi - 20)) for _ in range(6)]
        for kind, base in bases:
            uni = uni_full if (kind in ("zero", "min", "max") and (o in (0, 3, 17) or ctx.thorough)) else uni_lite
            for (sa, ea, sb, eb) in uni:
                A = (o, base + sa, o, base + ea)
                B = (o, base + sb, o, base + eb)
                if not (lo <= B[1] <= hi and lo <= B[3] <= hi):
                    continue
                if sb <= eb:
                    r = allen(sa, ea, sb, eb)
                    relcount[r] = relcount.get(r, 0) + 1
                pa, pb = " ".join(map(str, A)), " ".join(map(str, B))
                for op in ("di.sub", "di.and", "di.or", "di.eq"):
                    ops.append(f"{op} {pa} {pb}")
            # single interval ops at this base
            for ln in (0, 1, 2, 6, 30, 63):
                A = (o, base, o, min(hi, base + ln))
                pa = " ".join(map(str, A))
                ops.append(f"di.new {pa}")
                ops.append(f"di.len {pa}")
                ops.append(f"di.iter {pa}")
                for d in (A[1] - 1, A[1], A[1] + 1, A[3] - 1, A[3], A[3] + 1, (A[1] + A[3]) // 2):
                    if lo <= d <= hi:
                        ops.append(f"di.cont {pa} {o} {d}")
            # long intervals: iteration has no reason to behave differently after the first few weeks, which is
            # exactly why it has to be looked at there (chunked / re-based iteration)
            if kind in ("zero", "rnd", "min"):
                for ln in (299, 300, 301, 599, 600, 601, 1461) + (((9_999, 40_000) if kind == "zero" else (9_999,)) if ctx.thorough else ()):
                    if base + ln <= hi:
                        pa = " ".join(map(str, (o, base, o, base + ln)))
                        ops.append(f"di.len {pa}")
                        ops.append(f"di.iter {pa}")
            ops.append(f"di.new {o} {base + 1} {o} {base}")          # end before start
            ops.append(f"di.len {o} {base + 5} {o} {base}")
        # the calendar's whole range and its two halves (adjacent), exact range ends
        mid = (lo + hi) // 2
        W, L, Rr = (o, lo, o, hi), (o, lo, o, mid), (o, mid + 1, o, hi)
        R2 = (o, mid + 2, o, hi)
        for A, B in [(L, Rr), (Rr, L), (L, R2), (W, L), (L, W), (W, W), ((o, lo, o, lo), (o, hi, o, hi)), ((o, lo, o, lo), W),
                     ((o, hi, o, hi), W), ((o, lo, o, lo), (o, lo + 1, o, lo + 1)), ((o, hi - 1, o, hi - 1), (o, hi, o, hi))]:
            pa, pb = " ".join(map(str, A)), " ".join(map(str, B))
            r = allen(A[1], A[3], B[1], B[3])
            relcount[r] = relcount.get(r, 0) + 1
            for op in ("di.sub", "di.and", "di.or", "di.eq"):
                ops.append(f"{op} {pa} {pb}")
        ops.append(f"di.len {o} {lo} {o} {hi}")
        for d in (lo, hi, mid):
            ops.append(f"di.cont {o} {lo} {o} {hi} {o} {d}")
        # random pairs anywhere in the range
        for _ in range(ctx.scale(40, 4000)):
            x = sorted(rng.randint(lo, hi) for _ in range(4))
            if not all(roundtrips(o, d) for d in x):
                continue
            k = rng.random()
            if k < 0.2:
                x[2] = min(hi, x[1] + 1)      # adjacent
                x[3] = max(x[3], x[2])
            elif k < 0.3:
                x[2] = min(hi, x[1] + 2)      # one-day gap
                x[3] = max(x[3], x[2])
            perm = rng.choice([(0, 1, 2, 3), (2, 3, 0, 1), (0, 2, 1, 3), (1, 3, 0, 2), (0, 3, 1, 2), (1, 2, 0, 3)])
            y = [x[i] for i in perm]
            A, B = (o, y[0], o, y[1]), (o, y[2], o, y[3])
            r = allen(A[1], A[3], B[1], B[3])
            relcount[r] = relcount.get(r, 0) + 1
            pa, pb = " ".join(map(str, A)), " ".join(map(str, B))
            ops.append(f"{rng.choice(['di.sub', 'di.and', 'di.or', 'di.eq'])} {pa} {pb}")
            ops.append(f"di.cont {pa} {o} {rng.choice([y[0], y[1], y[0] - 1 if y[0] > lo else y[0], y[1] + 1 if y[1] < hi else y[1], rng.randint(lo, hi)])}")
    # mixed calendars (days valid in both)
    for _ in range(ctx.scale(300, 5000)):
        o1, o2 = rng.sample(ords, 2)
        r1, r2 = usable_range(o1), usable_range(o2)
        lo, hi = max(r1[0], r2[0]), min(r1[1], r2[1])
        x = sorted(rng.randint(lo, hi) for _ in range(4))
        k = rng.random()
        if k < 0.35:
            ops.append(f"di.new {o1} {x[0]} {o2} {x[1]}")
        elif k < 0.5:
            ops.append(f"di.cont {o1} {x[0]} {o1} {x[3]} {o2} {x[1]}")
        else:
            op = rng.choice(["di.sub", "di.and", "di.or", "di.eq"])
            same = rng.random() < 0.3
            ops.append(f"{op} {o1} {x[0]} {o1} {x[2]} {o2} {x[0] if same else x[1]} {o2} {x[2] if same else x[3]}")
    if clipped:
        ctx.note("calendar_ranges_clipped", clipped)
        ctx.assumptions.append("day numbers that do not round-trip through LocalDate (a calendar defect, C01's subject) are not used as "
                               "interval ends: " + "; ".join(f"{k}: [{v[0]},{v[3]}] -> [{v[1]},{v[2]}]" for k, v in clipped.items()))
    ctx.note("allen_relation_counts", dict(sorted(relcount.items())))
    missing = {"before", "before-gap1", "after", "after-gap1", "meets(adjacent)", "met-by(adjacent)", "equals", "starts",
               "started-by", "finishes", "finished-by", "during", "contains", "overlaps", "overlapped-by"} - set(relcount)
    if missing:
        raise AssertionError(f"generator does not cover relations {missing}")

    # ---- Interval over instants ----
    def rinst():
        k = rng.random()
        if k < 0.1:
            return rng.choice([(IMIN, 0), (IMAX, NPD - 1), (0, 0), (IMIN, 1), (IMAX, NPD - 2), (-1, NPD - 1)])
        d = rng.choice([0, -1, 1, rng.randint(IMIN, IMAX), rng.randint(-400, 400)])
        n = rng.choice([0, 1, NPD - 1, NPD // 2, rng.randint(0, NPD - 1)])
        return (d, n)

    def btok(b):
        return "0 0 0" if b is None else f"1 {b[0]} {b[1]}"

    def shift(p, k):
        v = p[0] * NPD + p[1] + k
        v = max(IMIN * NPD, min((IMAX + 1) * NPD - 1, v))
        return divmod(v, NPD)

    for _ in range(ctx.scale(1500, 60000)):
        p, q = rinst(), rinst()
        k = rng.random()
        if k < 0.15:
            q = p
        elif k < 0.3:
            q = shift(p, rng.choice([1, -1, 2, NPD, -NPD]))
        if rng.random() < 0.85 and q < p:
            p, q = q, p
        s = None if rng.random() < 0.2 else p
        e = None if rng.random() < 0.2 else q
        iv = f"{btok(s)} {btok(e)}"
        ops.append(f"iv.new {iv}")
        ops.append(f"iv.props {iv}")
        probes = [rinst(), (IMIN, 0), (IMAX, NPD - 1)]
        for b in (s, e):
            if b is not None:
                probes += [b, shift(b, -1), shift(b, 1)]
        for pt in probes:
            ops.append(f"iv.cont {iv} {pt[0]} {pt[1]}")
        s2 = rng.choice([s, None, rinst()])
        e2 = rng.choice([e, None, rinst()])
        ops.append(f"iv.eq {iv} {btok(s2)} {btok(e2)}")
    return ops


def year_month_years(ctx, c):
    """years whose months are exercised: both range ends, their neighbours, the middle, year 1 / 0 where valid, seeded ones"""
    rng = ctx.rng
    ys = {c.min_year, c.min_year + 1, c.max_year - 1, c.max_year, (c.min_year + c.max_year) // 2}
    ys |= {y for y in (-1, 0, 1, 2) if c.min_year <= y <= c.max_year}
    n = min(ctx.scale(24, 600), c.max_year - c.min_year + 1)     # Um Al Qura has 183 years
    while len(ys) < n:
        ys.add(rng.randint(c.min_year, c.max_year))
    return sorted(ys)


def gen_year_month_ops(ctx):
    ops, years = [], []
    for o, c in sorted(cals().items()):
        for y in year_month_years(ctx, c):
            n = c.get_months_in_year(y)
            years.append((o, y))
            for m in range(1, n + 1):
                ops.append(f"ym.interval {o} {y} {m}")
            for m in (0, n + 1, -1, 33):                       # months the constructor must refuse
                ops.append(f"ym.interval {o} {y} {m}")
        for y in (c.min_year - 1, c.max_year + 1, c.min_year - 400, c.max_year + 400, 20000, -20000):   # years outside the calendar
            for m in (1, 6, 12, 13):
                ops.append(f"ym.interval {o} {y} {m}")
    return ops, years


def routed_year_month(o, y, m):
    """the YearMonth (calendar o, y, m) by one of several routes chosen from (y, m): the constructor, or the RESULT of
    LocalDate.to_year_month() on a day inside the month (not the 1st), of plus_months from a neighbouring month, of
    LocalDateTime(...).date.to_year_month(). An invalid (y, m) goes to the constructor, which must reject it."""
    from pyoda_time import LocalDate, YearMonth
    c = cals()[o]
    base = YearMonth(year=y, month=m, calendar=c)          # raises ValueError for a month the calendar lacks
    k = (y * 7 + m) % 5
    try:
        if k == 1:
            dim = c.get_days_in_month(y, m)
            r = LocalDate(y, m, 1 + (y + m) % dim, c).to_year_month()
        elif k == 2:
            r = base.plus_months(1).plus_months(-1)
        elif k == 3:
            dim = c.get_days_in_month(y, m)
            r = LocalDate(y, m, dim, c).at_midnight().date.to_year_month()
        elif k == 4:
            r = base.plus_months(-1).plus_months(1)
        else:
            r = base
        if (r.year, r.month, r.calendar) != (y, m, c) or r != base:
            r = base
    except (ValueError, OverflowError):
        r = base
    return r


def _ym_interval(o, y, m):
    return routed_year_month(o, y, m).to_date_interval()


def oracle_year_month(o, y, m):
    """YearMonth(y, m).to_date_interval() on the real code, against the calendar's own day <-> (year, month, day) mapping:
    the interval is exactly the days of that month, the month that starts the day after it is adjacent to it (union = span,
    intersection empty), and construction raises ValueError exactly for a year or month the calendar does not have."""
    c = cals()[o]
    valid = c.min_year <= y <= c.max_year and 1 <= m <= c.get_months_in_year(y)
    try:
        I = _ym_interval(o, y, m)
    except ValueError:
        if valid:
            return {"key": "yearmonth-rejected", "what": f"YearMonth({y},{m}) in calendar {c.id} raised ValueError for an existing month"}
        return None
    if not valid:
        return {"key": "yearmonth-accepted", "what": f"YearMonth({y},{m}) in calendar {c.id}: accepted (interval {show_di(I)}) although "
                f"the calendar has years {c.min_year}..{c.max_year} and that year has "
                f"{c.get_months_in_year(y) if c.min_year <= y <= c.max_year else 'no'} months"}
    s, e = dn(I.start), dn(I.end)
    got = [(x.year, x.month, x.day) for x in I]
    n = c.get_days_in_month(y, m)
    exp = [(y, m, k) for k in range(1, n + 1)]
    if got != exp or len(I) != n or e - s + 1 != n or co(I.start) != o or co(I.end) != o:
        return {"key": "yearmonth-interval", "what": f"YearMonth({y},{m}) in calendar {c.id}: interval {show_di(I)} has days "
                f"{got[:3]}...{got[-2:]}, expected days 1..{n} of that month"}
    for d in (s - 1, e + 1):
        if c._min_days <= d <= c._max_days:
            x = ld(o, d)
            if (x.year, x.month) == (y, m):
                return {"key": "yearmonth-interval", "what": f"YearMonth({y},{m}) in {c.id}: day {d} outside the interval {show_di(I)} is in the same month"}
        elif (d == s - 1 and s != c._min_days) or (d == e + 1 and e != c._max_days):
            return {"key": "yearmonth-interval", "what": f"YearMonth({y},{m}) in {c.id}: interval {show_di(I)} leaves the calendar's day range"}
    if e + 1 <= c._max_days:
        nx = ld(o, e + 1)
        J = _ym_interval(o, nx.year, nx.month)
        if dn(J.start) != e + 1 or nx.day != 1:
            return {"key": "yearmonth-adjacent", "what": f"{c.id}: the month after ({y},{m}) is ({nx.year},{nx.month}); its interval "
                    f"{show_di(J)} does not start the day after {show_di(I)} ends"}
        U, V, X = I | J, J | I, I & J
        if X is not None or U is None or V is None or U != V or (dn(U.start), dn(U.end)) != (s, dn(J.end)) or len(U) != len(I) + len(J):
            return {"key": "yearmonth-adjacent", "what": f"{c.id}: months ({y},{m}) and ({nx.year},{nx.month}): union {show_di(U)}, "
                    f"intersection {show_di(X)}; expected the span [{s}, {dn(J.end)}] and no common day"}
    return None


def check_year_partition(case):
    """the month intervals of one year, put in day order, tile the year: first day after the previous year, each adjacent to
    the next, together as many days as the year has, folding `|` over them gives the whole year"""
    o, y = case
    c = cals()[o]
    ivs = sorted((_ym_interval(o, y, m) for m in range(1, c.get_months_in_year(y) + 1)), key=lambda I: dn(I.start))
    first, last = dn(ivs[0].start), dn(ivs[-1].end)
    what = None
    if any(dn(a.end) + 1 != dn(b.start) for a, b in zip(ivs, ivs[1:])):
        what = "consecutive month intervals are not adjacent"
    elif sum(len(I) for I in ivs) != c.get_days_in_year(y) or last - first + 1 != c.get_days_in_year(y):
        what = f"the month intervals hold {sum(len(I) for I in ivs)} days, the year has {c.get_days_in_year(y)}"
    elif ld(o, first).year != y or ld(o, last).year != y:
        what = "an end of the tiling is not in the year"
    elif (first > c._min_days and ld(o, first - 1).year != y - 1) or (first == c._min_days) != (y == c.min_year):
        what = f"day {first - 1} before the first month interval is not the last day of year {y - 1}"
    elif (last < c._max_days and ld(o, last + 1).year != y + 1) or (last == c._max_days) != (y == c.max_year):
        what = f"day {last + 1} after the last month interval is not the first day of year {y + 1}"
    else:
        acc = ivs[0]
        for I in ivs[1:]:
            if (acc & I) is not None:
                what = f"month intervals {show_di(acc)} and {show_di(I)} share a day"
                break
            acc = acc | I
            if acc is None:
                what = "union of adjacent month intervals is None"
                break
        if what is None and (dn(acc.start), dn(acc.end)) != (first, last):
            what = f"folded union is {show_di(acc)}, expected [{first}, {last}]"
    if what:
        return {"key": "yearmonth-partition", "what": f"calendar {c.id} year {y}: {what}; intervals {[show_di(I) for I in ivs]}"}
    return None


EVALUATED = ["cal.wf 4", "cal.wf 5", "cal.wf 8", "cal.wf 17", "cal.wf 18"]


def run(ctx):
    # hypotheses of Pyoda.C09.Evaluated used by the YearMonth theorems (C01's wfCheck for the five calendars without a
    # symbolic WF instance), evaluated on the compiled driver while the correspondence runs (cal.wf 4|5: about 10 s each)
    from concurrent.futures import ThreadPoolExecutor
    import common
    pool = ThreadPoolExecutor(max_workers=3)
    groups = [EVALUATED[0:1], EVALUATED[1:2], EVALUATED[2:]]
    futures = [pool.submit(common.model_eval, g, META["drivers"][0]) for g in groups]
    ops = gen_ops(ctx)
    ctx.correspond("intervals.ops", ops, impl, oracle=oracle, neighbours=neighbours)
    ym_ops, years = gen_year_month_ops(ctx)
    ctx.correspond("yearmonth.to_date_interval", ym_ops, impl, oracle=oracle, neighbours=neighbours)
    ctx.check_cases("yearmonth.year-partition", years, check_year_partition)
    import c18_chains
    ctx.check_cases("interval.chains (results of & and | used as operands; simultaneous iterations)",
                    c18_chains.gen_cases(ctx, ctx.scale(450, 20_000)), c18_chains.check)
    replies = {}
    for g, f in zip(groups, futures):
        replies.update(zip(g, f.result()))
    pool.shutdown()

    def evaluated_case(op):
        if replies.get(op) != "1":
            return {"key": "evaluated-hypothesis-false", "what": f"driver op {op} replied {replies.get(op)!r}: calendar well-formedness "
                    "(hypothesis Pyoda.C09.Evaluated of the YearMonth theorems) does not hold for the model's calendar description"}
        return None
    ctx.check_cases("evaluated-hypotheses", sorted(replies), evaluated_case, exhaustive=True)


def replay_op(op, failure):
    if op.startswith("(") and failure.get("key", "").startswith("interval-"):
        import ast
        import c18_chains
        return c18_chains.check(ast.literal_eval(op))
    if op.startswith("("):
        import ast
        return check_year_partition(ast.literal_eval(op))
    if op.startswith("cal.wf"):
        import common
        r = common.model_eval([op], META["drivers"][0])[0]
        return None if r == "1" else {"key": "evaluated-hypothesis-false", "what": f"driver op {op} replied {r!r}"}
    return oracle(op.split(" "))
