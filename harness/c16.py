"""C16 — week-year rules and weekday navigation are self-consistent and match ISO 8601."""
from __future__ import annotations

import datetime

from common import guard, ints

META = {
    "property": "C16",
    "proof_modules": ["PyodaProofs.C16", "PyodaProofs.C16Irregular", "PyodaProofs.C16Dates", "PyodaProofs.GenAgreeC16"],
    "drivers": ["drv_weekyear"],
    "theorems": [
        "Pyoda.C16.dayOfWeek_eq", "Pyoda.C16.weekYearStart_aligned", "Pyoda.C16.weekYearStart_window",
        "Pyoda.C16.weeks_span", "Pyoda.C16.weekYear_contains", "Pyoda.C16.weekYear_adjacent",
        "Pyoda.C16.week_le_weeksInYear", "Pyoda.C16.weekDate_roundtrip", "Pyoda.C16.localDate_roundtrip", "Pyoda.C16.weeks_advance",
        "Pyoda.C16.next_spec", "Pyoda.C16.previous_spec", "Pyoda.C16.nextOrSame_spec", "Pyoda.C16.previousOrSame_spec",
        "Pyoda.C16.nthWeekday_spec", "Pyoda.C16.pyIsoWeek1Monday_eq", "Pyoda.C16.iso_rule_matches_isocalendar", "Pyoda.C16.iso_matches_isocalendar_gregorian",
        # regular rules, on dates (C16Dates.lean)
        "Pyoda.C16.weekYear_unique", "Pyoda.C16.weeks_advance_dates", "Pyoda.C16.week_boundary_dates",
        "Pyoda.C16.localDate_ok_iff", "Pyoda.C16.localDate_sound", "Pyoda.C16.yearOf_exists",
        "Pyoda.C16.adjusterFactory_ok_iff", "Pyoda.C16.irr_validate_range",
        # irregular (BCL-style) rules, every minimum-days value 1..7 and every first day of week (C16Irregular.lean)
        "Pyoda.C16.weekYearStart_aligned_any", "Pyoda.C16.weekYearStart_window_any",
        "Pyoda.C16.irr_weekYear_eq", "Pyoda.C16.irr_weekYear_adjacent", "Pyoda.C16.irr_weekYear_firstDay",
        "Pyoda.C16.irr_weekYear_contains", "Pyoda.C16.irr_weekYear_unique",
        "Pyoda.C16.irr_weeks_bounds", "Pyoda.C16.irr_weeks_reach_next", "Pyoda.C16.irr_week_le_weeksInYear",
        "Pyoda.C16.irr_weekDate_roundtrip", "Pyoda.C16.irr_localDate_roundtrip", "Pyoda.C16.irr_localDate_sound",
        "Pyoda.C16.irr_accept_iff", "Pyoda.C16.irr_localDate_ok_iff", "Pyoda.C16.irr_localDate_error",
        "Pyoda.C16.irr_localDate_rejects_previous_year", "Pyoda.C16.irr_localDate_rejects_next_year",
        "Pyoda.C16.irr_weeks_advance_partial", "Pyoda.C16.irr_week_boundary", "Pyoda.C16.irr_year_boundary",
        # where irregular rules depart from the regular statements, by design (refuted on Gregorian dates)
        "Pyoda.C16.weekYearIsCalendarYear_firstDay", "Pyoda.C16.weekYearIsCalendarYear_irregular_fails",
        "Pyoda.C16.weeksSpan_irregular_fails", "Pyoda.C16.weekYearContains_irregular_fails",
        "Pyoda.C16.weeksAdvance_irregular_fails", "Pyoda.C16.weekBoundary_irregular_fails",
        # agreement of the definitions generated from the Python source (tools/py2lean.py) with the model
        "Pyoda.GenAgree.C16.gen_checkNotNullCal_eq", "Pyoda.GenAgree.C16.gen_CalendarSystem_minYear_eq",
        "Pyoda.GenAgree.C16.gen_CalendarSystem_maxYear_eq", "Pyoda.GenAgree.C16.gen_CalendarSystem_minDays_eq",
        "Pyoda.GenAgree.C16.gen_CalendarSystem_maxDays_eq", "Pyoda.GenAgree.C16.gen_CalendarSystem_calculator_eq",
        "Pyoda.GenAgree.C16.gen_CalendarSystem_getDaysSinceEpoch_eq",
        "Pyoda.GenAgree.C16.gen_CalendarSystem_getDayOfWeek_eq", "Pyoda.GenAgree.C16.gen_LocalDate_ofYmdc_eq",
        "Pyoda.GenAgree.C16.gen_LocalDate_calendarOrdinal_eq", "Pyoda.GenAgree.C16.gen_LocalDate_calendar_eq",
        "Pyoda.GenAgree.C16.gen_LocalDate_year_eq", "Pyoda.GenAgree.C16.gen_LocalDate_yearMonthDay_eq",
        "Pyoda.GenAgree.C16.gen_LocalDate_daysSinceEpoch_eq", "Pyoda.GenAgree.C16.gen_LocalDate_dayOfWeek_eq",
        "Pyoda.GenAgree.C16.gen_LocalDate_dayOfWeek_error", "Pyoda.GenAgree.C16.gen_LocalDate_plusDays_eq",
        "Pyoda.GenAgree.C16.gen_LocalDate_next_eq", "Pyoda.GenAgree.C16.gen_LocalDate_previous_eq",
        "Pyoda.GenAgree.C16.gen_DateAdjusters_next_eq", "Pyoda.GenAgree.C16.gen_DateAdjusters_previous_eq",
        "Pyoda.GenAgree.C16.gen_DateAdjusters_nextOrSame_eq",
        "Pyoda.GenAgree.C16.gen_DateAdjusters_previousOrSame_eq",
        "Pyoda.GenAgree.C16.gen_LocalDate_fromYearMonthWeekAndDay_eq",
        "Pyoda.GenAgree.C16.gen_LocalDate_fromYearMonthWeekAndDay_error",
        "Pyoda.GenAgree.C16.gen_Rule_weekYearStart_eq", "Pyoda.GenAgree.C16.gen_Rule_validateWeekYear_eq",
        "Pyoda.GenAgree.C16.gen_Rule_getWeeksInWeekYear_eq", "Pyoda.GenAgree.C16.gen_Rule_getWeekYear_eq",
        "Pyoda.GenAgree.C16.gen_Rule_getWeekYear_irregular", "Pyoda.GenAgree.C16.gen_Rule_getWeekOfWeekYear_eq",
        "Pyoda.GenAgree.C16.gen_Rule_getLocalDate_eq",
    ],
    "trusted_base": [
        "translator tie (tools/py2lean.py): _SimpleWeekYearRule (all six members, regular and irregular), LocalDate.next/previous/from_year_month_week_and_day/day_of_week/year/calendar, the four weekday DateAdjusters and the CalendarSystem accessors they use are re-translated from the current source into "
        "lean/PyodaGen/C16.lean on every run and proved equal to the hand-written model (PyodaProofs/GenAgreeC16.lean). Trusted there: the translator's semantics (validated against CPython by the self-test of C03), "
        "objects as records (lean/PyodaGen/Objects.lean: CalendarSystem = calculator + four Final range attributes, the calculator's virtual members = function-valued fields, LocalDate = packed date), "
        "the hand-mapped packing helpers (_YearMonthDayCalendar._to_year_month_day, _YearMonthDay._with_calendar, CalendarSystem._for_ordinal: the calendar ordinal is represented by the calendar it denotes; lossless packing is C12, one object per ordinal C13), "
        "a function returning a lambda read as its uncurried form, _DatePeriodFields._days_field.add / the ISO LocalDate constructor / CalendarSystem.iso.get_days_in_month as abstract callees (C09, C01), and the Decimal-domain bound 10^27 on the operands of _towards_zero_division",
        "the calendar enters the theorems as an arbitrary year table with start(y+1) = start(y) + len(y), len(y) >= 7 (C01 establishes this for every calendar); the harness reads the table entries from the code per op",
        "ISO rule = isocalendar: iso_matches_isocalendar_gregorian is about the Lean transcription of Lib/_pydatetime.isocalendar, which is tied to the real CPython by the correspondence op wy.pyiso (and the oracle compares the code with date.isocalendar() directly)",
        "get_local_date theorems take the calendar-year lookup of the result (LocalDate.year of the constructed date) as a function yo with YearOf c yo (it returns the year whose table span contains the day; yearOf_exists shows the hypothesis is satisfiable for every table); that the code's year is that year is C01",
    ],
    "partial": [
        "irregular (BCL-style) rules: by design a week-year ends with its calendar year, so 'weeks advance by one every seven days from the first day of week' holds inside a week-year only (irr_weeks_advance_partial, irr_week_boundary, irr_year_boundary); the regular statements weeksSpanStatement, weekYearContainsStatement, weeksAdvanceStatement, weekBoundaryStatement, weekYearIsCalendarYearStatement are kept and refuted for irregular rules on Gregorian dates (*_irregular_fails)",
        "irregular rules with a minimum of 2, 3, 5 or 6 days cannot be obtained from the public factory (CalendarWeekRule has three members); the theorems cover them, the correspondence builds them through the private constructor",
        "DateAdjusters.month / day_of_month / start_of_month / end_of_month / add_period are calendar-field operations (C01/C09): checked by the direct oracle adjusters.fields only",
    ],
    "rule": "dates within 8 days of every sampled year boundary, all 71 public rules plus the 28 irregular rules with 2, 3, 5, 6 minimum days, all calendars; deterministically in every tier the first and last 8 dates of every calendar and the week-years min_year-1, min_year, max_year, max_year+1 with all 49 regular and all 49 irregular rules (suite weekyear.edges); thorough: every year boundary of every calendar (21 days around it) for all 49 irregular rules and every fifth one for the 49 regular rules; distinct = distinct op; non-trivial = every op",
}

_P = None


def P():
    global _P
    if _P is None:
        import pyoda_time
        _P = pyoda_time
    return _P


_cal_cache = {}


def cal_info(cid):
    if cid not in _cal_cache:
        Pm = P()
        c = Pm.CalendarSystem.for_id(cid)
        _cal_cache[cid] = (c, c._year_month_day_calculator, c.min_year, c.max_year, c._min_days, c._max_days)
    return _cal_cache[cid]


_row_cache = {}


# Year rows the calculators cannot produce although week-year rules need them (intended behaviour, see the
# finding `week-year-api-raises:Badi:before-first-year`): Badi year 0 is 1843-03-21 .. 1844-03-20 (contains 29 Feb 1844).
ROW_FALLBACK = {("Badi", 0): (0, -46307, 366)}


def row(cid, y):
    k = (cid, y)
    if k not in _row_cache:
        c, calc, mn, mx, _, _ = cal_info(cid)
        try:
            if y < mn - 1 or y > mx + 1:
                raise ValueError
            s = calc._get_start_of_year_in_days(y)
            if mn <= y <= mx:
                ln = calc._get_days_in_year(y)
            elif y == mn - 1:
                ln = calc._get_start_of_year_in_days(y + 1) - s
            else:
                try:
                    ln = calc._get_days_in_year(y)     # what get_weeks_in_week_year(max_year + 1) reads
                except Exception:  # noqa: BLE001
                    ln = 354
            _row_cache[k] = (y, s, ln)
        except Exception:  # noqa: BLE001
            _row_cache[k] = ROW_FALLBACK.get(k)
    return _row_cache[k]


def all_rules():
    """(minDays, firstDayOfWeek, irregular) for the 71 rules"""
    out = [(4, 1, 0)]
    for md in range(1, 8):
        for fd in range(1, 8):
            out.append((md, fd, 0))
    for md in (1, 4, 7):
        for fd in range(1, 8):
            out.append((md, fd, 1))
    return out


def extra_irregular_rules():
    """irregular rules with 2, 3, 5, 6 minimum days: not reachable through CalendarWeekRule, private constructor"""
    return [(md, fd, 1) for md in (2, 3, 5, 6) for fd in range(1, 8)]


def irregular_rules():
    return [(md, fd, 1) for md in range(1, 8) for fd in range(1, 8)]


def regular_rules():
    return [(md, fd, 0) for md in range(1, 8) for fd in range(1, 8)]


_rule_cache = {}


def mk_rule(md, fd, irr):
    k = (md, fd, irr)
    if k in _rule_cache:
        return _rule_cache[k]
    Pm = P()
    from pyoda_time.calendars import CalendarWeekRule, WeekYearRules
    if irr and md in (1, 4, 7):
        cw = {1: CalendarWeekRule.FIRST_DAY, 4: CalendarWeekRule.FIRST_FOUR_DAY_WEEK, 7: CalendarWeekRule.FIRST_FULL_WEEK}[md]
        r = WeekYearRules.from_calendar_week_rule(cw, Pm.IsoDayOfWeek(fd))
    elif irr:
        from pyoda_time.calendars._simple_week_year_rule import _SimpleWeekYearRule
        r = _SimpleWeekYearRule(md, Pm.IsoDayOfWeek(fd), True)
    else:
        r = WeekYearRules.for_min_days_in_first_week(md, Pm.IsoDayOfWeek(fd))
    _rule_cache[k] = r
    return r


CALS = None


def cal_ids():
    global CALS
    if CALS is None:
        CALS = list(P().CalendarSystem.ids)
    return CALS


def ctx_tokens(cid, rule, years):
    c, calc, mn, mx, mnd, mxd = cal_info(cid)
    rows = []
    for y in sorted(set(years)):
        r = row(cid, y)
        if r is None:
            return None
        rows.append(r)
    return f"{rule[0]} {rule[1]} {rule[2]} {mn} {mx} {mnd} {mxd} {len(rows)} " + " ".join(f"{a} {b} {c_}" for a, b, c_ in rows)


# the calendar and the rule of an op are not part of the op line (the model needs only the year-table rows): the
# harness keeps a side table from op line to (calendar id, rule) / calendar id.
SIDE = {}        # op line -> list of entries: (calendar id, rule) for wy.* ops, calendar id for wd.nav
_CUR = [None]    # the entry being evaluated when a line belongs to several calendars


def side_add(line, entry):
    """Calendars with the same year table near a date (Gregorian/ISO, the Hebrew and several Hijri variants) give
    the same op line: the line is sent to the model once and evaluated on the code for every calendar it stands for."""
    lst = SIDE.setdefault(line, [])
    if entry not in lst:
        lst.append(entry)


def side(line):
    return _CUR[0] if _CUR[0] is not None else SIDE[line][0]


def _for_each_entry(line, fn):
    entries = SIDE.get(line) or [None]
    outs = []
    for e in entries:
        _CUR[0] = e
        try:
            outs.append((e, fn()))
        finally:
            _CUR[0] = None
    return outs


_date_cache = {}


def mk_date(cid, d):
    k = (cid, d)
    v = _date_cache.get(k)
    if v is None:
        if len(_date_cache) > 200000:
            _date_cache.clear()
        import routes
        v = _date_cache[k] = routes.routed_date(cal_info(cid)[0], d)
    return v


def dow_arg(x):
    """IsoDayOfWeek member for 0..7 (0 = NONE), the raw integer otherwise"""
    return P().IsoDayOfWeek(x) if 0 <= x <= 7 else x


def triple(r, date):
    return (r.get_week_year(date), r.get_week_of_week_year(date), int(date.day_of_week))


_last_sweep = [None, None]


def sweep_triples(line, cid, r, d0, k):
    if _last_sweep[0] == (line, cid):
        return _last_sweep[1]
    out = [triple(r, mk_date(cid, d0 + i)) for i in range(k)]
    _last_sweep[0], _last_sweep[1] = (line, cid), out
    return out


def _impl(t):
    Pm = P()
    op = t[0]
    line = " ".join(t)
    if op.startswith("wy."):
        cid, rule = side(line)
        c = cal_info(cid)[0]
        r = mk_rule(*rule)
        n = int(t[8])
        a = [int(x) for x in t[9 + 3 * n:]]
        if op == "wy.of":
            d = mk_date(cid, a[1])
            return ints(r.get_week_year(d), r.get_week_of_week_year(d), int(d.day_of_week))
        if op == "wy.sw":
            return ints(*[x for tr in sweep_triples(line, cid, r, a[0], a[1]) for x in tr])
        if op == "wy.rt":
            d = mk_date(cid, a[1])
            wy, w, dow = r.get_week_year(d), r.get_week_of_week_year(d), d.day_of_week
            return " ".join([str(wy), str(w), str(int(dow)), guard(lambda: str(r.get_weeks_in_week_year(wy, c))),
                             guard(lambda: str(r.get_local_date(wy, w, dow, c)._days_since_epoch))])
        if op == "wy.pyiso":
            iso = datetime.date.fromordinal(a[1] + 719163).isocalendar()
            return ints(iso[0], iso[1], iso[2])
        if op == "wy.weeks":
            return str(r.get_weeks_in_week_year(a[0], c))
        if op == "wy.date":
            return str(r.get_local_date(a[0], a[1], Pm.IsoDayOfWeek(a[2]) if 1 <= a[2] <= 7 else a[2], c)._days_since_epoch)
    if op == "wd.nav":
        d, tg = int(t[1]), int(t[2])
        cid = side(line)
        date = mk_date(cid, d)
        T = dow_arg(tg)
        from pyoda_time import DateAdjusters

        def g(fn):
            try:
                return str(fn()._days_since_epoch - d)
            except ValueError:
                # an invalid target is refused with ValueError; a valid one can only fail by leaving the calendar
                return "!range" if 1 <= tg <= 7 else "!valueError"
            except OverflowError:
                return "!range"
        return " ".join([str(int(date.day_of_week)), g(lambda: date.next(T)), g(lambda: date.previous(T)),
                         g(lambda: DateAdjusters.next_or_same(T)(date)), g(lambda: DateAdjusters.previous_or_same(T)(date)),
                         g(lambda: DateAdjusters.next(T)(date)), g(lambda: DateAdjusters.previous(T)(date))])
    if op == "wd.nth":
        f, dim, occ, dow = (int(x) for x in t[1:5])
        first = Pm.LocalDate._ctor(days_since_epoch=f)
        r = Pm.LocalDate.from_year_month_week_and_day(first.year, first.month, occ, Pm.IsoDayOfWeek(dow) if 1 <= dow <= 7 else dow)
        return str(r.day)
    raise ValueError(op)


# ---- the property on pairs of dates (shared by the wy.of and wy.sw oracles) -------------------------------------

def advance_failure(rule, what, t0, t7, nweeks):
    """t0 = (week-year, week, dow) of a date, t7 of the date seven days later, nweeks = weeks in t0's week-year"""
    (wy, w, _), (wy7, w7, _) = t0, t7
    if not rule[2]:
        if not ((wy7 == wy and w7 == w + 1) or (wy7 == wy + 1 and w7 == 1 and w == nweeks)):
            return {"key": "weeks-do-not-advance", "what": f"{what}: ({wy},{w}) then 7 days later ({wy7},{w7}), {nweeks} weeks in {wy}"}
        return None
    # irregular: +1 inside a week-year; across the year end the short weeks allow week 1 or 2 after the last two weeks
    if not ((wy7 == wy and w7 == w + 1) or (wy7 == wy + 1 and 1 <= w7 <= 2 and nweeks - 1 <= w <= nweeks)):
        return {"key": "weeks-do-not-advance-irregular", "what": f"{what}: ({wy},{w}) then 7 days later ({wy7},{w7}), {nweeks} weeks in {wy}"}
    return None


def boundary_failure(rule, what, tprev, t, nweeks_prev):
    """tprev = triple of the previous day, t = triple of the day, nweeks_prev = weeks in tprev's week-year (callable)"""
    (wy1, w1, _), (wy, w, dow) = tprev, t
    first = dow == rule[1]
    if not rule[2]:
        same = (wy1, w1) == (wy, w)
        if same != (not first):
            return {"key": "week-boundary-not-at-first-day", "what": f"{what}: previous day in same week = {same}, day of week {dow}"}
        if not same and not ((wy1 == wy and w == w1 + 1) or (wy == wy1 + 1 and w == 1 and w1 == nweeks_prev())):
            return {"key": "week-boundary-step", "what": f"{what}: previous day ({wy1},{w1}), this day ({wy},{w})"}
        return None
    if wy1 == wy:
        if w != w1 + (1 if first else 0):
            return {"key": "week-boundary-irregular", "what": f"{what}: previous day ({wy1},{w1}), this day ({wy},{w}), day of week {dow}, first day of week {rule[1]}"}
    elif wy == wy1 + 1:
        if w != 1 or w1 != nweeks_prev():
            return {"key": "year-boundary-irregular", "what": f"{what}: previous day ({wy1},{w1}) of {nweeks_prev()} weeks, this day ({wy},{w})"}
    else:
        return {"key": "week-boundary-irregular", "what": f"{what}: previous day in week-year {wy1}, this day in {wy}"}
    return None


def weekyear_failure(rule, what, year, wy):
    if abs(wy - year) > 1:
        return {"key": "weekyear-not-adjacent", "what": f"{what}: week-year {wy}"}
    if rule[2] and (wy > year or (rule[0] == 1 and wy != year)):
        return {"key": "irregular-weekyear-not-calendar-year", "what": f"{what}: calendar year {year}, week-year {wy}"}
    return None


def api_raises(cid, year, what, e):
    """a week-year getter / converter raised for a date (or week-year) that exists in the calendar"""
    mn, mx = cal_info(cid)[2], cal_info(cid)[3]
    side = "before-first-year" if year <= mn else ("after-last-year" if year >= mx else "inside")
    return {"key": f"week-year-api-raises:{cid}:{side}", "what": f"{what} raised {type(e).__name__}: {e}"}


def roundtrip_failure(cid, rule, r, c, date, days, what):
    """date -> (week-year, week, day of week) -> date on the real code; returns (failure | None, triple, weeks)"""
    try:
        wy, w, dow = triple(r, date)
    except Exception as e:  # noqa: BLE001
        return api_raises(cid, date.year, f"{what}: get_week_year / get_week_of_week_year", e), None, None
    f = weekyear_failure(rule, what, date.year, wy)
    if f:
        return f, (wy, w, dow), None
    try:
        nweeks = r.get_weeks_in_week_year(wy, c)
    except Exception as e:  # noqa: BLE001
        return api_raises(cid, wy, f"{what}: get_weeks_in_week_year({wy}), the week-year reported for the date,", e), (wy, w, dow), None
    try:
        back = r.get_local_date(wy, w, date.day_of_week, c)
    except Exception as e:  # noqa: BLE001
        return api_raises(cid, wy, f"{what}: get_local_date({wy}, {w}, {dow}), the triple reported for the date,", e), (wy, w, dow), nweeks
    if back != date:
        return {"key": "weekdate-roundtrip", "what": f"{what}: ({wy},{w},{dow}) converts back to day {back._days_since_epoch}"}, (wy, w, dow), nweeks
    if not (1 <= w <= nweeks):
        return {"key": "week-out-of-range", "what": f"{what}: week {w} of {nweeks}"}, (wy, w, dow), nweeks
    return None, (wy, w, dow), nweeks


def _oracle(t):
    Pm = P()
    op = t[0]
    line = " ".join(t)
    if op == "wy.rt":
        cid, rule = side(line)
        c, calc, mn, mx, mnd, mxd = cal_info(cid)
        r = mk_rule(*rule)
        n = int(t[8])
        cy, days = (int(x) for x in t[9 + 3 * n:])
        date = mk_date(cid, days)
        what = f"calendar {cid} rule {rule} date day-number {days} ({date.year}-{date.month}-{date.day})"
        return roundtrip_failure(cid, rule, r, c, date, days, what)[0]
    if op == "wy.weeks":
        cid, rule = side(line)
        c, calc, mn, mx, mnd, mxd = cal_info(cid)
        r = mk_rule(*rule)
        n = int(t[8])
        wy = int(t[9 + 3 * n])
        ry = row(cid, wy)
        if ry is None:
            return None
        try:
            nweeks = r.get_weeks_in_week_year(wy, c)
        except Exception as e:  # noqa: BLE001
            # refused: then no date of the calendar may be in that week-year
            for d in (ry[1], ry[1] + ry[2] - 1, ry[1] + 7, ry[1] + ry[2] - 8):
                d = min(max(d, mnd), mxd)
                try:
                    if r.get_week_year(mk_date(cid, d)) == wy:
                        return api_raises(cid, wy, f"calendar {cid} rule {rule} get_weeks_in_week_year({wy}), the week-year of day {d},", e)
                except Exception:  # noqa: BLE001
                    continue
            return None
        # accepted: the first and the last day of the calendar year that are in this week-year have weeks 1..nweeks
        for d in (ry[1] + 7, ry[1] + ry[2] - 8):
            if mnd <= d <= mxd:
                try:
                    wy2, w2, _ = triple(r, mk_date(cid, d))
                except Exception:  # noqa: BLE001
                    continue
                if wy2 == wy and not 1 <= w2 <= nweeks:
                    return {"key": "week-out-of-range", "what": f"calendar {cid} rule {rule} day {d}: week {w2} of {nweeks} in week-year {wy}"}
        return None
    if op == "wy.of":
        cid, rule = side(line)
        c, calc, mn, mx, mnd, mxd = cal_info(cid)
        r = mk_rule(*rule)
        n = int(t[8])
        cy, days = (int(x) for x in t[9 + 3 * n:])
        date = mk_date(cid, days)
        what = f"calendar {cid} rule {rule} date day-number {days} ({date.year}-{date.month}-{date.day})"
        f, t3, nweeks = roundtrip_failure(cid, rule, r, c, date, days, what)
        if f:
            return f
        wy, w, dow = t3
        if days + 7 <= mxd:
            d7 = mk_date(cid, days + 7)
            try:
                wy7, w7 = r.get_week_year(d7), r.get_week_of_week_year(d7)
            except Exception:  # noqa: BLE001
                return None
            f = advance_failure(rule, what, (wy, w, int(dow)), (wy7, w7, int(dow)), nweeks)
            if f:
                return f
        if days - 1 >= mnd:
            d1 = mk_date(cid, days - 1)
            try:
                t1 = (r.get_week_year(d1), r.get_week_of_week_year(d1), int(d1.day_of_week))
                f = boundary_failure(rule, what, t1, (wy, w, int(dow)), lambda: r.get_weeks_in_week_year(t1[0], c))
            except Exception:  # noqa: BLE001
                return None
            if f:
                return f
        if cid == "ISO" and rule == (4, 1, 0) and 1 <= date.year <= 9999:
            iso = datetime.date.fromordinal(days + 719163).isocalendar()
            if (iso[0], iso[1], iso[2]) != (wy, w, int(dow)):
                return {"key": "iso-rule-vs-isocalendar", "what": f"{what}: pyoda ({wy},{w},{int(dow)}) stdlib {tuple(iso)}"}
        return None
    if op == "wy.sw":
        cid, rule = side(line)
        c, calc, mn, mx, mnd, mxd = cal_info(cid)
        r = mk_rule(*rule)
        n = int(t[8])
        d0, k = (int(x) for x in t[9 + 3 * n:])
        try:
            trs = sweep_triples(line, cid, r, d0, k)
        except Exception as e:  # noqa: BLE001
            return api_raises(cid, mk_date(cid, d0).year, f"calendar {cid} rule {rule} days {d0}..{d0 + k - 1}: get_week_year / get_week_of_week_year", e)
        weeks = {}

        def nweeks_of(wy):
            if wy not in weeks:
                weeks[wy] = r.get_weeks_in_week_year(wy, c)
            return weeks[wy]
        for i, tr in enumerate(trs):
            days = d0 + i
            date = mk_date(cid, days)
            wy, w, dow = tr
            what = f"calendar {cid} rule {rule} date day-number {days} ({date.year}-{date.month}-{date.day})"
            f = weekyear_failure(rule, what, date.year, wy)
            if f:
                return f
            try:
                nweeks = nweeks_of(wy)
                back = r.get_local_date(wy, w, date.day_of_week, c)
            except Exception as e:  # noqa: BLE001
                return api_raises(cid, wy, f"{what}: get_weeks_in_week_year / get_local_date({wy}, {w}, {dow}), the triple reported for the date,", e)
            if back != date:
                return {"key": "weekdate-roundtrip", "what": f"{what}: ({wy},{w},{dow}) converts back to day {back._days_since_epoch}"}
            if not (1 <= w <= nweeks):
                return {"key": "week-out-of-range", "what": f"{what}: week {w} of {nweeks}"}
            if i + 7 < k:
                f = advance_failure(rule, what, tr, trs[i + 7], nweeks)
                if f:
                    return f
            if i >= 1:
                try:
                    f = boundary_failure(rule, what, trs[i - 1], tr, lambda: nweeks_of(trs[i - 1][0]))
                except Exception:  # noqa: BLE001
                    f = None
                if f:
                    return f
        return None
    if op == "wy.date":
        cid, rule = side(line)
        c, calc, mn, mx, mnd, mxd = cal_info(cid)
        r = mk_rule(*rule)
        n = int(t[8])
        wy, w, dow = (int(x) for x in t[9 + 3 * n:])
        what = f"calendar {cid} rule {rule} get_local_date({wy}, {w}, {dow})"
        if not 1 <= dow <= 7:
            try:
                res = r.get_local_date(wy, w, dow_arg(dow), c)
            except ValueError:
                return None
            except Exception:  # noqa: BLE001
                return None
            return {"key": "weekdate-invalid-day-of-week-accepted", "what": f"{what} returned day {res._days_since_epoch}"}
        try:
            res = r.get_local_date(wy, w, Pm.IsoDayOfWeek(dow), c)
        except ValueError:
            # refused: then no date of the calendar may have this triple.  The only candidate, with plain integers:
            ry = row(cid, wy)
            if ry is None or w < 1 or w > 60:
                return None
            s0 = ry[1]
            into = ((s0 + 3) % 7 + 1 - rule[1]) % 7
            ws = s0 - into if 7 - into >= rule[0] else s0 - into + 7
            cand = ws + (w - 1) * 7 + (dow - rule[1]) % 7
            if mnd <= cand <= mxd:
                try:
                    t3 = triple(r, mk_date(cid, cand))
                except Exception as e:  # noqa: BLE001
                    return api_raises(cid, mk_date(cid, cand).year, f"calendar {cid} rule {rule} day {cand}: get_week_year / get_week_of_week_year", e)
                if t3 == (wy, w, dow):
                    if wy < mn or wy > mx:
                        return api_raises(cid, wy, f"{what}, the triple of day {cand},", ValueError("refused"))
                    return {"key": "weekdate-rejected-but-exists", "what": f"{what} raised ValueError although day {cand} has exactly this week-year, week and day of week"}
            return None
        except Exception:  # noqa: BLE001
            return None
        if res.calendar != c:
            return {"key": "weekdate-wrong-calendar", "what": f"{what} returned a date in calendar {res.calendar.id}"}
        try:
            t3 = triple(r, res)
        except Exception:  # noqa: BLE001
            return None
        if t3 != (wy, w, dow):
            return {"key": "weekdate-accepted-wrong-triple", "what": f"{what} returned day {res._days_since_epoch} ({res.year}-{res.month}-{res.day}) whose week-year, week, day of week are {t3}"}
        return None
    if op == "wd.nav":
        d, tg = int(t[1]), int(t[2])
        cid = side(line)
        c = cal_info(cid)[0]
        date = mk_date(cid, d)
        from pyoda_time import DateAdjusters
        calls = [("next", lambda T: date.next(T), 1, 7), ("previous", lambda T: date.previous(T), -7, -1),
                 ("next_or_same", lambda T: DateAdjusters.next_or_same(T)(date), 0, 6),
                 ("previous_or_same", lambda T: DateAdjusters.previous_or_same(T)(date), -6, 0),
                 ("DateAdjusters.next", lambda T: DateAdjusters.next(T)(date), 1, 7),
                 ("DateAdjusters.previous", lambda T: DateAdjusters.previous(T)(date), -7, -1)]
        if not 1 <= tg <= 7:
            for name, fn, _, _ in calls:
                try:
                    r = fn(dow_arg(tg))
                except ValueError:
                    continue
                except Exception as e:  # noqa: BLE001
                    return {"key": "weekday-invalid-target-other-error", "what": f"calendar {cid} day {d} {name}({tg}) raised {type(e).__name__}: {e}"}
                return {"key": "weekday-invalid-target-accepted", "what": f"calendar {cid} day {d} {name}({tg}) returned day {r._days_since_epoch}"}
            return None
        T = Pm.IsoDayOfWeek(tg)
        if int(date.day_of_week) != ((d + 3) % 7) + 1:
            return {"key": "day-of-week", "what": f"day {d}: day_of_week {int(date.day_of_week)}"}
        mnd, mxd = cal_info(cid)[4], cal_info(cid)[5]
        cur = int(date.day_of_week)
        nxt, prv = (tg - cur - 1) % 7 + 1, -((cur - tg - 1) % 7 + 1)
        exp = {"next": nxt, "previous": prv, "next_or_same": (tg - cur) % 7, "previous_or_same": -((cur - tg) % 7),
               "DateAdjusters.next": nxt, "DateAdjusters.previous": prv}
        time = Pm.LocalTime(13, 7, 5)
        for name, fn, lo, hi in calls:
            inside = mnd <= d + exp[name] <= mxd
            try:
                r = fn(T)
            except (OverflowError, ValueError) as e:
                if inside:
                    return {"key": "weekday-navigation-raises-in-range", "what": f"calendar {cid} day {d} (weekday {cur}) {name}({tg}) raised {type(e).__name__} although day {d + exp[name]} is inside the calendar"}
                continue
            diff = r._days_since_epoch - d
            if not (lo <= diff <= hi) or int(r.day_of_week) != tg or r.calendar != c:
                return {"key": "weekday-navigation-" + name.replace("DateAdjusters.", "adjuster-"), "what": f"calendar {cid} day {d} (weekday {int(date.day_of_week)}) {name}({tg}) moved {diff} days to weekday {int(r.day_of_week)}"}
            # the same step through the other entry points: with_date_adjuster, LocalDateTime (time of day kept)
            ldt = date + time
            if name in ("next", "previous"):
                r2 = (ldt.next(T) if name == "next" else ldt.previous(T))
            else:
                adj = getattr(DateAdjusters, name.replace("DateAdjusters.", ""))(T)
                if date.with_date_adjuster(adj) != r:
                    return {"key": "with-date-adjuster", "what": f"calendar {cid} day {d} with_date_adjuster({name}({tg})) differs from applying the adjuster"}
                r2 = ldt.with_date_adjuster(adj)
            if r2.date != r or r2.time_of_day != time:
                return {"key": "weekday-navigation-datetime", "what": f"calendar {cid} day {d} {name}({tg}) on a LocalDateTime gave {r2!r}, on the date day {r._days_since_epoch}"}
        return None
    if op == "wd.nth":
        f, dim, occ, dow = (int(x) for x in t[1:5])
        if not (1 <= occ <= 5 and 1 <= dow <= 7):
            return None
        first = Pm.LocalDate._ctor(days_since_epoch=f)
        r = Pm.LocalDate.from_year_month_week_and_day(first.year, first.month, occ, Pm.IsoDayOfWeek(dow))
        if (r.year, r.month) != (first.year, first.month) or int(r.day_of_week) != dow:
            return {"key": "nth-weekday-wrong-weekday", "what": f"from_year_month_week_and_day({first.year},{first.month},{occ},{dow}) = {r.year}-{r.month}-{r.day}, weekday {int(r.day_of_week)}"}
        nth = (r.day - 1) // 7 + 1
        if not (nth == occ or (occ == 5 and r.day + 7 > dim)):
            return {"key": "nth-weekday-wrong-occurrence", "what": f"from_year_month_week_and_day({first.year},{first.month},{occ},{dow}) = day {r.day}: occurrence {nth}"}
        return None
    return None


def impl(t):
    line = " ".join(t)
    if len(SIDE.get(line) or ()) <= 1:
        return _impl(t)
    outs = _for_each_entry(line, lambda: guard(_impl, t))
    if all(o == outs[0][1] for _, o in outs):
        return outs[0][1]
    return " | ".join(f"{e}: {o}" for e, o in outs)


def oracle(t):
    line = " ".join(t)
    if len(SIDE.get(line) or ()) <= 1:
        return _oracle(t)
    for _, f in _for_each_entry(line, lambda: _oracle(t)):
        if f:
            return f
    return None


def edge(cid, ys):
    """year rows an op needs: near the ends of the calendar the validation looks at min_year and max_year + 1"""
    mn, mx = cal_info(cid)[2], cal_info(cid)[3]
    return ys + [mn, mx + 1] if (min(ys) <= mn or max(ys) >= mx) else ys


def gen(ctx, cids=None, extras=True):
    rng = ctx.rng
    rules = all_rules() + extra_irregular_rules()
    ops = []
    allcids = cal_ids()
    cids = allcids if cids is None else cids
    for cid in cids:
        c, calc, mn, mx, mnd, mxd = cal_info(cid)
        years = {mn, mn + 1, mx - 1, mx} | {rng.randint(mn + 1, mx - 1) for _ in range(ctx.scale(8, 200))}
        if cid == "ISO":
            years |= set(range(2015, 2031)) if not ctx.thorough else set(range(1, 10000))
        for y in sorted(years):
            ry = row(cid, y)
            if ry is None:
                continue
            rs = rules if ctx.thorough or cid in ("ISO", "Hebrew Civil", "Hijri Civil-Indian") else rng.sample(rules, 14) + [(4, 1, 0)]
            if cid == "ISO" and ctx.thorough and y % 40 != 0:
                rs = [(4, 1, 0)] + rng.sample(rules, 3)  # every year with the ISO rule (vs isocalendar), all rules every 40th year
            if cid == "ISO" and not ctx.thorough and y < 2015:
                rs = rng.sample(rules, 24) + [(4, 1, 0)]
            for rule in rs:
                ds = set()
                for base in (ry[1], ry[1] + ry[2]):
                    for k in (-8, -7, -6, -4, -1, 0, 1, 3, 6, 7, 8):
                        ds.add(base + k)
                ds.add(ry[1] + rng.randint(9, ry[2] - 9))
                for d in sorted(ds):
                    if not (mnd <= d <= mxd):
                        continue
                    cy = y if ry[1] <= d < ry[1] + ry[2] else (y - 1 if d < ry[1] else y + 1)
                    pre = ctx_tokens(cid, rule, edge(cid, [cy - 1, cy, cy + 1]))
                    if pre is None:
                        continue
                    line = f"wy.of {pre} {cy} {d}"
                    side_add(line, (cid, rule))
                    ops.append(line)
                    if cid == "ISO" and rule == (4, 1, 0) and 2 <= cy <= 9998:
                        line = f"wy.pyiso {pre} {cy} {d}"
                        side_add(line, (cid, rule))
                        ops.append(line)
                for wy in (y,):
                    pre = ctx_tokens(cid, rule, edge(cid, [wy, wy + 1]))
                    if pre is None:
                        continue
                    line = f"wy.weeks {pre} {wy}"
                    side_add(line, (cid, rule))
                    ops.append(line)
                    trips = [(1, rule[1]), (1, 1), (52, 7), (53, 1), (54, 3), (0, 1), (rng.randint(1, 53), rng.randint(1, 7)), (53, rng.randint(0, 8))]
                    if rule[2]:
                        # the validation of irregular rules: the (possibly short) first and last weeks, every day of week
                        wl = rng.choice([52, 53, 54])
                        trips += [(1, dw) for dw in range(1, 8)] + [(wl, dw) for dw in range(1, 8)]
                    pre2 = ctx_tokens(cid, rule, edge(cid, [wy - 1, wy, wy + 1]))
                    if pre2 is None:
                        continue
                    for w, dow in trips:
                        line = f"wy.date {pre2} {wy} {w} {dow}"
                        side_add(line, (cid, rule))
                        ops.append(line)
    if not extras:
        return ops
    # weekday navigation
    for _ in range(ctx.scale(6000, 300000)):
        cid = rng.choice(allcids)
        c, calc, mn, mx, mnd, mxd = cal_info(cid)
        d = rng.choice([mnd + rng.randint(0, 8), mxd - rng.randint(0, 8), -3, -4, -2, 0, rng.randint(mnd, mxd), rng.randint(-10, 10)])
        if not (mnd <= d <= mxd):
            continue
        tg = rng.randint(1, 7) if rng.random() < 0.97 else rng.choice([0, 8, -1, 9])
        line = f"wd.nav {d} {tg} {mnd} {mxd}"
        side_add(line, cid)
        ops.append(line)
    # n-th weekday of month (ISO)
    for _ in range(ctx.scale(6000, 300000)):
        y = rng.choice([1, 9999, 2024, 2023, rng.randint(1, 9999), rng.randint(-9998, 9999)])
        m = rng.randint(1, 12)
        first = P().LocalDate(y, m, 1)
        dim = P().CalendarSystem.iso.get_days_in_month(y, m)
        ops.append(f"wd.nth {first._days_since_epoch} {dim} {rng.choice([1, 2, 3, 4, 5, 5, rng.randint(0, 6)])} {rng.choice([1, 2, 3, 4, 5, 6, 7, rng.randint(0, 8)])}")
    return ops


# ---- the ends of every calendar, deterministically (every tier) ------------------------------------------------------

EDGE_DAYS = 8


def edge_ops():
    """first and last 8 dates of every calendar x all 49 regular and all 49 irregular rules: the round trip
    (week-year, week, weeks in that week-year, get_local_date); the week-years min_year-1, min_year, max_year,
    max_year+1 directly (weeks, dates of their first and last weeks)"""
    ops = []
    rules = regular_rules() + irregular_rules()
    for cid in cal_ids():
        c, calc, mn, mx, mnd, mxd = cal_info(cid)
        for d in list(range(mnd, mnd + EDGE_DAYS)) + list(range(mxd - EDGE_DAYS + 1, mxd + 1)):
            cy = mn if d < mnd + EDGE_DAYS else mx
            for rule in rules:
                pre = ctx_tokens(cid, rule, edge(cid, [cy - 1, cy, cy + 1]))
                if pre is None:
                    continue
                line = f"wy.rt {pre} {cy} {d}"
                side_add(line, (cid, rule))
                ops.append(line)
        for wy in (mn - 1, mn, mx, mx + 1):
            for rule in rules:
                pre = ctx_tokens(cid, rule, edge(cid, [wy, wy + 1] if wy <= mx else [wy]))
                if pre is not None:
                    line = f"wy.weeks {pre} {wy}"
                    side_add(line, (cid, rule))
                    ops.append(line)
                if mn <= wy <= mx:
                    continue
                pre2 = ctx_tokens(cid, rule, edge(cid, [wy, wy + 1] if wy < mn else [wy - 1, wy]))
                if pre2 is None:
                    continue
                other = (rule[1] + 5) % 7 + 1
                for w, dow in ((1, rule[1]), (2, rule[1]), (52, rule[1]), (53, rule[1]), (1, other), (53, other)):
                    line = f"wy.date {pre2} {wy} {w} {dow}"
                    side_add(line, (cid, rule))
                    ops.append(line)
    return ops


# ---- exhaustive sweep of year boundaries (thorough tier; a sample in the quick tier) ---------------------------------

SWEEP_BEFORE, SWEEP_DAYS = 10, 21     # the 21 days from 10 before a year start to 10 after it


def sweep_ops(cid, years, rules_for_year):
    """one wy.sw op per (year boundary, rule): the days start(y)-10 … start(y)+10, clipped to the calendar"""
    c, calc, mn, mx, mnd, mxd = cal_info(cid)
    ops = []
    for y in years:
        ry = row(cid, y)
        if ry is None:
            continue
        d0 = max(ry[1] - SWEEP_BEFORE, mnd)
        d1 = min(ry[1] + SWEEP_BEFORE, mxd)
        if d1 < d0:
            continue
        for rule in rules_for_year(y):
            pre = ctx_tokens(cid, rule, edge(cid, [y - 2, y - 1, y, y + 1]))
            if pre is None:
                pre = ctx_tokens(cid, rule, edge(cid, [y - 1, y, y + 1]))
                if pre is None:
                    continue
                d0 = max(d0, ry[1])
            line = f"wy.sw {pre} {d0} {d1 - d0 + 1}"
            side_add(line, (cid, rule))
            ops.append(line)
    return ops


def _sweep(ctx, chunk):
    cid, y_lo, y_hi = chunk
    irr, reg = irregular_rules(), regular_rules()
    for a in range(y_lo, y_hi + 1, 250):
        ops = sweep_ops(cid, range(a, min(a + 250, y_hi + 1)), lambda y: irr + (reg if y % 5 == 0 else []))
        ctx.correspond("weekyear.sweep", ops, impl, oracle=oracle, exhaustive=True)
        for o in ops:
            SIDE.pop(o, None)
        ctx.distinct = {hash(x) if isinstance(x, str) else x for x in ctx.distinct}   # the op strings are long
        _date_cache.clear()


# ---- DateAdjusters that set calendar fields (direct oracle) ----------------------------------------------------------

def adjuster_cases(ctx):
    rng = ctx.rng
    cases = []
    for cid in cal_ids():
        c, calc, mn, mx, mnd, mxd = cal_info(cid)
        for _ in range(ctx.scale(60, 3000)):
            d = rng.choice([rng.randint(mnd, mxd), mnd + rng.randint(0, 400), mxd - rng.randint(0, 400)])
            kind = rng.choice(["start", "end", "day", "day", "month", "month", "period", "period", "period-time"])
            if kind == "day":
                arg = rng.choice([1, 28, 29, 30, 31, 32, 0, rng.randint(-2, 35)])
            elif kind == "month":
                arg = rng.choice([1, 2, 12, 13, 14, 0, 19, 20, rng.randint(-1, 21)])
            elif kind == "period":
                arg = (rng.choice([0, 0, 1, -1, rng.randint(-30, 30)]), rng.choice([0, 1, -1, 12, rng.randint(-40, 40)]),
                       rng.choice([0, 0, 1, rng.randint(-60, 60)]), rng.choice([0, 1, -1, 30, rng.randint(-500, 500)]))
            elif kind == "period-time":
                arg = rng.choice(["hours", "minutes", "seconds", "milliseconds", "ticks", "nanoseconds"])
            else:
                arg = 0
            cases.append((cid, d, kind, arg))
    return cases


def adjuster_case(case):
    Pm = P()
    from pyoda_time import DateAdjusters, Period
    cid, d, kind, arg = case
    c, calc, mn, mx, mnd, mxd = cal_info(cid)
    date = mk_date(cid, d)
    y, m, dd = date.year, date.month, date.day
    what = f"calendar {cid} day {d} ({y}-{m}-{dd}) {kind}({arg})"

    def fields(r):
        return (r.year, r.month, r.day)
    if kind in ("start", "end"):
        dim = c.get_days_in_month(y, m)
        r = (DateAdjusters.start_of_month if kind == "start" else DateAdjusters.end_of_month)(date)
        want = (y, m, 1 if kind == "start" else dim)
        if fields(r) != want or r.calendar != c:
            return {"key": "adjuster-" + kind + "-of-month", "what": f"{what} = {fields(r)}, expected {want}"}
        # first/last: the neighbouring day is in another month (or outside the calendar)
        nb = r._days_since_epoch + (-1 if kind == "start" else 1)
        if mnd <= nb <= mxd:
            o = mk_date(cid, nb)
            if (o.year, o.month) == (y, m):
                return {"key": "adjuster-" + kind + "-of-month", "what": f"{what} = {fields(r)} but day {nb} is in the same month"}
        if cid == "ISO" and 1 <= y <= 9999:
            ref = datetime.date(y, m, 1) if kind == "start" else (datetime.date(y + (m == 12), m % 12 + 1, 1) - datetime.timedelta(days=1) if (y, m) != (9999, 12) else datetime.date(9999, 12, 31))
            if r._days_since_epoch + 719163 != ref.toordinal():
                return {"key": "adjuster-" + kind + "-of-month", "what": f"{what} = day {r._days_since_epoch}, datetime says {ref}"}
        return None
    if kind in ("day", "month"):
        if kind == "day":
            valid = 1 <= arg <= c.get_days_in_month(y, m)
            want = (y, m, arg)
            fn = DateAdjusters.day_of_month(arg)
        else:
            valid = 1 <= arg <= c.get_months_in_year(y) and dd <= c.get_days_in_month(y, arg)
            want = (y, arg, dd)
            fn = DateAdjusters.month(arg)
        if valid and not (mnd <= calc._get_days_since_epoch(Pm.LocalDate(want[0], want[1], want[2], c)._year_month_day) <= mxd):
            valid = False
        try:
            r = fn(date)
        except ValueError:
            if valid:
                return {"key": "adjuster-" + kind + "-raises", "what": f"{what} raised ValueError although {want} is a date of the calendar"}
            return None
        if not valid:
            return {"key": "adjuster-" + kind + "-accepts-invalid", "what": f"{what} = {fields(r)}"}
        if fields(r) != want or r.calendar != c or date.with_date_adjuster(fn) != r:
            return {"key": "adjuster-" + kind, "what": f"{what} = {fields(r)}, expected {want}"}
        return None
    if kind == "period":
        py, pm, pw, pd = arg
        p = Period.from_years(py) + Period.from_months(pm) + Period.from_weeks(pw) + Period.from_days(pd)
        fn = DateAdjusters.add_period(p)

        def run(f):
            try:
                return f()._days_since_epoch
            except (OverflowError, ValueError) as e:
                return type(e).__name__
        got = run(lambda: fn(date))
        steps = run(lambda: date.plus_years(py).plus_months(pm).plus_weeks(pw).plus_days(pd))
        plus = run(lambda: date.plus(p))
        if got != plus or (isinstance(steps, int) and got != steps):
            return {"key": "adjuster-add-period", "what": f"{what}: adjuster {got}, date.plus {plus}, unit by unit {steps}"}
        # weeks are added before days: an intermediate date outside the calendar raises (unit-by-unit semantics, C09)
        if py == 0 and pm == 0 and mnd <= d + 7 * pw <= mxd and mnd <= d + 7 * pw + pd <= mxd and got != d + 7 * pw + pd:
            return {"key": "adjuster-add-period", "what": f"{what}: adjuster {got}, day arithmetic {d + 7 * pw + pd}"}
        return None
    if kind == "period-time":
        p = getattr(Period, "from_" + arg)(1)
        try:
            DateAdjusters.add_period(p)
        except ValueError:
            pass
        else:
            return {"key": "adjuster-add-period-time-accepted", "what": f"DateAdjusters.add_period(Period.from_{arg}(1)) was accepted"}
        try:
            DateAdjusters.add_period(None)
        except TypeError:
            return None
        return {"key": "adjuster-add-period-none-accepted", "what": "DateAdjusters.add_period(None) was accepted"}
    return None


def _explore(ctx, chunk):
    cids, extras = chunk
    ops = gen(ctx, cids, extras)
    ctx.correspond("weekyear.ops", ops, impl, oracle=oracle)


def run(ctx):
    if ctx.thorough:
        cids = cal_ids()
        # ISO carries all years 1..9999 in the thorough tier: give it its own workers by splitting the rules later if needed
        chunks = [([c], False) for c in cids] + [([], True)]
        ctx.parallel(_explore, chunks)
        # every year boundary of every calendar: all 49 irregular rules, the 49 regular ones every fifth year
        sweeps = []
        for cid in cids:
            mn, mx = cal_info(cid)[2], cal_info(cid)[3]
            for a in range(mn, mx + 2, 1000):
                sweeps.append((cid, a, min(a + 999, mx + 1)))
        ctx.parallel(_sweep, sweeps)
    else:
        _explore(ctx, (None, True))
    ctx.correspond("weekyear.edges", edge_ops(), impl, oracle=oracle, exhaustive=True)
    if not ctx.thorough:
        # a sample of the thorough sweep: every rule (regular and irregular) on a few year boundaries of every calendar
        rng = ctx.rng
        allr = irregular_rules() + regular_rules()
        ops = []
        for cid in cal_ids():
            mn, mx = cal_info(cid)[2], cal_info(cid)[3]
            ys = sorted({mn, mn + 1, mx, mx + 1} | {rng.randint(mn + 1, mx) for _ in range(3)})
            ops += sweep_ops(cid, ys, lambda y: rng.sample(allr, 10))
        ctx.correspond("weekyear.sweep", ops, impl, oracle=oracle)
    ctx.check_cases("adjusters.fields", adjuster_cases(ctx), adjuster_case)
    ctx.note("rules", len(all_rules()) + len(extra_irregular_rules()))
    ctx.note("calendars", len(cal_ids()))


def replay_op(op, failure):
    t = op.split(" ")
    if t[0] in ("wd.nth",):
        return oracle(t)
    if op.startswith("("):
        import ast
        try:
            return adjuster_case(ast.literal_eval(op))
        except (ValueError, SyntaxError):
            return None
    # other ops need the side table (calendar / rule); rebuild it from the failure text when present
    import re
    m = re.search(r"calendar (.+?) rule \((\d+), (\d+), (\d+)\)", failure.get("what", ""))
    if m and t[0].startswith("wy."):
        SIDE[op] = [(m.group(1), (int(m.group(2)), int(m.group(3)), int(m.group(4))))]
        return oracle(t)
    m = re.search(r"calendar (.+?) day ", failure.get("what", ""))
    if m and t[0] == "wd.nav":
        SIDE[op] = [m.group(1)]
        return oracle(t)
    return None
