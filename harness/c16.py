"""C16 — week-year rules and weekday navigation are self-consistent and match ISO 8601."""
from __future__ import annotations

import datetime

from common import guard, ints

META = {
    "property": "C16",
    "proof_modules": ["PyodaProofs.C16"],
    "drivers": ["drv_weekyear"],
    "theorems": [
        "Pyoda.C16.dayOfWeek_eq", "Pyoda.C16.weekYearStart_aligned", "Pyoda.C16.weekYearStart_window",
        "Pyoda.C16.weeks_span", "Pyoda.C16.weekYear_contains", "Pyoda.C16.weekYear_adjacent",
        "Pyoda.C16.week_le_weeksInYear", "Pyoda.C16.weekDate_roundtrip", "Pyoda.C16.localDate_roundtrip", "Pyoda.C16.weeks_advance",
        "Pyoda.C16.next_spec", "Pyoda.C16.previous_spec", "Pyoda.C16.nextOrSame_spec", "Pyoda.C16.previousOrSame_spec",
        "Pyoda.C16.nthWeekday_spec", "Pyoda.C16.pyIsoWeek1Monday_eq", "Pyoda.C16.iso_rule_matches_isocalendar", "Pyoda.C16.iso_matches_isocalendar_gregorian",
    ],
    "trusted_base": [
        "the calendar enters the theorems as an arbitrary year table with start(y+1) = start(y) + len(y), len(y) >= 7 (C01 establishes this for every calendar); the harness reads the table entries from the code per op",
        "ISO rule = isocalendar: iso_matches_isocalendar_gregorian is about the Lean transcription of Lib/_pydatetime.isocalendar, which is tied to the real CPython by the correspondence op wy.pyiso (and the oracle compares the code with date.isocalendar() directly)",
    ],
    "partial": ["irregular (BCL-style) rules: correspondence and oracle only, the theorems are stated for regular rules"],
    "rule": "dates within 8 days of every sampled year boundary and at calendar range ends, all 71 rules, all calendars; distinct = distinct op; non-trivial = every op",
}

_P = None


def P():
    global _P
    if _P is None:
        import pyoda_time
        _P = pyoda_time
    return _P


_cal_cache = {}


def cal_info(cid):
    if cid not in _cal_cache:
        Pm = P()
        c = Pm.CalendarSystem.for_id(cid)
        _cal_cache[cid] = (c, c._year_month_day_calculator, c.min_year, c.max_year, c._min_days, c._max_days)
    return _cal_cache[cid]


_row_cache = {}


def row(cid, y):
    k = (cid, y)
    if k not in _row_cache:
        c, calc, mn, mx, _, _ = cal_info(cid)
        try:
            if y < mn - 1 or y > mx + 1:
                raise ValueError
            s = calc._get_start_of_year_in_days(y)
            ln = calc._get_days_in_year(y) if mn <= y <= mx else calc._get_start_of_year_in_days(y + 1) - s if y == mn - 1 else 354
            _row_cache[k] = (y, s, ln)
        except Exception:  # noqa: BLE001
            _row_cache[k] = None
    return _row_cache[k]


def all_rules():
    """(minDays, firstDayOfWeek, irregular) for the 71 rules"""
    out = [(4, 1, 0)]
    for md in range(1, 8):
        for fd in range(1, 8):
            out.append((md, fd, 0))
    for md in (1, 4, 7):
        for fd in range(1, 8):
            out.append((md, fd, 1))
    return out


def mk_rule(md, fd, irr):
    Pm = P()
    from pyoda_time.calendars import CalendarWeekRule, WeekYearRules
    if irr:
        cw = {1: CalendarWeekRule.FIRST_DAY, 4: CalendarWeekRule.FIRST_FOUR_DAY_WEEK, 7: CalendarWeekRule.FIRST_FULL_WEEK}[md]
        return WeekYearRules.from_calendar_week_rule(cw, Pm.IsoDayOfWeek(fd))
    return WeekYearRules.for_min_days_in_first_week(md, Pm.IsoDayOfWeek(fd))


CALS = None


def cal_ids():
    global CALS
    if CALS is None:
        CALS = list(P().CalendarSystem.ids)
    return CALS


def ctx_tokens(cid, rule, years):
    c, calc, mn, mx, mnd, mxd = cal_info(cid)
    rows = []
    for y in sorted(set(years)):
        r = row(cid, y)
        if r is None:
            return None
        rows.append(r)
    return f"{rule[0]} {rule[1]} {rule[2]} {mn} {mx} {mnd} {mxd} {len(rows)} " + " ".join(f"{a} {b} {c_}" for a, b, c_ in rows)


# ops carry the calendar ordinal as a leading pseudo-token inside the op name: "wy.of@<calidx>"; the model ignores
# nothing — so instead the harness keeps a side table from op line to calendar id.
SIDE = {}


def impl(t):
    Pm = P()
    op = t[0]
    line = " ".join(t)
    if op.startswith("wy."):
        cid, rule = SIDE[line]
        c = cal_info(cid)[0]
        r = mk_rule(*rule)
        n = int(t[8])
        a = [int(x) for x in t[9 + 3 * n:]]
        if op == "wy.of":
            d = Pm.LocalDate._ctor(days_since_epoch=a[1], calendar=c)
            return ints(r.get_week_year(d), r.get_week_of_week_year(d), int(d.day_of_week))
        if op == "wy.pyiso":
            iso = datetime.date.fromordinal(a[1] + 719163).isocalendar()
            return ints(iso[0], iso[1], iso[2])
        if op == "wy.weeks":
            return str(r.get_weeks_in_week_year(a[0], c))
        if op == "wy.date":
            return str(r.get_local_date(a[0], a[1], Pm.IsoDayOfWeek(a[2]) if 1 <= a[2] <= 7 else a[2], c)._days_since_epoch)
    if op == "wd.nav":
        d, tg = int(t[1]), int(t[2])
        cid = SIDE[line]
        c = cal_info(cid)[0]
        date = Pm.LocalDate._ctor(days_since_epoch=d, calendar=c)
        T = Pm.IsoDayOfWeek(tg)
        from pyoda_time import DateAdjusters

        def g(fn):
            try:
                return str(fn()._days_since_epoch - d)
            except (OverflowError, ValueError):
                return "!range"
        return " ".join([str(int(date.day_of_week)), g(lambda: date.next(T)), g(lambda: date.previous(T)),
                         g(lambda: DateAdjusters.next_or_same(T)(date)), g(lambda: DateAdjusters.previous_or_same(T)(date))])
    if op == "wd.nth":
        f, dim, occ, dow = (int(x) for x in t[1:5])
        first = Pm.LocalDate._ctor(days_since_epoch=f)
        r = Pm.LocalDate.from_year_month_week_and_day(first.year, first.month, occ, Pm.IsoDayOfWeek(dow) if 1 <= dow <= 7 else dow)
        return str(r.day)
    raise ValueError(op)


def oracle(t):
    Pm = P()
    op = t[0]
    line = " ".join(t)
    if op == "wy.of":
        cid, rule = SIDE[line]
        c, calc, mn, mx, mnd, mxd = cal_info(cid)
        r = mk_rule(*rule)
        n = int(t[8])
        cy, days = (int(x) for x in t[9 + 3 * n:])
        date = Pm.LocalDate._ctor(days_since_epoch=days, calendar=c)
        wy, w, dow = r.get_week_year(date), r.get_week_of_week_year(date), date.day_of_week
        what = f"calendar {cid} rule {rule} date day-number {days} ({date.year}-{date.month}-{date.day})"
        if abs(wy - date.year) > 1:
            return {"key": "weekyear-not-adjacent", "what": f"{what}: week-year {wy}"}
        try:
            nweeks = r.get_weeks_in_week_year(wy, c)
            back = r.get_local_date(wy, w, dow, c)
        except Exception as e:  # noqa: BLE001
            if mnd + 14 <= days <= mxd - 14:
                return {"key": "weekdate-roundtrip-raises", "what": f"{what}: ({wy},{w},{int(dow)}) -> {type(e).__name__}: {e}"}
            return None
        if back != date:
            return {"key": "weekdate-roundtrip", "what": f"{what}: ({wy},{w},{int(dow)}) converts back to day {back._days_since_epoch}"}
        if not (1 <= w <= nweeks):
            return {"key": "week-out-of-range", "what": f"{what}: week {w} of {nweeks}"}
        if not rule[2] and days + 7 <= mxd:
            d7 = Pm.LocalDate._ctor(days_since_epoch=days + 7, calendar=c)
            try:
                wy7, w7 = r.get_week_year(d7), r.get_week_of_week_year(d7)
            except Exception:  # noqa: BLE001
                return None
            if not ((wy7 == wy and w7 == w + 1) or (wy7 == wy + 1 and w7 == 1 and w == nweeks)):
                return {"key": "weeks-do-not-advance", "what": f"{what}: ({wy},{w}) then 7 days later ({wy7},{w7}), {nweeks} weeks in {wy}"}
        if days - 1 >= mnd:
            d1 = Pm.LocalDate._ctor(days_since_epoch=days - 1, calendar=c)
            try:
                same = (r.get_week_year(d1), r.get_week_of_week_year(d1)) == (wy, w)
            except Exception:  # noqa: BLE001
                return None
            if not rule[2] and same != (int(dow) != rule[1]):
                return {"key": "week-boundary-not-at-first-day", "what": f"{what}: previous day in same week = {same}, day of week {int(dow)}"}
        if cid == "ISO" and rule == (4, 1, 0) and 1 <= date.year <= 9999:
            iso = datetime.date.fromordinal(days + 719163).isocalendar()
            if (iso[0], iso[1], iso[2]) != (wy, w, int(dow)):
                return {"key": "iso-rule-vs-isocalendar", "what": f"{what}: pyoda ({wy},{w},{int(dow)}) stdlib {tuple(iso)}"}
        return None
    if op == "wd.nav":
        d, tg = int(t[1]), int(t[2])
        if not 1 <= tg <= 7:
            return None
        cid = SIDE[line]
        c = cal_info(cid)[0]
        date = Pm.LocalDate._ctor(days_since_epoch=d, calendar=c)
        T = Pm.IsoDayOfWeek(tg)
        from pyoda_time import DateAdjusters
        if int(date.day_of_week) != ((d + 3) % 7) + 1:
            return {"key": "day-of-week", "what": f"day {d}: day_of_week {int(date.day_of_week)}"}
        mnd, mxd = cal_info(cid)[4], cal_info(cid)[5]
        cur = int(date.day_of_week)
        exp = {"next": (tg - cur - 1) % 7 + 1, "previous": -((cur - tg - 1) % 7 + 1), "next_or_same": (tg - cur) % 7, "previous_or_same": -((cur - tg) % 7)}
        for name, fn, lo, hi in [("next", lambda: date.next(T), 1, 7), ("previous", lambda: date.previous(T), -7, -1),
                                 ("next_or_same", lambda: DateAdjusters.next_or_same(T)(date), 0, 6),
                                 ("previous_or_same", lambda: DateAdjusters.previous_or_same(T)(date), -6, 0)]:
            inside = mnd <= d + exp[name] <= mxd
            try:
                r = fn()
            except (OverflowError, ValueError) as e:
                if inside:
                    return {"key": "weekday-navigation-raises-in-range", "what": f"calendar {cid} day {d} (weekday {cur}) {name}({tg}) raised {type(e).__name__} although day {d + exp[name]} is inside the calendar"}
                continue
            diff = r._days_since_epoch - d
            if not (lo <= diff <= hi) or int(r.day_of_week) != tg or r.calendar != c:
                return {"key": "weekday-navigation-" + name, "what": f"calendar {cid} day {d} (weekday {int(date.day_of_week)}) {name}({tg}) moved {diff} days to weekday {int(r.day_of_week)}"}
        return None
    if op == "wd.nth":
        f, dim, occ, dow = (int(x) for x in t[1:5])
        if not (1 <= occ <= 5 and 1 <= dow <= 7):
            return None
        first = Pm.LocalDate._ctor(days_since_epoch=f)
        r = Pm.LocalDate.from_year_month_week_and_day(first.year, first.month, occ, Pm.IsoDayOfWeek(dow))
        if (r.year, r.month) != (first.year, first.month) or int(r.day_of_week) != dow:
            return {"key": "nth-weekday-wrong-weekday", "what": f"from_year_month_week_and_day({first.year},{first.month},{occ},{dow}) = {r.year}-{r.month}-{r.day}, weekday {int(r.day_of_week)}"}
        nth = (r.day - 1) // 7 + 1
        if not (nth == occ or (occ == 5 and r.day + 7 > dim)):
            return {"key": "nth-weekday-wrong-occurrence", "what": f"from_year_month_week_and_day({first.year},{first.month},{occ},{dow}) = day {r.day}: occurrence {nth}"}
        return None
    return None


def gen(ctx, cids=None, extras=True):
    rng = ctx.rng
    rules = all_rules()
    ops = []
    allcids = cal_ids()
    cids = allcids if cids is None else cids
    for cid in cids:
        c, calc, mn, mx, mnd, mxd = cal_info(cid)
        years = {mn, mn + 1, mx - 1, mx} | {rng.randint(mn + 1, mx - 1) for _ in range(ctx.scale(8, 200))}
        if cid == "ISO":
            years |= set(range(2015, 2031)) if not ctx.thorough else set(range(1, 10000))
        for y in sorted(years):
            ry = row(cid, y)
            if ry is None:
                continue
            rs = rules if ctx.thorough or cid in ("ISO", "Hebrew Civil", "Hijri Civil-Indian (base 15)") else rng.sample(rules, 12) + [(4, 1, 0)]
            if cid == "ISO" and ctx.thorough and y % 40 != 0:
                rs = [(4, 1, 0)] + rng.sample(rules, 3)  # every year with the ISO rule (vs isocalendar), all 71 rules every 40th year
            if cid == "ISO" and not ctx.thorough and y < 2015:
                rs = rng.sample(rules, 20) + [(4, 1, 0)]
            for rule in rs:
                ds = set()
                for base in (ry[1], ry[1] + ry[2]):
                    for k in (-8, -7, -6, -4, -1, 0, 1, 3, 6, 7, 8):
                        ds.add(base + k)
                ds.add(ry[1] + rng.randint(9, ry[2] - 9))
                for d in sorted(ds):
                    if not (mnd <= d <= mxd):
                        continue
                    cy = y if ry[1] <= d < ry[1] + ry[2] else (y - 1 if d < ry[1] else y + 1)
                    pre = ctx_tokens(cid, rule, [cy - 1, cy, cy + 1, mn, mx + 1] if (cy - 1 <= mn or cy + 1 >= mx) else [cy - 1, cy, cy + 1])
                    if pre is None:
                        continue
                    line = f"wy.of {pre} {cy} {d}"
                    SIDE[line] = (cid, rule)
                    ops.append(line)
                    if cid == "ISO" and rule == (4, 1, 0) and 2 <= cy <= 9998:
                        line = f"wy.pyiso {pre} {cy} {d}"
                        SIDE[line] = (cid, rule)
                        ops.append(line)
                for wy in (y,):
                    pre = ctx_tokens(cid, rule, [wy, wy + 1, mn, mx + 1] if (wy <= mn or wy + 1 >= mx) else [wy, wy + 1])
                    if pre is None:
                        continue
                    line = f"wy.weeks {pre} {wy}"
                    SIDE[line] = (cid, rule)
                    ops.append(line)
                    for w, dow in [(1, rule[1]), (1, 1), (52, 7), (53, 1), (54, 3), (0, 1), (rng.randint(1, 53), rng.randint(1, 7)), (53, rng.randint(0, 8))]:
                        pre2 = ctx_tokens(cid, rule, [wy - 1, wy, wy + 1, mn, mx + 1] if (wy - 1 <= mn or wy + 1 >= mx) else [wy - 1, wy, wy + 1])
                        if pre2 is None:
                            continue
                        line = f"wy.date {pre2} {wy} {w} {dow}"
                        SIDE[line] = (cid, rule)
                        ops.append(line)
    if not extras:
        return ops
    # weekday navigation
    for _ in range(ctx.scale(6000, 300000)):
        cid = rng.choice(allcids)
        c, calc, mn, mx, mnd, mxd = cal_info(cid)
        d = rng.choice([mnd + rng.randint(0, 8), mxd - rng.randint(0, 8), -3, -4, -2, 0, rng.randint(mnd, mxd), rng.randint(-10, 10)])
        if not (mnd <= d <= mxd):
            continue
        line = f"wd.nav {d} {rng.randint(1, 7)} {mnd} {mxd}"
        SIDE[line] = cid
        ops.append(line)
    # n-th weekday of month (ISO)
    for _ in range(ctx.scale(6000, 300000)):
        y = rng.choice([1, 9999, 2024, 2023, rng.randint(1, 9999), rng.randint(-9998, 9999)])
        m = rng.randint(1, 12)
        first = P().LocalDate(y, m, 1)
        dim = P().CalendarSystem.iso.get_days_in_month(y, m)
        ops.append(f"wd.nth {first._days_since_epoch} {dim} {rng.choice([1, 2, 3, 4, 5, 5, rng.randint(0, 6)])} {rng.choice([1, 2, 3, 4, 5, 6, 7, rng.randint(0, 8)])}")
    return ops


def _explore(ctx, chunk):
    cids, extras = chunk
    ops = gen(ctx, cids, extras)
    ctx.correspond("weekyear.ops", ops, impl, oracle=oracle)


def run(ctx):
    if ctx.thorough:
        cids = cal_ids()
        # ISO carries all years 1..9999 in the thorough tier: give it its own workers by splitting the rules later if needed
        chunks = [([c], False) for c in cids] + [([], True)]
        ctx.parallel(_explore, chunks)
    else:
        _explore(ctx, (None, True))
    ctx.note("rules", len(all_rules()))
    ctx.note("calendars", len(cal_ids()))


def replay_op(op, failure):
    t = op.split(" ")
    if t[0] in ("wd.nth",):
        return oracle(t)
    # other ops need the side table (calendar / rule); rebuild it from the failure text when present
    import re
    m = re.search(r"calendar (.+?) rule \((\d+), (\d+), (\d+)\)", failure.get("what", ""))
    if m and t[0].startswith("wy."):
        SIDE[op] = (m.group(1), (int(m.group(2)), int(m.group(3)), int(m.group(4))))
        return oracle(t)
    m = re.search(r"calendar (.+?) day ", failure.get("what", ""))
    if m and t[0] == "wd.nav":
        SIDE[op] = m.group(1)
        return oracle(t)
    return None
