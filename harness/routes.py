"""Operand ROUTES shared by the harnesses.

Most suites used to build every operand with the private day-number constructor, so a value that is the RESULT of an
operation (and may carry hidden state: a packed field with a stray sign bit, a dropped calendar, a memoised
instant) was never an operand. `routed_date` returns the LocalDate (calendar, day number) built by one of several
public routes chosen as a deterministic function of the day number. The abstract value is the same on every
route - the suites' models and oracles do not change - so any dependence on the route shows up as a disagreement
of the operation under test. A route whose result is not the requested date (or that raises) falls back to the
constructor: route failures themselves are C12's business (oracle equality.routes)."""
from __future__ import annotations

USED = {}


def _P():
    import pyoda_time as P
    return P


def routed_date(cal, days: int, salt: int = 0):
    P = _P()
    LD = P.LocalDate
    k = (days * 5 + salt) % 9
    r = None
    try:
        if k == 1:
            b = LD._ctor(days_since_epoch=days, calendar=cal)
            r = LD(b.year, b.month, b.day, cal)
        elif k == 2:
            r = LD._ctor(days_since_epoch=days - 1, calendar=cal).plus_days(1)
        elif k == 3:
            r = LD._ctor(days_since_epoch=days + 400, calendar=cal).plus_days(-400)
        elif k == 4:
            other = P.CalendarSystem.iso if cal is not P.CalendarSystem.iso else P.CalendarSystem.julian
            r = LD._ctor(days_since_epoch=days, calendar=other).with_calendar(cal)
        elif k == 5:
            b = LD._ctor(days_since_epoch=days, calendar=cal)
            r = LD(b.year - 1, b.month, b.day, cal).plus_years(1)
        elif k == 6:
            r = LD._ctor(days_since_epoch=days, calendar=cal).at_midnight().plus_nanoseconds(7).date
        elif k == 7:
            b = LD._ctor(days_since_epoch=days, calendar=cal)
            r = b.plus_months(1).plus_months(-1)
        if r is not None and not (r._days_since_epoch == days and r.calendar is cal):
            r = None
    except Exception:  # noqa: BLE001  (range edges, invalid fields on the way)
        r = None
    if r is None:
        k = 0
        r = LD._ctor(days_since_epoch=days, calendar=cal)
    USED[k] = USED.get(k, 0) + 1
    return r
