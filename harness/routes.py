"""Operand ROUTES shared by the harnesses.

Most suites used to build every operand with the private day-number constructor, so a value that is the RESULT of an
operation (and may carry hidden state: a packed field with a stray sign bit, a dropped calendar, a memoised
instant) was never an operand. `routed_date` returns the LocalDate (calendar, day number) built by one of several
public routes chosen as a deterministic function of the day number. The abstract value is the same on every
route - the suites' models and oracles do not change - so any dependence on the route shows up as a disagreement
of the operation under test. A route whose result is not the requested date (or that raises) falls back to the
constructor: route failures themselves are C12's business (oracle equality.routes)."""
from __future__ import annotations

USED = {}


class RouteBroken(AssertionError):
    """a public route to a date produced another date (only raised in strict mode)"""


def _P():
    import pyoda_time as P
    return P


def routed_date(cal, days: int, salt: int = 0, strict: bool = False):
    P = _P()
    LD = P.LocalDate
    k = (days * 5 + salt) % 12
    r = None
    try:
        if k == 1:
            b = LD._ctor(days_since_epoch=days, calendar=cal)
            r = LD(b.year, b.month, b.day, cal)
        elif k == 2:
            r = LD._ctor(days_since_epoch=days - 1, calendar=cal).plus_days(1)
        elif k == 3:
            r = LD._ctor(days_since_epoch=days + 400, calendar=cal).plus_days(-400)
        elif k == 4:
            other = P.CalendarSystem.iso if cal is not P.CalendarSystem.iso else P.CalendarSystem.julian
            r = LD._ctor(days_since_epoch=days, calendar=other).with_calendar(cal)
        elif k == 5:
            b = LD._ctor(days_since_epoch=days, calendar=cal)
            r = LD(b.year - 1, b.month, b.day, cal).plus_years(1)
        elif k == 6:
            r = LD._ctor(days_since_epoch=days, calendar=cal).at_midnight().plus_nanoseconds(7).date
        elif k == 7:
            b = LD._ctor(days_since_epoch=days, calendar=cal)
            r = b.plus_months(1).plus_months(-1)
        elif k == 8:
            r = LD._ctor(days_since_epoch=days - 7, calendar=cal).plus_weeks(1)
        elif k == 9 and cal is P.CalendarSystem.iso:
            r = LD._ctor(days_since_epoch=days)                      # the calendar-less (table-driven ISO) route
        elif k == 10 and cal is P.CalendarSystem.iso and -719162 <= days <= 2932896:
            import datetime
            r = LD.from_date(datetime.date.fromordinal(days + 719163))
        elif k == 11 and cal is P.CalendarSystem.iso:
            r = P.Instant._ctor(days=days, nano_of_day=777).in_utc().date
        if r is not None and not (r._days_since_epoch == days and r.calendar is cal):
            if strict and k not in (5, 7):        # plus_years / plus_months round trips may legitimately clamp
                raise RouteBroken(f"route {k} to day {days} of {cal.id} produced {r.year}-{r.month}-{r.day} in {r.calendar.id} "
                                  f"carrying day number {r._days_since_epoch}")
            r = None
    except RouteBroken:
        raise
    except Exception:  # noqa: BLE001  (range edges, invalid fields on the way)
        r = None
    if r is None:
        k = 0
        r = LD._ctor(days_since_epoch=days, calendar=cal)
    USED[k] = USED.get(k, 0) + 1
    return r


def date_out_of_step(d):
    """None, or a description of how the LocalDate `d` disagrees with itself: its fields must be a valid date of its
    calendar, the constructor-made date with those fields must be == to it and have the same day number, and the
    day-number constructor must give the same fields (a value that prints right but secretly denotes another day, or
    carries fields that do not exist in its calendar, is caught here whatever operation produced it)"""
    P = _P()
    cal = d.calendar
    y, m, dd, days = d.year, d.month, d.day, d._days_since_epoch
    try:
        c = P.LocalDate(y, m, dd, cal)
    except Exception as e:  # noqa: BLE001
        return f"fields {y}-{m}-{dd} are not a date of {cal.id} ({type(e).__name__}: {e}); day number {days}"
    if c._days_since_epoch != days:
        return f"fields {y}-{m}-{dd} ({cal.id}) denote day {c._days_since_epoch} but the value carries day number {days}"
    if not (c == d) or hash(c) != hash(d):
        return f"{y}-{m}-{dd} ({cal.id}): not == / does not hash like the constructor-made date with the same fields"
    b = P.LocalDate._ctor(days_since_epoch=days, calendar=cal)
    if (b.year, b.month, b.day) != (y, m, dd):
        return f"day {days} of {cal.id} is {b.year}-{b.month}-{b.day} but the value's fields are {y}-{m}-{dd}"
    return None
