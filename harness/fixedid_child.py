"""child interpreter: first use of DateTimeZone.for_offset under a given CURRENT culture, then again under the
invariant culture; prints JSON {offset_seconds: [id under culture, id afterwards, resolves via tzdb provider to the same offset]}"""
import json
import os
import sys

sys.path.insert(0, os.environ.get("PYODA_REPO", "/repo"))
try:
    import icu  # noqa: F401
except Exception:  # noqa: BLE001
    sys.path.insert(0, os.path.join(os.path.dirname(os.path.abspath(__file__)), "icu_stub"))
from pyoda_time import DateTimeZone, DateTimeZoneProviders, Offset  # noqa: E402
from pyoda_time._compatibility._culture_info import CultureInfo  # noqa: E402

name = sys.argv[1]
offs = [int(x) for x in sys.argv[2:]]
out = {}
old = CultureInfo.current_culture
if name:
    CultureInfo.current_culture = CultureInfo.get_culture_info(name)
first = {o: DateTimeZone.for_offset(Offset.from_seconds(o)).id for o in offs}
CultureInfo.current_culture = CultureInfo.invariant_culture
for o in offs:
    z = DateTimeZone.for_offset(Offset.from_seconds(o))
    try:
        r = DateTimeZoneProviders.tzdb[first[o]]
        ok = r.get_utc_offset(__import__("pyoda_time").Instant.from_unix_time_seconds(0)).seconds == o
    except Exception as e:  # noqa: BLE001
        ok = f"{type(e).__name__}"
    out[str(o)] = [first[o], z.id, ok]
print(json.dumps(out))
