"""C13 support: format-info / pattern answers of one culture as plain data, computed the same way in the checking
process (after other cultures were queried) and in a FRESH interpreter (nothing queried before)."""
from __future__ import annotations

import json
import sys


def answers(name: str) -> dict:
    import pyoda_time as P
    from pyoda_time._compatibility._culture_info import CultureInfo
    from pyoda_time.calendars import Era
    from pyoda_time.globalization._pyoda_format_info import _PyodaFormatInfo as F
    from pyoda_time.text import LocalDatePattern, LocalTimePattern
    ci = CultureInfo.invariant_culture if name == "" else CultureInfo.get_culture_info(name)
    fi = F._get_format_info(ci)
    out = {}
    eras = [Era.common, Era.before_common, Era.anno_hegirae, Era.anno_persico, Era.anno_mundi, Era.anno_martyrum, Era.bahai]
    out["era_names"] = {f"{n}:{e.name}": list(fi.get_era_names(e)) for n, e in enumerate(eras)}
    out["era_primary"] = {f"{n}:{e.name}": fi.get_era_primary_name(e) for n, e in enumerate(eras)}
    out["long_months"] = list(fi.long_month_names)
    out["short_months"] = list(fi.short_month_names)
    out["long_genitive"] = list(fi.long_month_genitive_names)
    out["long_days"] = list(fi.long_day_names)
    out["short_days"] = list(fi.short_day_names)
    out["designators"] = [fi.am_designator, fi.pm_designator, fi.date_separator, fi.time_separator]
    d = P.LocalDate(2024, 3, 15)
    bce = P.LocalDate(-44, 3, 15)
    t = P.LocalTime(13, 45, 30)
    fmt = {}
    for pt in ("d", "D", "dddd d MMMM yyyy", "yyyy-MM-dd g", "ddd d MMM yyyy gg"):
        try:
            pat = LocalDatePattern.create(pt, ci)
            txt = [pat.format(d), pat.format(bce)]
            fmt["date:" + pt] = txt + [bool(pat.parse(x).success) for x in txt]
        except Exception as e:  # noqa: BLE001
            fmt["date:" + pt] = "raised " + type(e).__name__
    for pt in ("t", "T", "hh:mm tt"):
        try:
            pat = LocalTimePattern.create(pt, ci)
            txt = pat.format(t)
            fmt["time:" + pt] = [txt, bool(pat.parse(txt).success)]
        except Exception as e:  # noqa: BLE001
            fmt["time:" + pt] = "raised " + type(e).__name__
    out["patterns"] = fmt
    return out


def mutable_scenario(name: str, touch_first: bool) -> dict:
    """a MUTABLE culture (clone of `name`) customised with new month/day names and short-date pattern; with
    touch_first the clone is used for lookups BEFORE it is customised. The answers after customisation must not
    depend on that earlier use (format info of a mutable culture is never cached)."""
    import pyoda_time as P
    from pyoda_time._compatibility._culture_info import CultureInfo
    from pyoda_time.globalization._pyoda_format_info import _PyodaFormatInfo as F
    from pyoda_time.text import LocalDatePattern
    ci = CultureInfo.get_culture_info(name).clone() if name else CultureInfo.invariant_culture.clone()
    d = P.LocalDate(2024, 1, 15)
    if touch_first:
        F._get_format_info(ci).long_month_names
        LocalDatePattern.create("dddd d MMMM yyyy", ci).format(d)
        LocalDatePattern.create("d", ci).format(d)
    dtf = ci.date_time_format
    dtf.month_names = ["Nivose", "Pluviose", "Ventose", "Germinal", "Floreal", "Prairial", "Messidor", "Thermidor",
                       "Fructidor", "Vendemiaire", "Brumaire", "Frimaire", ""]
    dtf.day_names = ["Septidi", "Primidi", "Duodi", "Tridi", "Quartidi", "Quintidi", "Sextidi"]
    dtf.short_date_pattern = "yyyy/MM/dd"
    out = {"long_months": list(F._get_format_info(ci).long_month_names)}
    for pt in ("dddd d MMMM yyyy", "d"):
        pat = LocalDatePattern.create(pt, ci)
        txt = pat.format(d)
        out[pt] = [txt, bool(pat.parse(txt).success)]
    return out


def readonly_snapshot_scenario(name: str, snapshot_first: bool) -> dict:
    """a mutable clone of `name`; with snapshot_first a read-only view of it is taken AND USED before the clone is
    customised. The read-only view taken after the customisation must answer like the one of an identically customised
    clone nobody took a snapshot of before."""
    import pyoda_time as P
    from pyoda_time._compatibility._culture_info import CultureInfo
    from pyoda_time.text import LocalDatePattern, LocalTimePattern
    ci = CultureInfo.get_culture_info(name).clone()
    d, t = P.LocalDate(2024, 8, 15), P.LocalTime(15, 4, 5)
    if snapshot_first:
        r0 = CultureInfo.read_only(ci)
        LocalDatePattern.create("d MMMM yyyy", r0).format(d)
        LocalTimePattern.create("h:mm tt", r0).format(t)
    dtf = ci.date_time_format
    dtf.month_names = [f"mois{i}" for i in range(1, 13)] + [""]
    dtf.pm_designator = "apres"
    dtf.am_designator = "avant"
    r1 = CultureInfo.read_only(ci)
    out = {}
    for cls, pt, v in ((LocalDatePattern, "d MMMM yyyy", d), (LocalTimePattern, "h:mm tt", t)):
        pat = cls.create(pt, r1)
        txt = pat.format(v)
        out[pt] = [txt, bool(pat.parse(txt).success)]
    return out


NEAR_PATTERNS = [("time", "HH:mm", "HH:mm "), ("time", " HH:mm", "HH:mm"), ("time", "HH:mm", "hh:mm"), ("time", "H:mm", "h:mm"),
                 ("date", "dd/MM/yyyy", "dd/MM/yyyy "), ("date", "dd MMM yyyy", "dd MMMM yyyy"), ("date", "d", "D"), ("date", "d", "d "),
                 ("time", "t", "T"), ("time", "t", " t"), ("date", "yyyy-MM-dd", "yyyy-mm-dd"), ("time", "HH:mm:ss", "HH:mm:SS"),
                 ("datetime", "g", "G"), ("datetime", "f", "F"), ("datetime", "yyyy-MM-dd HH:mm", "yyyy-MM-dd  HH:mm")]


def near_pattern_answers(name: str, order: int) -> dict:
    """pattern texts that differ only by what a cache key might normalise away (edge whitespace, case, doubled blanks),
    created one after the other on the cached read-only culture `name`, in the given order; each answer =
    (formatted text, parses back) or the creation error"""
    import pyoda_time as P
    from pyoda_time._compatibility._culture_info import CultureInfo
    from pyoda_time import text as T
    ci = CultureInfo.get_culture_info(name)
    vals = {"time": (T.LocalTimePattern, P.LocalTime(13, 45, 7)), "date": (T.LocalDatePattern, P.LocalDate(2024, 8, 15)),
            "datetime": (T.LocalDateTimePattern, P.LocalDateTime(2024, 8, 15, 13, 45, 7))}
    out = {}
    for ty, a, b in NEAR_PATTERNS:
        cls, v = vals[ty]
        for pt in ((a, b) if order == 0 else (b, a)):
            try:
                pat = cls.create(pt, ci)
                txt = pat.format(v)
                out[f"{ty}|{pt}"] = [txt, bool(pat.parse(txt).success), bool(pat.parse(txt.strip()).success)]
            except Exception as e:  # noqa: BLE001
                out[f"{ty}|{pt}"] = ["!" + type(e).__name__]
    return out


if __name__ == "__main__":
    # child mode: python c13_fmt.py <culture name or ''>  ->  JSON on stdout
    import os
    sys.path.insert(0, os.environ.get("PYODA_REPO", "/repo"))
    try:
        import icu  # noqa: F401
    except Exception:  # noqa: BLE001
        sys.path.insert(0, os.path.join(os.path.dirname(os.path.abspath(__file__)), "icu_stub"))
    if len(sys.argv) > 3 and sys.argv[1] == "near":
        print(json.dumps(near_pattern_answers(sys.argv[2], int(sys.argv[3])), ensure_ascii=True, sort_keys=True))
    else:
        print(json.dumps(answers(sys.argv[1] if len(sys.argv) > 1 else ""), ensure_ascii=True, sort_keys=True))
